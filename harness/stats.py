"""C19 protocol: seeded integer-valued series -> real ad_afqmc.stat_utils -> exact records -> spec/StatsJudge.tla.

Python's part is deliberately dumb: draw inputs, call the library, and convert every float the library
returned into the exact rational it denotes (limb sequences for spec/BigNat.tla).  Every predicate of the
property is decided by TLC; this module only reads the per-record, per-clause verdicts back.
"""
from __future__ import annotations

import contextlib
import io
import json
import math
import warnings
from decimal import Decimal
from fractions import Fraction

import numpy as np

from .core import Check, MachineryError

LADDER = (1, 2, 5, 10, 20, 50, 100, 200, 300, 400, 500, 1000, 10000)
I31 = 2 ** 31 - 1
SQ = 46340          # largest native integer whose square fits TLC's 32 bits
SMALL = 2_000_000   # BigNat.BSmallMax


# ----------------------------------------------------------------------------- exact conversion
def limbs(n: int):
    """non-negative python int -> BigNat limbs (base 1000, least significant first, [] = 0)"""
    assert n >= 0
    out = []
    while n:
        n, r = divmod(n, 1000)
        out.append(r)
    return out


def unlimbs(ls) -> int:
    v = 0
    for x in reversed(ls or []):
        v = v * 1000 + int(x)
    return v


def rat_pos(fr: Fraction):
    return {"n": limbs(abs(fr.numerator)), "d": limbs(fr.denominator)}


def rat_signed(fr: Fraction):
    return {"s": (fr > 0) - (fr < 0), "n": limbs(abs(fr.numerator)), "d": limbs(fr.denominator)}


ZERO_S = {"s": 0, "n": [], "d": [1]}
ZERO_P = {"n": [], "d": [1]}


def finite(x):
    try:
        return x is not None and math.isfinite(float(x))
    except (TypeError, ValueError):
        return False


def big_to_float(r):
    d = unlimbs(r["d"])
    return float(Fraction(unlimbs(r["n"]), d)) * (r.get("s", 1) if "s" in r else 1) if d else float("nan")


# ----------------------------------------------------------------------------- overflow guards (not an oracle)
def guard_blocking(w, e, neqls=(0,)):
    """True iff every native 32-bit quantity of StatsBig!BlockStats stays in range for all cuts"""
    w = np.asarray(w, dtype=np.int64)
    e = np.asarray(e, dtype=np.int64)
    for k in neqls:
        ww, ee = w[k:], e[k:]
        n = len(ww)
        if n == 0:
            return False
        we = ww * ee
        if abs(int(we.sum())) > I31 or int(ww.sum()) > I31 or np.abs(we).max(initial=0) > I31:
            return False
        for b in LADDER:
            if not 2 * b < n:
                continue
            nb = n // b
            W = ww[: nb * b].reshape(nb, b).sum(axis=1)
            S = we[: nb * b].reshape(nb, b).sum(axis=1)
            if W.max() > SQ or np.abs(S).max() > SQ or int((W * W).sum()) > I31 or W.max() > SMALL:
                return False
            for v in np.unique(W):
                if int((S[W == v] ** 2).sum()) > I31:
                    return False
    return True


def guard_jackknife(num, den):
    num = np.asarray(num, dtype=np.int64)
    den = np.asarray(den, dtype=np.int64)
    N, D = int(num.sum()), int(den.sum())
    r = N - num
    if abs(N) > I31 or D > SMALL or np.abs(r).max() > SQ or den.min() < 1 or len(num) < 2:
        return False
    for v in np.unique(den):
        sel = r[den == v]
        if int((sel ** 2).sum()) > I31 or int(np.abs(sel).sum()) > I31:
            return False
    return True


# ----------------------------------------------------------------------------- the library, observed
def _lib():
    from ad_afqmc import stat_utils
    return stat_utils


def call_blocking(w, e, neql, printQ, dtype=float):
    """-> (mean, err, table_lines | None, exception text | None)"""
    su = _lib()
    buf = io.StringIO()
    try:
        with contextlib.redirect_stdout(buf), warnings.catch_warnings(), np.errstate(all="ignore"):
            warnings.simplefilter("ignore")
            mean, err = su.blocking_analysis(np.array(w, dtype=dtype), np.array(e, dtype=dtype), neql=neql,
                                             printQ=printQ)
    except Exception as ex:                                  # noqa: BLE001 - any exception is an observation
        return None, None, None, f"{type(ex).__name__}: {str(ex)[:160]}"
    rows = None
    if printQ:
        rows = [ln.split() for ln in buf.getvalue().splitlines() if ln.strip() and not ln.lstrip().startswith("#")]
    return mean, err, rows, None


def observe_blocking(w, e, neql, variants):
    """variants: list of dicts {tag, wscale (float, applied to the integer weights), epow (energies are
    presented as (e + eshift) * 2**-epow, eshift an integer), table (bool: use printQ and judge the printed
    per-block-size table)}.  The code's outputs are mapped back exactly (x * 2**epow, mean - eshift): by the
    property the error bar ignores the added constant and the mean shifts with it."""
    obs = []
    for v in variants:
        ws = np.asarray(w, dtype=float) * v.get("wscale", 1.0)
        k = v.get("epow", 0)
        sh = int(v.get("eshift", 0))
        es = (np.asarray(e, dtype=float) + sh) * (2.0 ** -k)
        back = Fraction(2) ** k                        # exact rescaling of the code's outputs to the integer problem
        mean, err, rows, exc = call_blocking(ws, es, neql, bool(v.get("table")),
                                             dtype=np.int64 if v.get("dtype") == "int" else float)
        o = {"tag": v["tag"], "finite": True, "mean": ZERO_S, "err_none": err is None, "err": ZERO_P,
             "has_table": False, "table": []}
        raw = {"mean": None if mean is None else float(mean), "err": None if err is None else float(err)}
        if exc is not None or not finite(mean) or (err is not None and (not finite(err) or float(err) < 0)):
            o["finite"] = False
            o["err_none"] = True
            raw["exception"] = exc
        else:
            o["mean"] = rat_signed(Fraction(float(mean)) * back - sh)
            if err is not None:
                o["err"] = rat_pos(Fraction(float(err)) * back)
            if rows is not None:
                tab = []
                try:
                    for f in rows:
                        tab.append({"b": int(f[0]), "nb": int(f[1]),
                                    "mean": rat_signed(Fraction(Decimal(f[2])) * back - sh),
                                    "err": rat_pos(Fraction(Decimal(f[3])) * back)})
                    o["has_table"], o["table"] = True, tab
                except Exception:                          # unparsable / nan in the table
                    o["has_table"], o["table"] = True, [{"b": 0, "nb": 0, "mean": ZERO_S, "err": ZERO_P}]
                raw["table"] = rows
        obs.append((o, raw))
    return obs


def call_outliers(data, col0, m):
    su = _lib()
    try:
        with warnings.catch_warnings(), np.errstate(all="ignore"):
            warnings.simplefilter("ignore")
            if m is None:
                rows, mask = su.reject_outliers(data, col0)
            else:
                rows, mask = su.reject_outliers(data, col0, m=m)
    except Exception as ex:                                  # noqa: BLE001
        return None, None, f"{type(ex).__name__}: {str(ex)[:160]}"
    return rows, mask, None


def observe_outliers(data, col0, m, variants):
    """data: integer 2-d array; variants: {tag, pow, shift}: the chosen column is presented as
    x * 2**-pow + shift (exact in floats), which must not change which rows are kept"""
    data = np.asarray(data, dtype=np.int64)
    n = data.shape[0]
    obs = []
    for v in variants:
        k, sh = v.get("pow", 0), v.get("shift", 0)
        if v.get("dtype") == "int":
            d = data.copy()
        else:
            d = data.astype(float)
            d[:, col0] = d[:, col0] * 2.0 ** -k + sh
        rows, mask, exc = call_outliers(d, col0, m)
        o = {"tag": v["tag"], "mask": [False] * n, "rows": [], "rows_exact": False}
        raw = {"exception": exc}
        if exc is None:
            mask = np.asarray(mask)
            rows = np.asarray(rows, dtype=float)
            if mask.shape == (n,) and mask.dtype == bool and rows.ndim == 2 and rows.shape[1] == data.shape[1] \
                    and np.isfinite(rows).all():
                r = rows.copy()
                r[:, col0] = (r[:, col0] - sh) * 2.0 ** k
                ri = np.rint(r).astype(np.int64)
                o["mask"] = [bool(x) for x in mask]
                o["rows_exact"] = bool((ri == r).all()) and bool(np.abs(ri).max(initial=0) < I31)
                o["rows"] = ri.tolist() if o["rows_exact"] else []
            else:
                raw["exception"] = f"malformed return: mask {getattr(mask, 'shape', None)} rows {rows.shape}"
        obs.append((o, raw))
    return obs


def observe_jackknife(num, den, variants):
    """variants: {tag, npow, dpow}: num * 2**-npow, den * 2**dpow (floats); dtype "int": the integer-valued
    samples are passed as an integer ndarray"""
    su = _lib()
    obs = []
    for v in variants:
        a, b = v.get("npow", 0), v.get("dpow", 0)
        if v.get("dtype") == "int":
            x, y = np.asarray(num, dtype=np.int64), np.asarray(den, dtype=np.int64)
        else:
            x = np.asarray(num, dtype=float) * 2.0 ** -a
            y = np.asarray(den, dtype=float) * 2.0 ** b
        back = Fraction(2) ** (a + b)
        o = {"tag": v["tag"], "finite": True, "mean": ZERO_S, "sigma": ZERO_P}
        raw = {}
        try:
            with warnings.catch_warnings(), np.errstate(all="ignore"):
                warnings.simplefilter("ignore")
                mean, sigma = su.jackknife_ratios(x, y)
            raw = {"mean": float(np.real(mean)), "sigma": float(np.real(sigma))}
            if not finite(raw["mean"]) or not finite(raw["sigma"]) or raw["sigma"] < 0 or np.iscomplexobj(mean):
                o["finite"] = False
            else:
                o["mean"] = rat_signed(Fraction(raw["mean"]) * back)
                o["sigma"] = rat_pos(Fraction(raw["sigma"]) * back)
        except Exception as ex:                              # noqa: BLE001
            o["finite"] = False
            raw = {"exception": f"{type(ex).__name__}: {str(ex)[:160]}"}
        obs.append((o, raw))
    return obs


# ----------------------------------------------------------------------------- TLC judge
def volume(r):
    """number of integers TLC has to hold for this record (memory guard for the JVM)"""
    if r["kind"] == "blocking":
        return 2 * len(r["w"]) + 40 * len(r["obs"])
    if r["kind"] == "outliers":
        return len(r["data"]) * len(r["data"][0]) + sum(len(o["mask"]) + sum(len(x) for x in o["rows"]) for o in r["obs"])
    return 2 * len(r["num"]) + 40 * len(r["obs"])


def batches(records, max_volume=2_500_000, max_count=12000):
    out, cur, vol = [], [], 0
    for r in records:
        v = volume(r)
        if cur and (vol + v > max_volume or len(cur) >= max_count):
            out.append(cur)
            cur, vol = [], 0
        cur.append(r)
        vol += v
    if cur:
        out.append(cur)
    return out


def judge(chk: Check, records, name="judge", nchunks=48, timeout=2400):
    """records: list of dicts with id, kind, cost (relative), ... -> {id: verdict}"""
    if not records:
        return {}
    wd = chk.scratch(f"stats-{name}")
    out = wd / "out"
    out.mkdir(exist_ok=True)
    nchunks = max(1, min(nchunks, len(records)))
    # greedy balancing of the chunks by estimated cost
    load = [0.0] * nchunks
    order = sorted(records, key=lambda r: -r.get("cost", 1))
    for r in order:
        c = min(range(nchunks), key=load.__getitem__)
        r["chunk"] = c + 1
        load[c] += r.get("cost", 1)
    with (wd / "recs.ndjson").open("w") as f:
        for r in records:
            f.write(json.dumps({k: v for k, v in r.items() if k not in ("cost", "meta")}) + "\n")
    chk.tlc("StatsJudge", "SPECIFICATION Spec\nCHECK_DEADLOCK FALSE\n",
            env={"STATS_RECS": str(wd / "recs.ndjson"), "STATS_OUT": str(out)}, name=f"StatsJudge-{name}",
            timeout=timeout, jvm_opts=("-Xmx8g",))
    res = {}
    for c in range(1, nchunks + 1):
        p = out / f"{c}.json"
        if not p.exists():
            raise MachineryError(f"StatsJudge wrote no verdicts for chunk {c}")
        for ln in p.read_text().splitlines():
            if ln.strip():
                v = json.loads(ln)
                res[v["id"]] = v
    missing = [r["id"] for r in records if r["id"] not in res]
    if missing:
        raise MachineryError(f"StatsJudge: no verdict for records {missing[:5]}")
    return res
