"""Multi-rank runs of driver.afqmc over the thread communicator, judged by spec/AfqmcRanksJudge.tla."""
from __future__ import annotations

import contextlib
import io
import json
import os

import numpy as np

from . import proxies, runlevel
from .core import Check, MachineryError
from .threadcomm import FakeMPI, ThreadWorld, run_ranks


def run_driver_ranks(chk: Check, R, mk_system, options, block, n_blocks, name="ranks", schedule=None, timeout=900.0):
    """driver.afqmc on R thread ranks.  mk_system(rank) -> sysd with proxied trial/prop (fresh objects per rank).
    returns (events, RunResult, per-rank results)"""
    from ad_afqmc import driver
    S = proxies.sampler_proxy()
    world = ThreadWorld(R, schedule=schedule, eager=False, timeout=timeout)
    systems = []
    for r in range(R):
        sysd = mk_system(r)
        for k in ("trial", "prop"):
            sysd[k]._rank = r
        smp = S(n_prop_steps=block[0], n_ene_blocks=block[1], n_sr_blocks=block[2], n_blocks=n_blocks)
        smp._rank = r
        sysd["sampler"] = smp
        systems.append(sysd)
    proxies.reset()
    buf = io.StringIO()

    def body(comm, r):
        s = systems[r]
        return driver.afqmc(dict(s["ham_data"]), s["ham"], s["prop"], s["trial"], dict(s["wave_data"]), s["sampler"], None,
                            dict(options), FakeMPI(comm))

    d = chk.scratch(name)
    old = os.getcwd()
    os.chdir(d)
    try:
        with contextlib.redirect_stdout(buf):
            rr = run_ranks(world, body, join_timeout=timeout)
    finally:
        os.chdir(old)
    return proxies.snapshot(), rr, world


def judge_runs(chk: Check, recs, name="ranks"):
    wd = chk.scratch(f"ranksjudge-{name}")
    (wd / "out").mkdir(exist_ok=True)
    (wd / "recs.ndjson").write_text("".join(json.dumps(r) + "\n" for r in recs))
    chk.tlc("AfqmcRanksJudge", "SPECIFICATION Spec\nCHECK_DEADLOCK FALSE\n",
            env={"RANKS_RECS": str(wd / "recs.ndjson"), "RANKS_OUT": str(wd / "out")}, workers=2, name=f"AfqmcRanksJudge-{name}")
    return {r["id"]: json.loads((wd / "out" / f"{r['id']}.json").read_text().splitlines()[0]) for r in recs}


def analyse(events, rr, world, R, nw):
    """booleans for the judge from the recorded events of all ranks"""
    byrank = {r: [e for e in events if int(e.get("rank", 0)) == r] for r in range(R)}
    # (1) e_estimate at the first Prop after each sampler entry agrees across ranks
    def entries(evs):
        out, armed = [], True
        for e in evs:
            if e["ev"] in ("Exit", "SRGlobal"):
                armed = True
            elif e["ev"] == "Prop" and armed:
                out.append(float(np.real(e["eest"])))
                armed = False
        return out
    ee = [entries(byrank[r]) for r in range(R)]
    def same(a, b):      # a population that went extinct gives NaN estimates on every rank alike: that is agreement
        return (np.isnan(a) and np.isnan(b)) or a == b or abs(a - b) <= 1e-12 * max(1, abs(b))
    eest_agree = all(len(x) == len(ee[0]) for x in ee) and all(same(ee[r][k], ee[0][k]) for r in range(R) for k in range(len(ee[0])))
    # (2) global reconfigurations: k-th SRGlobal of every rank belongs to the same collective
    srs = [[e for e in byrank[r] if e["ev"] == "SRGlobal"] for r in range(R)]
    sr_ok = all(len(x) == len(srs[0]) for x in srs)
    moved_across = 0
    if sr_ok:
        for k in range(len(srs[0])):
            w0 = np.concatenate([np.asarray(srs[r][k]["w0"], dtype=float) for r in range(R)])
            w1 = np.concatenate([np.asarray(srs[r][k]["w1"], dtype=float) for r in range(R)])
            tot = np.sum(np.abs(w0))
            if not (np.allclose(w1, tot / (R * nw), rtol=1e-6, atol=0) and abs(np.sum(w1) - tot) <= 1e-5 * max(1.0, tot)):
                sr_ok = False
            old = [f for r in range(R) for f in srs[r][k]["f0"]]
            for r in range(R):
                for j, f in enumerate(srs[r][k]["f1"]):
                    hit = [i for i, g in enumerate(old) if np.array_equal(f, g)]
                    if not hit:
                        sr_ok = False
                    elif all(i // nw != r for i in hit):
                        moved_across += 1
    res = [x for x in rr.results]
    def same_res(a, b):
        if a is None or b is None:
            return a is b
        return same(float(a), float(b))
    result_agree = rr.ok and all(x is not None for x in res) and all(same_res(x[0], res[0][0]) and same_res(x[1], res[0][1]) for x in res)
    seqs = [[t[0] for t in world.ops[r]] for r in range(R)]
    return {"seqs": seqs, "completed": bool(rr.ok), "eest_agree": bool(eest_agree), "sr_ok": bool(sr_ok),
            "result_agree": bool(result_agree)}, {"moved_across_ranks": moved_across, "entries": len(ee[0]),
                                                   "global_srs": len(srs[0]), "describe": rr.describe(),
                                                   "degenerate": bool(any(not np.isfinite(v) for x in ee for v in x))}
