"""Submit convergence ladders to spec/Ladder.tla and read back the verdicts."""
import json

from .core import Check, MachineryError

FP = 10 ** 8
CAP = 10 ** 8


def fp(x, scale=1.0):
    """fixed-point residual relative to `scale`, capped so TLC's 32-bit products cannot overflow"""
    import math
    if x is None or not math.isfinite(x):
        return CAP
    return int(min(CAP, round(abs(x) / scale * FP)))


def judge(chk: Check, traces, name="ladder"):
    """traces: list of dicts with id, errs (floats), scale, floor, lo, hi, first, bound (floats);
    returns {id: verdict}"""
    if not traces:
        return {}
    wd = chk.scratch(f"ladder-{name}")
    out = wd / "out"
    out.mkdir(exist_ok=True)
    with (wd / "traces.ndjson").open("w") as f:
        for t in traces:
            sc = t.get("scale", 1.0)
            f.write(json.dumps({"id": t["id"], "errs": [fp(e, sc) for e in t["errs"]],
                                "floor": fp(t["floor"], 1.0), "lo": list(t["lo"]), "hi": list(t.get("hi", (0, 1))),
                                "first": t.get("first", 1), "bound": fp(t["bound"], 1.0),
                                "ceil": fp(t.get("ceil", 1.0), 1.0)}) + "\n")
    chk.tlc("Ladder", "SPECIFICATION Spec\nCHECK_DEADLOCK FALSE\n",
            env={"LADDER_TRACES": str(wd / "traces.ndjson"), "LADDER_OUT": str(out)}, name=f"Ladder-{name}",
            workers=4)
    res = {}
    for t in traces:
        p = out / f"{t['id']}.json"
        if not p.exists():
            raise MachineryError(f"no ladder verdict for trace {t['id']}")
        res[t["id"]] = json.loads(p.read_text().splitlines()[0])
    return res
