"""Helpers for C18 (spec/SCF.tla, spec/Eigh.tla): seeded exact instances, TLC oracle / judge runs, wrappers
around the code under test, an independent dense SCF used as a numerical reference.

Python never decides a predicate of the property here: it generates inputs (mirroring the spec's arithmetic
only to CHOOSE instance parameters and to keep TLC's 32-bit integers from overflowing - TLC re-derives and
certifies everything), calls the library, and turns floats into residuals / decimal floats for the TLC judge.
"""
from __future__ import annotations

import json
import math
from fractions import Fraction as F

import numpy as np

from .core import Check, MachineryError

I31 = (1 << 31) - 1
H4 = np.array([[1, 1, 1, 1], [1, -1, 1, -1], [1, 1, -1, -1], [1, -1, -1, 1]])
R3 = np.array([[1, 2, 2], [2, 1, -2], [2, -2, 1]])
H2 = np.array([[1, 1], [1, -1]])


# ----------------------------------------------------------------------------- small exact helpers
def signed_perm(rng, n):
    P = np.zeros((n, n), dtype=int)
    perm = rng.permutation(n)
    for k in range(n):
        P[perm[k], k] = rng.choice([-1, 1])
    return P


def orth_int(rng, n, d):
    """integer M with M^T M = d^2 I: d = 1 signed permutation; d = 2 one 4x4 Hadamard block; d = 3 one
    [[1,2,2],[2,1,-2],[2,-2,1]] block (the rest d on the diagonal), conjugated by random signed permutations"""
    B = np.eye(n, dtype=int) * d
    if d == 2:
        if n < 4:
            raise ValueError("d = 2 needs n >= 4")
        B[:4, :4] = H4
    elif d == 3:
        if n < 3:
            raise ValueError("d = 3 needs n >= 3")
        B[:3, :3] = R3
    M = signed_perm(rng, n) @ B @ signed_perm(rng, n)
    assert np.array_equal(M.T @ M, d * d * np.eye(n, dtype=int))
    return M


def rand_sym(rng, n, lo, hi):
    a = rng.integers(lo, hi + 1, size=(n, n))
    return np.triu(a) + np.triu(a, 1).T


def coulomb(L, D):
    return np.einsum("g,gpq->pq", np.einsum("gpq,pq->g", L, D), L)


def exchange(L, D):
    return np.einsum("gpr,rs,gsq->pq", L, D, L)


def dec(x, up):
    """non-negative float -> decimal float [m, e] with 8 digits (m = 0 or 1e7 <= m < 1e8), rounded up / down"""
    x = abs(float(x))
    if x == 0.0:
        return [0, 0]
    if not math.isfinite(x):
        return [99999999, 300]
    if x < 1e-280:
        return [10000000, -287] if up else [0, 0]
    e = math.floor(math.log10(x)) - 7
    m = x * 10.0 ** (-e) if -e < 300 else x * 1e150 * 10.0 ** (-e - 150)
    m = math.ceil(m) if up else math.floor(m)
    while m >= 10 ** 8:
        m = -(-m // 10) if up else m // 10
        e += 1
    while m < 10 ** 7:
        m *= 10
        e -= 1
    return [int(m), int(e)]


# ----------------------------------------------------------------------------- SCF fixed-point instances
def resp_norm(Ms, L, nocc, s=1):
    """max-norm bound of d F_ov / d kappa (the spec's RespNorm, same formula; float or int), scale s^2"""
    n = Ms[0].shape[0]
    Lm = [np.einsum("pi,gpq,qj->gij", Ms[sp], L, Ms[sp]) for sp in (0, 1)]
    best = 0
    for sp in (0, 1):
        for c in range(nocc[sp], n):
            for k in range(nocc[sp]):
                row = 0
                for tp in (0, 1):
                    for a in range(nocc[tp], n):
                        for i in range(nocc[tp]):
                            r = 2 * np.dot(Lm[sp][:, c, k], Lm[tp][:, a, i])
                            if sp == tp:
                                r -= np.dot(Lm[sp][:, c, a], Lm[sp][:, i, k]) + np.dot(Lm[sp][:, c, i], Lm[sp][:, a, k])
                            row += abs(r)
                best = max(best, row)
    return best


def gen_fixed_point(iid, rng, kind, norb, nu, nd, d, cls, lmax=1, nchol=2, cfac=4):
    """An exact Hartree-Fock fixed point by construction (to be certified by TLC):
    orbitals M/d, Fock matrix diag(eps) in the MO basis, h := M eps M^T - G[D].
    cls: 'wellcond' (gap >= 5 RespNorm), 'gaponly' (gap >= 1 only), 'degvirt' / 'degocc' (wellcond with a
    degenerate virtual / occupied pair), 'decoy' (NOT a fixed point: one h_ov element shifted)."""
    s = d * d
    Mu = orth_int(rng, norb, d)
    if kind == "rhf":
        Md = Mu
    else:
        Md = orth_int(rng, norb, d) if rng.random() < 0.5 else Mu @ signed_perm(rng, norb)
    L = np.array([rand_sym(rng, norb, -lmax, lmax) for _ in range(nchol)])
    if not np.any(L):
        L[0][0, 0] = 1
    Ms, nocc = (Mu, Md), (nu, nd)
    Dn = [Ms[sp][:, :nocc[sp]] @ Ms[sp][:, :nocc[sp]].T for sp in (0, 1)]
    J = coulomb(L, Dn[0] + Dn[1])
    G = [J - exchange(L, Dn[sp]) for sp in (0, 1)]            # closed shell: 2 J[Dn] - K[Dn], the same thing
    rn = int(resp_norm(Ms, L, nocc))                          # scale s^2
    if cls in ("gaponly",):
        delta = 0
    else:
        delta = -(-(cfac + 1) * rn // (2 * s * s)) + 1        # gap = 2 delta + 1 > (cfac + 1) rn / s^2
    eps, hn = [], []
    for sp in (0, 1):
        no, nv = nocc[sp], norb - nocc[sp]
        eo = -delta - rng.permutation(no)                     # distinct, <= -delta
        ev = delta + 1 + rng.permutation(nv)                  # distinct, >= delta + 1
        if cls == "degvirt" and nv >= 2:
            ev[1] = ev[0]
        if cls == "degocc" and no >= 2:
            eo[1] = eo[0]
        if kind == "rhf" and sp == 1:
            eo, ev = eps[0][:no], eps[0][no:]
        e = np.concatenate([eo, ev]).astype(int)
        eps.append(e)
        hn.append(Ms[sp] @ np.diag(e) @ Ms[sp].T - G[sp])
    if cls == "decoy":
        a, i = Ms[0][:, norb - 1], Ms[0][:, 0]                # shifts F_ov by s^2 in the MO basis
        hn[0] = hn[0] + np.outer(a, i) + np.outer(i, a)
        if kind == "rhf":
            hn[1] = hn[0]
    # 32-bit guards for TLC (Fock-space certification only where its sums provably fit)
    N = nu + nd
    hmax = int(max(np.abs(hn[0]).max(), np.abs(hn[1]).max()))
    big = max(hmax * s * norb * norb * 4, s * s * int(np.abs(np.concatenate(eps)).max()) * 4, rn * (cfac + 1))
    if big >= I31:
        raise MachineryError("fixed-point generator: instance too large for TLC")
    bound = s ** N * 2 * N * norb * (hmax + s * norb * norb * nchol * lmax * lmax) * 2
    js = {"id": iid, "kind": kind, "norb": norb, "nup": nu, "ndn": nd, "s": s, "Mu": Mu.tolist(), "Md": Md.tolist(),
          "hnu": hn[0].tolist(), "hnd": hn[1].tolist(), "chol": [x.tolist() for x in L], "cfac": cfac,
          "fockcert": bool(bound < (1 << 30))}
    return {"id": iid, "kind": kind, "norb": norb, "nelec": (nu, nd), "d": d, "s": s, "cls": cls, "Ms": Ms, "L": L,
            "hn": hn, "eps": eps, "json": js}


def tlc_oracle(chk: Check, module, insts, env_in, env_out, name, cfg):
    wd = chk.scratch(f"{module.lower()}-{name}")
    inp, out = wd / "inst.ndjson", wd / "out"
    out.mkdir(exist_ok=True)
    with inp.open("w") as f:
        for I in insts:
            f.write(json.dumps(I["json"]) + "\n")
    r = chk.tlc(module, cfg, env={env_in: str(inp), env_out: str(out)}, name=f"{module}-{name}", timeout=3000)
    res = {}
    for I in insts:
        p = out / f"{I['id']}.json"
        if not p.exists():
            raise MachineryError(f"TLC produced no result for {module} instance {I['id']}:\n" + r.stdout[-1500:])
        res[I["id"]] = json.loads(p.read_text().splitlines()[0])
    return res


SCF_ORACLE_CFG = ('SPECIFICATION SpecOracle\nCONSTANTS\n  TNORB = 2\n  TNELECS <- Nel2\n  TLSET = "few"\n'
                  'CHECK_DEADLOCK FALSE\n')
EIGH_ORACLE_CFG = 'SPECIFICATION SpecOracle\nCONSTANTS\n  TN = 2\n  TASET = "few"\nCHECK_DEADLOCK FALSE\n'


def scf_oracle(chk, insts, name="oracle"):
    return tlc_oracle(chk, "SCF", insts, "SCF_INST", "SCF_OUT", name, SCF_ORACLE_CFG)


def eigh_oracle(chk, insts, name="oracle"):
    return tlc_oracle(chk, "Eigh", insts, "EIGH_INST", "EIGH_OUT", name, EIGH_ORACLE_CFG)


# ----------------------------------------------------------------------------- eigen-derivative instances
def gen_eigh(iid, rng, n, d, cls, k=None):
    """A = (M/d) diag(w) (M/d)^T with ascending rational spectrum wn/wden and an integer symmetric tangent.
    cls: 'nondeg' (integers), 'rational' (distinct, denominator 2..10), 'gap1e-3' (one pair 1e-3 apart: still
    resolved, tau = 1/2000), 'wide' (the same plus one eigenvalue of magnitude 300..900), 'near' (one pair 10^-k apart, k = 4..8), 'tie2' / 'tie3' / 'tieall' (exact ties),
    'tie+near' (both)."""
    for _ in range(200):
        M = orth_int(rng, n, d)
        s = d * d
        amax = 2
        wden = 1
        if cls == "nondeg":
            w = np.sort(rng.choice(np.arange(-4, 7), size=n, replace=False))
        elif cls == "rational":
            wden = int(rng.choice([2, 3, 5, 10]))
            w = np.sort(rng.choice(np.arange(-3 * wden, 4 * wden), size=n, replace=False))
        elif cls in ("gap1e-3", "near", "wide"):
            kk = 3 if cls in ("gap1e-3", "wide") else k
            wden = 10 ** kk
            base = np.sort(rng.choice(np.arange(-2, 3), size=n - 1, replace=False))
            j = int(rng.integers(0, n - 1))
            if cls == "wide":       # a resolved 1e-3 gap next to an eigenvalue of magnitude 1e2..1e3: the gap is absolute
                if n < 3:
                    raise MachineryError("wide needs n >= 3")
                j = int(rng.integers(0, n - 2))
                base[-1] = int(rng.integers(300, 900)) * (1 if rng.integers(0, 2) else -1)
                base = np.sort(base)
                j = int(rng.choice([i for i in range(n - 1) if abs(base[i]) < 100]))
            w = np.sort(np.concatenate([base * wden, [base[j] * wden + 1]]))
            if kk >= 6:
                amax = 1
        elif cls in ("tie2", "tie3", "tieall"):
            m = {"tie2": 2, "tie3": min(3, n), "tieall": n}[cls]
            base = np.sort(rng.choice(np.arange(-3, 5), size=n - m + 1, replace=False))
            j = int(rng.integers(0, len(base)))
            w = np.sort(np.concatenate([base, [base[j]] * (m - 1)]))
        elif cls == "tie+near":                                  # n >= 4: one exact pair and one pair 10^-k apart
            wden = 10 ** int(k)
            base = np.sort(rng.choice(np.arange(-2, 4), size=n - 2, replace=False))
            j, m = (int(x) for x in rng.choice(len(base), size=2, replace=False))
            w = np.sort(np.concatenate([base * wden, [base[j] * wden], [base[m] * wden + 1]]))
            amax = 1
        else:
            raise ValueError(cls)
        adot = rand_sym(rng, n, -amax, amax)
        if not np.any(adot - np.diag(np.diag(adot))):
            continue
        w = [int(x) for x in w]
        B = M.T @ adot @ M
        anum_abs = np.einsum("pk,k,qk->pq", np.abs(M), np.abs(np.array(w, dtype=object)), np.abs(M))
        if (int(anum_abs.max()) < I31 and 2 * max(abs(x) for x in w) + 2 * wden < I31
                and int(np.abs(B).max()) * wden * 2 < I31 and s * wden < I31):
            break
    else:
        raise MachineryError(f"eigh generator: no instance for {cls} n={n} d={d} k={k}")
    js = {"id": iid, "n": n, "M": M.tolist(), "s": s, "wn": w, "wden": wden, "adot": adot.tolist(), "tau": [1, 2000]}
    return {"id": iid, "n": n, "d": d, "s": s, "cls": cls, "k": k, "M": M, "wn": w, "wden": wden, "adot": adot, "json": js}


def qf(x):
    return float(F(int(x[0]), int(x[1])))


# ----------------------------------------------------------------------------- the judge (SCF.tla, SpecJudge)
class Records:
    """records for the TLC judge: each has clauses (name, err, scale, tolexp) and a finite flag"""

    def __init__(self):
        self.recs, self.info = [], {}

    def push(self, clauses, finite=True, **info):
        rid = len(self.recs) + 1
        cl = [{"name": nm, "err": dec(err if math.isfinite(err) else float("inf"), True), "scale": dec(scale, False),
               "tolexp": int(tolexp)} for (nm, err, scale, tolexp) in clauses]
        self.recs.append({"id": rid, "finite": bool(finite), "clauses": cl})
        info["raw"] = [(nm, float(err), float(scale), int(tolexp)) for (nm, err, scale, tolexp) in clauses]
        self.info[rid] = info
        return rid


def judge(chk: Check, R: Records, name="judge", batch=300):
    if not R.recs:
        return {}
    wd = chk.scratch(f"scf-{name}")
    out = wd / "verdicts"
    out.mkdir(exist_ok=True)
    nb = 0
    with (wd / "judge.ndjson").open("w") as f:
        for k in range(0, len(R.recs), batch):
            nb += 1
            f.write(json.dumps({"id": nb, "recs": R.recs[k:k + batch]}) + "\n")
    chk.tlc("SCF", SCF_ORACLE_CFG.replace("SpecOracle", "SpecJudge"),
            env={"SCF_JUDGE": str(wd / "judge.ndjson"), "SCF_VERDICTS": str(out)}, name=f"SCF-{name}")
    res = {}
    for b in range(1, nb + 1):
        p = out / f"{b}.json"
        if not p.exists():
            raise MachineryError(f"no verdict file for judge batch {b}")
        for line in p.read_text().splitlines():
            v = json.loads(line)
            res[v["id"]] = v
    missing = [r["id"] for r in R.recs if r["id"] not in res]
    if missing:
        raise MachineryError(f"no verdict for records {missing[:5]}")
    return res


# ----------------------------------------------------------------------------- the code under test
class Code:
    def __init__(self):
        import jax
        import jax.numpy as jnp
        from ad_afqmc import linalg_utils, wavefunctions
        self.jax, self.jnp, self.lu, self.wfn = jax, jnp, linalg_utils, wavefunctions
        self._trial, self._jvp_opt = {}, {}
        self._eigh_jvp = jax.jit(lambda A, Ad: jax.jvp(linalg_utils._eigh, (A,), (Ad,)))

    n_opt_iter = None        # None = the library's default (30); the check also uses 1 and 2

    def trial(self, kind, norb, nelec):
        key = (kind, norb, tuple(nelec), self.n_opt_iter)
        if key not in self._trial:
            kw = {} if self.n_opt_iter is None else {"n_opt_iter": int(self.n_opt_iter)}
            self._trial[key] = getattr(self.wfn, kind)(norb, tuple(int(x) for x in nelec), **kw)
        return self._trial[key]

    def ham(self, h1, L):
        jnp = self.jnp
        L = np.asarray(L, dtype=float)
        return {"h0": 0.0, "h1": jnp.array(np.asarray(h1, dtype=float)), "chol": jnp.array(L.reshape(L.shape[0], -1))}

    def wave(self, kind, Cs):
        jnp = self.jnp
        if kind == "rhf":
            return {"mo_coeff": jnp.array(np.asarray(Cs[0], dtype=float))}
        wd = {"mo_coeff": [jnp.array(np.asarray(Cs[0], dtype=float)), jnp.array(np.asarray(Cs[1], dtype=float))]}
        if getattr(self, "aux_rdm1", None) == "spin-averaged":
            # wave_data may carry an "rdm1" of its own (it feeds the mean-field shift): here the spin-averaged density,
            # which is NOT the density of the orbitals; the solution handed to optimize is still mo_coeff
            D = [np.asarray(c, dtype=float) @ np.asarray(c, dtype=float).T for c in Cs[:2]]
            wd["rdm1"] = jnp.array([(D[0] + D[1]) / 2.0] * 2)
        return wd

    def optimize(self, kind, norb, nelec, h1, L, Cs):
        """-> [C_up, C_dn] as numpy arrays (rhf: the same array twice)"""
        out = self.trial(kind, norb, nelec).optimize(self.ham(h1, L), self.wave(kind, Cs))["mo_coeff"]
        if kind == "rhf":
            o = np.asarray(out)
            return [o, o]
        return [np.asarray(out[0]), np.asarray(out[1])]

    def optimize_jvp(self, kind, norb, nelec, h1, L, Cs, h1dot, Ldot):
        """tangent of the optimised orbitals along (h1dot, Ldot) -> list of numpy arrays"""
        jax, jnp = self.jax, self.jnp
        key = (kind, norb, tuple(nelec), np.asarray(L).shape[0])
        tr = self.trial(kind, norb, nelec)
        if key not in self._jvp_opt:
            def f(h1_, chol_, wd):
                return tr.optimize({"h0": 0.0, "h1": h1_, "chol": chol_}, dict(wd))["mo_coeff"]
            self._jvp_opt[key] = jax.jit(lambda h1_, chol_, wd, a, b: jax.jvp(lambda x, y: f(x, y, wd), (h1_, chol_), (a, b)))
        hd = self.ham(h1, L)
        Ld = np.asarray(Ldot, dtype=float)
        prim, tang = self._jvp_opt[key](hd["h1"], hd["chol"], self.wave(kind, Cs), jnp.array(np.asarray(h1dot, dtype=float)),
                                        jnp.array(Ld.reshape(Ld.shape[0], -1)))
        if kind == "rhf":
            return [np.asarray(prim)], [np.asarray(tang)]
        return [np.asarray(x) for x in prim], [np.asarray(x) for x in tang]

    def eigh_vjp(self, A, cw, cv):
        """reverse mode: cotangent of A for cotangents (cw, cv) of (eigenvalues, eigenvectors)"""
        jax, jnp = self.jax, self.jnp
        from ad_afqmc import linalg_utils
        _, f = jax.vjp(linalg_utils._eigh, jnp.array(np.asarray(A, dtype=float)))
        return np.asarray(f((jnp.array(np.asarray(cw, dtype=float)), jnp.array(np.asarray(cv, dtype=float))))[0])

    def eigh_jvp(self, A, Adot):
        jnp = self.jnp
        (w, v), (dw, dv) = self._eigh_jvp(jnp.array(np.asarray(A, dtype=float)), jnp.array(np.asarray(Adot, dtype=float)))
        return np.asarray(w), np.asarray(v), np.asarray(dw), np.asarray(dv)


def attempt(fn, *args):
    """an exception raised by the code under test is an observation about the code, not a machinery failure"""
    try:
        return fn(*args), None
    except MachineryError:
        raise
    except Exception as ex:                                   # noqa: BLE001
        return None, f"{type(ex).__name__}: {ex}"[:300]


# ----------------------------------------------------------------------------- numerical reference (numpy)
def np_fock(hs, L, Ds):
    J = coulomb(L, Ds[0] + Ds[1])
    return [hs[sp] + J - exchange(L, Ds[sp]) for sp in (0, 1)]


def np_energy(hs, L, Ds):
    """<D|H|D> from the two spin density matrices"""
    Fk = np_fock(hs, L, Ds)
    return 0.5 * float(sum(np.sum((hs[sp] + Fk[sp]) * Ds[sp]) for sp in (0, 1)))


def independent_scf(hs, L, C0, nelec, damp=0.5, tol=1e-13, maxit=20000):
    """damped Roothaan iteration on density matrices, written independently of the library (numpy only).
    Returns (energy, iterations, densities, orbitals, orbital energies, converged)"""
    Ds = [C0[sp] @ C0[sp].T for sp in (0, 1)]
    conv = False
    for it in range(maxit):
        Fk = np_fock(hs, L, Ds)
        new, Cs, es = [], [], []
        for sp in (0, 1):
            w, v = np.linalg.eigh(Fk[sp])
            new.append(v[:, :nelec[sp]] @ v[:, :nelec[sp]].T)
            Cs.append(v)
            es.append(w)
        dd = max(float(np.abs(new[sp] - Ds[sp]).max()) for sp in (0, 1))
        if dd < tol:
            conv = True
            Ds = new
            break
        Ds = [(1 - damp) * new[sp] + damp * Ds[sp] for sp in (0, 1)]
    return np_energy(hs, L, Ds), it, Ds, Cs, es, conv


def rotation(rng, n, theta):
    """exp(theta K), K random antisymmetric with spectral norm 1: every vector is turned by at most theta"""
    import scipy.linalg as sl
    K = rng.standard_normal((n, n))
    K = K - K.T
    nrm = np.linalg.norm(K, 2)
    if nrm == 0:
        return np.eye(n)
    return sl.expm(theta * K / nrm)


def roothaan_radius(hs, L, D0, nelec, kind, h=1e-6):
    """numerical spectral radius of the linearised Roothaan map D -> D'(F[D]) at a fixed point (observation only)"""
    n = D0[0].shape[0]

    def step(Ds):
        Fk = np_fock(hs, L, Ds)
        out = []
        for sp in (0, 1):
            _, v = np.linalg.eigh(Fk[sp])
            out.append(v[:, :nelec[sp]] @ v[:, :nelec[sp]].T)
        return out
    basis = []
    for sp in ((0,) if kind == "rhf" else (0, 1)):
        for p in range(n):
            for q in range(p, n):
                E = np.zeros((2, n, n))
                E[sp, p, q] = E[sp, q, p] = 1.0
                if kind == "rhf":
                    E[1] = E[0]
                basis.append(E)
    cols = []
    for b in basis:
        Dp = step([D0[0] + h * b[0], D0[1] + h * b[1]])
        Dm = step([D0[0] - h * b[0], D0[1] - h * b[1]])
        cols.append(np.concatenate([(Dp[sp] - Dm[sp]).ravel() for sp in (0, 1)]) / (2 * h))
    Bm = np.array([b.ravel() for b in basis]).T
    T = np.linalg.lstsq(Bm, np.array(cols).T, rcond=None)[0]
    return float(max(abs(np.linalg.eigvals(T))))
