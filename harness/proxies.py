"""Observation of real runs without touching the repository: thin subclasses of the library's
propagator / trial / sampler classes that emit one event per spec action (Afqmc.tla) and delegate
to super().  Events are emitted with jax.debug.callback(ordered=True), so they fire in program
order at run time inside jit / lax.scan; Python-level calls (driver) emit directly.

Only scalars/booleans/small vectors are logged.  Floats become booleans through stated tolerances:
    COH_TOL   : cached overlap coherent with recomputed overlap (relative)
"""
from __future__ import annotations

import threading

import numpy as np

COH_TOL = 1e-9

_lock = threading.Lock()
EVENTS: list = []
_state = {"in_step": 0, "rank": 0}
_tls = threading.local()     # the suppress switch acts at trace time, in the Python thread of the rank that is tracing:
                             # a process-wide counter let one rank's suppressed section swallow another rank's events


def _suppressed():
    return getattr(_tls, "suppress", 0) > 0


def reset():
    with _lock:
        EVENTS.clear()


def snapshot():
    import jax
    jax.effects_barrier()
    with _lock:
        return list(EVENTS)


def _push(ev):
    with _lock:
        ev["seq"] = len(EVENTS)
        EVENTS.append(ev)


def emit(name, **kw):
    """python-level event (flushes pending device callbacks first so the order is the program order)"""
    import jax
    jax.effects_barrier()
    _push({"ev": name, **kw})


def rank_of(obj):
    return int(getattr(obj, "_rank", 0))


def cb(name, static=None, **arrays):
    """run-time event from inside (possibly jitted / scanned) code"""
    import jax
    static = dict(static or {})

    def _f(**kw):
        _push({"ev": name, **static, **{k: np.asarray(v) for k, v in kw.items()}})

    jax.debug.callback(_f, ordered=True, **arrays)


class suppress:
    """trace-time switch: proxied trial methods called while it is on insert no events"""

    def __enter__(self):
        _tls.suppress = getattr(_tls, "suppress", 0) + 1

    def __exit__(self, *a):
        _tls.suppress = getattr(_tls, "suppress", 0) - 1


# ------------------------------------------------------------------------------------------ factories
_cache = {}


def trial_proxy(base):
    """subclass of a trial class that logs Ovlp / Energy / Opt / BuildM"""
    if ("t", base) in _cache:
        return _cache[("t", base)]

    class TrialProxy(base):
        __doc__ = base.__doc__

        def calc_overlap(self, walkers, wave_data):
            out = super().calc_overlap(walkers, wave_data)
            if not _suppressed():
                cb("Ovlp", static={"rank": rank_of(self)}, ov=out)
            return out

        def calc_energy(self, walkers, ham_data, wave_data):
            out = super().calc_energy(walkers, ham_data, wave_data)
            if not _suppressed():
                cb("Energy", static={"rank": rank_of(self)}, e=out)
            return out

        def calc_force_bias(self, walkers, ham_data, wave_data):
            return super().calc_force_bias(walkers, ham_data, wave_data)

        def optimize(self, ham_data, wave_data):
            out = super().optimize(ham_data, wave_data)
            if not _suppressed():
                cb("Opt", static={"rank": rank_of(self)})
            return out

        def __hash__(self):
            return hash((type(self).__name__,) + tuple(self.__dict__.values()))

    TrialProxy.__name__ = "P" + base.__name__
    TrialProxy.__qualname__ = TrialProxy.__name__
    _cache[("t", base)] = TrialProxy
    return TrialProxy


def _match(new, old):
    """for each new walker the index of the identical old walker (copies are bitwise copies)"""
    sel = []
    for a in new:
        hit = -1
        for j, b in enumerate(old):
            if a.shape == b.shape and np.array_equal(a, b):
                hit = j
                break
        sel.append(hit)
    return sel


def _flat(walkers):
    """per-walker arrays for matching: restricted (array) or unrestricted (list of two arrays)"""
    if isinstance(walkers, (list, tuple)):
        up, dn = np.asarray(walkers[0]), np.asarray(walkers[1])
        return [np.concatenate([up[i].ravel(), dn[i].ravel()]) for i in range(up.shape[0])]
    w = np.asarray(walkers)
    return [w[i].ravel() for i in range(w.shape[0])]


def prop_proxy(base):
    """subclass of a propagator class that logs Prop/PropDone, QR, SRLocal, SRGlobal"""
    if ("p", base) in _cache:
        return _cache[("p", base)]
    import jax.numpy as jnp

    class PropProxy(base):
        __doc__ = base.__doc__

        def propagate(self, trial, ham_data, prop_data, fields, wave_data):
            with suppress():
                ov = trial.calc_overlap(prop_data["walkers"], wave_data)
            coh = jnp.max(jnp.abs(prop_data["overlaps"] - ov) / jnp.abs(prop_data["overlaps"]))
            cb("Prop", static={"rank": rank_of(self)}, coh=coh, w=prop_data["weights"],
               shift=prop_data["pop_control_ene_shift"], eest=prop_data["e_estimate"])
            with suppress():
                out = super().propagate(trial, ham_data, prop_data, fields, wave_data)
            cb("PropDone", static={"rank": rank_of(self)}, w=out["weights"], shift=out["pop_control_ene_shift"])
            return out

        def orthonormalize_walkers(self, prop_data):
            w0 = prop_data["walkers"]
            w0 = [1 * w0[0], 1 * w0[1]] if isinstance(w0, (list, tuple)) else 1 * w0
            out = super().orthonormalize_walkers(prop_data)
            w1 = out["walkers"]
            if isinstance(w1, (list, tuple)):
                ch = jnp.maximum(jnp.max(jnp.abs(w1[0] - w0[0]), initial=0.0), jnp.max(jnp.abs(w1[1] - w0[1]), initial=0.0))  # a spin block may be empty
            else:
                ch = jnp.max(jnp.abs(w1 - w0), initial=0.0)
            cb("QR", static={"rank": rank_of(self)}, change=ch)
            return out

        def stochastic_reconfiguration_local(self, prop_data):
            w0 = prop_data["weights"]
            wk0 = prop_data["walkers"]
            wk0 = [1 * wk0[0], 1 * wk0[1]] if isinstance(wk0, (list, tuple)) else 1 * wk0
            out = super().stochastic_reconfiguration_local(prop_data)
            if isinstance(wk0, (list, tuple)):
                cb("SRLocal", static={"rank": rank_of(self)}, w0=w0, w1=out["weights"], a0=wk0[0], b0=wk0[1],
                   a1=out["walkers"][0], b1=out["walkers"][1])
            else:
                cb("SRLocal", static={"rank": rank_of(self)}, w0=w0, w1=out["weights"], a0=wk0, a1=out["walkers"])
            return out

        def stochastic_reconfiguration_global(self, prop_data, comm):
            w0 = np.asarray(prop_data["weights"]).copy()
            f0 = _flat(prop_data["walkers"])
            out = super().stochastic_reconfiguration_global(prop_data, comm)
            emit("SRGlobal", w0=w0, w1=np.asarray(out["weights"]).copy(), rank=comm.Get_rank(),
                 sel=_match(_flat(out["walkers"]), f0), f0=f0, f1=_flat(out["walkers"]))
            return out

        def __hash__(self):
            return hash((type(self).__name__,) + tuple(self.__dict__.values()))

    PropProxy.__name__ = "P" + base.__name__
    PropProxy.__qualname__ = PropProxy.__name__
    _cache[("p", base)] = PropProxy
    return PropProxy


ENTRY_OF = {"propagate_phaseless": "plain", "propagate_phaseless_ad": "ad", "propagate_phaseless_ad_1": "ad_2rdm",
            "propagate_phaseless_ad_nosr": "ad_nosr", "propagate_phaseless_ad_norot": "ad_norot",
            "propagate_phaseless_ad_nosr_norot": "ad_nosr_norot"}


def sampler_proxy():
    if "s" in _cache:
        return _cache["s"]
    from ad_afqmc import sampling

    class SamplerProxy(sampling.sampler):
        def __hash__(self):
            return hash(("SamplerProxy",) + tuple(self.__dict__.values()))

    def mk(name):
        base = getattr(sampling.sampler, name)

        def method(self, *a, **k):
            import jax
            emit("Enter", rank=rank_of(self), entry=ENTRY_OF[name], steps=self.n_prop_steps, ene=self.n_ene_blocks,
                 sr=self.n_sr_blocks)
            out = base(self, *a, **k)
            jax.effects_barrier()
            ws = ee = None
            try:
                e = float(np.asarray(out[0]))
                nk = float(np.asarray(out[1]["n_killed_walkers"]))
                import jax.numpy as jnp
                ws = float(jnp.sum(out[1]["weights"]))          # exactly the driver's expression for the block weight
                ee = float(np.asarray(out[1]["e_estimate"]))
            except Exception:  # tracers under jvp/vjp: values are not concrete here
                e, nk = None, None
            emit("Exit", rank=rank_of(self), entry=ENTRY_OF[name], energy=e, killed=nk, wsum=ws, eest_out=ee)
            return out

        method.__name__ = name
        return method

    for nm in ENTRY_OF:
        setattr(SamplerProxy, nm, mk(nm))
    _cache["s"] = SamplerProxy
    return SamplerProxy


# ------------------------------------------------------------------------------------------ trace building
def to_trace(events, n_walkers, tid=1, options=None):
    """project recorded events onto the vocabulary of AfqmcTrace.tla (booleans / small ints only).  options: the options the
    driver was really given (ad_mode, orbital_rotation, do_sr): attached to every Enter event, so that the trace
    specification checks the DRIVER'S dispatch of the entry point for exactly these options"""
    out = []
    i = 0
    evs = events
    while i < len(evs):
        e = evs[i]
        n = e["ev"]
        if n == "Prop":
            d = evs[i + 1] if i + 1 < len(evs) and evs[i + 1]["ev"] == "PropDone" else None
            w0 = np.asarray(e["w"], dtype=float)
            rec = {"ev": "Prop", "coh": bool(np.isfinite(e["coh"]) and float(e["coh"]) <= COH_TOL),
                   "cohval": float(e["coh"]) if np.isfinite(e["coh"]) else -1.0,
                   "alive0": [bool(x > 0) for x in w0],
                   # (an extinct population has a NaN estimate and a NaN shift: NaN initialised from NaN is "equal")
                   "shift_is_est": bool(abs(complex(e["shift"]) - complex(e["eest"])) <= 1e-12 * max(1.0, abs(complex(e["eest"])))
                                        or (np.isnan(complex(e["shift"])) and np.isnan(complex(e["eest"]))))}
            if d is not None:
                w1 = np.asarray(d["w"], dtype=float)
                rec["alive1"] = [bool(x > 0) for x in w1]
                rec["wdom"] = bool(np.all(np.isfinite(w1)) and np.all(w1 >= 0) and np.all(np.isreal(d["w"])))
                rec["shiftok"] = bool(np.isfinite(np.asarray(d["shift"]).real))
                i += 1
            else:
                rec["alive1"] = rec["alive0"]
                rec["wdom"] = False
                rec["shiftok"] = False
            out.append(rec)
        elif n == "QR":
            out.append({"ev": "QR", "changed": bool(float(e["change"]) > 1e-12)})
        elif n == "Energy":
            out.append({"ev": "Energy"})
        elif n == "Ovlp":
            out.append({"ev": "Ovlp"})
        elif n == "Opt":
            out.append({"ev": "Opt"})
        elif n in ("SRLocal", "SRGlobal"):
            w1 = np.asarray(e["w1"], dtype=float)
            w0 = np.asarray(e["w0"], dtype=float)
            if "sel" in e:
                sel = list(e["sel"])
            elif "b0" in e:
                sel = _match(_flat([e["a1"], e["b1"]]), _flat([e["a0"], e["b0"]]))
            else:
                sel = _match(_flat(e["a1"]), _flat(e["a0"]))
            out.append({"ev": n, "alive0": [bool(x > 0) for x in w0], "alive1": [bool(x > 0) for x in w1],
                        "wdom": bool(np.all(np.isfinite(w1)) and np.all(w1 >= 0)),
                        "moved": bool(sel != list(range(len(sel)))), "copies_only": bool(all(j >= 0 for j in sel))})
        elif n == "Enter":
            out.append({"ev": "Enter", "entry": e["entry"], "steps": int(e["steps"]), "ene": int(e["ene"]),
                        "sr": int(e["sr"]), "has_opts": options is not None,
                        "ad_mode": "none" if not options or options.get("ad_mode") is None else str(options["ad_mode"]),
                        "orbital_rotation": bool(True if not options else options.get("orbital_rotation", True)),
                        "do_sr": bool(True if not options else options.get("do_sr", True))})
        elif n == "Exit":
            k = e.get("killed")
            out.append({"ev": "Exit", "entry": e["entry"],
                        "killed_ok": bool(k is None or (np.isfinite(k) and -1e-12 <= k <= 1 + 1e-12))})
        elif n in ("Init", "Est", "Save", "Reduce", "Backward"):
            out.append({"ev": n})
        i += 1
    for k, r in enumerate(out):
        r["tid"] = tid
        r["k"] = k + 1
    return out
