"""Shared machinery for every check: TLC runner, evidence writer, known findings, violations.

A check module (harness/props/cXX.py) exposes `run(chk)` and uses only this API:

    chk.tlc(spec, cfg_text, ...)          -> TLCResult (states, transitions, stdout, outdir)
    chk.case(key, nontrivial=True)        -> count one explored case
    chk.sample(obj)                       -> remember a concrete case for the evidence file
    chk.violation(site, what, replay)     -> report (or suppress as KNOWN-FINDING)
    chk.note(k, v)                        -> extra coverage keys

Exit codes: 0 held (possibly with KNOWN-FINDING lines), 1 violation, 2 machinery failure.
"""
from __future__ import annotations

import json
import os
import re
import shutil
import subprocess
import sys
import tempfile
import time
from dataclasses import dataclass, field
from pathlib import Path

VERIF = Path(__file__).resolve().parent.parent
REPO = Path(os.environ.get("VERIF_REPO", "/repo"))
SPEC = VERIF / "spec"
TLA_CP = "/opt/veriftools/tla/tla2tools.jar:/opt/veriftools/tla/CommunityModules-deps.jar"


class MachineryError(Exception):
    """The verification machinery itself failed (TLC crash, SANY error, overflow guard)."""


@dataclass
class TLCResult:
    states: int            # distinct states found
    transitions: int       # states generated (every evaluated transition incl. initial states)
    stdout: str
    wall_s: float
    violated: bool         # TLC reported an invariant/property violation
    violated_name: str
    workdir: Path
    coverage_zero: list = field(default_factory=list)


def _parse_tlc(out: str):
    m = None
    for m in re.finditer(r"(\d+) states generated, (\d+) distinct states found", out):
        pass
    if m is None:
        return None
    return int(m.group(1)), int(m.group(2))


class Check:
    def __init__(self, pid: str, tier: str, seed: int, level: str):
        self.pid = pid
        self.tier = tier
        self.seed = seed
        self.level = level
        self.t0 = time.time()
        self.evaluations = 0
        self._nontrivial = set()
        self.samples = []
        self.states = 0
        self.transitions = 0
        self.traces = 0
        self.extra = {}
        self.assumptions = []
        self.trusted_base = []
        self.violations = []      # (site, what, replay_path)
        self.divergences = []     # specification divergences outside the property's own predicate (never an alarm)
        self.known_hit = {}       # key -> (finding, count)
        self.tlc_runs = []
        self.rule = ""
        self._scratch = Path(tempfile.mkdtemp(prefix=f"verif-{pid}-"))
        kf = VERIF / "known_findings.json"
        self.known = []
        if kf.exists():
            self.known = [f for f in json.loads(kf.read_text()).get("findings", []) if f["property"] == pid]
        self._replay_n = 0

    # ------------------------------------------------------------------ scratch
    def scratch(self, name: str = "") -> Path:
        p = self._scratch / name if name else self._scratch
        p.mkdir(parents=True, exist_ok=True)
        return p

    def cleanup(self):
        shutil.rmtree(self._scratch, ignore_errors=True)

    # ------------------------------------------------------------------ TLC
    def tlc(self, module: str, cfg: str, *, workers="auto", timeout=1800, env=None,
            simulate: str | None = None, depth: int | None = None, deadlock=False,
            coverage=False, expect_violation=False, jvm_opts=(), name=None,
            count=True, extra_args=()) -> TLCResult:
        """Run TLC on /verif/spec/<module>.tla with the given cfg text.

        The run happens in a private scratch directory (metadir, cfg copy, any files the spec
        writes with relative paths).  A TLC-reported violation raises nothing here; the caller
        decides what it means (design counterexample vs. trace rejection).
        """
        name = name or module
        wd = self.scratch(f"tlc-{name}-{len(self.tlc_runs)}")
        cfgp = wd / f"{name}.cfg"
        cfgp.write_text(cfg)
        w = str(os.cpu_count() or 4) if workers == "auto" else str(workers)
        # TLC unpacks its module jars into <java.io.tmpdir>/tlc-<n>: keep that inside the scratch directory, which is removed
        cmd = ["java", "-XX:+UseParallelGC", "-Xss16m", f"-Djava.io.tmpdir={wd}", *jvm_opts, "-cp", TLA_CP, "tlc2.TLC",
               "-workers", w, "-metadir", str(wd / "meta"), "-noGenerateSpecTE",
               "-config", str(cfgp)]
        if not deadlock:
            cmd += ["-deadlock"]
        if coverage:
            cmd += ["-coverage", "1"]
        if simulate is not None:
            cmd += ["-simulate", simulate]
        if depth is not None:
            cmd += ["-depth", str(depth)]
        cmd += list(extra_args)
        cmd += [str(SPEC / f"{module}.tla")]
        e = dict(os.environ)
        e.update(env or {})
        t = time.time()
        try:
            p = subprocess.run(cmd, cwd=wd, env=e, capture_output=True, text=True, timeout=timeout)
        except subprocess.TimeoutExpired as ex:
            raise MachineryError(f"TLC timeout after {timeout}s on {module}") from ex
        out = p.stdout + p.stderr
        (wd / "tlc.out").write_text(out)
        wall = time.time() - t
        violated = False
        vname = ""
        m = re.search(r"Error: Invariant (\S+) is violated", out)
        if m:
            violated, vname = True, m.group(1)
        m2 = re.search(r"Error: Action property (\S+) is violated|Error: Temporal properties were violated", out)
        if m2:
            violated, vname = True, (m2.group(1) or "temporal")
        if re.search(r"Error: Deadlock reached", out):
            violated, vname = True, "Deadlock"
        if "The postcondition" in out and "violated" in out or "Error: Postcondition" in out:
            violated, vname = True, "Postcondition"
        parsed = _parse_tlc(out)
        bad = (parsed is None and simulate is None) or (
            p.returncode != 0 and not violated) or re.search(
            r"Parsing or semantic analysis failed|Overflow|Attempted to|Error: TLC threw|was undefined|"
            r"java\.lang\.\w*(Error|Exception)", out)
        if bad and not (violated and not re.search(r"Overflow|Parsing or semantic", out)):
            tail = "\n".join(out.splitlines()[-40:])
            raise MachineryError(f"TLC failed on {module} (rc={p.returncode}):\n{tail}")
        gen, dist = parsed if parsed else (0, 0)
        if simulate is not None and parsed is None:
            m3 = re.search(r"(\d+) states checked", out)
            gen = dist = int(m3.group(1)) if m3 else 0
        zero = []
        if coverage:
            for mm in re.finditer(r"<(\w+) line \d+, col \d+ to line \d+, col \d+ of module (\w+)>: (\d+):(\d+)", out):
                if mm.group(3) == "0" and mm.group(4) == "0":
                    zero.append(mm.group(1))
        res = TLCResult(dist, gen, out, wall, violated, vname, wd, zero)
        if violated and not expect_violation:
            pass
        if count:
            self.states += dist
            self.transitions += gen
        self.tlc_runs.append({"module": module, "name": name, "states": dist, "transitions": gen,
                              "wall_s": round(wall, 2), "violated": vname if violated else None,
                              "mode": "simulate" if simulate else "exhaustive"})
        return res

    # ------------------------------------------------------------------ counting
    def case(self, key, nontrivial=True):
        self.evaluations += 1
        if self.evaluations % 25 == 0:
            housekeeping()
        if nontrivial:
            self._nontrivial.add(key if isinstance(key, (str, int, tuple)) else json.dumps(key, sort_keys=True))

    def sample(self, obj, limit=6):
        if len(self.samples) < limit:
            self.samples.append(obj)

    def note(self, k, v):
        self.extra[k] = v

    # ------------------------------------------------------------------ violations
    def violation(self, site: str, what: str, replay=None):
        """site: stable identifier of the failing call site / input class (matched against
        known_findings.json); what: human description; replay: JSON-able object."""
        for f in self.known:
            if f["key"] == site:
                n = self.known_hit.get(site, (f, 0))[1]
                self.known_hit[site] = (f, n + 1)
                return False
        self._replay_n += 1
        rd = VERIF / "replay"
        rd.mkdir(exist_ok=True)
        rp = rd / f"{self.pid}-{self._replay_n}.json"
        if self._replay_n <= 20:
            rp.write_text(json.dumps({"property": self.pid, "site": site, "what": what, "seed": self.seed,
                                      "tier": self.tier, "case": replay}, indent=1, default=_jd))
        self.violations.append((site, what, str(rp)))
        return True

    def divergence(self, site: str, what: str):
        """the implementation left the specification in a way that is NOT a violation of this property's own predicate
        (the specification covers more of the system than the listed properties): recorded in the evidence and printed,
        never an alarm"""
        self.divergences.append({"site": site, "what": what[:600]})

    # ------------------------------------------------------------------ finish
    def finish(self) -> int:
        wall = time.time() - self.t0
        for dv in self.divergences[:10]:
            print(f"SPEC-DIVERGENCE (outside the predicate of {self.pid}, not an alarm) site={dv['site']}: {dv['what']}")
        for key, (f, n) in self.known_hit.items():
            print(f"KNOWN-FINDING: property={self.pid} {f['what']} [key={key}, {n} case(s) this run]")
        seen = set()
        for site, what, rp in self.violations:
            if site in seen:
                continue
            seen.add(site)
            print(f"VIOLATION property={self.pid} replay={rp}")
            print(f"  site={site}: {what}")
        cov = {
            "evaluations": self.evaluations,
            "distinct_nontrivial": len(self._nontrivial),
            "rule": self.rule,
            "samples": self.samples,
            "states": self.states,
            "transitions": self.transitions,
            "traces_validated_against_impl": self.traces,
            "tlc_runs": self.tlc_runs,
            "trusted_base": self.trusted_base,
            "known_findings_hit": {k: n for k, (f, n) in self.known_hit.items()},
            "specification_divergences_outside_this_property": self.divergences,
        }
        cov.update(self.extra)
        ev = {
            "property_id": self.pid,
            "tier": self.tier,
            "seed": self.seed,
            "level": self.level,
            "coverage": cov,
            "assumptions": self.assumptions,
            "wall_s": round(wall, 2),
            "violations": len(self.violations),
        }
        # evidence describes /repo itself: a run pointed at another tree (selftest/regress.sh, VERIF_REPO) writes its
        # description elsewhere so that the committed evidence is never that of a modified copy
        evdir = Path(os.environ.get("VERIF_EVIDENCE_DIR", "")) if os.environ.get("VERIF_EVIDENCE_DIR") else (
            VERIF / "evidence" if REPO.resolve() == Path("/repo") else Path(tempfile.gettempdir()) / "verif-evidence-other-tree")
        evdir.mkdir(parents=True, exist_ok=True)
        (evdir / f"{self.pid}.json").write_text(json.dumps(ev, indent=1, default=_jd))
        self.cleanup()
        print(f"[{self.pid}] tier={self.tier} seed={self.seed} evaluations={self.evaluations} "
              f"nontrivial={len(self._nontrivial)} states={self.states} traces={self.traces} "
              f"violations={len(self.violations)} known={len(self.known_hit)} wall={wall:.1f}s")
        return 1 if self.violations else 0


def _jd(o):
    try:
        import numpy as np
        if isinstance(o, (np.integer,)):
            return int(o)
        if isinstance(o, (np.floating,)):
            return float(o)
        if isinstance(o, np.ndarray):
            return o.tolist()
        if isinstance(o, complex) or isinstance(o, np.complexfloating):
            return [float(o.real), float(o.imag)]
    except Exception:
        pass
    if isinstance(o, complex):
        return [o.real, o.imag]
    if isinstance(o, (set, frozenset)):
        return sorted(o)
    if isinstance(o, Path):
        return str(o)
    return repr(o)


def housekeeping(limit=26000):
    """every library object (trial, propagator, sampler) owns its XLA executables; thousands of them exhaust the
    process's memory maps (vm.max_map_count = 65530: "LLVM compilation error: Cannot allocate memory", then a crash).
    Drop the compilation caches when the map count gets high."""
    try:
        with open("/proc/self/maps") as f:
            nmaps = sum(1 for _ in f)
    except OSError:
        return
    if nmaps > limit and "jax" in sys.modules:
        import gc
        import jax
        jax.clear_caches()
        gc.collect()


def repo_setup():
    """Import the library from /repo's current working tree, hooks on, no MPI."""
    os.environ.setdefault("ANKIT76_AD_AFQMC_VERIF", "1")
    if str(REPO) not in sys.path:
        sys.path.insert(0, str(REPO))
    from ad_afqmc import config
    config.afqmc_config["use_mpi"] = False
    config.setup_jax()
    return config
