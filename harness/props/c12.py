"""C12 - all sampler entry points compute the same, correct block estimator."""
import dataclasses
import json
from fractions import Fraction

import numpy as np

from .. import proxies, runlevel
from ..core import Check, MachineryError, repo_setup

LEVEL = "model_checking"


def converge_trial(sysd, iters=6):
    """C12/C06 speak about a converged trial.  It is converged with an INDEPENDENT dense SCF (numpy, damped; harness/scf.py),
    not with the library's own optimize - a trial obtained by iterating the library's SCF would be a fixed point of whatever
    that SCF computes and would hide an error in it.  The problem must be well conditioned for the library's undamped
    30 iterations (numerical spectral radius of the Roothaan map < 0.7), otherwise it is rejected (known finding C18)."""
    import jax.numpy as jnp
    from .. import scf
    h1 = np.asarray(sysd["ham_data"]["h1"], dtype=float)
    norb = sysd["norb"]
    L = np.asarray(sysd["ham_data"]["chol"], dtype=float).reshape(-1, norb, norb)
    nelec = tuple(sysd["nelec"])
    mc = sysd["wave_data"]["mo_coeff"]
    rhf = not isinstance(mc, (list, tuple))
    C0 = [np.asarray(mc), np.asarray(mc)] if rhf else [np.asarray(mc[0]), np.asarray(mc[1])]
    hs = [(h1[0] + h1[1]) / 2] * 2 if rhf else [h1[0], h1[1]]
    e, it, Ds, Cs, es, conv = scf.independent_scf(hs, L, C0, nelec)
    if not conv:
        raise MachineryError("independent SCF did not converge on a generated test problem")
    rho = scf.roothaan_radius(hs, L, Ds, nelec, "rhf" if rhf else "uhf")
    sysd["roothaan_radius"] = rho
    if not (rho < 0.7):
        raise MachineryError(f"generated test problem is not well conditioned for an undamped SCF (radius {rho})")
    occ = [Cs[sp][:, : nelec[sp]] for sp in (0, 1)]
    if rhf:
        sysd["wave_data"]["mo_coeff"] = jnp.array(occ[0])
        sysd["wave_data"]["rdm1"] = jnp.array([occ[0] @ occ[0].T] * 2)
    else:
        sysd["wave_data"]["mo_coeff"] = [jnp.array(occ[0]), jnp.array(occ[1])]
        sysd["wave_data"]["rdm1"] = jnp.array([occ[0] @ occ[0].T, occ[1] @ occ[1].T])
    return sysd


def make_converged_system(seed0, tries=40, **kw):
    """a small problem with a mean-field trial converged by the independent SCF, well conditioned for the library's SCF"""
    last = None
    for t in range(tries):
        try:
            return converge_trial(runlevel.make_system(np.random.default_rng(seed0 + 1009 * t), **kw))
        except MachineryError as ex:
            last = ex
    raise MachineryError(f"no well-conditioned test problem in {tries} draws: {last}")


def matrix(tier):
    """(ad_mode, orbital_rotation, do_sr, walker_type, n_batch, block)"""
    q = [(None, True, True, "uhf", 1, (2, 2, 1)), (None, True, True, "uhf", 2, (2, 2, 1)),
         ("forward", True, True, "uhf", 1, (2, 2, 1)), ("forward", False, True, "uhf", 1, (2, 2, 1)),
         ("forward", True, False, "uhf", 1, (2, 2, 1)), ("forward", False, False, "uhf", 1, (2, 2, 1)),
         ("reverse", True, True, "uhf", 1, (2, 2, 1)), ("reverse", False, False, "uhf", 2, (2, 2, 1)),
         ("2rdm", True, True, "uhf", 1, (2, 2, 1)),
         (None, True, True, "rhf", 1, (2, 2, 1)), ("forward", False, True, "rhf", 2, (2, 2, 1)),
         (None, True, True, "uhf", 1, (2, 1, 2)), ("forward", True, True, "uhf", 1, (2, 1, 2))]
    if tier == "quick":
        return q
    full = []
    for blk in ((2, 2, 1), (2, 1, 2), (1, 2, 2), (3, 1, 1)):
        for wt in ("uhf", "rhf"):
            for nb in (1, 2):
                for mode in (None, "forward", "reverse", "2rdm"):
                    for rot in (True, False):
                        for sr in (True, False):
                            if mode is None and not (rot and sr):
                                continue
                            if mode == "2rdm" and not (rot and sr):
                                continue
                            if nb == 2 and blk != (2, 2, 1):
                                continue
                            full.append((mode, rot, sr, wt, nb, blk))
    return full


def block_from_events(ev, dt):
    """recompute every block energy from what the proxies logged (Energy samples, weights of the last
    PropDone, e_estimate of the last Prop): the property's own estimator formula"""
    blocks, w, eest = [], None, None
    for e in ev:
        if e["ev"] == "Prop":
            eest = float(np.real(e["eest"]))
        elif e["ev"] == "PropDone":
            w = np.asarray(e["w"], dtype=float)
        elif e["ev"] == "Energy" and w is not None:
            es = np.real(np.asarray(e["e"]))
            es = np.where(np.abs(es - eest) > np.sqrt(2.0 / dt), eest, es)
            blocks.append((float(np.sum(es * w) / np.sum(w)), float(np.sum(w))))
        elif e["ev"] == "Backward":
            break
    return blocks


def estimator_records(rng, n):
    recs = []
    for i in range(n):
        nw = int(rng.integers(2, 7))
        eden = int(rng.choice([1, 2, 4]))
        dtn, cap2 = [(0.02, (100, 1)), (0.5, (4, 1)), (0.08, (25, 1)), (0.01, (200, 1)), (0.25, (8, 1))][i % 5]
        estn = int(rng.integers(-6, 7)) * eden // 1
        capn = cap2[0] ** 0.5
        en = []
        for _ in range(nw):
            r = rng.random()
            if r < 0.25:      # exactly on the bound where the bound is rational: must be kept
                off = int(round(capn * eden)) if abs(capn - round(capn)) < 1e-12 else int(capn * eden)
                en.append(estn + int(rng.choice([-1, 1])) * off)
            elif r < 0.5:     # far outside
                en.append(estn + int(rng.choice([-1, 1])) * int((capn + rng.integers(1, 20)) * eden))
            else:
                en.append(estn + int(rng.integers(-int(capn * eden), int(capn * eden) + 1)))
        wden = int(rng.choice([1, 2, 8]))
        wn = [int(x) for x in rng.integers(0, 9, size=nw)]
        if sum(wn) == 0:
            wn[0] = 3
        im = [int(x) for x in rng.integers(-3, 4, size=nw)]
        recs.append({"id": i + 1, "en": en, "eden": eden, "estn": estn, "cap2n": cap2[0], "cap2d": cap2[1],
                     "wn": wn, "wden": wden, "dt": dtn, "im": im, "res": 10000, "tol": 1, "lib": 0})
    return recs


def driver_tree(chk: Check):
    """spec/DriverTree.tla (the shape of prop_data along a driver run: beyond the listed properties) against the real
    driver: for every (n_eql, ad_mode) the run completes or raises in exactly the block the specification predicts.
    A mismatch is a specification divergence, not a violation of C12."""
    grid = [(ne, ad) for ne in (0, 1) for ad in ("none", "forward", "reverse")]
    pred = {}
    for ne, ad in grid:
        cfg = (f'SPECIFICATION Spec\nCONSTANTS\n  NEql = {ne}\n  NBlocks = 3\n  AdMode = "{ad}"\nINVARIANT PredictionRight\n'
               'PROPERTY Terminates\n')
        r = chk.tlc("DriverTree", cfg, workers=1, name=f"DriverTree-{ne}-{ad}", timeout=120)
        if r.violated:
            raise MachineryError(f"DriverTree.tla: its closed-form prediction is wrong for n_eql={ne}, {ad}")
        r2 = chk.tlc("DriverTree", cfg.replace("INVARIANT PredictionRight", "INVARIANT StructuresAgree"), workers=1,
                     name=f"DriverTree-agree-{ne}-{ad}", timeout=120, expect_violation=True, count=False)
        pred[(ne, ad)] = 2 if r2.violated else 0
    out = {}
    for ne, ad in grid:
        sysd = runlevel.make_system(np.random.default_rng(1200 + chk.seed), norb=4, nelec=(2, 1), nchol=2, trial_kind="uhf", walker_type="uhf",
                                    n_walkers=4, dt=0.02, vscale=0.3)
        opts = runlevel.default_options(seed=5 + chk.seed, n_eql=ne, ad_mode=None if ad == "none" else ad)
        proxies.reset()
        try:
            runlevel.run_driver(chk, sysd, opts, (1, 1, 1), 3, name=f"tree-{ne}-{ad}")
            got = 0
        except TypeError as ex:
            got = sum(1 for e in proxies.snapshot() if e["ev"] == "Enter") + (1 if "tree structure" in str(ex) else 0)
        except Exception as ex:  # noqa: BLE001
            got = -1
        out[f"n_eql={ne},{ad}"] = {"spec": pred[(ne, ad)], "driver": got}
        chk.case(("driver-tree", ne, ad))
        chk.traces += 1
        if got != pred[(ne, ad)]:
            chk.divergence(f"driver.afqmc:prop_data-structure:n_eql={ne}:{ad}", f"DriverTree.tla predicts "
                           f"{'completion' if pred[(ne, ad)] == 0 else 'a tree-structure TypeError in sampling block ' + str(pred[(ne, ad)])}, the driver "
                           f"{'completed' if got == 0 else 'raised in sampling block ' + str(got)}")
    chk.note("driver_tree_structure (0 = completes, k = raises in sampling block k)", out)


def run(chk: Check):
    repo_setup()
    import jax.numpy as jnp
    from ad_afqmc import sampling, wavefunctions
    from .c08 import design
    chk.rule = ("design: Afqmc.tla option ladder and block machine, all options x block counts (TLC exhaustive: Select "
                "total, SameEstimator, KeyDiscipline, MeasureCount); implementation: every configuration of the option "
                "matrix (quick: covering subset) is called exactly as driver.afqmc calls it (plain / jvp / vjp) with a "
                "converged trial; case = one call; energies must agree inside the classes the spec proves equal, be "
                "bit-reproducible and independent of n_batch; each call's event trace is validated against "
                "AfqmcTrace.tla; the single-block estimator is evaluated exactly by Estimator.tla on prescribed "
                "energies/weights (boundary cases included) and compared with the sampler's result")
    chk.assumptions += ["energies compared at 1e-10 relative inside an equality class, 1e-12 across n_batch, bitwise for "
                        "repeated identical calls", "the 2-RDM entry point re-factorises the interaction, so it is only "
                        "required to be callable and finite", "*_nosr entry points are compared with the plain sampler at "
                        "n_sr_blocks = 1 (without reconfiguration n_sr_blocks has no meaning)"]
    design(chk)
    driver_tree(chk)
    rng = np.random.default_rng(5200 + chk.seed)
    S = proxies.sampler_proxy()
    systems = {}
    for wt in ("uhf", "rhf"):
        for nb in (1, 2):
            r2 = np.random.default_rng(5300 + chk.seed)       # identical physics for every n_batch
            nelec = (2, 1) if wt == "uhf" else (2, 2)
            systems[(wt, nb)] = make_converged_system(5300 + chk.seed, norb=3 if wt == "uhf" else 4, nelec=nelec, nchol=2,
                                                      trial_kind=wt, walker_type=wt, n_walkers=4, dt=0.02, n_batch=nb)
    results, killed = {}, {}
    traces, tmeta = [], []
    seed0 = 900 + chk.seed
    for k, (mode, rot, sr, wt, nb, blk) in enumerate(matrix(chk.tier)):
        sysd = systems[(wt, nb)]
        pd0 = runlevel.init_prop_data(sysd, seed0)
        pd0["weights"] = jnp.array([0.4, 1.6, 1.1, 0.9])
        # "the same state": a state as it is handed over between driver iterations - stale stored overlaps, a carried
        # population-control shift that differs from the running estimate, a left-over kill counter.  Every entry
        # point has to (re)initialise these itself, exactly as the plain sampler does.
        pd0["overlaps"] = pd0["overlaps"] * (1.21 + 0.3j) + 0.01
        pd0["pop_control_ene_shift"] = pd0["e_estimate"] + 0.37
        pd0["n_killed_walkers"] = jnp.array(7.0)
        smp = S(n_prop_steps=blk[0], n_ene_blocks=blk[1], n_sr_blocks=blk[2], n_blocks=1)
        o = {"ad_mode": mode, "orbital_rotation": rot, "do_sr": sr}
        ename = {None: "plain", "2rdm": "ad_2rdm"}.get(mode) or ("ad" + ("" if sr else "_nosr") + ("" if rot else "_norot"))
        site = f"entry:{ename}:{wt}"
        proxies.reset()
        try:
            out = runlevel.call_entry(sysd, smp, o, pd0)
            # the driver's own continuation after the call
            pdn = sysd["prop"].orthonormalize_walkers(out["prop_data"])
            from ad_afqmc import config
            pdn = sysd["prop"].stochastic_reconfiguration_global(pdn, config.not_a_comm())
        except Exception as ex:
            chk.case(("call", k), nontrivial=True)
            chk.violation(site + ":not-callable", f"sampler entry point {ename} ({wt} walkers, n_batch={nb}, block {blk}) is "
                          f"not callable with the driver's calling convention: {type(ex).__name__}: {str(ex)[:200]}",
                          {"options": {"ad_mode": mode, "orbital_rotation": rot, "do_sr": sr, "walker_type": wt,
                                       "n_batch": nb, "block": list(blk)}})
            continue
        ev = proxies.snapshot()
        chk.case(("call", k))
        e = out["energy"]
        if not np.isfinite(e):
            chk.violation(site + ":nonfinite", f"{ename} returned a non-finite energy {e}", {"options": o})
            continue
        results[(mode, rot, sr, wt, nb, blk)] = e
        killed[(mode, rot, sr, wt, nb, blk)] = float(np.asarray(out["prop_data"]["n_killed_walkers"]))
        # single energy block: the returned energy is the property's estimator of the walkers at measurement time
        blocks = block_from_events(ev, sysd["prop"].dt)
        if blk[1] * (blk[2] if ename in ("plain", "ad", "ad_norot", "ad_2rdm") else 1) == 1 and blocks:
            if abs(blocks[0][0] - e) > 1e-10 * max(1, abs(e)):
                chk.violation(site + ":single-block-estimator", f"{ename}: returned energy {e} differs from the weight "
                              f"average of the capped real local energies {blocks[0][0]}", {"options": o})
        elif blocks and mode != "2rdm":
            tot = sum(b[0] * b[1] for b in blocks) / sum(b[1] for b in blocks)
            if abs(tot - e) > 1e-10 * max(1, abs(e)):
                chk.violation(site + ":block-average", f"{ename}: returned energy {e} differs from the block-weight average "
                              f"of the per-block estimators {tot}", {"options": o})
        tr = proxies.to_trace(ev, 4, tid=k + 1)
        traces.append(tr)
        tmeta.append((site, o, blk, wt))
        chk.sample({"options": {"ad_mode": mode, "orbital_rotation": rot, "do_sr": sr, "walker_type": wt, "n_batch": nb,
                                "block": list(blk)}, "entry": ename, "energy": e, "events": len(tr)}, limit=6)
        # bit reproducibility (first plain and first AD configuration)
        if k in (0, 2):
            out2 = runlevel.call_entry(sysd, smp, o, pd0)
            if out2["energy"] != e:
                chk.violation(site + ":not-reproducible", f"{ename}: two identical calls returned {e} and {out2['energy']}",
                              {"options": o})
    # ---- equality classes proved by the spec
    def cls(key):
        mode, rot, sr, wt, nb, blk = key
        if mode == "2rdm":
            return None
        eff = blk if (mode is None or sr) else (blk[0], blk[1], 1)
        if eff[2] == 1:
            eff = (blk[0], blk[1], 1)
        return (wt, eff)
    groups = {}
    for key, e in results.items():
        c = cls(key)
        if c is not None and (key[0] is None or key[2] or key[5][2] == 1):
            groups.setdefault(c, []).append((key, e))
    for c, items in groups.items():
        ref_key, ref = items[0]
        for key, e in items[1:]:
            tol = 1e-12 if (key[:4] == ref_key[:4] and key[5] == ref_key[5]) else 1e-10
            chk.case(("equal", str(key), str(ref_key)))
            if abs(killed[key] - killed[ref_key]) > 1e-12 or not (0.0 <= killed[key] <= 1.0):
                chk.violation(f"killed-fraction-mismatch:{key[0] or 'plain'}:{'rot' if key[1] else 'norot'}:{'sr' if key[2] else 'nosr'}:{key[3]}",
                              f"same state and block structure {c[1]}: options {key} report killed fraction {killed[key]} but {ref_key} "
                              f"report {killed[ref_key]}", {"a": list(map(str, key)), "b": list(map(str, ref_key))})
            if abs(e - ref) > tol * max(1, abs(ref)):
                chk.violation(f"energy-mismatch:{key[0] or 'plain'}:{'rot' if key[1] else 'norot'}:{'sr' if key[2] else 'nosr'}:{key[3]}:nb{key[4]}",
                              f"same state, seed, converged trial and block structure {c[1]}: options {key} return {e} but "
                              f"{ref_key} return {ref}", {"a": list(map(str, key)), "b": list(map(str, ref_key))})
    chk.note("equality_classes", {str(c): len(v) for c, v in groups.items()})
    # ---- every call is a behaviour of the block machine for the requested structure
    for tr, (site, o, blk, wt) in zip(traces, tmeta):
        v = runlevel.validate_traces(chk, [tr], dict(n_walkers=4, neql=0, nblocks=1, steps=blk[0], ene=blk[1], sr=blk[2],
                                                     steps_eql=0, ene_eql=0, sr_eql=0), name=f"c12-{tr[0]['tid']}")[0]
        chk.traces += 1
        if v["property_violation"]:
            pv = v["property_violation"]
            chk.violation(site + ":" + pv["name"], f"call with options {o}, block {blk}: {pv['name']} violated at event "
                          f"{pv['line']}: {pv['event']}", {"options": o, "event": pv["event"]})
        elif not v["accepted"]:
            chk.violation(site + ":wrong-block-structure", f"call with options {o} asked for block structure {blk} but its "
                          f"event trace is not a behaviour of the block machine: first unexplained event #{v['reached'] + 1} "
                          f"{v['first_unexplained']} at {v['at']}", {"options": o, "verdict": {x: v[x] for x in ("reached", "len", "at")}})
    # ---- the estimator on exact prescribed data, judged by Estimator.tla
    recs = estimator_records(np.random.default_rng(77 + chk.seed), 30 if chk.tier == "quick" else 200)
    base = runlevel.make_system(np.random.default_rng(1), norb=3, nelec=(2, 1), nchol=1, proxied=False, n_walkers=2)

    class PrescribedEnergy(wavefunctions.uhf):
        def calc_energy(self, walkers, ham_data, wave_data):
            return wave_data["_e"]

        def __hash__(self):
            return hash(("PrescribedEnergy",) + tuple(self.__dict__.values()))

    libvals = {}
    for r in recs:
        nw = len(r["en"])
        sysd = dict(base)
        sysd["trial"] = PrescribedEnergy(3, (2, 1))
        sysd["prop"] = dataclasses.replace(base["prop"], dt=r["dt"], n_walkers=nw)
        sysd["wave_data"] = dict(base["wave_data"])
        sysd["wave_data"]["_e"] = jnp.array([a / r["eden"] + 1j * b for a, b in zip(r["en"], r["im"])])
        pd = runlevel.init_prop_data(sysd, 3)
        pd["weights"] = jnp.array([a / r["wden"] for a in r["wn"]])
        pd["e_estimate"] = jnp.array(r["estn"] / r["eden"])
        smp = sampling.sampler(n_prop_steps=0, n_ene_blocks=1, n_sr_blocks=1, n_blocks=1)
        e, _ = smp.propagate_phaseless(sysd["ham"], sysd["ham_data_built"], sysd["prop"], pd, sysd["trial"], sysd["wave_data"])
        libvals[r["id"]] = float(e)
        r["lib"] = int(round(float(e) * r["res"]))
    wd = chk.scratch("est")
    (wd / "out").mkdir(exist_ok=True)
    with (wd / "recs.ndjson").open("w") as f:
        for r in recs:
            f.write(json.dumps({k: v for k, v in r.items() if k not in ("dt", "im")}) + "\n")
    chk.tlc("Estimator", "SPECIFICATION Spec\nCHECK_DEADLOCK FALSE\n",
            env={"EST_RECS": str(wd / "recs.ndjson"), "EST_OUT": str(wd / "out")}, workers=4, name="Estimator")
    ncap = 0
    for r in recs:
        v = json.loads((wd / "out" / f"{r['id']}.json").read_text().splitlines()[0])
        exact = Fraction(v["num"], v["den"])
        ncap += v["ncapped"]
        chk.case(("estimator", r["id"]), nontrivial=v["ncapped"] > 0 or True)
        chk.traces += 1
        if not v["ok"] or abs(libvals[r["id"]] - float(exact)) > 1e-12 * max(1, abs(float(exact))):
            chk.violation("estimator:single-block", f"single energy block on prescribed data: sampler returned {libvals[r['id']]} "
                          f"but the weight average of the capped real energies is {exact} = {float(exact)} "
                          f"(energies {r['en']}/{r['eden']}, estimate {r['estn']}/{r['eden']}, 2/dt={r['cap2n']}, weights {r['wn']}/{r['wden']})",
                          {"record": r, "verdict": v})
    chk.note("estimator_records", len(recs))
    chk.note("estimator_samples_capped", ncap)
