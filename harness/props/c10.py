"""C10 - a CPMC step samples the discrete Hubbard-Stratonovich propagator without bias.

Reference model and theorems: spec/CPMC.tla (exact rationals, checked by TLC).  This file
  1. runs the design-level model check (exhaustive small instances: every theorem of the model holds,
     nothing overflows, the theorems are not vacuous);
  2. draws seeded exact instances, lets TLC walk the complete tree of auxiliary-field paths of each, and
     replays every state TLC reached into the library:
       (a) Load / Pair states  -> uhf_cpmc / ghf_cpmc . calc_full_green, calc_green_diagonal,
                                  calc_overlap_ratio, update_greens_function (every ordered pair of
                                  spin-orbitals, every listed pair of constants);
       (b) Leaf states         -> propagator_cpmc / propagator_cpmc_slow . propagate driven down exactly that
                                  field path; leaf (walker, weight, overlap, Green's function) against TLC's
                                  rationals; the code's own leaves, weighted with the exact path probabilities,
                                  must add up to the right-hand side TLC computed (unbiasedness);
  3. (c) fast vs slow propagators on seeded floating-point runs through the library's own set-up path
         (on-site and nearest-neighbour variants), judged by TLC (Ladder.tla, single-residual traces);
  4. (d) exp_h1 built by _build_propagation_intermediates for a lattice Hamiltonian set up as in
         examples/hubbard.ipynb against expm(-dt K / 2), K = -t * adjacency.
"""
from __future__ import annotations

import math
from fractions import Fraction

import numpy as np

from .. import cpmc, ladder
from ..core import Check, MachineryError, repo_setup

LEVEL = "model_checking"
DT = 0.1            # the propagators' dt for the exact instances (U follows from dt*U = -ln(p q))
TOL = 1e-10
SHIFT = 0.37        # a non-zero pop_control_ene_shift for the e^{dt E_shift} clause


PER_SITE = 2


def report(chk: Check, site, what, replay=None):
    """at most PER_SITE violations per site go to the framework (it keeps only the first 20 replay files and
    every site's first violation must have one); all of them are counted in the evidence"""
    cnt = chk.extra.setdefault("violations_per_site", {})
    cnt[site] = cnt.get(site, 0) + 1
    if cnt[site] <= PER_SITE:
        chk.violation(site, what, replay)


# ============================================================================ 1. design-level model checking
def design(chk: Check):
    # every walker with entries in -1..1 (n = 2, one electron per spin) x 4 trials x 2 half steps x 2 HS pairs:
    # all theorems hold and nothing overflows (so none of them holds vacuously)
    r = chk.tlc("CPMC", cpmc.cfg_text(True, extra=("NoOverflow",)), name="CPMC-design")
    if r.violated:
        raise MachineryError(f"CPMC.tla: the reference model violates {r.violated_name} on the design instances:\n"
                             + "\n".join(r.stdout.splitlines()[-60:]))
    chk.note("design_states", r.states)
    if chk.tier != "quick":
        # entries in -2..2 (7600 instances).  Here some weights no longer fit 32 bits (e.g. 1554359985/21106928),
        # so NoOverflow is not claimed; every theorem is conditioned on "no overflow" and must still hold.
        r = chk.tlc("CPMC", cpmc.cfg_text(True, big=True), name="CPMC-design-big", timeout=2400)
        if r.violated:
            raise MachineryError(f"CPMC.tla: the reference model violates {r.violated_name} on the big design "
                                 "instances:\n" + "\n".join(r.stdout.splitlines()[-60:]))
        chk.note("design_big_states", r.states)
    # non-vacuity: the hypotheses of the conditional theorems are satisfiable on the same instances
    wit = ["NeverFreeSum"] if chk.tier == "quick" else ["NeverFreeSum", "NeverConstrained", "NeverDead"]
    seen = {}
    for w in wit:
        rw = chk.tlc("CPMC", cpmc.cfg_text(True, invariants=(w,)), name=f"CPMC-witness-{w}", count=False)
        seen[w] = bool(rw.violated and rw.violated_name == w)
    if not seen["NeverFreeSum"]:
        raise MachineryError("CPMC.tla design instances: no instance without an active constraint - the "
                             "unbiasedness theorem would hold vacuously")
    chk.note("design_witnesses", seen)


# ============================================================================ 2. exact instances
def shapes(tier):
    """(n, nu, nd, kind, count_free, count_constrained)"""
    if tier == "quick":
        return [(2, 1, 1, "uhf", 3, 1), (2, 1, 1, "ghf", 3, 1),
                (3, 2, 1, "uhf", 3, 1), (3, 2, 1, "ghf", 3, 1), (3, 1, 1, "ghf", 2, 0), (3, 1, 2, "uhf", 2, 0),
                (4, 2, 2, "uhf", 3, 1), (4, 2, 2, "ghf", 3, 1), (4, 2, 1, "uhf", 2, 0), (4, 1, 1, "ghf", 2, 0)]
    out = []
    for n, fills in ((2, [(1, 1), (2, 1), (1, 2)]), (3, [(1, 1), (2, 1), (1, 2), (2, 2)]),
                     (4, [(1, 1), (2, 1), (1, 2), (2, 2), (3, 1), (1, 3)])):
        for nu, nd in fills:
            for kind in ("uhf", "ghf"):
                out.append((n, nu, nd, kind, 10, 3))
    return out


def plan(chk: Check):
    rng = np.random.default_rng(chk.seed * 7919 + 10)
    insts, iid = [], 0
    for n, nu, nd, kind, kf, kc in shapes(chk.tier):
        for j in range(kf + kc):
            iid += 1
            want = "free" if j < kf else ("dead" if (j == kf and n <= 3) else "constrained")
            insts.append(cpmc.gen_instance(
                iid, rng, n, nu, nd, kind, uniform=(kind == "uhf" and j % 2 == 0), want=want,
                spin_m=(j % 3 == 2), lattice="grid" if (n == 4 and j % 2 == 1) else "chain"))
    return insts


_CODE = {}


class Groups:
    """every few new shapes, drop JAX's compiled executables (each new shape compiles a dozen functions; in
    the thorough tier several hundred of them otherwise exhaust the process's memory maps)"""

    def __init__(self, every=6):
        self.keys, self.every = set(), every

    def seen(self, key):
        if key in self.keys:
            return
        self.keys.add(key)
        if len(self.keys) % self.every == 0:
            import jax
            _CODE.clear()
            jax.clear_caches()


def trial_of(I):
    """(trial, wave_data) exactly as a user would construct them"""
    import jax.numpy as jnp
    from ad_afqmc import wavefunctions
    n, nu, nd = I["n"], I["nu"], I["nd"]
    C = np.asarray(I["C"], dtype=float)
    if I["kind"] == "uhf":
        trial = wavefunctions.uhf_cpmc(n, (nu, nd))
        wd = {"mo_coeff": [jnp.array(C[:n, :nu]), jnp.array(C[n:, nu:])]}
    else:
        trial = wavefunctions.ghf_cpmc(n, (nu, nd))
        wd = {"mo_coeff": jnp.array(C)}
    return trial, wd


def code_green(I, G):
    """exact 2n x 2n Green's function -> the container the trial class uses"""
    n = I["n"]
    G = np.asarray(G, dtype=float)
    if I["kind"] == "uhf":
        return np.array([G[:n, :n], G[n:, n:]])
    return G


def spin_idx(n, P):
    return [0, P - 1] if P <= n else [1, P - n - 1]


def relerr(got, ref):
    got, ref = np.asarray(got, dtype=float), np.asarray(ref, dtype=float)
    if got.shape != ref.shape:
        return float("inf")
    if not np.all(np.isfinite(got)):
        return float("inf")
    return float(np.max(np.abs(got - ref)) / max(1.0, float(np.max(np.abs(ref))))) if ref.size else 0.0


def bind_trial_formulas(chk: Check, I, R):
    """(a): Load and Pair states against the trial classes"""
    import jax
    import jax.numpy as jnp
    init = R["init"]
    if init["ovf"] or not init["alive"]:
        return
    n, kind = I["n"], I["kind"]
    trial, wd = trial_of(I)
    G = cpmc.to_float(cpmc.fmat(init["gr"]))
    wu, wdn = jnp.array(I["wu"] * 1.0), jnp.array(I["wd"] * 1.0)
    case = {"instance": I["json"]}
    # from-scratch Green's function and its diagonal
    got = np.asarray(trial.calc_full_green(wu, wdn, wd))
    e = relerr(got, code_green(I, G))
    chk.case(("green", I["id"]))
    chk.traces += 1
    if e > TOL:
        report(chk, f"{kind}_cpmc.calc_full_green", f"{kind}_cpmc.calc_full_green differs from the exact Green's "
                      f"function by {e:.3e} (n={n}, nelec={I['nu'], I['nd']})", case)
    got = np.asarray(trial.calc_green_diagonal(wu, wdn, wd))
    e = relerr(got, np.array([np.diag(G)[:n], np.diag(G)[n:]]))
    if e > TOL:
        report(chk, f"{kind}_cpmc.calc_green_diagonal", f"{kind}_cpmc.calc_green_diagonal differs from the exact "
                      f"diagonal by {e:.3e}", case)
    if not R["pairs"]:
        return
    key = (kind, n, I["nu"], I["nd"])
    if key not in _CODE:
        _CODE[key] = (jax.jit(jax.vmap(trial.calc_overlap_ratio, in_axes=(None, 0, 0))),
                      jax.jit(jax.vmap(trial.update_greens_function, in_axes=(None, 0, 0, 0))))
    f_ratio, f_upd = _CODE[key]
    idxs, consts, ratios, refs, meta = [], [], [], [], []
    for (P, Q), rec in sorted(R["pairs"].items()):
        for k, r in enumerate(rec["res"]):
            rd, rw = cpmc.fr(r["rd"]), cpmc.fr(r["rw"])
            if rd is None or rw is None:
                continue
            cP, cQ = I["json"]["cset"][k]
            idxs.append([spin_idx(n, P), spin_idx(n, Q)])
            consts.append([cP[0] / cP[1], cQ[0] / cQ[1]])
            ratios.append(float(rd))
            gs = r["gs"]
            ok = bool(gs) and not any(x[1] == 0 for row in gs for x in row)
            refs.append(cpmc.to_float(cpmc.fmat(gs)) if ok else None)
            meta.append((P, Q, k))
    if not idxs:
        return
    Gc = jnp.array(code_green(I, G))
    idxs_a, consts_a, ratios_a = jnp.array(idxs), jnp.array(consts), jnp.array(ratios)
    got_r = np.asarray(f_ratio(Gc, idxs_a, consts_a))
    safe = jnp.where(ratios_a == 0, 1.0, ratios_a)
    got_g = np.asarray(f_upd(Gc, safe, idxs_a, consts_a))
    for t, (P, Q, k) in enumerate(meta):
        same = (P <= n) == (Q <= n)
        cls = "same-spin" if same else "opposite-spin"
        chk.case(("pair", I["id"], P, Q, k), nontrivial=ratios[t] != 0)
        chk.traces += 1
        e = abs(got_r[t] - ratios[t]) / max(1.0, abs(ratios[t]))
        pc = {"instance": I["json"], "P": P, "Q": Q, "constants": I["json"]["cset"][k]}
        if not (e <= TOL):
            report(chk, f"{kind}_cpmc.calc_overlap_ratio:{cls}",
                          f"{kind}_cpmc.calc_overlap_ratio for spin-orbitals ({P},{Q}) [{cls}], constants "
                          f"{consts[t]}: got {got_r[t]!r}, exact {ratios[t]!r}", pc)
        if refs[t] is None:
            continue
        e = relerr(got_g[t], code_green(I, refs[t])) * min(1.0, abs(ratios[t]))
        if not (e <= TOL):
            report(chk, f"{kind}_cpmc.update_greens_function:{cls}",
                          f"{kind}_cpmc.update_greens_function for spin-orbitals ({P},{Q}) [{cls}], constants "
                          f"{consts[t]}: updated Green's function differs from the from-scratch one of the updated "
                          f"walker by {e:.3e} (exact overlap ratio {ratios[t]:.6g})", pc)
    chk.sample({"kind": kind, "n": n, "nelec": [I["nu"], I["nd"]], "trial": I["C"].tolist(),
                "walker": [I["wu"].tolist(), I["wd"].tolist()], "pairs_checked": len(meta)}, limit=3)


MARGIN = 1e-7      # distance of the driving uniform number from the exact branch probability


def rns_for(path, p0s, n):
    """gaussian random numbers whose uniform image (1+erf(g/sqrt2))/2 lies on the required side of the exact
    probability p0 of field 0 at every site of `path`, only MARGIN away from it: the code follows the path iff
    its own branch probability agrees with the exact one to MARGIN (float rounding is ~1e-15)."""
    from scipy.special import erfinv
    g = np.zeros(n)
    for k, x in enumerate(path):
        p0 = float(cpmc.fr(p0s[k]))
        u = p0 - min(MARGIN, p0 / 2.0) if x == 0 else p0 + min(MARGIN, (1.0 - p0) / 2.0)
        g[k] = math.sqrt(2.0) * float(erfinv(2.0 * u - 1.0))
    return g


def sd_components(cfgs, wu, wd):
    out = np.zeros(len(cfgs))
    for t, (a, b) in enumerate(cfgs):
        out[t] = np.linalg.det(wu[[i - 1 for i in a], :]) * np.linalg.det(wd[[i - 1 for i in b], :])
    return out


def bind_step(chk: Check, I, R):
    """(b): every leaf TLC reached -> prop.propagate (fast and slow) driven down that field path"""
    import jax.numpy as jnp
    from ad_afqmc import hamiltonian, propagation
    init, summ = R["init"], R.get("sum")
    if init["ovf"] or not init["alive"] or summ is None:
        return          # 32-bit overflow at the very start of this instance: dropped (counted by the caller)
    n, nu, nd, kind = I["n"], I["nu"], I["nd"], I["kind"]
    L = 2 ** n
    trial, wd = trial_of(I)
    p, q = float(I["p"]), float(I["q"])
    U = -math.log(p * q) / DT
    ham = hamiltonian.hamiltonian(n)
    hd = {"h0": 0.0, "h1": jnp.zeros((2, n, n)), "chol": jnp.zeros((1, n * n)), "ene0": 0.0, "u": U}
    hd = ham.build_measurement_intermediates(hd, trial, wd)
    hd["exp_h1"] = jnp.array(np.array([I["mu"], I["md"]], dtype=float))
    fast = propagation.propagator_cpmc(dt=DT, n_walkers=L)
    slow = propagation.propagator_cpmc_slow(dt=DT, n_walkers=L)
    walkers = [jnp.array(np.tile(I["wu"] * 1.0, (L, 1, 1))), jnp.array(np.tile(I["wd"] * 1.0, (L, 1, 1)))]
    pd0 = fast.init_prop_data(trial, wd, hd, walkers)
    case = {"instance": I["json"], "dt": DT, "u": U}
    # the library's own HS constants are the pair (p, q) of the model: hs_constant = [[p, q], [q, p]]
    e = relerr(np.asarray(pd0["hs_constant"]), np.array([[p, q], [q, p]]))
    if e > TOL:
        report(chk, "propagator_cpmc.init_prop_data:hs_constant",
                      f"hs_constant for dt*U = {DT * U:.6g} is {np.asarray(pd0['hs_constant']).tolist()}, expected "
                      f"[[{p},{q}],[{q},{p}]] (p+q=2, pq=e^(-dt U))", case)
    pd0["hs_constant"] = jnp.array([[p, q], [q, p]])
    pd0["weights"] = jnp.full((L,), float(I["w0"]))
    # rows: reachable leaves, then dead prefixes, padded with copies of row 0
    leaves = sorted(R["leaves"].items())
    rows, kinds = [], []
    for code, lf in leaves:
        rows.append(rns_for(lf["path"], lf["p0s"], n))
        kinds.append(("leaf", code, lf))
    for dd in R["dead"]:
        rows.append(rns_for(dd["path"], dd["p0s"], n))
        kinds.append(("dead", None, dd))
    if not rows:
        return
    while len(rows) < L:
        rows.append(rows[0])
    rns = jnp.array(np.array(rows[:L]))
    cfgs = [(c["a"], c["b"]) for c in summ["rhs"]]
    rhs = np.array([float(cpmc.fr(c["v"])) if c["v"][1] else np.nan for c in summ["rhs"]])
    allfree = bool(summ["allfree"]) and not summ["ovf"]
    if allfree and not summ["thm"]:
        raise MachineryError(f"instance {I['id']}: TLC reports allfree but LeafSum # Rhs")
    for shift in (0.0, SHIFT):
        pd = dict(pd0)
        pd["pop_control_ene_shift"] = jnp.array(shift)
        fac = math.exp(DT * shift)
        for pname, prop in (("propagator_cpmc", fast), ("propagator_cpmc_slow", slow)):
            out = prop.propagate(trial, hd, dict(pd), rns, wd)
            o_wu, o_wd = np.asarray(out["walkers"][0]), np.asarray(out["walkers"][1])
            o_w, o_o = np.asarray(out["weights"]), np.asarray(out["overlaps"])
            o_g = np.asarray(out["greens"]) if pname == "propagator_cpmc" else None
            lhs = np.zeros(len(cfgs))
            usable = True
            for row, (what, code, rec) in enumerate(kinds):
                if what == "dead":
                    # both fields rejected at rec["site"]: the model's weight is 0 from there on
                    chk.case(("dead", I["id"], tuple(rec["path"]), pname, shift), nontrivial=False)
                    chk.traces += 1
                    if shift == 0.0 and not (o_w[row] == 0.0):
                        report(chk, f"constrained:{pname}.propagate:both-fields-rejected",
                                      f"{pname} ({kind} trial): both auxiliary-field values are rejected at site "
                                      f"{rec['site']} after fields {rec['path']}; the walker must die (weight 0) but "
                                      f"the weight is {o_w[row]!r}",
                                      dict(case, path=rec["path"], site=rec["site"]))
                    continue
                if rec["ovf"] or rec["amb"]:
                    usable = False
                    continue
                free = bool(rec["free"])
                ex_wu, ex_wd = cpmc.to_float(cpmc.fmat(rec["wu"])), cpmc.to_float(cpmc.fmat(rec["wd"]))
                ex_w, ex_o = float(cpmc.fr(rec["wt"])) * fac, float(cpmc.fr(rec["ov"]))
                if abs(ex_w - 100.0) < 1e-6 or (shift != 0.0 and ex_w > 100.0):
                    usable = False
                    continue
                chk.case(("leaf", I["id"], code, pname, shift), nontrivial=free)
                chk.traces += 1
                errs = {"walker_up": relerr(o_wu[row], ex_wu), "walker_dn": relerr(o_wd[row], ex_wd),
                        "weight": relerr(o_w[row], ex_w), "overlap": relerr(o_o[row], ex_o)}
                if o_g is not None and rec["gr"]:
                    errs["greens"] = relerr(o_g[row], code_green(I, cpmc.to_float(cpmc.fmat(rec["gr"]))))
                bad = {k: v for k, v in errs.items() if not (v <= TOL)}
                if bad:
                    pre = "" if free else "constrained:"
                    report(chk, f"{pre}{pname}.propagate:{kind}:leaf",
                                  f"{pname} ({kind} trial, n={n}, nelec=({nu},{nd})) driven down field path "
                                  f"{rec['path']}: {sorted(bad)} differ from the exact step "
                                  f"(relative errors {bad}); exact weight {ex_w!r}, got {o_w[row]!r}",
                                  dict(case, path=rec["path"], shift=shift))
                if free and o_o[row] != 0:
                    P = 1.0
                    for k, x in enumerate(rec["path"]):
                        p0 = float(cpmc.fr(rec["p0s"][k]))
                        P *= p0 if x == 0 else 1.0 - p0
                    lhs += P * o_w[row] / o_o[row] * sd_components(cfgs, o_wu[row], o_wd[row])
            if allfree and usable and len(leaves) == L:
                e = relerr(lhs, rhs * fac)
                chk.case(("leafsum", I["id"], pname, shift))
                chk.traces += 1
                if not (e <= TOL):
                    report(chk, f"{pname}.propagate:{kind}:leaf-sum",
                                  f"{pname} ({kind} trial): sum over all {L} field paths of P*w*|W>/o differs from "
                                  f"M^ prod_i exp(-dt U n_up n_dn) M^ |W>/o * e^(dt E_shift) by {e:.3e} "
                                  f"(E_shift={shift})", dict(case, shift=shift))
    chk.sample({"kind": kind, "n": n, "nelec": [nu, nd], "hs": [str(I["p"]), str(I["q"])], "lattice": I["lat"],
                "half_step": I["mu"].tolist(), "leaves": len(leaves), "dead_paths": len(R["dead"]),
                "all_free": allfree, "rhs0": float(rhs[0]) if len(rhs) else None}, limit=6)


def exact_part(chk: Check, insts=None, name="file"):
    insts = insts if insts is not None else plan(chk)
    res, r = cpmc.tlc_eval(chk, insts, name)
    nfree = ncons = novf = 0
    groups = Groups()
    for I in insts:
        groups.seen((I["kind"], I["n"], I["nu"], I["nd"]))
        R = res[I["id"]]
        s = R.get("sum")
        if s is None or s["ovf"] or R["init"]["ovf"]:
            novf += 1
        elif s["allfree"]:
            nfree += 1
        else:
            ncons += 1
        for k in ("hs_ok", "cb_ok", "bdiag_ok"):
            if s is not None and not s[k]:
                raise MachineryError(f"instance {I['id']}: model theorem {k} fails")
        if s is not None and not s["adj_ok"]:
            report(chk, f"lattice-adjacency:{I['lat']['kind']}",
                          f"create_adjacency_matrix of {I['lat']} is not the nearest-neighbour graph of the model",
                          {"lattice": I["lat"], "adj": I["adj"].tolist()})
        bind_trial_formulas(chk, I, R)
        bind_step(chk, I, R)
    chk.note("exact_instances", {"unconstrained": nfree, "constrained": ncons, "overflow_skipped": novf})
    if nfree == 0:
        raise MachineryError("no unconstrained exact instance: the unbiasedness clause was not exercised")
    return insts, res


# ============================================================================ 3. fast vs slow on float runs
def close_items(chk: Check, items, name):
    """items: [(key, resid, scale, meta)] -> {key: ok}; TLC (Ladder.tla) decides resid <= TOL*scale"""
    traces = [{"id": i + 1, "errs": [r], "scale": 100.0 * TOL * sc, "floor": 0.0, "lo": (1, 1), "first": 1,
               "bound": 0.01} for i, (_, r, sc, _) in enumerate(items)]
    v = ladder.judge(chk, traces, name)
    return {items[i][0]: bool(v[i + 1]["ok"]) for i in range(len(items))}


def hubbard_setup(lat_kind, n, nelec, U, kind, rng, nonuniform, nw, prop, u1=None):
    """lattice Hamiltonian as in examples/hubbard.ipynb: h1 = -t*adjacency, Cholesky vectors of the on-site U"""
    import jax.numpy as jnp
    from ad_afqmc import hamiltonian, wavefunctions
    _, adj, lat = cpmc.lattice_of(n, None, lat_kind)
    K = -1.0 * adj
    pot = np.zeros(n)
    if nonuniform:
        pot = 0.8 * (-1.0) ** np.arange(n) + 0.3 * rng.standard_normal(n)
    _, vu = np.linalg.eigh(K + np.diag(pot))
    _, vd = np.linalg.eigh(K - np.diag(pot))
    cu, cd = vu[:, :nelec[0]], vd[:, :nelec[1]]
    if kind == "uhf":
        trial = wavefunctions.uhf_cpmc(n, nelec)
        wd = {"mo_coeff": [jnp.array(cu), jnp.array(cd)]}
    else:
        th = 0.3 if nonuniform else 0.0
        C = np.zeros((2 * n, sum(nelec)))
        C[:n, :nelec[0]], C[n:, :nelec[0]] = math.cos(th) * cu, math.sin(th) * cu
        C[:n, nelec[0]:], C[n:, nelec[0]:] = -math.sin(th) * cd, math.cos(th) * cd
        trial = wavefunctions.ghf_cpmc(n, nelec)
        wd = {"mo_coeff": jnp.array(C)}
    wd["rdm1"] = jnp.array(trial.get_rdm1(wd))
    chol = np.zeros((n, n, n))
    for i in range(n):
        chol[i, i, i] = math.sqrt(U)
    hd = {"h0": 0.0, "h1": jnp.array(np.array([K, K])), "chol": jnp.array(chol.reshape(n, n * n)), "ene0": 0.0,
          "u": U}
    if u1 is not None:
        hd["u_1"] = u1
    ham = hamiltonian.hamiltonian(n)
    hd = ham.build_propagation_intermediates(hd, prop, trial, wd)
    hd = ham.build_measurement_intermediates(hd, trial, wd)
    return trial, wd, hd, K, lat, (cu, cd)


def fast_slow_part(chk: Check, cases=None):
    import jax.numpy as jnp
    from jax import random
    from ad_afqmc import propagation
    quick = chk.tier == "quick"
    nw = 16
    if cases is None:
        cases = []
        seeds = range(2) if quick else range(8)
        for kind in ("uhf", "ghf"):
            for lat_kind, n, nelec in (("chain", 4, (2, 2)), ("grid", 4, (2, 1))) if quick else \
                    (("chain", 4, (2, 2)), ("grid", 4, (2, 2)), ("grid", 4, (2, 1)), ("chain", 3, (2, 1)),
                     ("chain", 2, (1, 1))):
                for U in (2.0, 8.0) if quick else (1.0, 4.0, 8.0):
                    for s in seeds:
                        cases.append({"mode": "onsite", "kind": kind, "lat": lat_kind, "n": n, "nelec": list(nelec),
                                      "U": U, "seed": chk.seed * 1000 + s, "dt": DT})
                if not quick and n == 4 and tuple(nelec) == (2, 2):
                    for dt in (0.02, 0.005):        # other time steps (each recompiles the propagators)
                        for s in range(3):
                            cases.append({"mode": "onsite", "kind": kind, "lat": lat_kind, "n": n,
                                          "nelec": list(nelec), "U": 4.0, "seed": chk.seed * 1000 + 900 + s, "dt": dt})
                for u1 in (0.0, 0.5, 2.0):
                    for s in seeds:
                        cases.append({"mode": "nn", "kind": kind, "lat": lat_kind, "n": n, "nelec": list(nelec),
                                      "U": 4.0, "u1": u1, "seed": chk.seed * 1000 + 500 + s, "dt": DT})
                if lat_kind == "chain" and n == 4:
                    for bonds in ("open", "all"):
                        cases.append({"mode": "nn", "kind": kind, "lat": lat_kind, "n": n, "nelec": list(nelec), "U": 4.0,
                                      "u1": 0.5, "seed": chk.seed * 1000 + 700, "dt": DT, "bonds": bonds})
    items = []
    groups = Groups(every=3)
    for c in cases:
        groups.seen((c["mode"], c["kind"], c["lat"], c["n"], tuple(c["nelec"]), c["dt"]))
        rng = np.random.default_rng(c["seed"])
        n, nelec, kind = c["n"], tuple(c["nelec"]), c["kind"]
        if c["mode"] == "onsite":
            fast = propagation.propagator_cpmc(dt=c["dt"], n_walkers=nw)
            slow = propagation.propagator_cpmc_slow(dt=c["dt"], n_walkers=nw)
            fn, sn = "propagator_cpmc", "propagator_cpmc_slow"
        else:
            _, adj, _ = cpmc.lattice_of(n, None, c["lat"])
            nb = tuple((i, j) for i in range(n) for j in range(i + 1, n) if adj[i, j])
            # bond lists whose length differs from the number of sites (open chain / all pairs): the neighbour
            # interaction is defined by the list the caller passes, not by the lattice
            if c.get("bonds") == "open":
                nb = nb[:-1]
            elif c.get("bonds") == "all":
                nb = tuple((i, j) for i in range(n) for j in range(i + 1, n))
            fast = propagation.propagator_cpmc_nn(dt=c["dt"], n_walkers=nw, neighbors=nb)
            slow = propagation.propagator_cpmc_nn_slow(dt=c["dt"], n_walkers=nw, neighbors=nb)
            fn, sn = "propagator_cpmc_nn", "propagator_cpmc_nn_slow"
        trial, wd, hd, K, lat, (cu, cd) = hubbard_setup(c["lat"], n, nelec, c["U"], kind, rng, True, nw, fast,
                                                        u1=c.get("u1"))
        wu = np.array([cu + 0.15 * rng.standard_normal(cu.shape) for _ in range(nw)])
        wdn = np.array([cd + 0.15 * rng.standard_normal(cd.shape) for _ in range(nw)])
        pd = fast.init_prop_data(trial, wd, hd, [jnp.array(wu), jnp.array(wdn)])
        pd["pop_control_ene_shift"] = jnp.array(0.0)
        pd["key"] = random.PRNGKey(c["seed"] % (2 ** 31))
        fields = jnp.array(rng.standard_normal((nw, n)))
        a = fast.propagate(trial, hd, dict(pd), fields, wd)
        b = slow.propagate(trial, hd, dict(pd), fields, wd)
        bw = np.asarray(b["weights"])
        live = np.isfinite(bw) & (bw > 0)
        for comp, ga, gb in (("walker_up", a["walkers"][0], b["walkers"][0]),
                             ("walker_dn", a["walkers"][1], b["walkers"][1]),
                             ("weight", a["weights"], b["weights"]), ("overlap", a["overlaps"], b["overlaps"])):
            ga, gb = np.asarray(ga), np.asarray(gb)
            for cls, msk in (("free", live), ("constrained", ~live)):
                if not msk.any():
                    continue
                x, y = ga[msk], gb[msk]
                resid = float(np.max(np.abs(x - y))) if np.all(np.isfinite(x)) and np.all(np.isfinite(y)) \
                    else float("inf")
                sc = max(1.0, float(np.max(np.abs(y[np.isfinite(y)]))) if np.isfinite(y).any() else 1.0)
                items.append(((len(items), comp, cls), resid, sc, (c, fn, sn, int(msk.sum()))))
        # the fast propagator's tracked Green's function against the from-scratch one of its own final walkers
        if live.any():
            gs = np.asarray(trial.calc_full_green_vmap(a["walkers"], wd))[live]
            ga = np.asarray(a["greens"])[live]
            resid = float(np.max(np.abs(ga - gs))) if np.all(np.isfinite(ga)) else float("inf")
            items.append(((len(items), "greens", "free"), resid, max(1.0, float(np.max(np.abs(gs)))),
                          (c, fn, sn, int(live.sum()))))
    verdict = close_items(chk, items, "fastslow")
    for (key, resid, sc, (c, fn, sn, cnt)) in items:
        _, comp, cls = key
        chk.case(("fastslow", c["mode"], c["kind"], c["lat"], c["n"], tuple(c["nelec"]), c["U"], c.get("u1"),
                  c["seed"], comp, cls), nontrivial=cls == "free")
        chk.traces += 1
        if not verdict[key]:
            pre = "constrained:" if cls == "constrained" else ""
            extra = f":u_1={'0' if not c.get('u1') else 'positive'}" if c["mode"] == "nn" else ""
            report(chk, f"{pre}{fn}:fast-vs-slow:{c['kind']}{extra}",
                          f"{fn} vs {sn} ({c['kind']} trial, {c['lat']} n={c['n']} nelec={c['nelec']} U={c['U']}"
                          f"{' u_1=' + str(c['u1']) if c['mode'] == 'nn' else ''}, seed {c['seed']}): {comp} of "
                          f"{cnt} {'unconstrained' if cls == 'free' else 'dead/constrained'} walkers differ by "
                          f"{resid:.3e} (> {TOL:g} * {sc:.3g})", dict(c, component=comp))
    chk.note("fast_vs_slow_cases", len(cases))
    return cases


# ============================================================================ 4. exp_h1 = expm(-dt K / 2)
def exp_h1_part(chk: Check, cases=None):
    from scipy.linalg import expm
    from ad_afqmc import propagation
    quick = chk.tier == "quick"
    if cases is None:
        cases = []
        lats = (("chain", 2, (1, 1)), ("chain", 3, (2, 1)), ("chain", 4, (2, 2)), ("grid", 4, (2, 2)),
                ("chain", 4, (3, 1)), ("chain", 3, (1, 1)))
        if not quick:
            lats += (("chain", 4, (1, 1)), ("grid", 4, (2, 1)), ("grid", 4, (3, 3)), ("chain", 3, (2, 2)))
        for lat_kind, n, nelec in lats:
            for kind in ("uhf", "ghf"):
                for nonuni in (False, True):
                    for U, dt in ((4.0, 0.05),) if quick else ((2.0, 0.1), (4.0, 0.05), (8.0, 0.01)):
                        cases.append({"mode": "exp_h1", "lat": lat_kind, "n": n, "nelec": list(nelec), "kind": kind,
                                      "nonuniform": nonuni, "U": U, "dt": dt, "seed": chk.seed})
    items, docs = [], []
    for c in cases:
        rng = np.random.default_rng(c["seed"] + 77)
        prop = propagation.propagator_cpmc(dt=c["dt"], n_walkers=4)
        trial, wd, hd, K, lat, _ = hubbard_setup(c["lat"], c["n"], tuple(c["nelec"]), c["U"], c["kind"], rng,
                                                 c["nonuniform"], 4, prop)
        got = np.asarray(hd["exp_h1"])
        ref = expm(-c["dt"] * K / 2.0)
        rdm = np.asarray(wd["rdm1"])
        dens = np.real(np.diag(rdm[0]) + np.diag(rdm[1]))
        uniform = bool(np.max(np.abs(dens - dens.mean())) < 1e-9)
        resid = float(max(np.max(np.abs(got[0] - ref)), np.max(np.abs(got[1] - ref))))
        # what the code builds instead (documentation of the finding; not a judged predicate)
        alt = expm(-c["dt"] / 2.0 * (K + np.diag(c["U"] * dens - c["U"] / 2.0)))
        docs.append({"case": c, "density": dens.tolist(),
                     "max|exp_h1 - expm(-dt K/2)|": resid,
                     "max|exp_h1 - expm(-dt/2 (K + U n_i - U/2))|": float(np.max(np.abs(got[0] - alt)))})
        items.append(((len(items), "uniform" if uniform else "nonuniform"), resid, 1.0, (c, dens)))
    # with no Cholesky vectors in ham_data (the set-up the code's own TODO announces) the one-body propagator must be
    # exactly expm(-dt K_s / 2) for each spin's own kinetic matrix, e.g. with a Zeeman / staggered pinning field
    import jax.numpy as jnp
    from ad_afqmc import hamiltonian
    for c in cases[:: max(1, len(cases) // 6)]:
        rng = np.random.default_rng(c["seed"] + 78)
        n = c["n"]
        # (every third case at a LARGE time step, 0.4: a truncated series for the matrix exponential is exact to 1e-16 at
        # dt = 0.01 and off by 1e-7 there)
        dt_h = 0.4 if (c["seed"] + n) % 3 == 0 else c["dt"]
        prop = propagation.propagator_cpmc(dt=dt_h, n_walkers=4)
        trial, wd, hd, K, lat, _ = hubbard_setup(c["lat"], n, tuple(c["nelec"]), c["U"], c["kind"], rng, c["nonuniform"], 4, prop)
        field = np.diag(0.4 * (-1.0) ** np.arange(n) + 0.1 * rng.standard_normal(n))
        Ks = [K + field, K - field]
        hd2 = {"h0": 0.0, "h1": jnp.array(np.array(Ks)), "chol": jnp.zeros((1, n * n)), "ene0": 0.0, "u": c["U"]}
        # (every other case: the dictionary was first prepared for a propagator with another time step, then prepared again)
        if (c["seed"] + n) % 2 == 0:
            prop0 = propagation.propagator_cpmc(dt=2.5 * dt_h, n_walkers=4)
            hd2 = hamiltonian.hamiltonian(n).build_propagation_intermediates(hd2, prop0, trial, wd)
        hd2 = hamiltonian.hamiltonian(n).build_propagation_intermediates(hd2, prop, trial, wd)
        got = np.asarray(hd2["exp_h1"])
        resid = float(max(np.max(np.abs(got[sp] - expm(-dt_h * Ks[sp] / 2.0))) for sp in (0, 1)))
        chk.case(("exp_h1-nochol", c["lat"], n, c["kind"]))
        chk.traces += 1
        if resid > 1e-12:
            report(chk, "propagator_cpmc._build_propagation_intermediates:exp_h1:no-cholesky-vectors",
                   f"exp_h1 with zero Cholesky vectors and a spin-dependent one-body part ({c['lat']} n={n}): differs from "
                   f"expm(-dt K_s/2) of each spin's own kinetic matrix by {resid:.3e}", c)
    verdict = close_items(chk, items, "exph1")
    for (key, resid, sc, (c, dens)) in items:
        chk.case(("exp_h1", c["lat"], c["n"], tuple(c["nelec"]), c["kind"], c["nonuniform"], c["U"], c["dt"]))
        chk.traces += 1
        if not verdict[key]:
            report(chk, f"propagator_cpmc._build_propagation_intermediates:exp_h1:{key[1]}-density",
                          f"exp_h1 for the {c['lat']} lattice (n={c['n']}, U={c['U']}, dt={c['dt']}, {c['kind']} trial "
                          f"with {key[1]} density {np.round(dens, 4).tolist()}) differs from expm(-dt K/2), "
                          f"K = -t*adjacency, by {resid:.3e}: the inherited propagator_unrestricted."
                          f"_build_propagation_intermediates builds expm(-dt/2 (K - v0 - sum_g l_g L_g)) from the "
                          f"U-Cholesky vectors = expm(-dt/2 (K + U n_i - U/2)), a trial-density-dependent one-body "
                          f"potential on top of K", c)
    chk.note("exp_h1", docs[:8])
    return cases


# ============================================================================ entry points
def run(chk: Check):
    repo_setup()
    chk.rule = ("exact part: seeded instances (sites n=2..4 on chains / the 2x2 grid, fillings with N<=4, integer UHF "
                "(uniform and non-uniform density) and GHF trials, integer walker, integer half-step matrices "
                "a*I+b*adjacency or random (also spin-dependent), HS pairs (p,q) in {(3/2,1/2),(5/4,3/4),(4/3,2/3),"
                "(7/4,1/4)}, initial weights); TLC walks all 2^n field paths; case = one TLC state replayed into the "
                "library (Green's function, ordered pair x constants, leaf x propagator x E_shift, leaf sum) or one "
                "float fast-vs-slow component / exp_h1 matrix judged by TLC; non-trivial = no constraint active on "
                "that path (leaves), non-zero overlap ratio (pairs), unconstrained walkers (fast vs slow)")
    chk.assumptions += [
        f"floating-point comparisons: |got - exact| <= {TOL:g} * max(1, max|exact|); Green's-function updates "
        "additionally scaled by min(1, |overlap ratio|) (the update divides by the ratio)",
        "the half step of the exact instances is an arbitrary invertible integer matrix injected through "
        "ham_data['exp_h1'] (and hs_constant = [[p,q],[q,p]] with dt*U = -ln(pq), which init_prop_data must itself "
        "reproduce to 1e-10); that the library's own exp_h1 is expm(-dt K/2) is part (d), judged against scipy expm",
        "leaf driving: the uniform number of every site is placed 1e-7 away from the exact branch probability on "
        "the side of the wanted field, so the code reaches the leaf only if its own probabilities agree with the "
        "exact ones to 1e-7",
        "a path is 'unconstrained' when every candidate overlap ratio and both half-step overlap ratios are positive "
        "and the weight stays below the cap of 100; quantities within 1e-6 of a threshold make a path ambiguous "
        "(skipped, counted); constrained paths are compared with the model's rule (ratio <= 0 -> probability 0) "
        "under site keys prefixed 'constrained:'",
        "TLC integers are 32 bit: CPMC.tla guards every product and flags overflow per instance; such instances "
        "are dropped (counted in exact_instances.overflow_skipped)"]
    chk.trusted_base += ["scipy.linalg.expm and scipy.special.erfinv", "numpy determinants for the code-side leaf sum"]
    design(chk)
    exact_part(chk)
    fast_slow_part(chk)
    exp_h1_part(chk)


def replay(chk: Check, case):
    """./check C10 --replay file: re-run the one recorded case"""
    repo_setup()
    c = case["case"]
    if "instance" in c:
        js = c["instance"]
        n, nu = js["n"], js["nu"]

        def im(M):
            return np.array([[Fraction(x[0], x[1]) for x in row] for row in M], dtype=object).astype(float)
        C = im(js["c"])
        kind = "uhf" if not (np.any(C[:n, nu:] != 0) or np.any(C[n:, :nu] != 0)) else "ghf"
        I = {"id": js["id"], "n": n, "nu": nu, "nd": js["nd"], "kind": kind, "C": C.astype(int),
             "wu": im(js["wu"]).astype(int), "wd": im(js["wd"]).astype(int), "mu": im(js["mu"]).astype(int),
             "md": im(js["md"]).astype(int), "p": Fraction(*js["hs"][0]), "q": Fraction(*js["hs"][1]),
             "w0": Fraction(*js["w0"]), "lat": js["lat"], "adj": np.array(js["adj"]), "pairs": js["pairs"], "json": js,
             "uniform": False}
        exact_part(chk, [I], "replay")
    elif c.get("mode") in ("onsite", "nn"):
        fast_slow_part(chk, [{k: v for k, v in c.items() if k != "component"}])
    elif c.get("mode") == "exp_h1":
        exp_h1_part(chk, [c])
    else:
        run(chk)
