"""C18 - trial optimisation is a stable, differentiable SCF with orthonormal output
(spec/SCF.tla: Roothaan fixed points on exact integer data; spec/Eigh.tla: exact eigen-derivatives)."""
import numpy as np

from .. import scf
from ..core import Check, MachineryError, repo_setup

LEVEL = "other"

TOL_ORTH = -10          # max|C^T C - 1|                            <= 1e-10
TOL_PROJ = -8           # max|C C^T - D_exact|   at a fixed point   <= 1e-8
TOL_EFP = -8            # |E - E_exact| at a fixed point            <= 1e-8 max(1,|E|)
TOL_ECONV = -6          # |E - E_ref| from a perturbed guess        <= 1e-6 max(1,|E|)
TOL_DERIV = -8          # eigen-derivatives                         <= 1e-8 max(1,|exact|,|Adot|)
RHO_MAX = 0.75          # molecules are judged when the Roothaan map contracts by <= 0.75 per step (0.75^30 = 2e-4)
MOLS = {
    "H2": ("H 0 0 0; H 0 0 0.74", 0),
    "H4": ("H 0 0 0; H 0 0 0.9; H 0 0 1.9; H 0 0 2.8", 0),
    "LiH": ("Li 0 0 0; H 0 0 1.6", 0),
    "H3": ("H 0 0 0; H 0 0 0.9; H 0 0 1.9", 1),
    "H2O": ("O 0 0 0.1173; H 0 0.7572 -0.4692; H 0 -0.7572 -0.4692", 0),
    "H4-triplet": ("H 0 0 0; H 0 0 0.9; H 0 0 1.9; H 0 0 2.8", 2),
    "Li": ("Li 0 0 0", 1),
}


# ----------------------------------------------------------------------------- design-level model checking
SCF_TH = """SPECIFICATION SpecTheorems
CONSTANTS
  TNORB = {norb}
  TNELECS <- {nel}
  TLSET = "{lset}"
{invs}
CHECK_DEADLOCK FALSE
"""
EIGH_TH = """SPECIFICATION SpecTheorems
CONSTANTS
  TN = {n}
  TASET = "{aset}"
{invs}
CHECK_DEADLOCK FALSE
"""
SCF_INVS = ["T_WellFormed", "T_Energy", "T_Brillouin", "T_RHF", "T_Step", "T_StepMoves"]
EIGH_INVS = ["T_WellFormed", "T_Resolution", "T_Basis", "T_Comm", "T_Idem", "T_Spectral", "T_Sums"]


def theorems(chk: Check):
    """the reference model satisfies its defining identities on every small instance (a failure here is a wrong
    specification = machinery failure); the probes show the predicates are satisfiable and not trivially true"""
    quick = chk.tier == "quick"
    inv = lambda xs: "\n".join(f"INVARIANT {x}" for x in xs)                      # noqa: E731
    runs = [(2, "Nel2", "few"), (3, "Nel3q", "few")] if quick else [(2, "Nel2", "all"), (3, "Nel3", "few")]
    for norb, nel, lset in runs:
        r = chk.tlc("SCF", SCF_TH.format(norb=norb, nel=nel, lset=lset, invs=inv(SCF_INVS)), name=f"SCF-theorems-{norb}",
                    timeout=3000)
        if r.violated:
            raise MachineryError(f"SCF.tla: theorem {r.violated_name} fails for norb={norb}; the specification is wrong")
        chk.note(f"scf_theorem_states_norb{norb}", r.states)
    for probe in ("P_NoFixedPoint", "P_AllStationary", "P_NoWellCond"):
        r = chk.tlc("SCF", SCF_TH.format(norb=2, nel="Nel2", lset="few", invs=inv([probe])), name=f"SCF-{probe}",
                    workers=4, count=False)
        if not (r.violated and r.violated_name == probe):
            raise MachineryError(f"SCF.tla: probe {probe} not violated - the predicates are vacuous on the small model")
    eruns = [(2, "few"), (3, "few")] if quick else [(2, "all"), (3, "all")]
    for n, aset in eruns:
        r = chk.tlc("Eigh", EIGH_TH.format(n=n, aset=aset, invs=inv(EIGH_INVS)), name=f"Eigh-theorems-{n}", timeout=3000)
        if r.violated:
            raise MachineryError(f"Eigh.tla: theorem {r.violated_name} fails for n={n}; the specification is wrong")
        chk.note(f"eigh_theorem_states_n{n}", r.states)
    for probe in ("P_AllNonDegenerate", "P_AllZero"):
        r = chk.tlc("Eigh", EIGH_TH.format(n=2, aset="few", invs=inv([probe])), name=f"Eigh-{probe}", workers=4,
                    count=False)
        if not (r.violated and r.violated_name == probe):
            raise MachineryError(f"Eigh.tla: probe {probe} not violated - vacuous model")


# ----------------------------------------------------------------------------- residuals (float -> numbers for the judge)
def orth_err(Cs, nelec):
    e = 0.0
    for sp in (0, 1):
        C = Cs[sp]
        if C.shape[1] != nelec[sp]:
            return float("inf")
        if C.shape[1]:
            e = max(e, float(np.abs(C.T @ C - np.eye(C.shape[1])).max()))
    return e


def all_finite(*arrs):
    return bool(all(np.all(np.isfinite(np.asarray(a))) for a in arrs))


def densities(Cs):
    return [Cs[sp] @ Cs[sp].T for sp in (0, 1)]


class Runner:
    """runs optimize on one problem and records what the property talks about"""

    def __init__(self, chk, code, R):
        self.chk, self.code, self.R = chk, code, R

    def run(self, kind, norb, nelec, hs, L, C0, cls, *, ref_energy=None, ref_D=None, tol_e=None, judged=True,
            what="", tag=None, energy_clause="energy", extra=None):
        """hs: [h_up, h_dn]; C0: [C_up, C_dn] starting orbitals; returns output orbitals or None"""
        out, exc = scf.attempt(self.code.optimize, kind, norb, nelec, np.array(hs), L, C0)
        base = {"kind": kind, "norb": norb, "nelec": list(nelec), "h1": np.array(hs).tolist(), "chol": np.asarray(L).tolist(),
                "start": [np.asarray(C0[0]).tolist(), np.asarray(C0[1]).tolist()], "cls": cls, "what": what, "tag": tag,
                **(extra or {})}
        if out is None:
            self.R.push([("orthonormal", float("inf"), 1.0, TOL_ORTH)], finite=False, rtype="orth", judged=True,
                        exception=exc, **base)
            return None
        fin = all_finite(*out)
        self.R.push([("orthonormal", orth_err(out, nelec) if fin else float("inf"), 1.0, TOL_ORTH)], finite=fin,
                    rtype="orth", judged=True, exception=None, **base)
        if not fin:
            return None
        Ds = densities(out)
        clauses = []
        E = scf.np_energy(hs, L, Ds)
        if ref_D is not None:
            clauses.append(("same_occupied_space", max(float(np.abs(Ds[sp] - ref_D[sp]).max()) for sp in (0, 1)), 1.0, TOL_PROJ))
        if ref_energy is not None:
            clauses.append((energy_clause, abs(E - ref_energy), max(1.0, abs(ref_energy)), tol_e))
        if clauses:
            self.R.push(clauses, finite=True, rtype="scf", judged=judged, exception=None, energy=E,
                        ref_energy=ref_energy, ref_D=None if ref_D is None else [np.asarray(x).tolist() for x in ref_D],
                        **base)
        return out


# ----------------------------------------------------------------------------- (i) TLC-certified fixed points
def fixed_point_plan(chk):
    quick = chk.tier == "quick"
    shapes = [("rhf", 3, 1, 1), ("rhf", 4, 2, 2), ("uhf", 3, 2, 1), ("uhf", 4, 2, 2), ("uhf", 4, 3, 1), ("uhf", 3, 2, 0)]
    if not quick:
        shapes += [("rhf", 4, 1, 1), ("rhf", 3, 2, 2), ("rhf", 4, 3, 3), ("uhf", 3, 1, 1), ("uhf", 4, 2, 1), ("uhf", 4, 1, 0),
                   ("uhf", 4, 3, 2), ("uhf", 3, 1, 0)]
    classes = ["wellcond", "wellcond", "gaponly", "degvirt", "degocc", "decoy"]
    reps = 1 if quick else 5
    plan = []
    for (kind, norb, nu, nd) in shapes:
        for d in (1, 2, 3):
            if (d == 2 and norb < 4) or (d == 3 and norb < 3):
                continue
            for cls in classes:
                if cls == "degvirt" and norb - nu < 2:
                    continue
                if cls == "degocc" and nu < 2:
                    continue
                for rep in range(reps):
                    plan.append((kind, norb, nu, nd, d, cls, rep))
    return plan


def fixed_points(chk, run: Runner, rng):
    insts = []
    for (kind, norb, nu, nd, d, cls, rep) in fixed_point_plan(chk):
        lmax = 2 if (rep % 2 == 1 and d == 1) else 1
        I = scf.gen_fixed_point(len(insts) + 1, rng, kind, norb, nu, nd, d, cls, lmax=lmax, nchol=1 + (len(insts) % 2))
        insts.append(I)
    orc = scf.scf_oracle(chk, insts)
    stats = {"instances": len(insts), "certified_fixed_points": 0, "certified_well_conditioned": 0,
             "decoys_rejected": 0, "fock_space_certified": 0, "gaponly_fixed_points": 0}
    thetas = (0.05, 0.15, 0.3)
    degenerate = []
    for I in insts:
        o = orc[I["id"]]
        if not o["wellformed"]:
            raise MachineryError(f"SCF oracle: generated instance {I['id']} is not well-formed")
        if not (o["cert_energy"] and o["cert_brillouin"]):
            raise MachineryError(f"SCF oracle: J/K formulae disagree with the second-quantised Hamiltonian on instance "
                                 f"{I['id']} - the specification is wrong")
        stats["fock_space_certified"] += int(bool(o["fock_checked"]))
        if I["cls"] == "decoy":
            if o["fixed_point"] or o["stationary"]:
                raise MachineryError(f"SCF oracle certified the decoy instance {I['id']} as a fixed point")
            stats["decoys_rejected"] += 1
            continue
        if not o["fixed_point"] or not o["step_keeps"]:
            raise MachineryError(f"generator slip: instance {I['id']} ({I['cls']}) is not a fixed point according to TLC")
        if I["cls"] != "gaponly" and not o["wellcond"]:
            raise MachineryError(f"generator slip: instance {I['id']} ({I['cls']}) not certified well-conditioned "
                                 f"(RespNorm {o['resp_n']}, gap {o['gap_n']})")
        stats["certified_fixed_points"] += 1
        stats["certified_well_conditioned"] += int(bool(o["wellcond"]))
        kind, norb, nelec, s = I["kind"], I["norb"], I["nelec"], I["s"]
        hs = [np.array(I["hn"][sp], dtype=float) / s for sp in (0, 1)]
        L = I["L"].astype(float)
        Cfull = [I["Ms"][sp] / np.sqrt(s) for sp in (0, 1)]
        C0 = [Cfull[sp][:, :nelec[sp]] for sp in (0, 1)]
        Dex = [np.array(o["dnu"], dtype=float) / s, np.array(o["dnd"], dtype=float) / s]          # TLC's exact density
        Eex = o["two_en"] / (2.0 * s * s)                                                          # TLC's exact energy
        wc = bool(o["wellcond"])
        what = (f"{kind}.optimize at a TLC-certified Hartree-Fock fixed point (norb {norb}, nelec {nelec}, orbitals M/{I['d']}, "
                f"gap {o['gap_n'] / (s * s):g}, response bound {o['resp_n'] / (s * s):g}, exact energy {Eex:.10g})")
        # started AT the fixed point (not certified contractive: also the numerical spectral radius of the Roothaan map)
        extra = None if wc else {"roothaan_radius": scf.roothaan_radius(hs, L, Dex, nelec, kind)}
        run.run(kind, norb, nelec, hs, L, C0, "fixed-point", ref_energy=Eex, ref_D=Dex, tol_e=TOL_EFP, judged=wc,
                what=what, tag=("at", I["id"]), energy_clause="energy_exact", extra=extra)
        # a converged solution is a fixed point of EVERY number of iterations, not only of the default 30: one or two
        # iterations cannot hide a wrong first Fock build behind re-convergence (and cannot amplify round-off, so
        # these are judged at every certified fixed point)
        for nit in (1, 2):
            run.code.n_opt_iter = nit
            try:
                run.run(kind, norb, nelec, hs, L, C0, "fixed-point", ref_energy=Eex, ref_D=Dex, tol_e=TOL_EFP, judged=True,
                        what=what + f", n_opt_iter={nit}", tag=("at", I["id"], nit), energy_clause="energy_exact")
            finally:
                run.code.n_opt_iter = None
        if kind == "uhf" and tuple(nelec)[0] != tuple(nelec)[1] or (kind == "uhf" and not np.allclose(Dex[0], Dex[1])):
            # the same solution with an auxiliary wave_data["rdm1"] that is not the orbitals' own density
            run.code.aux_rdm1 = "spin-averaged"
            try:
                for nit in (None, 1):
                    run.code.n_opt_iter = nit
                    run.run(kind, norb, nelec, hs, L, C0, "fixed-point", ref_energy=Eex, ref_D=Dex, tol_e=TOL_EFP,
                            judged=wc or nit == 1, what=what + f", spin-averaged wave_data['rdm1'], n_opt_iter={nit or 30}",
                            tag=("at", I["id"], "rdm1", nit), energy_clause="energy_exact")
            finally:
                run.code.aux_rdm1 = None
                run.code.n_opt_iter = None
        chk.case(("fp", I["id"]))
        chk.sample({"kind": kind, "norb": norb, "nelec": list(nelec), "orbital_scale_s": s, "class": I["cls"],
                    "h1_up_times_s": I["hn"][0].tolist(), "chol": I["L"].tolist(), "Mu": I["Ms"][0].tolist(),
                    "tlc": {k: o[k] for k in ("fixed_point", "wellcond", "gap_n", "resp_n", "two_en", "fock_checked")}},
                   limit=3)
        if not wc:
            stats["gaponly_fixed_points"] += 1
            continue
        if I["cls"] in ("degvirt", "degocc"):
            degenerate.append((I, hs, L, C0))
        # started from rotations of it
        for th in thetas:
            Cr = [scf.rotation(rng, norb, th) @ C0[sp] for sp in (0, 1)]
            if kind == "rhf":
                Cr[1] = Cr[0]
            run.run(kind, norb, nelec, hs, L, Cr, "rotated", ref_energy=Eex, tol_e=TOL_ECONV, judged=True,
                    what=what + f", start rotated by an angle <= {th}", tag=("rot", I["id"], th),
                    energy_clause="energy_from_rotated_guess")
            chk.case(("fp-rot", I["id"], th))
    chk.note("fixed_points", stats)
    return insts, orc, degenerate, stats


# ----------------------------------------------------------------------------- (ii) every input
def arbitrary_inputs(chk, run: Runner, rng):
    quick = chk.tier == "quick"
    shapes = [("rhf", 3, 1, 1), ("rhf", 4, 2, 2), ("uhf", 4, 2, 1), ("uhf", 3, 2, 0), ("uhf", 5, 3, 2)]
    if not quick:
        shapes += [("rhf", 5, 2, 2), ("rhf", 2, 1, 1), ("uhf", 4, 3, 1), ("uhf", 4, 1, 0), ("uhf", 6, 3, 3), ("rhf", 6, 3, 3)]
    n = 0
    for (kind, norb, nu, nd) in shapes:
        nelec = (nu, nd)
        for rep in range(3 if quick else 12):
            # Hamiltonians: strongly interacting (no gap condition at all), integer, degenerate one-body part
            hk = rep % 3
            if hk == 0:
                h = rng.standard_normal((norb, norb))
                h = (h + h.T) / 2
                L = rng.standard_normal((3, norb, norb))
                L = (L + L.transpose(0, 2, 1)) / 2
            elif hk == 1:
                h = scf.rand_sym(rng, norb, -2, 2).astype(float)
                L = np.array([scf.rand_sym(rng, norb, -2, 2) for _ in range(2)], dtype=float)
            else:                                             # Fock matrix degenerate at the Fermi level
                h = np.diag(np.repeat(np.arange(norb), 2)[:norb].astype(float))
                L = np.zeros((1, norb, norb)) if rep % 2 else 0.1 * np.array([np.eye(norb)])
            hs = [h, h if kind == "rhf" or rep % 2 else h + np.diag(rng.integers(-1, 2, size=norb)).astype(float)]
            Q = [np.linalg.qr(rng.standard_normal((norb, norb)))[0] for _ in (0, 1)]
            starts = {
                "strongly-perturbed": [Q[sp][:, :nelec[sp]] for sp in (0, 1)],
                "non-orthonormal": [rng.standard_normal((norb, nelec[sp])) * 1.5 for sp in (0, 1)],
                "rank-deficient": [np.repeat(Q[sp][:, :1], nelec[sp], axis=1) for sp in (0, 1)],
                "zero": [np.zeros((norb, nelec[sp])) for sp in (0, 1)],
            }
            for cls, C0 in starts.items():
                if kind == "rhf":
                    C0[1] = C0[0]
                cl = cls if hk != 2 else "degenerate-fock"
                run.run(kind, norb, nelec, hs, L, C0, cl, what=f"{kind}.optimize, norb {norb}, nelec {nelec}, "
                        f"{['random float', 'random integer', 'degenerate one-body'][hk]} Hamiltonian, {cls} start",
                        tag=("any", n))
                chk.case(("any", kind, norb, nu, nd, rep, cls))
                n += 1
    chk.note("arbitrary_inputs", n)


# ----------------------------------------------------------------------------- (i) independent solver
def spec_ratio(hs, L, Cs, es, nelec):
    """RespNorm / gap of SCF.tla evaluated in floating point at a converged solution (orbitals Cs, energies es)"""
    rn = scf.resp_norm(Cs, L, nelec)
    gaps = [es[sp][nelec[sp]] - es[sp][nelec[sp] - 1] for sp in (0, 1) if 0 < nelec[sp] < len(es[sp])]
    return float(rn / min(gaps)) if gaps and min(gaps) > 0 else float("inf")


def random_hamiltonians(chk, run: Runner, rng):
    quick = chk.tier == "quick"
    shapes = [("rhf", 4, 2, 2), ("uhf", 4, 2, 1), ("rhf", 6, 2, 2), ("uhf", 5, 3, 2)]
    if not quick:
        shapes += [("rhf", 5, 1, 1), ("uhf", 6, 3, 3), ("uhf", 4, 3, 0), ("rhf", 8, 4, 4), ("uhf", 6, 4, 2)]
    stats = {"drawn": 0, "well_conditioned_judged": 0, "skipped_not_well_conditioned": 0}
    for (kind, norb, nu, nd) in shapes:
        nelec = (nu, nd)
        for rep in range(3 if quick else 12):
            stats["drawn"] += 1
            Q = np.linalg.qr(rng.standard_normal((norb, norb)))[0]
            e = np.sort(rng.uniform(-2.0, 2.0, size=norb))
            for sp_n in {nu, nd}:
                if 0 < sp_n < norb:
                    e[sp_n:] += 3.0                               # open a one-body gap at each Fermi level
            h = Q @ np.diag(e) @ Q.T
            L = 0.25 * rng.standard_normal((3, norb, norb))
            L = (L + L.transpose(0, 2, 1)) / 2
            hs = [h, h] if kind == "rhf" else [h, h + 0.1 * np.diag(rng.standard_normal(norb))]
            core = [np.linalg.eigh(hs[sp])[1][:, :nelec[sp]] for sp in (0, 1)]
            if kind == "rhf":
                core[1] = core[0]
            for shrink in range(8):                               # weaken the interaction until the spec's bound holds
                Eref, it, Dref, Cs, es, conv = scf.independent_scf(hs, L, core, nelec)
                ratio = spec_ratio(hs, L, Cs, es, nelec)
                if conv and ratio <= 0.25:
                    break
                L = 0.7 * L
            if not conv or ratio > 0.25:
                stats["skipped_not_well_conditioned"] += 1
                continue
            stats["well_conditioned_judged"] += 1
            what = (f"{kind}.optimize on a random well-conditioned Hamiltonian (norb {norb}, nelec {nelec}, response/gap "
                    f"{ratio:.3f}); independent damped numpy SCF energy {Eref:.12g} after {it} iterations")
            run.run(kind, norb, nelec, hs, L, core, "core-guess", ref_energy=Eref, tol_e=TOL_ECONV,
                    what=what + ", core-Hamiltonian guess", tag=("rand", stats["drawn"], "core"),
                    energy_clause="energy_vs_independent_scf")
            chk.case(("rand-core", kind, norb, nu, nd, rep))
            for th in (0.1, 0.3):
                Cr = [scf.rotation(rng, norb, th) @ Cs[sp][:, :nelec[sp]] for sp in (0, 1)]
                if kind == "rhf":
                    Cr[1] = Cr[0]
                run.run(kind, norb, nelec, hs, L, Cr, "rotated", ref_energy=Eref, tol_e=TOL_ECONV,
                        what=what + f", converged orbitals rotated by <= {th}", tag=("rand", stats["drawn"], th),
                        energy_clause="energy_vs_independent_scf")
                chk.case(("rand-rot", kind, norb, nu, nd, rep, th))
    chk.note("random_hamiltonians", stats)


def molecules(chk, run: Runner, rng):
    import scipy.linalg as sl
    from pyscf import gto
    from pyscf import scf as pyscf_scf
    names = ["H2", "H4", "LiH", "H3"] if chk.tier == "quick" else list(MOLS)
    info = {}
    for name in names:
        atom, spin = MOLS[name]
        mol = gto.M(atom=atom, basis="sto-3g", spin=spin, verbose=0)
        n, nelec = mol.nao_nr(), tuple(int(x) for x in mol.nelec)
        X = sl.fractional_matrix_power(mol.intor("int1e_ovlp"), -0.5).real           # Loewdin orthogonalisation
        h = X.T @ (mol.intor("int1e_kin") + mol.intor("int1e_nuc")) @ X
        eri = np.einsum("pqrs,pi,qj,rk,sl->ijkl", mol.intor("int2e"), X, X, X, X, optimize=True)
        w, v = np.linalg.eigh(eri.reshape(n * n, n * n))                              # exact factorisation of the ERIs
        keep = w > 1e-13
        L = (v[:, keep] * np.sqrt(w[keep])).T.reshape(-1, n, n)
        L = (L + L.transpose(0, 2, 1)) / 2
        if np.abs(np.einsum("gpq,grs->pqrs", L, L) - eri).max() > 1e-10:
            raise MachineryError(f"{name}: eigen-factorisation of the ERIs does not reproduce them")
        kind = "rhf" if spin == 0 else "uhf"
        mf = pyscf_scf.RHF(mol) if spin == 0 else pyscf_scf.UHF(mol)
        mf.conv_tol = 1e-12
        e_pyscf = float(mf.kernel() - mol.energy_nuc())
        hs = [h, h]
        core = [np.linalg.eigh(h)[1][:, :nelec[sp]] for sp in (0, 1)]
        Eref, it, Dref, Cs, es, conv = scf.independent_scf(hs, L, core, nelec)
        ratio = spec_ratio(hs, L, Cs, es, nelec)
        rho = scf.roothaan_radius(hs, L, Dref, nelec, kind)
        judged = rho <= RHO_MAX
        info[name] = {"norb": n, "nelec": list(nelec), "pyscf": e_pyscf, "independent_scf": Eref, "iterations": it,
                      "response_over_gap": ratio, "roothaan_spectral_radius": round(rho, 4), "judged": bool(judged),
                      "converged": conv}
        if not conv or abs(Eref - e_pyscf) > 1e-8 * max(1.0, abs(e_pyscf)):
            raise MachineryError(f"{name}: the harness's independent SCF ({Eref}) and pyscf ({e_pyscf}) disagree")
        what = (f"{kind}.optimize on {name}/sto-3g (Loewdin basis, norb {n}, nelec {nelec}); electronic energy: independent "
                f"numpy SCF {Eref:.12g}, pyscf {e_pyscf:.12g}")
        run.run(kind, n, nelec, hs, L, core, "molecule", ref_energy=Eref, tol_e=TOL_ECONV, judged=judged,
                what=what + ", core-Hamiltonian guess", tag=("mol", name, "core"), energy_clause="energy_vs_independent_scf")
        chk.case(("mol-core", name))
        for th in (0.0, 0.1, 0.3):
            Cr = [scf.rotation(rng, n, th) @ Cs[sp][:, :nelec[sp]] for sp in (0, 1)]
            if kind == "rhf":
                Cr[1] = Cr[0]
            run.run(kind, n, nelec, hs, L, Cr, "molecule", ref_energy=Eref, tol_e=TOL_ECONV, judged=judged,
                    what=what + f", converged orbitals rotated by <= {th}", tag=("mol", name, th),
                    energy_clause="energy_vs_independent_scf")
            chk.case(("mol-rot", name, th))
    chk.note("molecules", info)


# ----------------------------------------------------------------------------- (iii) eigen-derivative
def eigh_plan(chk):
    quick = chk.tier == "quick"
    reps = 2 if quick else 10
    plan = []
    for n in (2, 3, 4, 5):
        for d in (1, 2, 3):
            if (d == 2 and n < 4) or (d == 3 and n < 3):
                continue
            for rep in range(reps):
                plan += [(n, d, "nondeg", None), (n, d, "rational", None), (n, d, "gap1e-3", None), (n, d, "tie2", None)]
                if n >= 3:
                    plan += [(n, d, "tie3", None), (n, d, "tieall", None), (n, d, "wide", None)]
                for k in range(4, 9):
                    if k >= 7 and d == 3:
                        continue
                    if quick and rep > 0 and k not in (4, 8):
                        continue
                    plan.append((n, d, "near", k))
                    if n >= 4 and (not quick or rep == 0):
                        plan.append((n, d, "tie+near", k))
    return plan


def eigen_derivative(chk, code, R, rng):
    insts = [scf.gen_eigh(i + 1, rng, n, d, cls, k) for i, (n, d, cls, k) in enumerate(eigh_plan(chk))]
    orc = scf.eigh_oracle(chk, insts)
    stats = {"instances": len(insts), "nondegenerate_judged": 0, "exact_tie": 0, "near_tie": 0,
             "bitwise_equal_eigenvalues_from_lapack": 0}
    for I in insts:
        o = orc[I["id"]]
        if not o["wellformed"] or not all(g["cert"] for g in o["groups"]):
            raise MachineryError(f"Eigh oracle: instance {I['id']} ({I['cls']}) not well-formed / certificate failed")
        exact_tie = I["cls"].startswith("tie")
        if o["nondegenerate"] != (I["cls"] in ("nondeg", "rational", "gap1e-3", "wide")):
            raise MachineryError(f"Eigh oracle: instance {I['id']} ({I['cls']}) misclassified by the generator")
        n, s, M = I["n"], I["s"], I["M"].astype(float)
        A = np.array(o["anum"], dtype=float) / float(o["aden"])
        Ad = I["adot"].astype(float)
        got, exc = scf.attempt(code.eigh_jvp, A, Ad)
        cls = "nondegenerate" if o["nondegenerate"] else ("exact-tie" if exact_tie else "near-tie")
        base = {"A": A.tolist(), "Adot": Ad.tolist(), "cls": cls, "gen": I["cls"], "k": I["k"], "n": n, "d": I["d"],
                "spectrum": [I["wn"], I["wden"]], "min_gap": scf.qf(o["min_gap"])}
        chk.traces += 1
        chk.case(("eigh", I["id"]))
        if got is None or not all_finite(*got):
            R.push([], finite=False, rtype="eigh-finite", judged=True, exception=exc, **base)
            continue
        w, v, dw, dv = got
        R.push([], finite=True, rtype="eigh-finite", judged=True, exception=None, **base)
        # the same derivative in REVERSE mode (how the library differentiates through the SCF): finite for every spectrum,
        # and dual to the forward rule, <cw, dw> + <cv, dv> = <A_bar, Adot>, where the spectrum is non-degenerate
        rv = np.random.default_rng(1800 + I["id"])
        cw_, cv_ = rv.normal(size=n), rv.normal(size=(n, n))
        gA, exc2 = scf.attempt(code.eigh_vjp, A, cw_, cv_)
        if gA is None or not all_finite(gA):
            R.push([], finite=False, rtype="eigh-finite", judged=True, exception=exc2 or "non-finite cotangent in reverse mode", **base)
            continue
        if o["nondegenerate"]:
            lhs = float(np.sum(cw_ * dw) + np.sum(cv_ * dv))
            rhs = float(np.sum(gA * Ad))
            sc_d = max(1.0, float(np.abs(Ad).max()) / max(scf.qf(o["min_gap"]), 1e-3))
            R.push([("reverse_forward_duality", abs(lhs - rhs), sc_d * max(1.0, abs(lhs)), TOL_DERIV)], finite=True, rtype="eigh-deriv", judged=True,
                   exception=None, dw=dw.tolist(), exact_wdot=[scf.qf(g["wdot"]) for g in o["groups"]], **base)
        if cls == "exact-tie":
            stats["exact_tie"] += 1
            stats["bitwise_equal_eigenvalues_from_lapack"] += int(len(set(w.tolist())) < n)
        elif cls == "near-tie":
            stats["near_tie"] += 1
        # gauge-invariant objects assembled from (v, vdot), in the exact eigenbasis
        # natural size of the derivative: |Adot| for eigenvalues, |Adot| / (smallest gap) for eigenvectors
        e_w, e_x, sc_w = 0.0, 0.0, max(1.0, float(np.abs(Ad).max()))
        sc_x = max(1.0, float(np.abs(Ad).max()) / max(scf.qf(o["min_gap"]), 1e-3))
        for g in o["groups"]:
            mem = [m - 1 for m in g["members"]]
            Pd = sum(np.outer(dv[:, i], v[:, i]) + np.outer(v[:, i], dv[:, i]) for i in mem)
            Xc = M.T @ Pd @ M / s
            Xe = np.array([[scf.qf(x) for x in row] for row in g["X"]])
            wd = scf.qf(g["wdot"])
            e_w = max(e_w, abs(float(sum(dw[i] for i in mem)) - wd))
            e_x = max(e_x, float(np.abs(Xc - Xe).max()))
            sc_w, sc_x = max(sc_w, abs(wd)), max(sc_x, float(np.abs(Xe).max()))
        clauses = [("eigenvalue_derivative", e_w, sc_w, TOL_DERIV), ("projector_derivative", e_x, sc_x, TOL_DERIV)]
        if o["nondegenerate"]:
            stats["nondegenerate_judged"] += 1
            R.push(clauses, finite=True, rtype="eigh-deriv", judged=True, exception=None,
                   dw=dw.tolist(), exact_wdot=[scf.qf(g["wdot"]) for g in o["groups"]], **base)
            chk.sample({"eigh_instance": {"M": I["M"].tolist(), "s": s, "spectrum": [I["wn"], I["wden"]], "Adot": I["adot"].tolist(),
                                          "exact_wdot": [g["wdot"] for g in o["groups"]], "code_wdot": dw.tolist()}}, limit=5)
        else:       # observation only: the regularised rule still differentiates whole clusters correctly?
            R.push(clauses, finite=True, rtype="eigh-cluster-obs", judged=False, exception=None, **base)
    return stats


def optimize_jvp(chk, code, R, degenerate, rng):
    """jvp of optimize at a certified fixed point with a degenerate virtual / occupied pair: finite?"""
    done = 0
    seen = set()
    for (I, hs, L, C0) in degenerate:
        key = (I["kind"], I["norb"], I["nelec"], I["cls"], I["d"])
        if key in seen and chk.tier == "quick":
            continue
        seen.add(key)
        norb = I["norb"]
        h1dot = np.array([scf.rand_sym(rng, norb, -2, 2) for _ in (0, 1)], dtype=float)
        Ldot = np.array([scf.rand_sym(rng, norb, -1, 1) for _ in range(len(L))], dtype=float)
        got, exc = scf.attempt(code.optimize_jvp, I["kind"], norb, I["nelec"], np.array(hs), L, C0, h1dot, Ldot)
        fin = got is not None and all_finite(*got[0]) and all_finite(*got[1])
        R.push([], finite=fin, rtype="opt-jvp", judged=True, exception=exc, kind=I["kind"], norb=norb, nelec=list(I["nelec"]),
               cls="degenerate-virtual" if I["cls"] == "degvirt" else "degenerate-occupied",
               h1=np.array(hs).tolist(), chol=L.tolist(), start=[C0[0].tolist(), C0[1].tolist()],
               h1dot=h1dot.tolist(), choldot=Ldot.tolist(),
               tangent_max=None if not fin else float(max(np.abs(t).max() if t.size else 0.0 for t in got[1])))
        chk.case(("opt-jvp", I["id"]))
        chk.traces += 1
        done += 1
    chk.note("optimize_jvp_at_degenerate_fixed_points", done)


# ----------------------------------------------------------------------------- verdicts -> report
def site_of(k, failed):
    t = k["rtype"]
    if t == "orth":
        return f"{k['kind']}.optimize:orthonormal:{k['cls']}"
    if t == "scf":
        return f"{k['kind']}.optimize:{failed}:{k['cls']}"
    if t == "eigh-finite":
        return f"linalg_utils._eigh:jvp-non-finite:{k['cls']}"
    if t == "eigh-deriv":
        return f"linalg_utils._eigh:jvp:{failed}"
    if t == "opt-jvp":
        return f"{k['kind']}.optimize:jvp-non-finite:{k['cls']}"
    return t


SELFTEST = [
    ([("a", 0.9e-10, 1.0, -10)], True, True), ([("a", 1.1e-10, 1.0, -10)], True, False),
    ([("a", 0.0, 1.0, -10), ("b", 2e-6, 1.0, -6)], True, False), ([("a", 4.9e-5, 50.0, -6)], True, True),
    ([("a", 5.1e-5, 50.0, -6)], True, False), ([], False, False), ([], True, True),
    ([("a", float("inf"), 1.0, -8)], True, False), ([("a", 1e-300, 1.0, -10)], True, True),
    ([("a", 3e-9, 1234.5, -8), ("b", 1.3e-5, 1234.5, -8)], True, False),
]


def report(chk, R, verdicts):
    obs = {"gaponly_fixed_point_runs": 0, "gaponly_fixed_point_left": 0, "tied_cluster_runs": 0, "tied_cluster_agree": 0,
           "rho_left": [], "rho_kept": [], "mol": {}}
    worst = {}
    for r in R.recs:
        k, v = R.info[r["id"]], verdicts[r["id"]]
        if k["rtype"] == "selftest":
            if v["ok"] != k["expect"]:
                raise MachineryError(f"judge self-test failed: {k['raw']} finite={r['finite']} -> {v}")
            continue
        chk.traces += 1 if k["rtype"] in ("orth",) else 0
        for (nm, err, scale, tolexp) in k["raw"]:
            if k.get("judged") and np.isfinite(err):
                worst[nm] = max(worst.get(nm, 0.0), err / scale)
        if not k.get("judged"):
            if k["rtype"] == "scf" and k["cls"] == "molecule":
                obs["mol"][k["tag"][1]] = max(obs["mol"].get(k["tag"][1], 0.0), max(e / sc for (_, e, sc, _) in k["raw"]))
            elif k["rtype"] == "scf":
                obs["gaponly_fixed_point_runs"] += 1
                obs["gaponly_fixed_point_left"] += int(not v["ok"])
                obs["rho_kept" if v["ok"] else "rho_left"].append(round(k.get("roothaan_radius", float("nan")), 3))
                if not v["ok"]:
                    # the property says unconditionally "leaves a converged Hartree-Fock solution unchanged": a TLC-certified
                    # fixed point that the 30 undamped iterations leave IS a violation; it gets its own site key (the
                    # failing input class: Roothaan map not contractive at the solution) so that it can be a known finding
                    # while a converged solution lost on a contractive problem is still reported
                    chk.violation(f"{k['kind']}.optimize:converged-solution-not-kept:roothaan-not-contractive",
                                  f"{k['what']}: started exactly at the converged solution, the output has a different occupied "
                                  f"space / energy after the fixed 30 undamped iterations (numerical spectral radius of the "
                                  f"Roothaan map at the solution {k.get('roothaan_radius', float('nan')):.3g} > 1: round-off is amplified)",
                                  {kk: vv for kk, vv in k.items() if kk != "raw"} | {"verdict": v})
            elif k["rtype"] == "eigh-cluster-obs":
                obs["tied_cluster_runs"] += 1
                obs["tied_cluster_agree"] += int(v["ok"])
            continue
        if v["ok"]:
            continue
        failed = v["failed"][0] if v["failed"] else "non-finite"
        raw = {nm: (err, scale * 10.0 ** tolexp) for (nm, err, scale, tolexp) in k["raw"]}
        if k.get("exception"):
            detail = f"raised {k['exception']}"
        elif not v["finite_ok"]:
            detail = "non-finite (NaN/inf) output"
        else:
            detail = "; ".join(f"{nm}: {raw[nm][0]:.3e} > bound {raw[nm][1]:.3e}" for nm in v["failed"])
        if k["rtype"] in ("orth", "scf"):
            what = f"{k['what']}: {detail}"
        elif k["rtype"].startswith("eigh"):
            what = (f"jax.jvp(linalg_utils._eigh) on a {k['n']}x{k['n']} matrix with exact spectrum {k['spectrum'][0]}/"
                    f"{k['spectrum'][1]} ({k['cls']}, min gap {k['min_gap']:g}): {detail}")
        else:
            what = (f"jax.jvp of {k['kind']}.optimize (norb {k['norb']}, nelec {k['nelec']}) at a TLC-certified fixed point with a "
                    f"{k['cls']} pair: {detail}")
        chk.violation(site_of(k, failed), what, dict(k) | {"verdict": v})
    chk.note("observations_not_judged", {
        "fixed_points_certified_with_gap>=1_but_not_contractive": {
            "runs": obs["gaponly_fixed_point_runs"], "moved_or_energy_changed_after_30_iterations": obs["gaponly_fixed_point_left"],
            "numerical_spectral_radius_of_the_roothaan_map_where_moved": sorted(obs["rho_left"]),
            "numerical_spectral_radius_of_the_roothaan_map_where_kept": sorted(obs["rho_kept"])},
        "molecules_with_slowly_contracting_roothaan_map_(worst |E - E_ref|/max(1,|E|) after 30 iterations)":
            {k2: float(f"{x:.3e}") for k2, x in obs["mol"].items()},
        "cluster_projector_and_summed_eigenvalue_derivatives_in_(near-)tied_spectra": {
            "runs": obs["tied_cluster_runs"], "equal_to_exact_within_1e-8": obs["tied_cluster_agree"]}})
    chk.note("worst_judged_residual_over_scale", {k: float(f"{x:.3e}") for k, x in sorted(worst.items())})


def run(chk: Check):
    repo_setup()
    code = scf.Code()
    chk.rule = ("(a) design level: TLC checks exhaustively on small integer spaces that the J/K Roothaan formulae of SCF.tla "
                "are the second-quantised ones (energy, Brillouin) and that Eigh.tla's derivative satisfies the differentiated "
                "projector identities; (b) instance = exact Hartree-Fock fixed point built on integers (norb 3-4, closed/open "
                "shell, orbitals = signed permutation, Hadamard/2 or [[1,2,2],..]/3, gap-only / well-conditioned / degenerate "
                "pairs / decoys), certified by TLC (fixed point, gap, contraction bound, exact energy), replayed into "
                "rhf/uhf.optimize at the fixed point and from rotations <= 0.05/0.15/0.3; (c) arbitrary Hamiltonians x "
                "arbitrary starts for orthonormality; random well-conditioned Hamiltonians and molecules against an "
                "independent numpy SCF; (d) instance = exact eigen-decomposition (n 2-5, integer/rational spectra, gap 1e-3, "
                "near ties 1e-4..1e-8, exact ties) x integer tangent, TLC gives exact eigenvalue and spectral-projector "
                "derivatives; jax.jvp(_eigh) replayed; (e) jvp of optimize at degenerate fixed points. Every tolerance clause "
                "is judged by TLC (SCF.tla SpecJudge). case = (instance, start); all cases non-trivial")
    chk.assumptions += [
        "DECIDED BY TLC: fixed-point certification (occupied-virtual Fock block zero, Gershgorin gap >= 1), the contraction "
        "bound 4*RespNorm <= gap that defines 'well-conditioned', the exact energy <D|H|D>, its agreement with the "
        "second-quantised Hamiltonian (Fock.tla) where 32-bit integers allow, the exact eigenvalue / projector derivatives and "
        "their defining identities, the cluster structure of each spectrum (tau = 1/2000), and every tolerance comparison",
        "NUMERICAL OBSERVATION (not decidable by TLC): that 30 Roothaan iterations from a rotated start / core guess reach the "
        "reference energy, and agreement with the harness's independent damped numpy SCF (itself cross-checked against pyscf "
        "on the molecules)",
        "'leaves a converged solution unchanged' and 'converges from a reasonable guess' are judged at fixed points TLC "
        "certifies as well-conditioned (linearised Roothaan map a contraction by <= 1/4); fixed points with gap >= 1 only "
        "are replayed too but reported as observations (an undamped Roothaan iteration may legitimately amplify round-off there)",
        "random float Hamiltonians are judged only when the spec's RespNorm/gap, evaluated in floating point at the "
        "independent solver's solution, is <= 1/4; the molecules (H2, H4, LiH, H3, [thorough: H2O, H4 triplet, Li], sto-3g, "
        "Loewdin-orthogonalised, ERIs factorised exactly by eigen-decomposition) are judged when the numerically "
        "estimated spectral radius of the Roothaan map at the solution is <= 0.75 (30 iterations then shrink an error "
        "by 2e-4; stretched triplet H4 has 0.89 and is reported as an observation)",
        "tolerances: orthonormality 1e-10; occupied projector at a fixed point 1e-8; energy at a fixed point 1e-8*max(1,|E|); "
        "energy from a perturbed start 1e-6*max(1,|E|); eigenvalue derivatives 1e-8*max(1,|exact|,|Adot|), projector "
        "derivatives 1e-8*max(1,|exact|,|Adot|/min gap) (round-off of an eigenvector derivative is eps*|A||Adot|/gap^2), "
        "judged when every gap >= 1e-3; (near) ties: finiteness only - cluster-level agreement is reported as an observation",
        "energies of the code's output are computed by numpy from D = C C^T (the library's energy kernels are C02's subject)",
        "eigen-derivatives are compared through gauge-invariant objects (sum of eigenvalue derivatives and derivative of the "
        "spectral projector per cluster, expressed in the exact eigenbasis), never through LAPACK's eigenvector signs/order"]
    chk.trusted_base += ["pyscf integrals and RHF/UHF energies", "numpy/scipy dense linear algebra (eigh, expm, S^-1/2)",
                         "jax.jvp as the AD entry point"]
    theorems(chk)
    rng = np.random.default_rng(chk.seed + 1800)
    R = scf.Records()
    runner = Runner(chk, code, R)
    insts, orc, degenerate, fpstats = fixed_points(chk, runner, rng)
    arbitrary_inputs(chk, runner, rng)
    random_hamiltonians(chk, runner, rng)
    molecules(chk, runner, rng)
    estats = eigen_derivative(chk, code, R, rng)
    optimize_jvp(chk, code, R, degenerate, rng)
    for clauses, fin, expect in SELFTEST:
        R.push(clauses, finite=fin, rtype="selftest", expect=expect)
    verdicts = scf.judge(chk, R)
    report(chk, R, verdicts)
    chk.note("eigen_derivative", estats)
    chk.note("records_judged_by_tlc", len(R.recs))
    chk.note("tolerances", {"orthonormal": 1e-10, "projector_at_fixed_point": 1e-8, "energy_at_fixed_point_rel": 1e-8,
                            "energy_converged_rel": 1e-6, "eigen_derivative_rel": 1e-8})


# ----------------------------------------------------------------------------- replay of a stored case
def replay(chk: Check, case):
    repo_setup()
    code = scf.Code()
    c = case["case"]
    R = scf.Records()
    if c["rtype"] in ("orth", "scf"):
        hs = [np.array(x) for x in c["h1"]]
        L = np.array(c["chol"])
        C0 = [np.array(x).reshape(c["norb"], -1) for x in c["start"]]
        raw = {nm: (err, scale, tolexp) for (nm, err, scale, tolexp) in c.get("raw", [])}
        en = [nm for nm in raw if nm.startswith("energy")]
        Runner(chk, code, R).run(c["kind"], c["norb"], tuple(c["nelec"]), hs, L, C0, c["cls"],
                                 ref_energy=c.get("ref_energy"), tol_e=raw[en[0]][2] if en else None, what=c.get("what", ""),
                                 ref_D=None if c.get("ref_D") is None else [np.array(x) for x in c["ref_D"]],
                                 energy_clause=en[0] if en else "energy")
    elif c["rtype"].startswith("eigh"):
        got, exc = scf.attempt(code.eigh_jvp, np.array(c["A"]), np.array(c["Adot"]))
        fin = got is not None and all_finite(*got)
        R.push([], finite=fin, rtype="eigh-finite", judged=True, exception=exc,
               **{k: c[k] for k in ("A", "Adot", "cls", "gen", "k", "n", "d", "spectrum", "min_gap")})
        if c["rtype"] == "eigh-deriv":
            raise MachineryError(f"replay of the exact derivative comparison needs the oracle: rerun with VERIF_SEED={case['seed']}")
    elif c["rtype"] == "opt-jvp":
        got, exc = scf.attempt(code.optimize_jvp, c["kind"], c["norb"], tuple(c["nelec"]), np.array(c["h1"]), np.array(c["chol"]),
                               [np.array(x).reshape(c["norb"], -1) for x in c["start"]], np.array(c["h1dot"]), np.array(c["choldot"]))
        fin = got is not None and all_finite(*got[0]) and all_finite(*got[1])
        R.push([], finite=fin, rtype="opt-jvp", judged=True, exception=exc,
               **{k: c[k] for k in ("kind", "norb", "nelec", "cls", "h1", "chol", "start", "h1dot", "choldot")})
    else:
        raise MachineryError(f"replay of record type {c['rtype']} not supported")
    report(chk, R, scf.judge(chk, R, "replay"))
