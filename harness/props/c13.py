"""C13 - orthonormalisation and initial walkers never change the represented state."""
import itertools

import numpy as np

from .. import wf, wfcheck
from ..core import Check, MachineryError, repo_setup

LEVEL = "model_checking"


def run(chk: Check):
    repo_setup()
    import jax.numpy as jnp
    from ad_afqmc import linalg_utils, propagation
    from .c01 import theorems
    chk.rule = ("exact instances (WfOracle.tla) whose walkers A are full-column-rank Gaussian-integer matrices: the library "
                "re-orthonormalises A (qr_vmap, qr_vmap_uhf, orthonormalize_walkers, _orthogonalize_walkers) and the "
                "contract is judged: Q orthonormal, same column space, every minor of A = minor of Q x returned norm, "
                "overlap(A)_exact = overlap(Q)_library x norms, energy/force bias of Q = TLC's exact values for A; initial "
                "walkers of every trial kind: shape, count, orthonormal, overlap bounded away from 0 or explicit ValueError, "
                "and e_estimate = TLC's exact variational energy for single-determinant trials; case = (instance, walker, clause)")
    chk.assumptions += ["rank-deficient walkers are outside the property's quantifier and never generated (exact minor test)",
                        "tolerance 1e-9 relative; QR itself (square roots) is never computed by the spec, only its contract"]
    theorems(chk)
    big = chk.tier == "thorough"
    rng = np.random.default_rng(1300 + chk.seed)
    kinds = ("rhf", "uhf", "ghf", "noci", "ucisd", "cisd") if not big else ("rhf", "uhf", "ghf", "noci", "multislater", "ucisd", "cisd", "CISD", "UCISD")
    insts = []
    iid = 0
    for kind in kinds:
        for (norb, nu, nd) in ([(3, 2, 1), (4, 2, 2)] if kind not in wf.RESTRICTED_ONLY and kind != "rhf" else [(3, 1, 1), (4, 2, 2)]):
            for rep in range(3 if big else 1):
                iid += 1
                restricted = kind in wf.RESTRICTED_ONLY or (kind == "rhf" and rep % 2 == 0)
                try:
                    insts.append(wf.make_instance(iid, rng, kind, norb, nu, nd, 2, 3, restricted, want=("e", "fb")))
                except MachineryError:
                    pass
    # single-determinant trials with exactly orthonormal integer orbitals, walker = the trial itself (variational energy)
    var_insts = []
    for kind in ("rhf", "uhf"):
        for (norb, nu, nd) in [(3, 1, 1), (4, 2, 2), (3, 2, 1), (4, 3, 1), (3, 2, 0)]:
            if kind == "rhf" and nu != nd:
                continue
            for rep in range(2 if big else 1):
                iid += 1
                Mu, _ = wf.orth_scaled(rng, norb, mix=False)
                Md, _ = (Mu, 1) if kind == "rhf" else wf.orth_scaled(rng, norb, mix=False)
                tr = {"kind": kind, "json": {"kind": "sd", "tup": wf.enc_c(Mu[:, :nu]), "tdn": wf.enc_c(Md[:, :nd])}}
                if kind == "rhf":
                    tr["C"] = Mu[:, :nu] * 1.0
                else:
                    tr["Cu"], tr["Cd"] = Mu[:, :nu] * 1.0, Md[:, :nd] * 1.0
                ham = wf.gen_ham(rng, norb, 2, kind == "uhf")
                ws = [(Mu[:, :nu] + 0j, Md[:, :nd] + 0j)]
                js = {"id": iid, "norb": norb, "nup": nu, "ndn": nd, "trial": tr["json"], "h1u": wf.enc_i(ham["h1u"]),
                      "h1d": wf.enc_i(ham["h1d"]), "chol": [wf.enc_i(c) for c in ham["chol"]],
                      "walkers": [{"wup": wf.enc_c(ws[0][0]), "wdn": wf.enc_c(ws[0][1])}], "want_e": True, "want_fb": False,
                      "want_rdm": False}
                var_insts.append({"id": iid, "kind": kind, "norb": norb, "nu": nu, "nd": nd, "nchol": 2, "restricted": False,
                                  "spin_dep": kind == "uhf", "trial": tr, "ham": ham, "walkers": ws, "json": js})
    res, skipped = wfcheck.tlc_eval_robust(chk, insts + var_insts, "c13")
    chk.note("skipped_overflow", skipped)
    # ------------------------------------------------------------------ re-orthonormalisation
    for I in insts:
        if I["id"] not in res:
            continue
        ex = wf.exact_values(I, res[I["id"]])
        norb, nu, nd = I["norb"], I["nu"], I["nd"]
        ups = np.array([w[0] for w in I["walkers"]])
        dns = np.array([w[1] for w in I["walkers"]])
        routes = []
        if I["restricted"]:
            q, nrm = linalg_utils.qr_vmap(jnp.array(ups))
            routes.append(("qr_vmap", np.asarray(q), None, np.asarray(nrm), None))
            P = propagation.propagator_restricted(n_walkers=len(ups))
            q2 = np.asarray(P.orthonormalize_walkers({"walkers": jnp.array(ups), "overlaps": jnp.ones(len(ups)) + 0.0j, "weights": jnp.ones(len(ups))})["walkers"])
            routes.append(("restricted.orthonormalize_walkers", q2, None, None, None))
        else:
            q, nrm = linalg_utils.qr_vmap_uhf([jnp.array(ups), jnp.array(dns)])
            routes.append(("qr_vmap_uhf", np.asarray(q[0]), np.asarray(q[1]), np.asarray(nrm[0]), np.asarray(nrm[1])))
            P = propagation.propagator_unrestricted(n_walkers=len(ups))
            pd, nr2 = P._orthogonalize_walkers({"walkers": [jnp.array(ups), jnp.array(dns)]})
            routes.append(("unrestricted._orthogonalize_walkers", np.asarray(pd["walkers"][0]), np.asarray(pd["walkers"][1]),
                           np.asarray(nr2[0]), np.asarray(nr2[1])))
            q3 = P.orthonormalize_walkers({"walkers": [jnp.array(ups), jnp.array(dns)], "overlaps": jnp.ones(len(ups)) + 0.0j, "weights": jnp.ones(len(ups))})["walkers"]
            routes.append(("unrestricted.orthonormalize_walkers", np.asarray(q3[0]), np.asarray(q3[1]), None, None))
        for name, qu, qd, nu_f, nd_f in routes:
            site = f"qr:{name}"
            for k in range(len(ups)):
                blocks = [(ups[k], qu[k], None if nu_f is None else nu_f[k])]
                if qd is not None:
                    blocks.append((dns[k], qd[k], None if nd_f is None else nd_f[k]))
                for A, Q, f in blocks:
                    chk.case((I["id"], name, k, A.shape[1]))
                    ne = A.shape[1]
                    bad = None
                    if not np.allclose(Q.conj().T @ Q, np.eye(ne), atol=1e-12):
                        bad = "columns not orthonormal"
                    elif not np.allclose(A - Q @ (Q.conj().T @ A), 0, atol=1e-10):
                        bad = "column space changed"
                    elif f is not None:
                        for rows in itertools.combinations(range(A.shape[0]), ne):
                            da, dq = np.linalg.det(A[list(rows)]), np.linalg.det(Q[list(rows)])
                            if abs(da - dq * f) > 1e-9 * max(1, abs(da)):
                                bad = f"minor {rows}: det A = {da} but det Q x norm = {dq * f}"
                                break
                    if bad:
                        chk.violation(site, f"{name} on walker {k} of instance {I['id']} ({norb} orbitals): {bad}",
                                      {"instance": I["json"], "walker": k})
            # the represented state: exact overlap(A) = overlap(Q) x norms; energy / force bias unchanged
            J = dict(I)
            J["walkers"] = [(qu[k], qd[k] if qd is not None else qu[k][:, :nd]) for k in range(len(ups))]
            for what in ("ov", "e", "fb"):
                got = wfcheck.lib_eval(J, what)
                if what == "ov":
                    if nu_f is None:
                        continue
                    fac = nu_f * (nd_f if nd_f is not None else nu_f[:len(nu_f)] ** 0) if qd is not None else None
                    if qd is None:     # restricted: both spins are the same determinant; beta uses the first nd columns
                        if nu != nd:
                            continue
                        fac = nu_f ** 2
                    got = {c: (v if isinstance(v, dict) else v * fac) for c, v in got.items()}
                from .c02 import tol_for
                wfcheck.compare(chk, I, ex, got, what, tol_for(I["kind"]) if what == "e" else wfcheck.TOL64,
                                f"qr-state:{name}", tag=f"/after {name}")
        chk.traces += 1
    # ------------------------------------------------------------------ orthonormalize_walkers and the stored overlaps
    # the propagators' orthonormalize_walkers may leave prop_data["overlaps"] alone (the sampler recomputes them) - but IF it
    # touches them, the stored value must be the overlap of the walkers it returns; checked where a shortcut is tempting
    # and wrong: restricted walkers with an open-shell trial (the down determinant sees only the leading n_dn columns)
    from .. import runlevel as _rl0
    for (nelec, wt) in (((3, 2), "rhf"), ((3, 1), "rhf"), ((2, 2), "rhf"), ((3, 2), "uhf")):
        sysd = _rl0.make_system(np.random.default_rng(1340 + chk.seed + nelec[0] * 10 + nelec[1]), norb=5, nelec=nelec, nchol=2,
                                trial_kind="uhf" if nelec[0] != nelec[1] or wt == "uhf" else "rhf", walker_type=wt, n_walkers=3,
                                dt=0.05, proxied=False)
        trial, prop = sysd["trial"], sysd["prop"]
        r0_ = np.random.default_rng(1341 + chk.seed)
        mk_ = lambda ne: jnp.array(r0_.normal(size=(3, 5, ne)) + 1j * r0_.normal(size=(3, 5, ne)))
        wk0 = mk_(nelec[0]) if wt == "rhf" else [mk_(nelec[0]), mk_(nelec[1])]
        ov_in = trial.calc_overlap(wk0, sysd["wave_data"])
        out = prop.orthonormalize_walkers({"walkers": wk0, "overlaps": ov_in, "weights": jnp.ones(3)})
        chk.case(("orthonormalize-stored-overlaps", nelec, wt))
        chk.traces += 1
        if "overlaps" in out and not np.array_equal(np.asarray(out["overlaps"]), np.asarray(ov_in)):
            ov_q = np.asarray(trial.calc_overlap(out["walkers"], sysd["wave_data"]))
            if np.max(np.abs(np.asarray(out["overlaps"]) - ov_q) / np.abs(ov_q)) > 1e-9:
                chk.violation(f"qr-state:orthonormalize_walkers:stored-overlaps:{wt}", f"{wt} walkers, nelec {nelec}: orthonormalize_walkers "
                              f"changed the stored overlaps to {np.asarray(out['overlaps']).tolist()}, the returned walkers have "
                              f"{ov_q.tolist()}", {"nelec": list(nelec), "walker_type": wt})
    # ------------------------------------------------------------------ free projection accumulates the norm factors
    # propagate_free re-orthonormalises after every step and multiplies the triangular-factor determinants into
    # prop_data["norms"]: the state it represents afterwards, overlap(Q) x norms_out, must be the state it propagated,
    # overlap(A) x norms_in with A the propagated, not yet orthonormalised walker (same library calls, no QR)
    from .. import runlevel as _rl
    for (nelec, sd) in (((2, 1), 0), ((2, 2), 1), ((3, 1), 2)):
        sysd = _rl.make_system(np.random.default_rng(1350 + sd + chk.seed), norb=4, nelec=nelec, nchol=3, trial_kind="uhf",
                               walker_type="uhf", n_walkers=4, dt=0.05, vscale=0.5, proxied=False)
        trial, prop, ham = sysd["trial"], sysd["prop"], sysd["ham"]
        hdp = ham.build_measurement_intermediates(dict(sysd["ham_data"]), trial, sysd["wave_data"])
        hdp = ham.build_propagation_intermediates(hdp, prop, trial, sysd["wave_data"])
        r3 = np.random.default_rng(1360 + sd + chk.seed)
        nw = 4
        wk = [jnp.array(r3.normal(size=(nw, 4, ne)) + 1j * r3.normal(size=(nw, 4, ne))) for ne in nelec]
        norms_in = jnp.array(r3.normal(size=nw) + 1j * r3.normal(size=nw))
        fields = jnp.array(r3.normal(size=(nw, hdp["chol"].shape[0])))
        pdp = prop.init_prop_data(trial, sysd["wave_data"], hdp, None)
        pdp["walkers"], pdp["norms"] = [jnp.array(x) for x in wk], norms_in
        shift_term = jnp.einsum("wg,sg->sw", fields, hdp["mf_shifts_fp"])
        consts = jnp.einsum("sw,s->sw", jnp.exp(-jnp.sqrt(prop.dt) * shift_term), jnp.exp(prop.dt * hdp["h0_prop_fp"]))
        A = prop._multiply_constant(prop._apply_trotprop(hdp, [jnp.array(x) for x in wk], fields), consts)
        ref = np.asarray(trial.calc_overlap(A, sysd["wave_data"])) * np.asarray(norms_in)
        for step in range(2):
            out = prop.propagate_free(trial, hdp, pdp, fields, sysd["wave_data"])
            got = np.asarray(out["overlaps"])
            Q = [np.asarray(x) for x in out["walkers"]]
            chk.case(("propagate_free-norms", nelec, step))
            chk.traces += 1
            bad = []
            if not all(np.allclose(q[k].conj().T @ q[k], np.eye(q.shape[2]), atol=1e-10) for q in Q for k in range(nw)):
                bad.append("returned walkers are not orthonormal")
            if np.max(np.abs(np.asarray(trial.calc_overlap(out["walkers"], sysd["wave_data"])) * np.asarray(out["norms"]) - ref)
                      / np.abs(ref)) > 1e-9:
                bad.append(f"overlap(Q) x norms = {(np.asarray(trial.calc_overlap(out['walkers'], sysd['wave_data'])) * np.asarray(out['norms'])).tolist()} "
                           f"but the propagated state has overlap(A) x norms_in = {ref.tolist()}")
            if np.max(np.abs(got - ref) / np.abs(ref)) > 1e-9:
                bad.append("prop_data['overlaps'] is not the overlap of the propagated state")
            if bad:
                chk.violation("qr-state:propagate_free:accumulated-norms", f"propagate_free (uhf, nelec {nelec}, step {step + 1}): " + "; ".join(bad),
                              {"nelec": list(nelec), "seed": chk.seed})
                break
            # second step from the returned state
            pdp = out
            A = prop._multiply_constant(prop._apply_trotprop(hdp, out["walkers"], fields), consts)
            ref = np.asarray(trial.calc_overlap(A, sysd["wave_data"])) * np.asarray(out["norms"])
    # ------------------------------------------------------------------ initial walkers
    for I in insts + var_insts:
        trial, wd, hd, ham = wf.build_lib(I)
        nwk = 3
        for restricted in (False, True):
            site = f"init:{I['kind']}:{'restricted' if restricted else 'unrestricted'}"
            chk.case((I["id"], "init", restricted))
            try:
                rdm = np.asarray(trial.get_rdm1(wd))
            except NotImplementedError:
                continue
            except Exception as ex_:
                continue
            if not np.all(np.isfinite(rdm)):
                continue
            try:
                w = trial.get_init_walkers(wd, nwk, restricted)
            except ValueError as ex_:
                chk.note("init_walkers_refused_explicitly", chk.extra.get("init_walkers_refused_explicitly", 0) + 1)
                continue
            except Exception as ex_:
                chk.violation(site + ":raises", f"get_init_walkers raised {type(ex_).__name__}: {str(ex_)[:200]}", {"instance": I["json"]})
                continue
            ws = [np.asarray(w)] if restricted else [np.asarray(w[0]), np.asarray(w[1])]
            exp_shapes = [(nwk, I["norb"], I["nu"])] if restricted else [(nwk, I["norb"], I["nu"]), (nwk, I["norb"], I["nd"])]
            if [x.shape for x in ws] != exp_shapes:
                chk.violation(site + ":shape", f"initial walkers have shapes {[x.shape for x in ws]}, expected {exp_shapes}", {"instance": I["json"]})
                continue
            if not all(np.allclose(x[k].conj().T @ x[k], np.eye(x.shape[2]), atol=1e-10) for x in ws for k in range(nwk)):
                chk.violation(site + ":orthonormal", "initial walkers are not orthonormal", {"instance": I["json"]})
                continue
            if I["kind"] in wf.RESTRICTED_ONLY and not restricted:
                continue
            try:
                ov = np.asarray(trial.calc_overlap(w if restricted else [jnp.array(ws[0]), jnp.array(ws[1])], wd))
            except Exception:
                continue
            # the trial's own normalisation is arbitrary here (integer orbitals): compare with its norm
            chk.traces += 1
            if not np.all(np.isfinite(ov)):
                chk.violation(site + ":overlap", f"initial walkers have non-finite trial overlap {ov}", {"instance": I["json"]})
    # ---- ill-conditioned but full-column-rank walkers (prescribed singular values): the contract does not depend on
    # how well conditioned the walker is
    for cond in (1e2, 1e5, 1e7):
        for (norb, nu, nd) in ((5, 3, 2), (6, 3, 3)):
            nwk = 3
            def illc(ne):
                out = []
                for _ in range(nwk):
                    U = np.linalg.qr(rng.normal(size=(norb, ne)) + 1j * rng.normal(size=(norb, ne)))[0]
                    V = np.linalg.qr(rng.normal(size=(ne, ne)) + 1j * rng.normal(size=(ne, ne)))[0]
                    sv = np.geomspace(1.0, 1.0 / cond, ne)
                    out.append(U @ np.diag(sv) @ V)
                return np.array(out)
            Au, Ad = illc(nu), illc(nd)
            for name, fn in (("qr_vmap", lambda: (linalg_utils.qr_vmap(jnp.array(Au)), None)),
                             ("qr_vmap_uhf", lambda: (None, linalg_utils.qr_vmap_uhf([jnp.array(Au), jnp.array(Ad)]))),
                             ("restricted.orthonormalize_walkers", lambda: ((propagation.propagator_restricted(n_walkers=nwk).orthonormalize_walkers({"walkers": jnp.array(Au), "overlaps": jnp.ones(nwk) + 0.0j, "weights": jnp.ones(nwk)})["walkers"], None), None))):
                r1, r2 = fn()
                pairs = []
                if r1 is not None:
                    pairs.append((Au, np.asarray(r1[0]), None if r1[1] is None else np.asarray(r1[1])))
                else:
                    pairs.append((Au, np.asarray(r2[0][0]), np.asarray(r2[1][0])))
                    pairs.append((Ad, np.asarray(r2[0][1]), np.asarray(r2[1][1])))
                for A, Q, f in pairs:
                    for k in range(nwk):
                        chk.case(("illcond", cond, name, norb, k, A.shape[2]))
                        ne = A.shape[2]
                        bad = None
                        if not np.allclose(Q[k].conj().T @ Q[k], np.eye(ne), atol=1e-10):
                            bad = f"columns not orthonormal: |Q^H Q - 1| = {np.max(np.abs(Q[k].conj().T @ Q[k] - np.eye(ne))):.2e}"
                        elif np.linalg.norm(A[k] - Q[k] @ (Q[k].conj().T @ A[k])) > 1e-9 * np.linalg.norm(A[k]):
                            bad = "column space changed"
                        elif f is not None:
                            rows = list(range(ne))
                            da, dq = np.linalg.det(A[k][rows]), np.linalg.det(Q[k][rows])
                            if abs(da - dq * f[k]) > 1e-8 * cond * 1e-7 * max(abs(da), 1e-300) + 1e-6 * abs(da):
                                bad = f"leading minor: det A = {da} but det Q x norm = {dq * f[k]}"
                        if bad:
                            chk.violation(f"qr:{name}:ill-conditioned", f"{name} on a full-rank walker with condition number {cond:g} "
                                          f"({norb} orbitals, {ne} electrons): {bad}", {"cond": cond, "norb": norb})
    # ---- spin-broken single-determinant trials: restricted initial walkers must overlap the trial by more than the
    # generator's own threshold (1e-3 for normalised orbitals) or the generator must refuse explicitly
    from ad_afqmc import wavefunctions
    for (norb, n) in ((4, 2), (6, 3)):
        for c in (0.9, 0.3, 1e-2, 1e-4, 1e-6, 1e-8, 0.0):
            th = np.arccos(c)
            Cu = np.eye(norb)[:, :n]
            Cd = np.eye(norb)[:, :n].copy()
            Cd[:, n - 1] = np.cos(th) * np.eye(norb)[:, n - 1] + np.sin(th) * np.eye(norb)[:, n]
            trial = wavefunctions.uhf(norb, (n, n))
            wdx = {"mo_coeff": [jnp.array(Cu), jnp.array(Cd)]}
            chk.case(("spin-broken", norb, c))
            try:
                w = trial.get_init_walkers(wdx, 2, restricted=True)
            except ValueError:
                chk.note("init_walkers_refused_explicitly", chk.extra.get("init_walkers_refused_explicitly", 0) + 1)
                continue
            ov = np.abs(np.asarray(trial.calc_overlap(w, wdx)))
            orth = np.allclose(np.asarray(w[0]).conj().T @ np.asarray(w[0]), np.eye(n), atol=1e-10)
            if not orth or not np.all(ov > 1e-3 * (1 - 1e-9)):
                chk.violation("init:restricted:spin-broken-trial", f"restricted initial walkers for a spin-broken UHF trial ({norb} orbitals, "
                              f"({n},{n}) electrons, <up|dn> determinant overlap {c:g}) have trial overlap {ov.tolist()} - not bounded "
                              f"away from zero, and no error was raised", {"norb": norb, "n": n, "cos": c})
    # ---- open-shell single-determinant trials whose down space lies inside the up space (ROHF-like), given in a basis
    # in which the density matrix is NOT diagonal: the restricted initial walker represents the trial itself, so its
    # trial overlap has modulus 1, its first n_dn columns span the down space and its local energy is the trial's
    # variational energy (Slater-Condon value of the determinant, computed here from the density matrices)
    from ad_afqmc import hamiltonian as _hamiltonian
    for (norb, nu, nd) in ((4, 2, 1), (5, 3, 1), (6, 4, 2), (6, 3, 2)):
        r2 = np.random.default_rng(1300 + chk.seed + 10 * norb + nu)
        Cb = np.linalg.qr(r2.normal(size=(norb, norb)))[0]
        Cu, Cd = Cb[:, :nu], Cb[:, :nd] @ np.linalg.qr(r2.normal(size=(nd, nd)))[0]
        h1 = r2.normal(size=(norb, norb)); h1 = (h1 + h1.T) / 2
        ch = r2.normal(size=(3, norb, norb)) * 0.4; ch = (ch + ch.transpose(0, 2, 1)) / 2
        trial = wavefunctions.uhf(norb, (nu, nd))
        wdx = {"mo_coeff": [jnp.array(Cu), jnp.array(Cd)]}
        wdx["rdm1"] = jnp.array([Cu @ Cu.T, Cd @ Cd.T])
        hdx = {"h0": 0.3, "h1": jnp.array([h1, h1]), "chol": jnp.array(ch.reshape(3, -1)), "ene0": 0.0}
        hdx = _hamiltonian.hamiltonian(norb).build_measurement_intermediates(hdx, trial, wdx)
        Pu, Pd = Cu @ Cu.T, Cd @ Cd.T
        evar = 0.3 + np.trace(h1 @ (Pu + Pd)) + 0.5 * sum(np.trace(L @ (Pu + Pd)) ** 2 - np.trace(L @ Pu @ L @ Pu) - np.trace(L @ Pd @ L @ Pd) for L in ch)
        chk.case(("rohf-like", norb, nu, nd))
        chk.traces += 1
        site = "init:restricted:open-shell-rotated-basis"
        try:
            w = np.asarray(trial.get_init_walkers(wdx, 2, restricted=True))
        except ValueError:
            chk.violation(site + ":refused", f"restricted initial walkers refused for an ROHF-like trial ({norb} orbitals, ({nu},{nd}) "
                          f"electrons) that a restricted walker represents exactly", {"norb": norb, "nelec": [nu, nd]})
            continue
        bad = []
        if w.shape != (2, norb, nu) or not np.allclose(w[0].conj().T @ w[0], np.eye(nu), atol=1e-10):
            bad.append(f"shape {w.shape} / not orthonormal")
        else:
            ov = np.abs(np.asarray(trial.calc_overlap(jnp.array(w), wdx)))
            el = np.asarray(trial.calc_energy(jnp.array(w), hdx, wdx))
            span = np.linalg.norm(Cd - w[0][:, :nd] @ (w[0][:, :nd].conj().T @ Cd))
            if np.max(np.abs(ov - 1.0)) > 1e-8:
                bad.append(f"|trial overlap| {ov.tolist()} instead of 1")
            if span > 1e-8:
                bad.append(f"first {nd} columns do not span the trial's down space (residual {span:.2e})")
            if np.max(np.abs(el - evar)) > 1e-8 * max(1.0, abs(evar)):
                bad.append(f"local energy {el.tolist()} differs from the trial's variational energy {evar}")
        if bad:
            chk.violation(site, f"uhf trial with down space inside the up space, random orthogonal basis ({norb} orbitals, ({nu},{nd}) "
                          f"electrons): restricted initial walkers do not represent the trial: " + "; ".join(bad),
                          {"norb": norb, "nelec": [nu, nd], "seed": chk.seed})
    for I in var_insts:
        if I["id"] not in res:
            continue
        ex = wf.exact_values(I, res[I["id"]])[0]
        if ex["zero"]:
            continue
        trial, wd, hd, ham = wf.build_lib(I)
        P = propagation.propagator_restricted if I["kind"] == "rhf" else propagation.propagator_unrestricted
        prop = P(n_walkers=4)
        hd = ham.build_measurement_intermediates(hd, trial, wd)
        for restricted_prop in ((True,) if I["kind"] == "rhf" else (False,)):
            try:
                pd = prop.init_prop_data(trial, wd, hd, None)
            except Exception as ex_:       # the library failing on its own initial walkers is an outcome, not a harness problem
                chk.violation(f"init:init_prop_data-raises:{I['kind']}", f"init_prop_data with the trial's own initial walkers raised "
                              f"{type(ex_).__name__}: {str(ex_)[:200]} (norb={I['norb']}, nelec=({I['nu']},{I['nd']}))", {"instance": I["json"]})
                continue
            e = float(np.asarray(pd["e_estimate"]))
            chk.case((I["id"], "variational"))
            chk.traces += 1
            if abs(e - ex["e"].real) > 1e-9 * max(1, abs(ex["e"])) or abs(ex["e"].imag) > 1e-9:
                chk.violation(f"init:variational-energy:{I['kind']}", f"{I['kind']} trial with orthonormal orbitals: e_estimate of the "
                              f"generated initial walkers {e} differs from the exact variational energy {ex['e']} "
                              f"(norb={I['norb']}, nelec=({I['nu']},{I['nd']}))", {"instance": I["json"]})
            ov = np.asarray(pd["overlaps"])
            if not np.all(np.abs(ov) >= 1e-3):
                chk.violation(f"init:small-overlap:{I['kind']}", f"initial walkers have |overlap| {np.abs(ov)} < 1e-3 without an error",
                              {"instance": I["json"]})
        chk.sample({"kind": I["kind"], "norb": I["norb"], "nelec": [I["nu"], I["nd"]], "exact_variational_energy": ex["e"].real}, limit=3)
