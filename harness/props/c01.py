"""C01 - trial overlap equals the true many-body overlap <psi_T|phi>; batching order; 1-RDM."""
import numpy as np

from .. import wf, wfcheck
from ..core import Check, MachineryError, repo_setup

LEVEL = "model_checking"

THEOREM_CFG = """SPECIFICATION Spec
CONSTANTS
  NORB = {norb}
  NELECS <- {nel}
{quartic}INVARIANT Hermitian
INVARIANT NumberOp
INVARIANT Leibniz
CHECK_DEADLOCK FALSE
"""


def theorems(chk: Check):
    """design level: the reference semantics is self-consistent (exhaustive, small constants)"""
    cfgs = [(2, "Nel2q")] if chk.tier == "quick" else [(2, "Nel2"), (3, "Nel3")]
    for norb, nel in cfgs:
        # the literal quartic sum is O(configs^2 * orbitals^4): exhaustive for 2 orbitals only
        r = chk.tlc("FockTheorems", THEOREM_CFG.format(norb=norb, nel=nel, quartic="INVARIANT QuarticAgrees\n" if norb == 2 else ""),
                    name=f"FockTheorems-{norb}", timeout=3000)
        if r.violated:
            raise MachineryError(f"oracle self-consistency theorem {r.violated_name} failed (norb={norb}); "
                                 f"the specification is wrong, nothing is reported about the code")


def divisors(n):
    return [d for d in range(1, n + 1) if n % d == 0]


def run(chk: Check):
    repo_setup()
    chk.rule = ("instances = (trial kind, norb, nelec, exact Gaussian-integer trial parameters, walkers) drawn by a "
                "seeded generator, evaluated exactly by TLC from the second-quantised definitions (WfOracle.tla), "
                "then replayed into trial.calc_overlap / get_rdm1; a case = one (instance, walker, container, n_batch); "
                "non-trivial = exact overlap is non-zero; distinct by instance id/walker/container/batch count")
    chk.assumptions += [
        "walkers/trial parameters are sampled on the Gaussian-integer grid -2..2 (an O(1) formula error is visible "
        "there); walkers for which the library's own algorithm divides by an exactly zero reference/determinant "
        "overlap are not generated (generic position)",
        "tolerance 1e-9 relative to max(1,|exact|)",
        "n_dn = 0 is not replayed for multi-Slater / AD CI kinds (outside the property's quantifier)"]
    theorems(chk)
    nw = 4 if chk.tier == "quick" else 6
    insts = wfcheck.plan(chk, wf.ALL_KINDS, chk.tier, chk.seed, want=(), nw=nw)
    # 1-RDM instances (orthonormal orbitals)
    rng = np.random.default_rng(7000 + chk.seed)
    rdm_insts = []
    iid = 100000
    shapes = [(3, 2, 1), (3, 1, 1)] if chk.tier == "quick" else [(2, 1, 1), (3, 2, 1), (3, 1, 1), (3, 2, 2), (3, 2, 0), (4, 2, 1)]
    for kind in ("rhf", "uhf", "ghf", "noci"):
        for (norb, nu, nd) in shapes:
            if kind == "rhf" and nu != nd:
                continue
            for rep in range(2 if chk.tier == "quick" else 5):
                iid += 1
                try:
                    rdm_insts.append(wf.gen_rdm_instance(iid, rng, kind, norb, nu, nd))
                except MachineryError:
                    pass
    res, skipped = wfcheck.tlc_eval_robust(chk, insts + rdm_insts, "c01")
    chk.note("skipped_overflow", skipped)
    import jax.numpy as jnp
    nskip_zero = 0
    for I in insts:
        if I["id"] not in res:
            continue
        ex = wf.exact_values(I, res[I["id"]])
        nskip_zero += sum(1 for e in ex if e["zero"])
        batches = [1] if (I["id"] % 3) else divisors(nw)
        for nb in batches:
            got = wfcheck.lib_eval(I, "ov", n_batch=nb)
            wfcheck.compare(chk, I, ex, got, "ov", wfcheck.TOL64, "overlap", tag=f"/n_batch={nb}")
        chk.traces += 1
        chk.sample({"kind": I["kind"], "norb": I["norb"], "nelec": [I["nu"], I["nd"]], "restricted_walkers": I["restricted"],
                    "trial": I["json"]["trial"], "walker0": I["json"]["walkers"][0],
                    "exact_overlap0": [ex[0]["ov"].real, ex[0]["ov"].imag]}, limit=4)
    # non-orthonormal beta orbitals of the UCISD kinds ("trial orbitals need not be orthonormal for the overlap statement"):
    # the trial state is the CI expansion over determinants of the GIVEN beta orbitals (columns of mo_coeff[1]), so the
    # overlap depends on the walker only through mo_coeff[1]^T w_dn.  An instance with exact values (orthogonal moB0) is
    # replayed with an invertible, non-orthogonal integer matrix N as beta orbitals and the down walker pulled back,
    # w' = N^-T moB0^T w_dn: the exact overlaps of the original instance must be returned
    prng = np.random.default_rng(7100 + chk.seed)
    npull = 0
    for I in insts:
        if I["kind"] not in ("ucisd", "UCISD") or I["id"] not in res or I["nd"] == 0:
            continue
        n = I["norb"]
        for _ in range(100):
            N = wf.rand_int(prng, (n, n), -2, 2)
            if abs(round(np.linalg.det(N))) >= 1 and not np.allclose(N.T @ N, np.diag(np.diag(N.T @ N))):
                break
        else:
            continue
        M0 = I["trial"]["moB"] / I["trial"]["d"]
        J = dict(I)
        J["trial"] = dict(I["trial"], moB=N, d=1)
        J["restricted"] = False        # a restricted (single-array) walker has no independent down block to pull back
        J["walkers"] = [(a, np.linalg.solve(N.T.astype(float), M0.T @ b)) for a, b in I["walkers"]]
        ex = wf.exact_values(I, res[I["id"]])
        got = wfcheck.lib_eval(J, "ov")
        wfcheck.compare(chk, I, ex, got, "ov", wfcheck.TOL64 * max(1.0, float(np.linalg.cond(N))), "overlap-nonorthonormal-beta",
                        tag=f"/moB={N.tolist()},pulled-back")
        chk.traces += 1
        npull += 1
    chk.note("ucisd_nonorthonormal_beta_orbital_replays", npull)
    # 1-RDM
    prev_rdm = {}
    for I in rdm_insts:
        if I["id"] not in res:
            continue
        R = res[I["id"]]
        nrm = R["nrm"][0]
        if nrm == 0:
            continue
        trial, wd, hd, ham = wf.build_lib(I)
        exact = np.array([[[complex(x[0], x[1]) / nrm for x in row] for row in blk] for blk in R["rdm"]])
        had_rdm1 = "rdm1" in wd
        try:
            got = np.asarray(trial.get_rdm1(wd))
            ok = got.shape == exact.shape and np.allclose(got, exact, rtol=0, atol=1e-9)
        except Exception as e:
            got, ok = repr(e), False
        # the same question on a wave_data DICTIONARY that described another trial before (its parameters are replaced in
        # place, as trial.optimize or a new set of CI coefficients does): the reported 1-RDM is that of the CURRENT trial
        keyI = (I["kind"], I["norb"], I["nu"], I["nd"])
        if ok and keyI in prev_rdm and not had_rdm1:
            wdJ = prev_rdm[keyI]
            try:
                wdJ.update({k_: v_ for k_, v_ in wd.items() if k_ != "rdm1"})
                got2 = np.asarray(trial.get_rdm1(wdJ))
                ok2 = got2.shape == exact.shape and np.allclose(got2, exact, rtol=0, atol=1e-9)
            except Exception as e:
                got2, ok2 = repr(e), False
            chk.case(("rdm-reused-dict", I["id"]))
            if not ok2:
                chk.violation(f"rdm1:{I['kind']}:reused-wave_data", f"{I['kind']} get_rdm1 on a wave_data dictionary whose parameters were "
                              f"replaced in place (it described another trial before and get_rdm1 had been called on it) is not the 1-RDM "
                              f"of the current trial (norb={I['norb']}, nelec=({I['nu']},{I['nd']}))", {"instance": I["json"]})
        if ok and not had_rdm1:
            prev_rdm[keyI] = wd
        chk.case(("rdm", I["id"]))
        chk.traces += 1
        if not ok:
            chk.violation(f"rdm1:{I['kind']}", f"{I['kind']} get_rdm1 differs from <psi|a+ a|psi>/<psi|psi> "
                          f"(norb={I['norb']}, nelec=({I['nu']},{I['nd']}))",
                          {"instance": I["json"], "library": got if isinstance(got, str) else got.tolist(),
                           "exact": exact.real.tolist()})
    # ---- NOCI with a NEARLY orthogonal pair of (orthonormal-orbital) determinants: pair overlap 1e-9, but overlap x transition
    # density is O(1) - the cross terms belong to <a+ a>.  Not representable in the integer oracle (1e-9): the reference is
    # a brute-force Fock-space evaluation in numpy (harness/manybody.py), the state vectors themselves built by sdvec
    import itertools
    import jax.numpy as jnp
    from ad_afqmc import wavefunctions
    from .. import manybody
    for (norb, nu, nd, eps) in ((3, 2, 1, 1e-9), (4, 2, 2, 3e-10)):
        r4 = np.random.default_rng(170 + chk.seed + norb)
        E = np.eye(norb)
        s_ = np.sqrt(1.0 - eps * eps)
        du = [E[:, :nu].copy(), E[:, :nu].copy(), np.linalg.qr(r4.normal(size=(norb, nu)))[0]]
        du[1][:, 0] = eps * E[:, 0] + s_ * E[:, norb - 1]          # <D_1|D_2> = eps, orbitals orthonormal
        dd = [E[:, :nd].copy(), E[:, :nd].copy(), np.linalg.qr(r4.normal(size=(norb, nd)))[0]]
        cs = np.array([0.8, 0.6, 0.3])
        cfgs = [(a, b) for a in itertools.combinations(range(norb), nu) for b in itertools.combinations(range(norb), nd)]
        vec = sum(c * manybody.sdvec(cfgs, u, d) for c, u, d in zip(cs, du, dd))
        exact = manybody.rdm1(cfgs, vec, norb)
        trial = wavefunctions.noci(norb, (nu, nd), 3)
        wdn = {"ci_coeffs_dets": [jnp.array(cs), [jnp.array(np.array(du)), jnp.array(np.array(dd))]]}
        chk.case(("rdm-noci-near-orthogonal", norb))
        chk.traces += 1
        try:
            got = np.asarray(trial.get_rdm1(wdn))
            ok = got.shape == exact.shape and np.allclose(got, exact, rtol=0, atol=1e-7)
        except Exception as e:
            got, ok = repr(e), False
        if not ok:
            chk.violation("rdm1:noci:near-orthogonal-pair", f"noci get_rdm1 with two determinants of overlap {eps:g} (orthonormal orbitals, "
                          f"norb={norb}, nelec=({nu},{nd})) differs from the brute-force <psi|a+ a|psi>/<psi|psi> by "
                          f"{'exception ' + got if isinstance(got, str) else float(np.max(np.abs(got - exact)))}", {"norb": norb, "eps": eps})
    chk.trusted_base += ["numpy brute-force Fock-space 1-RDM (harness/manybody.rdm1) for the two near-orthogonal NOCI instances the integer oracle cannot represent"]
    chk.note("walkers_with_exactly_zero_overlap", nskip_zero)
    chk.note("tolerance", wfcheck.TOL64)
    chk.note("kinds", list(wf.ALL_KINDS))
