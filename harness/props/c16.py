"""C16 - the pyscf interface writes the molecule's Hamiltonian and a consistent trial.

Design level : spec/Pipeline.tla (root module spec/PipelineDesign.tla) - TLC walks every in-scope problem
               (nelectron <= 8, 2S <= 3, n_frozen <= 2, RHF/ROHF/UHF, none/CCSD/UCCSD) through the reference
               model of prep_afqmc -> files -> _prep_afqmc -> (trial class, propagator class) for every option
               combination and checks the model against the property-level clauses, single-fault mutants
               against the same clauses, and the scoping of the property.
Binding      : in a scratch directory the REAL pipeline is run (pyscf SCF/CC -> pyscf_interface.prep_afqmc ->
               mpi_jax._prep_afqmc -> ham.build_*_intermediates -> prop.init_prop_data, as driver.afqmc does);
               what was written, derived, set up and measured is transcribed into one record per hand-over and
               judged by spec/PipelineTrace.tla with the same clauses (total verdicts naming the failing clause).
Exact slice  : lattice models through the custom-integrals path; spec/PipelineLattice.tla (Fock.tla) computes
               <D|H|D>/<D|D> for the hand-made trial determinants and the integer matrix of 2(H-h0) exactly.
Set-up table : spec/Setup.tla is the option-resolution machine of `_prep_afqmc` (options source, defaults, observable,
               trial branch, propagator branch, failure precedence); harness/setupopt.py model-checks it over every
               source x directory x given-option combination and replays TLC's expected records into the real routine
               in real directories (valid / absent / corrupt files), plus the fixed-point replay of the completed options.
Launcher     : spec/Launch.tla (run_afqmc / run_afqmc_fp <-> shell command <-> child, through options.bin and ene_err.txt);
               every behaviour TLC finds is replayed through the real functions (harness/launch.py).
Python never decides a predicate: it draws seeded inputs, calls pyscf and the library, and converts float
differences to fixed point.  pyscf is the trusted oracle for molecular SCF/FCI/CC energies.
"""
import contextlib
import io
import json
import math
import os
from pathlib import Path

import numpy as np

from .. import launch, setupopt
from ..core import Check, MachineryError, repo_setup

LEVEL = "other"

FP_UNIT = 1e-9                 # fixed-point resolution of energy differences handed to TLC
FP_CAP = 10 ** 9               # cap (1 Hartree) - keeps every TLC integer below 2^31
LATTICE_TOL = 1e-8
DESIGN_CONSTANTS = dict(MaxElec=8, MaxSpin=3, MaxFrozen=2, MaxVirt=2, MaxChol=2)
MODEL_INVARIANTS = ["ModelClean", "ModelCountsSane", "ModelTableUseful", "MutantsRejected"]
ACTIONS = ["PrepA", "ReadBackA", "SetupA", "MeasureA"]
TRIALS = ("rhf", "uhf", "cisd", "ucisd")
WALKERS = ("rhf", "uhf")
MAX_FCI_DETS = 400_000


# ================================================================================================ design level
def design_check(chk: Check):
    cfg = ("SPECIFICATION Spec\nCHECK_DEADLOCK FALSE\nCONSTANTS "
           + " ".join(f"{k} = {v}" for k, v in DESIGN_CONSTANTS.items()) + "\n"
           + "".join(f"INVARIANT {i}\n" for i in MODEL_INVARIANTS))
    res = chk.tlc("PipelineDesign", cfg, name="Pipeline-design", coverage=True)
    if res.violated:
        raise MachineryError(f"reference model of Pipeline.tla violates {res.violated_name}: the model or a clause is "
                             f"wrong (not a finding about the code)")
    dead = [a for a in ACTIONS if a in res.coverage_zero]
    if dead:
        raise MachineryError(f"Pipeline.tla: actions never taken: {dead}")
    if res.states < 5000:
        raise MachineryError(f"Pipeline.tla: only {res.states} states - the enumeration collapsed")
    chk.note("design_model", {"constants": DESIGN_CONSTANTS, "states": res.states, "invariants": MODEL_INVARIANTS,
                              "assumed_facts": ["MutantsLive", "ScopeIsNeeded", "ScopeSuffices", "ToleranceFacts"],
                              "wall_s": round(res.wall_s, 1)})


# ================================================================================================ helpers
@contextlib.contextmanager
def in_dir(path: Path):
    old = os.getcwd()
    os.chdir(path)
    try:
        yield
    finally:
        os.chdir(old)


@contextlib.contextmanager
def quiet():
    buf = io.StringIO()
    with contextlib.redirect_stdout(buf):
        yield buf


def fp(x):
    """|x| in units of 1e-9, capped; non-finite -> cap"""
    if x is None:
        return FP_CAP
    x = float(x)
    if not math.isfinite(x):
        return FP_CAP
    return int(min(FP_CAP, round(abs(x) / FP_UNIT)))


NO_EN = {"has_mf": False, "has_fci": False, "has_cc": False, "d_mf": 0, "d_fci": 0, "d_cc": 0, "tol": 0}
NO_RB = {"nelec_sp": [-1, -1], "norb": -1, "chol_shape": [-1, -1], "h1_shape": [-1, -1, -1], "rdm1_tr": [-1, -1]}
NO_SETUP = {"outcome": "refused", "trial_class": "", "prop_class": "", "n_exp_terms": 0, "trial_norb": 0,
            "trial_nelec": [0, 0]}


def observe_files(d: Path):
    """transcribe what prep_afqmc left in directory d"""
    import h5py
    out = {"header": [], "hcore_len": -1, "chol_len": -1, "mo_shape": [], "amp": []}
    with h5py.File(d / "FCIDUMP_chol", "r") as f:
        out["header"] = [int(v) for v in np.asarray(f["header"])]
        out["hcore_len"] = int(np.asarray(f["hcore"]).size)
        out["chol_len"] = int(np.asarray(f["chol"]).size)
    if (d / "mo_coeff.npz").exists():
        z = np.load(d / "mo_coeff.npz")
        out["mo_shape"] = [int(v) for v in z["mo_coeff"].shape] if "mo_coeff" in z.files else []
    if (d / "amplitudes.npz").exists():
        z = np.load(d / "amplitudes.npz")
        out["amp"] = [{"key": k, "shape": [int(v) for v in z[k].shape]} for k in sorted(z.files)]
    return out


def call_setup(options):
    """mpi_jax._prep_afqmc(options) -> (setup record, rb record or None, objects or None)"""
    from ad_afqmc import mpi_jax
    try:
        with quiet():
            ret = mpi_jax._prep_afqmc(dict(options))
    except (ValueError, AssertionError) as e:        # the two explicit refusals of the set-up
        return dict(NO_SETUP, why=f"{type(e).__name__}: {e}"[:200]), None, None
    except Exception as e:                           # anything else is not an explicit refusal
        return dict(NO_SETUP, outcome=f"crashed:{type(e).__name__}", why=str(e)[:200]), None, None
    ham_data, ham, prop, trial, wave_data = ret[:5]
    if trial is None:
        return dict(NO_SETUP, outcome="no_trial"), None, None
    setup = {"outcome": "ok", "trial_class": type(trial).__name__, "prop_class": type(prop).__name__,
             "n_exp_terms": int(prop.n_exp_terms), "trial_norb": int(trial.norb),
             "trial_nelec": [int(trial.nelec[0]), int(trial.nelec[1])]}
    rdm1 = np.asarray(wave_data["rdm1"])
    rb = {"nelec_sp": [int(trial.nelec[0]), int(trial.nelec[1])], "norb": int(ham.norb),
          "chol_shape": [int(v) for v in ham_data["chol"].shape], "h1_shape": [int(v) for v in ham_data["h1"].shape],
          "rdm1_tr": [int(round(float(np.trace(rdm1[0]).real) * 1000)), int(round(float(np.trace(rdm1[1]).real) * 1000))]}
    # the trace of a projector is an integer: hand TLC the integer when it is one to 1e-3, else the milli-value
    rb["rdm1_tr"] = [v // 1000 if v % 1000 == 0 else v for v in rb["rdm1_tr"]]
    return setup, rb, ret


def measure(ret):
    """exactly what driver.afqmc does before the first block: returns e_estimate and the prepared data"""
    ham_data, ham, prop, trial, wave_data = ret[:5]
    with quiet():
        ham_data = ham.build_measurement_intermediates(ham_data, trial, wave_data)
        ham_data = ham.build_propagation_intermediates(ham_data, prop, trial, wave_data)
        prop_data = prop.init_prop_data(trial, wave_data, ham_data)
    return float(np.asarray(prop_data["e_estimate"]).real), ham_data


def written_ground_state(ret, nelec_sp):
    """lowest eigenvalue of the Hamiltonian that was read back (h0, h1, chol), pyscf as eigen-solver"""
    from pyscf import fci
    ham_data, ham = ret[0], ret[1]
    n = int(ham.norb)
    if math.comb(n, nelec_sp[0]) * math.comb(n, nelec_sp[1]) > MAX_FCI_DETS:
        return None
    h1 = np.asarray(ham_data["h1"][0], dtype=float)
    ch = np.asarray(ham_data["chol"], dtype=float).reshape(-1, n, n)
    eri = np.einsum("gpq,grs->pqrs", ch, ch)
    solver = fci.direct_spin1.FCI()
    solver.conv_tol = 1e-12
    solver.max_cycle = 400
    e, _ = solver.kernel(0.5 * (h1 + h1.T), eri, n, tuple(nelec_sp), ecore=float(np.asarray(ham_data["h0"])))
    return float(e)


def mixed_energy_at_reference(ret, ham_data, kind):
    """trial.calc_energy of the walker equal to the reference determinant of the basis written to disk"""
    import jax.numpy as jnp
    trial, wave_data = ret[3], ret[4]
    n, (na, nb) = int(trial.norb), trial.nelec
    eye = np.eye(n)
    if kind == "cisd":
        walkers = jnp.array([eye[:, :na] + 0.0j] * 2)
    else:
        mob = np.asarray(wave_data["mo_coeff"][1])
        walkers = [jnp.array([eye[:, :na] + 0.0j] * 2), jnp.array([mob[:, :nb] + 0.0j] * 2)]
    with quiet():
        e = trial.calc_energy(walkers, ham_data, wave_data)
    return float(np.asarray(e)[0].real)


# ================================================================================================ molecules
def geometry(rng, name):
    def jit(p, s=0.04):
        return [float(x + rng.uniform(-s, s)) for x in p]
    if name == "H2":
        return [["H", [0, 0, 0]], ["H", [0, 0, float(rng.uniform(0.6, 1.1))]]]
    if name in ("H3", "H4", "H6"):
        k = int(name[1])
        d = rng.uniform(0.8, 1.15)
        return [["H", jit([0, 0, i * d])] for i in range(k)]
    if name == "H4ring":
        a = rng.uniform(0.8, 1.0)
        b = a * rng.uniform(1.3, 1.7)
        return [["H", jit(p, 0.02)] for p in ([0, 0, 0], [a, 0, 0], [a, b, 0], [0, b, 0])]
    if name == "H6ring":
        r = rng.uniform(0.9, 1.2)
        return [["H", jit([r * math.cos(k * math.pi / 3), r * math.sin(k * math.pi / 3), 0], 0.03)] for k in range(6)]
    if name == "LiH":
        return [["Li", [0, 0, 0]], ["H", jit([0, 0, rng.uniform(1.4, 1.8)], 0.02)]]
    if name == "OH":
        return [["O", [0, 0, 0]], ["H", jit([0, 0, rng.uniform(0.9, 1.1)], 0.02)]]
    raise ValueError(name)


def spec_mol(rng, family, molname, basis="sto-3g", spin=0, mf="rhf", df=False, cc="none", nfrozen=0, chol_cut=1e-5,
             basis_coeff="mo", integrals="pyscf", trial="rhf", walker_type="rhf", also_mf_trial=None, fci=True):
    return {"slice": "molecule", "family": family, "mol": {"name": molname, "atom": geometry(rng, molname), "basis": basis,
                                                          "spin": spin},
            "mf": mf, "df": df, "cc": cc, "nfrozen": nfrozen, "chol_cut": chol_cut, "basis_coeff": basis_coeff,
            "integrals": integrals, "trial": trial, "walker_type": walker_type, "also_mf_trial": also_mf_trial,
            "fci": fci, "rot_seed": int(rng.integers(1 << 30))}


def lowdin(S):
    w, v = np.linalg.eigh(S)
    return (v * w ** -0.5) @ v.T


def build_pyscf(spec):
    """pyscf side (trusted): returns dict(mol, mf, obj, E_mf, E_cc, skipped)"""
    from pyscf import cc as pcc
    from pyscf import gto, scf
    m = spec["mol"]
    mol = gto.M(atom=[(a, tuple(p)) for a, p in m["atom"]], basis=m["basis"], spin=m["spin"], verbose=0)
    mf = {"rhf": scf.RHF, "rohf": scf.ROHF, "uhf": scf.UHF}[spec["mf"]](mol)
    if spec["df"]:
        # True: def2-universal-jkfit (defined for every element used here); "default": pyscf chooses - for a basis
        # without a predefined JKFIT set (sto-6g) that is an even-tempered set that exists only on with_df.auxmol
        mf = mf.density_fit(auxbasis="weigend") if spec["df"] is True else mf.density_fit()
    mf.conv_tol = 1e-12
    mf.conv_tol_grad = 1e-8
    mf.max_cycle = 300
    mf.kernel()
    if not mf.converged:
        return {"skipped": "scf not converged"}
    out = {"mol": mol, "mf": mf, "obj": mf, "E_mf": float(mf.e_tot), "E_cc": None}
    if spec["cc"] != "none":
        mycc = (pcc.CCSD if spec["cc"] == "ccsd" else pcc.UCCSD)(mf)
        if spec["nfrozen"] > 0:
            mycc.frozen = spec["nfrozen"]
        mycc.conv_tol = 1e-10
        mycc.conv_tol_normt = 1e-8
        mycc.max_cycle = 300
        mycc.kernel()
        if not mycc.converged:
            return {"skipped": "cc not converged"}
        out["obj"], out["E_cc"] = mycc, float(mycc.e_tot)
    return out


def reference_fci(spec, P):
    """pyscf's FCI energy of the original problem (frozen-core FCI = CASCI over all non-frozen orbitals)"""
    from pyscf import fci, mcscf
    mol, mf = P["mol"], P["mf"]
    nf, nao = spec["nfrozen"], mol.nao
    na, nb = mol.nelec
    if math.comb(nao - nf, na - nf) * math.comb(nao - nf, nb - nf) > MAX_FCI_DETS:
        return None
    if nf == 0 and not spec["df"]:
        solver = fci.FCI(mf)
        solver.conv_tol = 1e-12
        solver.max_cycle = 400
        return float(solver.kernel()[0])
    mc = mcscf.CASCI(mf, nao - nf, (na - nf, nb - nf))
    mc.fcisolver.conv_tol = 1e-12
    mc.fcisolver.max_cycle = 400
    mc.verbose = 0
    return float(mc.kernel()[0])


def prep_kwargs(spec, P):
    """keyword arguments for prep_afqmc (and, for user-supplied integrals, the object to hand over)"""
    from pyscf import ao2mo, gto, scf
    mol, mf = P["mol"], P["mf"]
    kw = {"chol_cut": spec["chol_cut"]}
    obj = P["obj"]
    if spec["cc"] == "none" and spec["nfrozen"] > 0:
        kw["norb_frozen"] = spec["nfrozen"]
    S = mf.get_ovlp()
    if spec["integrals"] == "custom":
        # the molecule's Hamiltonian in Loewdin-orthogonalised AOs, handed over as user-supplied integrals on a
        # bare pyscf object (the pattern of examples/hubbard.ipynb): overlap = identity, orbitals set by hand
        X = lowdin(S)
        Xi = np.linalg.inv(X)
        n = mol.nao
        h1 = X.T @ mf.get_hcore() @ X
        eri = ao2mo.restore(8, ao2mo.kernel(mol, X), n)
        dmol = gto.Mole()
        dmol.nelectron, dmol.spin, dmol.incore_anyway, dmol.verbose = mol.nelectron, mol.spin, True, 0
        dmol.build()
        dmf = {"rhf": scf.RHF, "rohf": scf.ROHF, "uhf": scf.UHF}[spec["mf"]](dmol)
        dmf.get_hcore = lambda *a: h1
        dmf.get_ovlp = lambda *a: np.eye(n)
        dmf._eri = eri
        dmf.mo_coeff = np.array([Xi @ c for c in mf.mo_coeff]) if spec["mf"] == "uhf" else Xi @ mf.mo_coeff
        dmf.mo_occ = mf.mo_occ
        obj = dmf
        kw["integrals"] = {"h0": float(mol.energy_nuc()), "h1": h1, "h2": eri}
        if spec["basis_coeff"] == "eye":
            kw["basis_coeff"] = np.eye(n)
    elif spec["basis_coeff"] == "lowdin":
        kw["basis_coeff"] = lowdin(S)
    elif spec["basis_coeff"] == "core+rot":
        # frozen orbitals kept, the remaining MOs mixed by a random orthogonal matrix
        C = mf.mo_coeff
        nf = spec["nfrozen"]
        q, _ = np.linalg.qr(np.random.default_rng(spec["rot_seed"]).normal(size=(C.shape[1] - nf,) * 2))
        kw["basis_coeff"] = np.hstack([C[:, :nf], C[:, nf:] @ q])
    return obj, kw


def problem_record(spec, P):
    mol = P["mol"]
    return {"nelectron": int(mol.nelectron), "spin": int(mol.spin), "nao": int(mol.nao), "nfrozen": int(spec["nfrozen"]),
            "mf": spec["mf"], "cc": spec["cc"]}


def run_molecule(chk: Check, spec, tid0):
    """one hand-over (two set-ups when also_mf_trial is given); returns list of (trace, info)"""
    from ad_afqmc import pyscf_interface
    P = build_pyscf(spec)
    if "skipped" in P:
        return [], P["skipped"]
    pb = problem_record(spec, P)
    obj, kw = prep_kwargs(spec, P)
    d = chk.scratch(f"c16-run-{tid0}")
    tol = fp(20 * spec["chol_cut"])
    out = []
    with in_dir(d):
        try:
            with quiet():
                # every other hand-over is prepared twice in the same process from the same pyscf objects (a user who
                # re-runs the preparation cell, or prepares the mean field and then the coupled-cluster object): the
                # second preparation must describe the same problem - nothing may be carried over from the first
                if spec.get("prep_twice"):
                    pyscf_interface.prep_afqmc(P["mf"] if spec["integrals"] != "custom" else obj,
                                               **{k_: v_ for k_, v_ in kw.items()})
                pyscf_interface.prep_afqmc(obj, **kw)
        except Exception as e:
            return [({"id": tid0, "crash": f"prep_afqmc: {type(e).__name__}: {e}"[:300]}, spec)], None
        files = observe_files(d)
        e_fci_ref = reference_fci(spec, P) if spec["fci"] else None
        plans = [(spec["trial"], True)]
        if spec["also_mf_trial"]:
            plans.append((spec["also_mf_trial"], False))
        for k, (trial_name, first) in enumerate(plans):
            opt = {"trial": trial_name, "walker_type": spec["walker_type"], "free_projection": False}
            options = dict(opt, seed=17, n_walkers=2, dt=0.01)
            setup, rb, ret = call_setup(options)
            tr = {"id": tid0 + k, "stage": "set", "pb": pb, "files": files, "opt": opt, "setup": {k2: v for k2, v in setup.items() if k2 != "why"},
                  "rb": rb, "en": dict(NO_EN, tol=tol)}
            info = {"spec": spec, "opt": opt, "why": setup.get("why")}
            if rb is None:
                # nothing was derived: the hand-over failed at the set-up although the option is the problem's own
                tr["rb"] = dict(NO_RB)
                out.append((tr, info))
                continue
            try:
                e_est, ham_data = measure(ret)
                en = dict(NO_EN, tol=tol)
                is_cc_trial = trial_name in ("cisd", "ucisd")
                if not is_cc_trial:
                    en.update(has_mf=True, d_mf=fp(e_est - P["E_mf"]))
                    info["e_estimate"], info["E_mf"] = e_est, P["E_mf"]
                else:
                    e_mix = mixed_energy_at_reference(ret, ham_data, trial_name)
                    en.update(has_cc=True, d_cc=fp(e_mix - P["E_cc"]))
                    info["E_mixed"], info["E_cc"], info["e_estimate"] = e_mix, P["E_cc"], e_est
                if first and e_fci_ref is not None:
                    e_w = written_ground_state(ret, rb["nelec_sp"])
                    if e_w is not None:
                        en.update(has_fci=True, d_fci=fp(e_w - e_fci_ref))
                        info["E_written"], info["E_fci"] = e_w, e_fci_ref
                tr["en"], tr["stage"] = en, "measured"
            except Exception as e:
                tr["crash"] = f"measurement: {type(e).__name__}: {e}"[:300]
            out.append((tr, info))
    return out, None


def molecule_plan(chk: Check):
    rng = np.random.default_rng([chk.seed, 16])
    S = []
    add = lambda *a, **k: S.append(spec_mol(rng, *a, **k))
    add("rhf", "H2", chol_cut=1e-5)
    add("rhf", "H4", chol_cut=1e-6, walker_type="uhf")
    add("rhf-frozen", "LiH", nfrozen=1, chol_cut=1e-5)
    add("rohf", "OH", spin=1, mf="rohf", trial="uhf", walker_type="uhf", chol_cut=1e-5)
    add("rohf-frozen", "OH", spin=1, mf="rohf", nfrozen=1, trial="uhf", walker_type="rhf", chol_cut=1e-6)
    add("uhf", "H3", spin=1, mf="uhf", trial="uhf", walker_type="uhf", chol_cut=1e-5)
    # CC hand-overs at tight thresholds: the t1*t1 part of the doubles is a 1e-5 effect
    add("ccsd-frozen", "LiH", cc="ccsd", nfrozen=1, trial="cisd", also_mf_trial="rhf", chol_cut=1e-7)
    add("ccsd", "H4", cc="ccsd", trial="cisd", chol_cut=1e-7)
    # 6-31g: two alpha electrons and four alpha virtuals, so same-spin doubles exist
    add("uccsd", "H3", basis="6-31g", spin=1, mf="uhf", cc="uccsd", trial="ucisd", walker_type="uhf", also_mf_trial="uhf",
        chol_cut=1e-7)
    add("df", "H4", df=True, chol_cut=1e-5)
    add("custom-basis", "H4", basis_coeff="lowdin", chol_cut=1e-5)
    add("custom-integrals", "H4", integrals="custom", basis_coeff="mo", chol_cut=1e-6)
    add("rhf-frozen", "LiH", basis="6-31g", nfrozen=1, basis_coeff="core+rot", chol_cut=1e-4, walker_type="uhf")
    add("rhf", "H4ring", chol_cut=1e-7, trial="uhf", walker_type="uhf")
    add("rohf", "H4", spin=2, mf="rohf", trial="uhf", walker_type="rhf", chol_cut=1e-5)
    add("uhf", "OH", spin=1, mf="uhf", trial="uhf", walker_type="uhf", chol_cut=1e-6)
    # density fitting AND a frozen core: the core potential must come from the same (density-fitted) integrals as the
    # Cholesky vectors - tight threshold, so that a 1e-5 inconsistency between the two is visible
    add("df", "LiH", df=True, nfrozen=1, chol_cut=1e-8)
    add("df", "H4", basis="sto-6g", df="default", chol_cut=1e-5)
    add("df", "OH", spin=1, mf="rohf", df=True, nfrozen=1, trial="uhf", walker_type="uhf", chol_cut=1e-8)
    add("custom-basis", "OH", spin=1, mf="rohf", trial="uhf", walker_type="uhf", basis_coeff="lowdin", chol_cut=1e-5)
    # a very tight threshold on a system that needs Cholesky vectors below 1e-6: "within the Cholesky threshold" then means 2e-8
    add("rhf", "LiH", basis="6-31g", chol_cut=1e-9)
    for i_, sp_ in enumerate(S):
        sp_["prep_twice"] = i_ % 2 == 0
    if chk.tier == "quick":
        return S
    cuts = [1e-4, 1e-5, 1e-6, 1e-7]
    cut = lambda: float(rng.choice(cuts))
    bas = lambda: str(rng.choice(["sto-3g", "sto-3g", "6-31g"]))
    # walker types under which init_prop_data starts from the trial determinant itself: restricted walkers cannot
    # represent a UHF determinant, and the cisd class implements restricted-walker kernels only
    wt = lambda kind="rhf", trial="rhf": "uhf" if kind == "uhf" else ("rhf" if trial == "cisd" else str(rng.choice(WALKERS)))
    max_frozen = {"LiH": 1, "H4": 1, "H6": 2, "OH": 2}        # doubly occupied and 2*n_frozen < nelectron
    nfz = lambda m: int(rng.integers(1, max_frozen[m] + 1))
    for _ in range(10):
        add("rhf", str(rng.choice(["H2", "H4", "H4ring", "H6", "H6ring", "LiH"])), basis=bas(), chol_cut=cut(), walker_type=wt(),
            trial=str(rng.choice(["rhf", "uhf"])))
        m = str(rng.choice(["LiH", "H4", "H6"]))
        add("rhf-frozen", m, basis=bas(), nfrozen=nfz(m), chol_cut=cut(), walker_type=wt())
        add("rhf-frozen", "LiH", basis=bas(), nfrozen=1, basis_coeff="core+rot", chol_cut=cut(), walker_type=wt())
        m = str(rng.choice(["OH", "H3", "H4", "LiH"]))
        add("rohf", m, basis=bas(), spin=1 if m in ("OH", "H3") else 2, mf="rohf", trial="uhf", walker_type=wt("rohf"), chol_cut=cut())
        add("rohf-frozen", "OH", basis=bas(), spin=1, mf="rohf", nfrozen=nfz("OH"), trial="uhf", walker_type=wt("rohf"),
            chol_cut=cut())
        m = str(rng.choice(["OH", "H3", "H4", "H4ring"]))
        add("uhf", m, basis=bas(), spin=1 if m in ("OH", "H3") else int(rng.choice([0, 2])), mf="uhf", trial="uhf",
            walker_type=wt("uhf"), chol_cut=cut())
        add("ccsd", str(rng.choice(["H2", "H4", "H4ring", "LiH"])), basis=bas(), cc="ccsd", trial="cisd", also_mf_trial="rhf",
            chol_cut=cut(), walker_type=wt("rhf", "cisd"))
        m = str(rng.choice(["LiH", "H4", "H6"]))
        add("ccsd-frozen", m, basis="sto-3g" if m == "H6" else bas(), cc="ccsd", nfrozen=nfz(m), trial="cisd", chol_cut=cut(),
            walker_type=wt("rhf", "cisd"))
        m = str(rng.choice(["OH", "H3", "H4"]))
        add("uccsd", m, basis="sto-3g" if m == "OH" else bas(), spin=1 if m in ("OH", "H3") else int(rng.choice([0, 2])), mf="uhf",
            cc="uccsd", trial="ucisd", walker_type=wt("uhf"), also_mf_trial="uhf", chol_cut=cut())
        m = str(rng.choice(["H4", "LiH", "H6"]))
        add("df", m, basis=bas(), df=True, nfrozen=int(rng.choice([0, 0, 1])), walker_type=wt())
        m = str(rng.choice(["H4", "LiH", "OH"]))
        kind = "rhf" if m != "OH" else str(rng.choice(["rohf", "uhf"]))
        add("custom-basis", m, basis=bas(), spin=1 if m == "OH" else 0, mf=kind, trial="rhf" if kind == "rhf" else "uhf",
            basis_coeff="lowdin", chol_cut=cut(), walker_type=wt(kind))
        m = str(rng.choice(["H4", "H3", "LiH"]))
        kind = "rhf" if m != "H3" else str(rng.choice(["rohf", "uhf"]))
        add("custom-integrals", m, spin=1 if m == "H3" else 0, mf=kind, trial="rhf" if kind == "rhf" else "uhf", integrals="custom",
            basis_coeff=str(rng.choice(["eye", "mo"])), chol_cut=cut(), walker_type=wt(kind))
    for i_, sp_ in enumerate(S):
        sp_.setdefault("prep_twice", i_ % 2 == 0)
    return S


# ================================================================================================ option table
def option_traces(chk: Check, tid0):
    """every trial x walker_type x free_projection combination of _prep_afqmc on prepared directories"""
    from ad_afqmc import pyscf_interface
    rng = np.random.default_rng([chk.seed, 1616])
    dirs = [spec_mol(rng, "options", "H4", cc="ccsd", trial="cisd"),
            spec_mol(rng, "options", "H3", spin=1, mf="rohf", trial="uhf"),
            spec_mol(rng, "options", "H3", spin=1, mf="uhf", cc="uccsd", trial="ucisd")]
    if chk.tier == "thorough":
        dirs += [spec_mol(rng, "options", "LiH", cc="ccsd", nfrozen=1, trial="cisd"),
                 spec_mol(rng, "options", "OH", spin=1, mf="rohf", nfrozen=1, trial="uhf"),
                 spec_mol(rng, "options", "H4", spin=2, mf="uhf", trial="uhf"),
                 spec_mol(rng, "options", "H2", trial="rhf")]
    out, tid = [], tid0
    for spec in dirs:
        P = build_pyscf(spec)
        if "skipped" in P:
            raise MachineryError(f"option-table molecule did not converge: {spec['mol']}")
        pb = problem_record(spec, P)
        obj, kw = prep_kwargs(spec, P)
        d = chk.scratch(f"c16-opt-{tid}")
        with in_dir(d):
            with quiet():
                pyscf_interface.prep_afqmc(obj, **kw)
            files = observe_files(d)
            rows = []
            for t in TRIALS:
                for w in WALKERS:
                    for fpj in (False, True):
                        opt = {"trial": t, "walker_type": w, "free_projection": fpj}
                        setup, rb, _ = call_setup(dict(opt, seed=17, n_walkers=2))
                        rows.append((opt, setup, rb))
        sib = next((rb for _, _, rb in rows if rb is not None), None)
        if sib is None:
            raise MachineryError("no option combination could be set up at all")
        for opt, setup, rb in rows:
            tr = {"id": tid, "stage": "set", "pb": pb, "files": files, "opt": opt,
                  "setup": {k: v for k, v in setup.items() if k != "why"}, "rb": rb if rb is not None else sib, "en": dict(NO_EN)}
            out.append((tr, {"spec": spec, "opt": opt, "why": setup.get("why"), "rb_from_sibling": rb is None}))
            tid += 1
    return out


# ================================================================================================ lattice slice
def lattice_plan(chk: Check):
    rng = np.random.default_rng([chk.seed, 161616])
    L = [("chain", [4], (2, 2), "rhf", 2), ("chain", [4], (2, 1), "rohf", 1), ("grid", [2, 2], (3, 1), "uhf", 1),
         ("chain", [3], (2, 1), "uhf", 1), ("grid", [2, 2], (2, 2), "uhf", 1), ("chain", [5], (3, 2), "rohf", 1),
         ("tri", [2, 2], (1, 1), "rhf", 2)]
    if chk.tier == "thorough":
        L += [("chain", [2], (1, 1), "rhf", 2), ("chain", [3], (1, 1), "rhf", 2), ("chain", [5], (2, 2), "rhf", 2),
              ("chain", [5], (3, 2), "uhf", 2), ("chain", [5], (3, 1), "uhf", 2), ("tri", [2, 2], (2, 1), "rohf", 2),
              ("tri", [2, 2], (2, 2), "uhf", 2), ("grid", [3, 2], (2, 2), "rhf", 2), ("grid", [3, 2], (3, 2), "uhf", 2),
              ("chain", [6], (3, 3), "rhf", 2), ("chain", [6], (2, 1), "rohf", 2), ("chain", [4], (3, 3), "uhf", 2),
              ("chain", [4], (1, 0), "rohf", 1)]
    out = []
    for kind, dims, nelec, mf, ndet in L:
        n = int(np.prod(dims))
        dets = []
        for k in range(ndet):
            mats = [orth_columns(rng, n, rotate=(k > 0 or mf != "rhf"))]
            mats.append(orth_columns(rng, n, rotate=True) if mf == "uhf" else mats[0])
            dets.append(mats)
        out.append({"slice": "lattice", "family": f"lattice-{mf}", "kind": kind, "dims": dims, "nelec": list(nelec), "mf": mf,
                    "t": int(rng.choice([1, 1, 2])), "h0": float(rng.choice([0.75, -1.5, 2.25])),
                    "dets": [[m.tolist() for m in pair] for pair in dets],
                    # restricted walkers cannot represent a determinant with different alpha and beta orbitals
                    "walker_type": str(rng.choice(WALKERS)) if mf != "uhf" else "uhf"})
    return out


def orth_columns(rng, n, rotate=True):
    """integer matrix with mutually orthogonal columns: a signed permutation, two of whose rows are mixed by the
    (3,4,5) rotation [[3,-4],[4,3]] (columns of squared norm 25, 25, 1, ...)"""
    P = np.zeros((n, n), dtype=int)
    perm = rng.permutation(n)
    for k in range(n):
        P[perm[k], k] = rng.choice([-1, 1])
    if rotate and n >= 2:
        i, j = rng.choice(n, size=2, replace=False)
        G = np.eye(n, dtype=int)
        G[i, i], G[j, j], G[i, j], G[j, i] = 3, 3, -4, 4
        P = G @ P
    return P


def make_lattice(kind, dims):
    from ad_afqmc import lattices
    if kind == "chain":
        return lattices.one_dimensional_chain(dims[0])
    if kind == "grid":
        return lattices.two_dimensional_grid(dims[0], dims[1])
    if kind == "tri":
        return lattices.triangular_grid(dims[0], dims[1])
    raise ValueError(kind)


def lattice_oracle(chk: Check, plan):
    """TLC: exact <D|2(H-h0)|D>, <D|D> and the integer matrix of 2(H-h0) per lattice instance"""
    wd = chk.scratch("c16-lattice")
    out = wd / "out"
    out.mkdir(exist_ok=True)
    insts = []
    for iid, L in enumerate(plan, 1):
        lat = make_lattice(L["kind"], L["dims"])
        adj = np.rint(np.asarray(lat.create_adjacency_matrix())).astype(int)
        n = adj.shape[0]
        L["adj"] = adj.tolist()
        na, nb = L["nelec"]
        chol = []
        for i in range(n):
            M = np.zeros((n, n), dtype=int)
            M[i, i] = 2                                   # U = 4 = 2 * 2
            chol.append(M.tolist())
        enc = lambda M, k: [[[int(x), 0] for x in row[:k]] for row in M]
        insts.append({"id": iid, "norb": n, "nup": na, "ndn": nb, "h1": (-L["t"] * adj).tolist(), "chol": chol,
                      "dets": [{"tup": enc(d[0], na), "tdn": enc(d[1], nb)} for d in L["dets"]]})
    (wd / "inst.ndjson").write_text("".join(json.dumps(i) + "\n" for i in insts))
    chk.tlc("PipelineLattice", "SPECIFICATION Spec\nCHECK_DEADLOCK FALSE\n",
            env={"C16_LATTICE_INST": str(wd / "inst.ndjson"), "C16_LATTICE_OUT": str(out)}, name="PipelineLattice",
            timeout=2400)
    res = []
    for i in insts:
        p = out / f"{i['id']}.json"
        if not p.exists():
            raise MachineryError(f"no lattice oracle result for instance {i['id']}")
        r = json.loads(p.read_text().splitlines()[0])
        if not r["sane"]:
            raise MachineryError(f"lattice oracle: matrix of instance {i['id']} is not real symmetric / sector not closed")
        res.append(r)
    return res


def run_lattice(chk: Check, L, R, tid0):
    """the real pipeline on one lattice model, once per hand-made trial determinant"""
    from pyscf import ao2mo, gto, scf
    from ad_afqmc import pyscf_interface
    adj = np.array(L["adj"])
    n = adj.shape[0]
    na, nb = L["nelec"]
    h1 = -float(L["t"]) * adj
    h2 = np.zeros((n, n, n, n))
    for i in range(n):
        h2[i, i, i, i] = 4.0
    e0_exact = L["h0"] + float(np.linalg.eigvalsh(np.array(R["mat"], dtype=float) / 2.0)[0])
    pb = {"nelectron": na + nb, "spin": na - nb, "nao": n, "nfrozen": 0, "mf": L["mf"], "cc": "none"}
    out = []
    for k, det in enumerate(L["dets"]):
        tid = tid0 + k
        ex = R["dets"][k]
        if ex["nrm"][1] != 0 or ex["e2"][1] != 0 or ex["nrm"][0] <= 0:
            raise MachineryError("lattice oracle: norm/energy of a real determinant is not real positive")
        e_exact = L["h0"] + ex["e2"][0] / (2.0 * ex["nrm"][0])
        mol = gto.Mole()
        mol.nelectron, mol.spin, mol.incore_anyway, mol.verbose = na + nb, na - nb, True, 0
        mol.build()
        mf = {"rhf": scf.RHF, "rohf": scf.ROHF, "uhf": scf.UHF}[L["mf"]](mol)
        mf.get_hcore = lambda *a: h1
        mf.get_ovlp = lambda *a: np.eye(n)
        mf._eri = ao2mo.restore(8, h2, n)
        cols = [np.array(m, dtype=float) for m in det]
        cols = [c / np.linalg.norm(c, axis=0) for c in cols]
        mf.mo_coeff = np.array(cols) if L["mf"] == "uhf" else cols[0]
        integrals = {"h0": L["h0"], "h1": h1, "h2": ao2mo.restore(8, h2, n)}
        spec = {k2: v for k2, v in L.items() if k2 != "dets"}
        spec.update(det=det, det_index=k)
        d = chk.scratch(f"c16-lat-{tid}")
        opt = {"trial": "rhf" if L["mf"] == "rhf" else "uhf", "walker_type": L["walker_type"], "free_projection": False}
        with in_dir(d):
            try:
                with quiet():
                    pyscf_interface.prep_afqmc(mf, basis_coeff=np.eye(n), integrals=integrals, chol_cut=1e-8)
            except Exception as e:
                out.append(({"id": tid, "crash": f"prep_afqmc: {type(e).__name__}: {e}"[:300]}, {"spec": spec}))
                continue
            files = observe_files(d)
            setup, rb, ret = call_setup(dict(opt, seed=17, n_walkers=2))
            tr = {"id": tid, "stage": "set", "pb": pb, "files": files, "opt": opt,
                  "setup": {k2: v for k2, v in setup.items() if k2 != "why"}, "rb": rb, "en": dict(NO_EN, tol=fp(LATTICE_TOL))}
            info = {"spec": spec, "opt": opt, "why": setup.get("why"), "exact_energy": e_exact, "exact_ground_state": e0_exact,
                    "oracle": {"nrm": ex["nrm"][0], "e2": ex["e2"][0], "dim": R["dim"]}}
            if rb is None:
                tr["rb"] = dict(NO_RB)
                out.append((tr, info))
                continue
            try:
                e_est, _ = measure(ret)
                e_w = written_ground_state(ret, rb["nelec_sp"])
                tr["en"] = dict(NO_EN, tol=fp(LATTICE_TOL), has_mf=True, d_mf=fp(e_est - e_exact), has_fci=True,
                                d_fci=fp(e_w - e0_exact))
                tr["stage"] = "measured"
                info.update(e_estimate=e_est, E_written=e_w)
            except Exception as e:
                tr["crash"] = f"measurement: {type(e).__name__}: {e}"[:300]
            out.append((tr, info))
    return out


# ================================================================================================ judge
TRACE_KEYS = ("id", "stage", "pb", "files", "rb", "opt", "setup", "en")


def judge(chk: Check, traces, name="judge"):
    wd = chk.scratch(f"c16-{name}")
    out = wd / "out"
    out.mkdir(exist_ok=True)
    (wd / "traces.ndjson").write_text("".join(json.dumps({k: t[k] for k in TRACE_KEYS}) + "\n" for t in traces))
    cfg = ("INIT TInit\nNEXT TNext\nCHECK_DEADLOCK FALSE\nCONSTANTS "
           + " ".join(f"{k} = {v}" for k, v in DESIGN_CONSTANTS.items()) + "\n")
    chk.tlc("PipelineTrace", cfg, env={"C16_TRACES": str(wd / "traces.ndjson"), "C16_OUT": str(out)},
            name=f"PipelineTrace-{name}", workers=4)
    res = {}
    for t in traces:
        p = out / f"{t['id']}.json"
        if not p.exists():
            raise MachineryError(f"no verdict for trace {t['id']}")
        res[t["id"]] = json.loads(p.read_text().splitlines()[0])
    return res


def report(chk: Check, items, verdicts):
    for tr, info in items:
        spec = info["spec"] if "spec" in info else info
        fam = spec["family"]
        if "crash" in tr and tr.get("stage") is None:
            chk.case(("crash", tr["id"]))
            chk.violation(f"{fam}:crash:prep_afqmc", f"the hand-over itself failed on an in-scope problem: {tr['crash']}",
                          {"spec": spec})
            continue
        v = verdicts[tr["id"]]
        if not v["in_scope"]:
            raise MachineryError(f"the harness generated a problem outside the property's scope: {tr['pb']} {tr['opt']}")
        chk.case((fam, tr["id"]), nontrivial=tr["stage"] == "measured" or tr["setup"]["outcome"] != "ok" or fam == "options")
        chk.traces += 1
        failed = list(v["failed"])
        if "crash" in tr:
            failed.append("crash:measurement")
        elif fam != "options" and tr["stage"] != "measured":
            failed.append("not_measured")      # the problem's own option combination could not be set up
        for clause in failed:
            what = (f"{fam}: clause '{clause}' fails for problem {tr['pb']} options {tr['opt']}: header={tr['files']['header']} "
                    f"read-back={tr['rb']} setup={tr['setup']} energies(1e-9 Eh)={tr['en']} "
                    f"details={ {k: info[k] for k in info if k not in ('spec',)} } {tr.get('crash', '')}")
            chk.violation(f"{fam}:{clause}", what, {"spec": spec, "trace": {k: tr[k] for k in TRACE_KEYS}, "verdict": v,
                                                    "details": {k: info[k] for k in info if k != "spec"}})


# ================================================================================================ entry points
def setup_env():
    """library import (hooks on, no MPI) and single-threaded pyscf: the molecules are tiny, and OpenMP teams on
    2x2..11x11 matrices cost two orders of magnitude more than the arithmetic"""
    repo_setup()
    from pyscf import lib
    lib.num_threads(1)
    with quiet():
        from ad_afqmc import mpi_jax  # noqa: F401  (runs config.setup_comm() at import; use_mpi is already False)


def run(chk: Check):
    setup_env()
    chk.rule = ("case = one hand-over pyscf object -> prep_afqmc -> files -> _prep_afqmc(options) [-> init_prop_data, FCI of the "
                "written Hamiltonian, mixed energy at the reference determinant]; molecules: seeded random geometries of "
                "H2/H3/H4 chain/H4 ring/H6/LiH/OH, families rhf, rhf-frozen, rohf, rohf-frozen, uhf, df, custom-basis "
                "(Loewdin / core-preserving rotation), custom-integrals, ccsd, ccsd-frozen, uccsd; lattice: chains, 2x2, "
                "3x2, triangular 2x2 Hubbard models (U=4) with hand-made integer trial determinants, exact reference from "
                "TLC; options: all trial x walker_type x free_projection combinations; non-trivial = energies were "
                "measured, or the set-up refused, or an option-table row")
    chk.assumptions += [
        "pyscf (SCF, CCSD/UCCSD, FCI/CASCI, integrals, its Davidson solver used as eigen-solver on the read-back "
        "integrals) is trusted; molecular energies are floating-point numbers - TLC decides the bookkeeping clauses, the "
        "option table, the tolerance relations and the whole lattice slice",
        "tolerances: 20*chol_cut for molecules (density fitting: chol_cut is the default 1e-5 passed to prep_afqmc), 1e-8 on "
        "the lattice slice; differences are handed to TLC in units of 1e-9 Eh capped at 1 Eh",
        "scope: UHF and UCCSD only without frozen core; frozen orbitals are doubly occupied; custom basis_coeff with a "
        "frozen core only when the frozen orbitals are kept (core-preserving rotation); CC trials only in the MO basis; "
        "n_beta >= 1 except for one lattice instance; pyscf calculations that do not converge are skipped (counted)",
        "frozen-core FCI reference = pyscf CASCI over all non-frozen orbitals; density-fitted reference = pyscf DFCASCI",
        "rb.nelec_sp is observed as the tuple the trial object was constructed with, rb.norb as ham.norb"]
    chk.trusted_base += ["pyscf 2.x", "numpy.linalg.eigvalsh on TLC's integer matrix"]
    design_check(chk)

    items, skipped, tid = [], [], 1
    for spec in molecule_plan(chk):
        got, why = run_molecule(chk, spec, tid)
        if why:
            skipped.append({"family": spec["family"], "mol": spec["mol"]["name"], "why": why})
        items += got
        tid += 2
    nmol = len(items)
    if len(skipped) > max(2, nmol // 4):
        raise MachineryError(f"too many pyscf calculations did not converge: {skipped}")
    chk.note("skipped_pyscf", skipped)

    opt_items = option_traces(chk, tid)
    items += opt_items
    tid += len(opt_items)

    # the whole option-resolution machine of _prep_afqmc (spec/Setup.tla): every options source, directory state
    # and given-option combination model-checked, a seeded sample + failure factorial replayed into the real routine
    setupopt.run(chk)
    # the launcher protocol run_afqmc <-> shell <-> child (spec/Launch.tla): all 384 behaviours replayed through the
    # real functions with shim executables; outside the listed properties (divergences only)
    launch.run(chk)

    plan = lattice_plan(chk)
    oracle = lattice_oracle(chk, plan)
    nlat = 0
    for L, R in zip(plan, oracle):
        got = run_lattice(chk, L, R, tid)
        items += got
        nlat += len(got)
        tid += len(L["dets"])

    judged = [tr for tr, _ in items if tr.get("stage") is not None]
    verdicts = judge(chk, judged)
    report(chk, items, verdicts)

    for tr, info in items:
        if tr.get("stage") == "measured":
            chk.sample({"family": (info["spec"])["family"], "pb": tr["pb"], "opt": tr["opt"], "header": tr["files"]["header"],
                        "en_1e-9Eh": tr["en"], "details": {k: v for k, v in info.items() if k not in ("spec", "oracle")}}, limit=8)
    worst = {}
    for tr, info in items:
        if tr.get("stage") == "measured" and info["spec"]["slice"] == "molecule":
            for k in ("d_mf", "d_fci", "d_cc"):
                if tr["en"]["has_" + k[2:]]:
                    r = tr["en"][k] / max(tr["en"]["tol"], 1)
                    worst[k] = max(worst.get(k, 0.0), round(r, 4))
    chk.note("molecule_traces", nmol)
    chk.note("option_traces", len(opt_items))
    chk.note("lattice_traces", nlat)
    chk.note("worst_difference_over_tolerance", worst)


def replay(chk: Check, case):
    """re-run one recorded case (replay/C16-*.json) through the real pipeline and the judge"""
    setup_env()
    if "setup_instance" in case["case"]:
        setupopt.run(chk, only=case["case"]["setup_instance"])
        return
    spec = case["case"]["spec"]
    if spec.get("slice") == "lattice":
        L = dict(spec)
        L["dets"] = [spec["det"]]
        R = lattice_oracle(chk, [L])[0]
        items = run_lattice(chk, L, R, 1)
    elif spec["family"] == "options":
        items = [it for it in option_traces(chk, 1)]
    else:
        items, _ = run_molecule(chk, spec, 1)
    verdicts = judge(chk, [tr for tr, _ in items if tr.get("stage") is not None], "replay")
    report(chk, items, verdicts)
