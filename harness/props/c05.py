"""C05 - the free-projection step averages to exp(-dt (H - ene0)) with exact norm bookkeeping."""
import json
import math

import numpy as np
import scipy.linalg

from .. import ladder, manybody, wf
from ..core import Check, MachineryError, repo_setup

LEVEL = "other"
DTS = (0.04, 0.02, 0.01, 0.005)

FP_CFG = """SPECIFICATION Spec
CONSTANTS
  MaxSteps = {steps}
  Mutation = "{m}"
INVARIANT Represented
INVARIANT OverlapOfUnnormalised
INVARIANT NormsAreProductOfFactors
INVARIANT SpinConstants
INVARIANT RunningMeanIsWeightedMean
CHECK_DEADLOCK FALSE
"""


def rel(a, b):
    return float(np.linalg.norm(np.asarray(a) - np.asarray(b)) / max(1e-300, np.linalg.norm(np.asarray(b))))


def run(chk: Check):
    repo_setup()
    import jax.numpy as jnp
    from ad_afqmc import propagation, sampling
    chk.rule = ("design: FreeProj.tla (symbolic norm algebra of propagate_free; negative configs must be rejected); implementation: "
                "(a) sequences of 1..4 consecutive propagate_free calls checked step by step against an un-normalised product "
                "built with the library's own _apply_trotprop/_multiply_constant and no QR, judged by FreeProjTrace.tla; "
                "(b) field average by tensor Gauss-Hermite quadrature of norms x walker against expm(-dt(H-ene0)) with H the "
                "integer matrix from HamOracle.tla, dt-ladder judged by Ladder.tla; (c) truncated exponential vs expm within the "
                "Taylor remainder; (d) the sampler's free block energy from its returned trajectory; case = (case, step or dt)")
    chk.assumptions += ["scipy expm and Gauss-Hermite quadrature trusted; order of convergence observed on a finite ladder",
                        "state equalities judged at 1e-10 relative on Fock-space vectors",
                        "electron counts with both spins present (the per-spin constants divide by n_sigma)"]
    big = chk.tier == "thorough"
    r = chk.tlc("FreeProj", FP_CFG.format(steps=4, m="none"), name="FreeProj", workers=4)
    if r.violated:
        raise MachineryError(f"FreeProj.tla violates {r.violated_name}")
    for m in ("no_norm_acc", "overlap_of_normalised"):
        rn = chk.tlc("FreeProj", FP_CFG.format(steps=2, m=m), name=f"FreeProj-neg-{m}", workers=2, expect_violation=True, count=False)
        if not rn.violated:
            raise MachineryError(f"negative config {m} not rejected")
    rng = np.random.default_rng(500 + chk.seed)
    # ("...", "complex-h1"): a complex Hermitian one-body part h1 = S + iA (A antisymmetric: a magnetic flux / twisted
    # boundary); TLC supplies the matrices of both parts
    cases = [("uhf", 3, 2, 1, 2), ("uhf", 3, 1, 1, 1), ("uhf", 3, 2, 1, 1, "complex-h1")] + ([("noci", 3, 2, 1, 2), ("ghf", 2, 1, 1, 2), ("uhf", 3, 2, 2, 3),
                                                            ("ucisd", 3, 1, 1, 2)] if big else [])
    recs, rinfo = [], {}
    traces, tinfo = [], {}
    SC = 1.0 / 8.0
    for ci, (kind, norb, nu, nd, nchol, *flags) in enumerate(cases):
        I = wf.make_instance(ci + 1, rng, kind, norb, nu, nd, nchol, 1, False, spin_dep=True, want=())
        ham = I["ham"]
        cfgs, H = wf.hmatrix(chk, ham, norb, nu, nd, rid=ci + 1, name=f"c05-{ci}")
        H = H * SC
        trial, wd, hd0, hm = wf.build_lib(I)
        hd0["h0"] = ham["h0"] * SC
        hd0["h1"] = hd0["h1"] * SC
        if "complex-h1" in flags:
            a_ = rng.integers(-2, 3, size=(norb, norb))
            A = a_ - a_.T
            cfgs2, HA = wf.hmatrix(chk, {"h0": 0.0, "h1u": A, "h1d": A, "chol": [np.zeros((norb, norb), dtype=int)]}, norb, nu, nd,
                                   rid=100 + ci, name=f"c05-{ci}-A")
            if cfgs2 != cfgs:
                raise MachineryError("configuration order differs between two oracle calls")
            H = H + 1j * HA * SC
            hd0["h1"] = hd0["h1"] + 1j * jnp.array(np.array([A, A]) * SC)
        hd0["chol"] = hd0["chol"] * np.sqrt(SC)
        ene0 = 0.4
        hd0["ene0"] = ene0
        rdm = np.array([wf.rand_sym(rng, norb, -1, 1), wf.rand_sym(rng, norb, -1, 1)]) * 1.0
        wd["rdm1"] = jnp.array(rdm)
        wup, wdn = I["walkers"][0]
        psi_ref = None
        # ---------------------------------------------------------- (a) consecutive steps, norm bookkeeping
        for nexp_terms in ((6, 10) if ci == 0 else (6,)):
            nw = 3
            dt = 0.02
            # (every other case with one walker per batch: the per-walker constants must reach THEIR walker in every batch)
            prop = propagation.propagator_unrestricted(dt=dt, n_walkers=nw, n_exp_terms=nexp_terms, n_batch=(nw if ci % 2 == 0 else 1))
            # (the measurement set-up of the mean-field trials symmetrises h1 with a plain transpose - it is written for real
            # h1; the free-projection step itself needs only the propagation intermediates, which take a complex h1 as is)
            hd = dict(hd0) if "complex-h1" in flags else hm.build_measurement_intermediates(dict(hd0), trial, wd)
            hd = hm.build_propagation_intermediates(hd, prop, trial, wd)
            ups = jnp.array(np.tile(wup[None], (nw, 1, 1)))
            dns = jnp.array(np.tile(wdn[None], (nw, 1, 1)))
            ov0 = trial.calc_overlap([ups, dns], wd)
            pd = {"walkers": [ups, dns], "weights": jnp.ones(nw), "overlaps": ov0, "normed_overlaps": ov0,
                  "norms": jnp.ones(nw) + 0.0j, "e_estimate": jnp.array(0.0), "pop_control_ene_shift": jnp.array(0.0)}
            P = [np.asarray(ups), np.asarray(dns)]          # un-normalised reference product
            steps = []
            for k in range(4):
                fields = jnp.array(rng.normal(size=(nw, nchol)))
                norms_prev = np.asarray(pd["norms"]).copy()
                Qprev = [np.asarray(pd["walkers"][0]).copy(), np.asarray(pd["walkers"][1]).copy()]
                pd = prop.propagate_free(trial, hd, dict(pd, walkers=[jnp.array(Qprev[0]), jnp.array(Qprev[1])]), fields, wd)
                shift_term = np.einsum("wg,sg->sw", np.asarray(fields), np.asarray(hd["mf_shifts_fp"]))
                consts = np.einsum("sw,s->sw", np.exp(-np.sqrt(dt) * shift_term), np.exp(dt * np.asarray(hd["h0_prop_fp"])))
                def raw_step(W):
                    Wn = prop._apply_trotprop(hd, [jnp.array(W[0]), jnp.array(W[1])], fields)
                    Wn = prop._multiply_constant([Wn[0], Wn[1]], jnp.array(consts))
                    return [np.asarray(Wn[0]), np.asarray(Wn[1])]
                P = raw_step(P)
                one = raw_step(Qprev)
                Q = [np.asarray(pd["walkers"][0]), np.asarray(pd["walkers"][1])]
                norms = np.asarray(pd["norms"])
                rep = ovl = novl = fac = True
                for w in range(nw):
                    vP = manybody.sdvec(cfgs, P[0][w], P[1][w])
                    vQ = manybody.sdvec(cfgs, Q[0][w], Q[1][w])
                    v1 = manybody.sdvec(cfgs, one[0][w], one[1][w])
                    rep &= rel(norms[w] * vQ, vP) <= 1e-10
                    fac &= rel((norms[w] / norms_prev[w]) * vQ, v1) <= 1e-10
                with_p = np.asarray(trial.calc_overlap([jnp.array(P[0]), jnp.array(P[1])], wd))
                with_q = np.asarray(trial.calc_overlap([jnp.array(Q[0]), jnp.array(Q[1])], wd))
                ovl = bool(np.allclose(np.asarray(pd["overlaps"]), with_p, rtol=1e-10, atol=0))
                novl = bool(np.allclose(np.asarray(pd["normed_overlaps"]), with_q, rtol=1e-10, atol=0))
                orth = all(np.allclose(q[w].conj().T @ q[w], np.eye(q.shape[2]), atol=1e-10) for q in Q for w in range(nw))
                steps.append({"rep": bool(rep), "ovl": ovl, "novl": novl and orth, "fac": bool(fac)})
                chk.case(("fpstep", ci, nexp_terms, k))
            rid = len(recs) + 1
            recs.append({"id": rid, "steps": steps})
            rinfo[rid] = (kind, I, nexp_terms)
        # ---------------------------------------------------------- (b) field average, dt ladder
        errs = []
        phi0 = manybody.sdvec(cfgs, wup, wdn)
        hd_carry = None
        for dt in DTS:
            nodes, om = manybody.gauss_hermite(nchol, 7 if nchol <= 2 else 5)
            K = len(om)
            prop = propagation.propagator_unrestricted(dt=dt, n_walkers=K, n_exp_terms=10)
            # every other instance re-prepares the SAME dictionary for the next time step, as user code does
            # (ham_data = ham.build_..._intermediates(ham_data, ...)): nothing prepared for one dt may survive into the next
            hd = hd_carry if (ci % 2 == 1 and hd_carry is not None) else dict(hd0)
            if "complex-h1" not in flags:
                hd = hm.build_measurement_intermediates(hd, trial, wd)
            hd = hm.build_propagation_intermediates(hd, prop, trial, wd)
            hd_carry = hd
            ups = jnp.array(np.tile(wup[None], (K, 1, 1)))
            dns = jnp.array(np.tile(wdn[None], (K, 1, 1)))
            ov0 = trial.calc_overlap([ups, dns], wd)
            pd = {"walkers": [ups, dns], "weights": jnp.ones(K), "overlaps": ov0, "normed_overlaps": ov0,
                  "norms": jnp.ones(K) + 0.0j, "e_estimate": jnp.array(0.0), "pop_control_ene_shift": jnp.array(0.0)}
            out = prop.propagate_free(trial, hd, pd, jnp.array(nodes), wd)
            lhs = np.zeros(len(cfgs), dtype=complex)
            nr = np.asarray(out["norms"])
            for k in range(K):
                lhs += om[k] * nr[k] * manybody.sdvec(cfgs, np.asarray(out["walkers"][0][k]), np.asarray(out["walkers"][1][k]))
            rhs = scipy.linalg.expm(-dt * (H - ene0 * np.eye(len(cfgs)))) @ phi0
            errs.append(rel(lhs, rhs))
            chk.case(("fpavg", ci, dt))
        tid = len(traces) + 1
        traces.append({"id": tid, "errs": errs, "scale": 1.0, "floor": 3e-7, "lo": (3, 1), "hi": (0, 1), "first": 1, "bound": 0.02, "ceil": 0.05})
        tinfo[tid] = (kind, I, errs)
        chk.sample({"case": [kind, norb, nu, nd, nchol], "residuals_over_dt": dict(zip(map(str, DTS), errs))}, limit=4)
        # ---------------------------------------------------------- (c) truncated exponential within its Taylor remainder
        for n_terms in (2, 4, 6, 10):
            prop = propagation.propagator_unrestricted(dt=0.01, n_walkers=1, n_exp_terms=n_terms)
            vhs = 1j * 0.3 * (ham["chol"][0] * 1.0)
            got = np.asarray(prop._apply_trotprop_det(jnp.eye(norb), jnp.array(vhs), jnp.array(wup)))
            exact = scipy.linalg.expm(vhs) @ wup
            nv = np.linalg.norm(vhs, 2)
            bound = nv ** n_terms / math.factorial(n_terms) * np.exp(nv) * np.linalg.norm(wup, 2)
            chk.case(("taylor", ci, n_terms))
            if np.linalg.norm(got - exact, 2) > bound * (1 + 1e-9) + 1e-13:
                chk.violation("truncated-exponential", f"_apply_trotprop_det with n_exp_terms={n_terms} deviates from expm by "
                              f"{np.linalg.norm(got - exact, 2)} > Taylor remainder {bound}", {"n_exp_terms": n_terms})
        # ---------------------------------------------------------- (d) the sampler's free block energy
        if ci == 0 and "complex-h1" not in flags:
            nw = 4
            prop = propagation.propagator_unrestricted(dt=0.01, n_walkers=nw, n_exp_terms=10)
            hd = hm.build_measurement_intermediates(dict(hd0), trial, wd)
            hd = hm.build_propagation_intermediates(hd, prop, trial, wd)
            from jax import random
            ups = jnp.array(np.tile(wup[None], (nw, 1, 1)))
            dns = jnp.array(np.tile(wdn[None], (nw, 1, 1)))
            ov0 = trial.calc_overlap([ups, dns], wd)
            pd = {"walkers": [ups, dns], "weights": jnp.ones(nw), "overlaps": ov0, "normed_overlaps": ov0,
                  "norms": jnp.ones(nw) + 0.0j, "e_estimate": jnp.array(0.0), "pop_control_ene_shift": jnp.array(0.0),
                  "key": random.PRNGKey(3)}
            smp = sampling.sampler(n_prop_steps=2, n_ene_blocks=1, n_sr_blocks=1, n_blocks=3)
            ptr, be, bw, key = smp.propagate_free(hm, hd, prop, pd, trial, wd)
            for b in range(3):
                wk = [ptr["walkers"][0][b], ptr["walkers"][1][b]]
                el = np.asarray(trial.calc_energy(wk, hd, wd))
                ovb = np.asarray(ptr["overlaps"][b])
                ref = np.sum(el * ovb) / np.sum(ovb)
                chk.case(("fpblock", b))
                if abs(complex(be[b]) - ref) > 1e-10 * max(1, abs(ref)) or abs(complex(bw[b]) - np.sum(ovb)) > 1e-10 * abs(np.sum(ovb)):
                    chk.violation("sampler-free-block", f"_block_scan_free block {b}: energy {complex(be[b])} / weight {complex(bw[b])} differ "
                                  f"from sum E_L overlap / sum overlap = {ref} / {np.sum(ovb)}", {"block": b})
    # ---------------------------------------------------------- (e) the free-projection driver's bookkeeping
    import contextlib, io, os
    from ad_afqmc import config, driver
    from jax import random
    I = wf.make_instance(900, rng, "uhf", 3, 2, 1, 2, 1, False, spin_dep=True, want=())
    trial, wd, hd0, hm = wf.build_lib(I)
    for k_ in ("h1", "chol"):
        hd0[k_] = hd0[k_] * (SC if k_ == "h1" else np.sqrt(SC))
    hd0["ene0"] = 0.2
    wd["rdm1"] = jnp.array(np.asarray(trial._calc_rdm1(wd)).real)
    prop = propagation.propagator_unrestricted(dt=0.01, n_walkers=4, n_exp_terms=10)
    ntraj, nblk = 3, 2
    smp = sampling.sampler(n_prop_steps=2, n_ene_blocks=ntraj, n_sr_blocks=1, n_blocks=nblk)
    q0 = np.linalg.qr(I["walkers"][0][0])[0]
    q1 = np.linalg.qr(I["walkers"][0][1])[0]
    iw = [jnp.array(np.tile(q0[None], (4, 1, 1))), jnp.array(np.tile(q1[None], (4, 1, 1)))]
    buf = io.StringIO()
    d = chk.scratch("fpdriver")
    old = os.getcwd()
    os.chdir(d)
    try:
        with contextlib.redirect_stdout(buf):
            driver.fp_afqmc(dict(hd0), hm, prop, trial, dict(wd), smp, None, {"seed": 11, "save_walkers": False}, config.not_MPI(),
                            init_walkers=[1 * iw[0], 1 * iw[1]])
        raw = np.loadtxt(d / "samples_raw.dat", dtype=complex)
    finally:
        os.chdir(old)
    # the same trajectories through the sampler, with the driver's key chain
    hd = hm.build_measurement_intermediates(dict(hd0), trial, wd)
    hd = hm.build_propagation_intermediates(hd, prop, trial, wd)
    pd = prop.init_prop_data(trial, wd, hd, [1 * iw[0], 1 * iw[1]])
    pd["key"] = random.PRNGKey(11)
    tot_w = np.zeros(nblk, dtype=complex)
    tot_we = np.zeros(nblk, dtype=complex)
    first = []
    for n in range(ntraj):
        ptr, es, ws, pd["key"] = smp.propagate_free(hm, hd, prop, pd, trial, wd)
        tot_w += np.asarray(ws)
        tot_we += np.asarray(ws) * np.asarray(es)
        first.append((complex(ws[0]), complex(es[0])))
    # the last running-mean line "<n>: [c1 c2 ...]" (numpy may print 0.j, 1.e-05 or wrap the array over several lines)
    import re
    txt = buf.getvalue()
    m_ = list(re.finditer(rf"^\s*{ntraj - 1}:", txt, flags=re.M))
    printed = None
    if m_:
        tail = txt[m_[-1].end():]
        tail = tail[: tail.index("]") + 1] if "]" in tail else tail
        fl = r"(?:\d+\.?\d*|\.\d+)(?:[eE][-+]?\d+)?"
        nums = re.findall(rf"[-+]?{fl}\s*[-+]\s*{fl}j", tail)
        printed = np.array([complex(x.replace(" ", "")) for x in nums]) if len(nums) == nblk else None
    chk.case(("fpdriver", 0))
    chk.traces += 1
    want = tot_we / tot_w
    ok_raw = raw.shape == (ntraj, 2) and all(abs(raw[n][0] - first[n][0]) <= 1e-6 * abs(first[n][0]) and
                                            abs(raw[n][1] - first[n][1]) <= 1e-6 * max(1, abs(first[n][1])) for n in range(ntraj))
    ok_mean = printed is not None and np.allclose(printed, want, rtol=1e-6, atol=1e-7)
    if not (ok_raw and ok_mean):
        chk.violation("fp_afqmc:bookkeeping", f"driver.fp_afqmc: running energies printed {printed} vs weighted means of the sampler's "
                      f"trajectories {want}; samples_raw.dat ok={ok_raw}", {"printed": None if printed is None else [complex(x) for x in printed]})
    # ---- TLC judges
    wdir = chk.scratch("fptrace")
    (wdir / "out").mkdir(exist_ok=True)
    (wdir / "recs.ndjson").write_text("".join(json.dumps(r_) + "\n" for r_ in recs))
    chk.tlc("FreeProjTrace", "SPECIFICATION Spec\nCHECK_DEADLOCK FALSE\n",
            env={"FP_TRACES": str(wdir / "recs.ndjson"), "FP_OUT": str(wdir / "out")}, workers=2, name="FreeProjTrace")
    for r_ in recs:
        v = json.loads((wdir / "out" / f"{r_['id']}.json").read_text().splitlines()[0])
        kind, I, nt = rinfo[r_["id"]]
        chk.traces += 1
        if not v["ok"]:
            chk.violation(f"norm-bookkeeping:{v['clause']}", f"propagate_free ({kind} trial, n_exp_terms={nt}): {v['clause']} fails at "
                          f"step {v['at']} of a sequence of consecutive steps: {r_['steps'][v['at'] - 1]}", {"instance": I["json"], "steps": r_["steps"]})
    verdicts = ladder.judge(chk, traces, "fp-dt")
    for tid, v in verdicts.items():
        kind, I, errs = tinfo[tid]
        chk.traces += 1
        if not v["ok"]:
            chk.violation(f"field-average:{kind}", f"free projection ({kind}): sum_k omega_k norms_k |Q_k> does not approach "
                          f"exp(-dt(H-ene0))|phi> as O(dt^2): residuals {errs} for dt={DTS} ({v})", {"instance": I["json"], "residuals": errs})
    chk.note("explanation", "TLC decides the norm-bookkeeping design (FreeProj.tla), judges the recorded step booleans and the dt "
             "ladder, and supplies the integer matrix of H; quadrature and expm are trusted numerics")
