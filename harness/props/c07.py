"""C07 - stochastic reconfiguration is an unbiased, weight-conserving comb.

Specs: spec/Comb.tla (property-level predicates + reference comb), spec/CombCheck.tla (design-level exhaustive
proof of the reference comb), spec/CombMPI.tla (gather / comb-on-root / scatter protocol, every interleaving),
spec/CombGrid.tla (spec -> code: the states that are replayed), spec/CombTrace.tla (code -> spec: the judge).

Python here only (1) runs TLC, (2) replays TLC's states (weight vector, offset cell) into the library's seven
implementations with index-tagged walkers, over `config.not_a_comm` and over the thread communicator driven by
TLC-generated arrival schedules, (3) converts the float outputs to exact integers (selection vectors read off the
tags, fixed-point new weights) and (4) reports the judge's verdicts.
"""
from __future__ import annotations

import json
import math
import random as pyrandom
from concurrent.futures import ThreadPoolExecutor
from fractions import Fraction

import numpy as np

from .. import threadcomm as tc
from ..core import Check, MachineryError, repo_setup

LEVEL = "model_checking"

NORB, NUP, NDN = 3, 2, 1
DN_OFFSET = 100
CAP = 2 ** 30
INVS_CHECK = ["RefSatisfies", "SignSymmetric", "RevSatisfies", "RefIsTeeth", "RefMonotone", "ConstOnCells",
              "BreaksOnGrid", "ScaleInvariant", "RefWeights", "RefUnbiased", "RevUnbiased", "FixedOffsetRejected",
              "IdentityRejected"]
INVS_MPI = ["TypeOK", "MPIEqualsSerialOnConcat", "NoEarlyRead", "GatherCompleteBeforeComb"]

SITE = {
    "np": "sr.stochastic_reconfiguration_np",
    "jit": "sr.stochastic_reconfiguration",
    "jit_uhf": "sr.stochastic_reconfiguration_uhf",
    "mpi": "sr.stochastic_reconfiguration_mpi",
    "mpi_uhf": "sr.stochastic_reconfiguration_mpi_uhf",
    "prop_r.local": "propagator_restricted.stochastic_reconfiguration_local",
    "prop_u.local": "propagator_unrestricted.stochastic_reconfiguration_local",
    "prop_r.global": "propagator_restricted.stochastic_reconfiguration_global",
    "prop_u.global": "propagator_unrestricted.stochastic_reconfiguration_global",
}


def site_of(name, clause):
    """stable site key: function, communicator class, failing clause (no schedule numbers, no weights)"""
    parts = name.split("@")
    base = SITE.get(parts[0], parts[0])
    comm = ""
    for p in parts[1:]:
        if p == "nac":
            comm = "[not_a_comm]"
        elif p.startswith("T"):
            comm = "[ranks=1]" if p.startswith("T1") else "[ranks>1]"
    return f"{base}{comm}:{clause}"


# ------------------------------------------------------------------------------------------------ design level
def design(chk: Check):
    """TLC proves the reference model against the property-level predicates; the protocol for every interleaving"""
    nmax, wmax = (4, 3) if chk.tier == "quick" else (5, 4)
    cfg = ("SPECIFICATION Spec\nCONSTANTS NMax = %d\nWMax = %d\n" % (nmax, wmax)
           + "".join(f"INVARIANT {i}\n" for i in INVS_CHECK) + "CHECK_DEADLOCK FALSE\n")
    res = chk.tlc("CombCheck", cfg, name="CombCheck", coverage=True, timeout=2400)
    if res.violated:
        raise MachineryError(f"reference comb violates {res.violated_name} (the MODEL is wrong):\n"
                             + "\n".join(res.stdout.splitlines()[-30:]))
    import re
    cov = {}
    for m in re.finditer(r"<(\w+) line \d+, col \d+ to line \d+, col \d+ of module CombCheck>: (\d+):(\d+)", res.stdout):
        cov[m.group(1)] = max(cov.get(m.group(1), 0), int(m.group(3)))
    need = ["ZetaInterior", "ZetaTie", "ZetaZeroWeight", "ZetaLeadZero", "ZetaOneHot", "ZetaNegative", "Integrate"]
    missing = [a for a in need if cov.get(a, 0) == 0]
    if missing:
        raise MachineryError(f"CombCheck did not exercise the input classes {missing} (coverage {cov})")
    chk.note("design_comb", {"NMax": nmax, "WMax": wmax, "states": res.states, "wall_s": round(res.wall_s, 1),
                             "offsets_interior": cov["ZetaInterior"], "offsets_tie": cov["ZetaTie"],
                             "vectors_with_zero_weight": cov["ZetaZeroWeight"],
                             "vectors_with_leading_zero": cov["ZetaLeadZero"],
                             "vectors_all_mass_on_one_walker": cov["ZetaOneHot"],
                             "vectors_with_negative_weight": cov["ZetaNegative"],
                             "vectors": cov["Integrate"]})

    # protocol: every interleaving, R = 1..4, both completion rules, restricted and unrestricted
    configs = [(r, 2, uhf, eager) for r in (1, 2, 3, 4) for uhf in (False, True) for eager in (False, True)]
    if chk.tier == "thorough":
        configs += [(r, 1, uhf, eager) for r in (2, 3, 4) for uhf in (False, True) for eager in (False, True)]

    def one(c):
        r, nper, uhf, eager = c
        cfgm = (f"SPECIFICATION Spec\nCONSTANTS R = {r}\nNPer = {nper}\nUhf = {str(uhf).upper()}\n"
                f"Eager = {str(eager).upper()}\nEmitSchedules = FALSE\n"
                + "".join(f"INVARIANT {i}\n" for i in INVS_MPI) + "PROPERTY Termination\n")
        res = chk.tlc("CombMPI", cfgm, name=f"CombMPI-R{r}n{nper}{'u' if uhf else 'r'}{'e' if eager else 's'}",
                      workers=4, deadlock=True, timeout=1200)
        return c, res
    with ThreadPoolExecutor(4) as ex:
        out = list(ex.map(one, configs))
    tot = 0
    for c, res in out:
        if res.violated:
            raise MachineryError(f"CombMPI{c}: {res.violated_name} violated (the protocol MODEL is wrong):\n"
                                 + "\n".join(res.stdout.splitlines()[-30:]))
        tot += res.states
    chk.note("design_mpi", {"configs": len(configs), "ranks": [1, 2, 3, 4], "walkers_per_rank": sorted({c[1] for c in configs}),
                            "states": tot, "invariants": INVS_MPI + ["Termination", "deadlock freedom"]})


# ------------------------------------------------------------------------------------------------ schedules
def schedules(chk: Check):
    """arrival orders of ranks taken from TLC behaviours of CombMPI.tla: {(R, uhf, eager): [sched, ...]}"""
    nsim = 40 if chk.tier == "quick" else 300
    configs = [(r, uhf, eager) for r in (1, 2, 3, 4) for uhf in (False, True) for eager in (False, True)]

    def one(c):
        r, uhf, eager = c
        out = chk.scratch(f"sched-{r}-{int(uhf)}-{int(eager)}")
        cfg = (f"SPECIFICATION Spec\nCONSTANTS R = {r}\nNPer = 1\nUhf = {str(uhf).upper()}\n"
               f"Eager = {str(eager).upper()}\nEmitSchedules = TRUE\nINVARIANT MPIEqualsSerialOnConcat\n"
               "CHECK_DEADLOCK FALSE\n")
        exhaustive = r <= 2
        chk.tlc("CombMPI", cfg, name=f"Sched-R{r}{'u' if uhf else 'r'}{'e' if eager else 's'}", workers=2,
                env={"SCHED_OUT": str(out)}, simulate=None if exhaustive else f"num={nsim}",
                extra_args=() if exhaustive else ("-seed", str(chk.seed + 1)), count=exhaustive, timeout=600)
        ss = []
        for p in sorted(out.glob("*.json")):
            rec = json.loads(p.read_text().splitlines()[0])
            if rec["ranks"] != r or rec["uhf"] != uhf or rec["eager"] != eager:
                raise MachineryError(f"schedule file {p} does not match its configuration")
            ss.append(rec["sched"])
        if not ss:
            raise MachineryError(f"TLC produced no schedule for R={r} uhf={uhf} eager={eager}")
        return c, ss, exhaustive
    with ThreadPoolExecutor(8) as ex:
        res = list(ex.map(one, configs))
    rng = pyrandom.Random(chk.seed)
    table = {}
    for c, ss, exhaustive in res:
        rng.shuffle(ss)
        table[c] = ss
    chk.note("schedules", {f"R{c[0]}{'u' if c[1] else 'r'}{'e' if c[2] else 's'}": len(ss) for c, ss, _ in res})
    return table


class SchedulePicker:
    """round-robin over the TLC schedules of a configuration; counts the distinct ones actually replayed"""

    def __init__(self, table):
        self.table = table
        self.i = {}
        self.used = set()

    def next(self, r, uhf):
        eager = self.i.get(("e", r, uhf), 0) % 2 == 1       # alternate the two completion rules
        self.i[("e", r, uhf)] = self.i.get(("e", r, uhf), 0) + 1
        ss = self.table[(r, uhf, eager)]
        k = self.i.get((r, uhf, eager), 0)
        self.i[(r, uhf, eager)] = k + 1
        s = ss[k % len(ss)]
        self.used.add((r, uhf, eager, tuple(s)))
        return s, eager


# ------------------------------------------------------------------------------------------------ the library
class Lib:
    """the implementations under test, with index-tagged walkers"""

    def __init__(self):
        self.config = repo_setup()
        import jax
        import jax.numpy as jnp
        from ad_afqmc import propagation, sr
        self.jax, self.jnp, self.sr, self.propagation = jax, jnp, sr, propagation
        self.pat_up = (np.arange(NORB * NUP).reshape(NORB, NUP) / 64.0).astype(np.complex128)
        # the down block has NDN columns for odd population sizes and NUP columns (n_up == n_dn, the closed-shell
        # unrestricted case: up and down blocks of identical shape and dtype) for even ones
        self._pat_dn = {k: (np.arange(NORB * k).reshape(NORB, k) / 32.0).astype(np.complex128) for k in (NDN, NUP)}
        self._tags = {}
        self._jtags = {}
        self._props = {}

    def pat_dn(self, n):
        return self._pat_dn[NUP if n % 2 == 0 else NDN]

    def tags(self, n):
        """walker i (0-based) = (i+1) + pattern (up), (i+1+100) + pattern (down): sel is read off the output"""
        if n not in self._tags:
            idx = np.arange(1, n + 1, dtype=np.float64)[:, None, None]
            self._tags[n] = ((idx + self.pat_up[None]).astype(np.complex128),
                             (idx + DN_OFFSET + self.pat_dn(n)[None]).astype(np.complex128))
        return self._tags[n]

    def decode(self, block, dn, n):
        """selection vector (1-based, 0 = not a copy of any input walker) from an output block"""
        b = np.asarray(block)
        pat, off = (self.pat_dn(n), DN_OFFSET) if dn else (self.pat_up, 0)
        if b.ndim != 3 or b.shape[1:] != pat.shape:
            return [0] * (b.shape[0] if b.ndim >= 1 else 0)
        v = b - pat[None]
        out = []
        for j in range(b.shape[0]):
            x = v[j].reshape(-1)
            t = x[0]
            k = t.real - off
            if np.all(x == t) and t.imag == 0 and np.isfinite(k) and k == round(k) and 1 <= k <= n:
                out.append(int(k))
            else:
                out.append(0)
        return out

    def prop(self, kind, n):
        if (kind, n) not in self._props:
            cls = self.propagation.propagator_restricted if kind == "r" else self.propagation.propagator_unrestricted
            self._props[(kind, n)] = cls(n_walkers=n)
        return self._props[(kind, n)]

    # each returns (walkers_out, weights_out); walkers_out is an array (restricted) or [up, dn]
    def call(self, base, lo, hi, wts, zeta, comm=None, key=None):
        """run implementation `base` on walkers lo..hi-1 (global 0-based indices) of the tagged population"""
        jnp, sr = self.jnp, self.sr
        n_tot = self._n_tot
        if (n_tot, lo, hi) not in self._jtags:        # immutable jax arrays: safe to share between calls and threads
            u, d = self.tags(n_tot)
            self._jtags[(n_tot, lo, hi)] = (jnp.array(u[lo:hi]), jnp.array(d[lo:hi]))
        up, dn = self._jtags[(n_tot, lo, hi)]
        wl = jnp.array(np.asarray(wts[lo:hi], dtype=np.float64))
        if base == "np":
            return sr.stochastic_reconfiguration_np(up, wl, zeta)
        if base == "jit":
            return sr.stochastic_reconfiguration(up, wl, jnp.float64(zeta))
        if base == "jit_uhf":
            return sr.stochastic_reconfiguration_uhf([up, dn], wl, jnp.float64(zeta))
        if base == "mpi":
            return sr.stochastic_reconfiguration_mpi(up, wl, zeta, comm)
        if base == "mpi_uhf":
            return sr.stochastic_reconfiguration_mpi_uhf([up, dn], wl, zeta, comm)      # (mutates its list argument)
        kind, mode = base[5], base[7:]
        p = self.prop(kind, hi - lo)
        pd = {"key": key, "weights": wl, "walkers": up if kind == "r" else [up, dn]}
        pd = p.stochastic_reconfiguration_local(pd) if mode == "local" else p.stochastic_reconfiguration_global(pd, comm)
        return pd["walkers"], pd["weights"]

    def drawn_zeta(self, key):
        """the offset the propagators draw from prop_data['key'] (same split / uniform as propagation.py)"""
        _, sub = self.jax.random.split(key)
        return float(self.jax.random.uniform(sub))


def fixed_bits(n, W):
    s = 0
    while s < 20 and n * n * W * 2 ** (s + 1) < CAP:
        s += 1
    if n * n * W * 2 ** s >= CAP:
        raise MachineryError(f"weights too large for TLC's integers (N={n}, W={W})")
    return s


def to_fixed(x, mult):
    """round(x * mult) for a float x and exact rational mult; -1 if not finite or out of TLC's range"""
    x = float(x)
    if not math.isfinite(x):
        return -1
    v = Fraction(x) * mult
    r = math.floor(v + Fraction(1, 2))
    return int(r) if abs(r) < CAP else -1


class Runner:
    def __init__(self, chk, lib, picker):
        self.chk, self.lib, self.picker = chk, lib, picker
        self.mpi_runs = 0
        self.fail_sites = {}

    def convert(self, base, n, outs, s, scale):
        """per-rank outputs -> per-rank chunks of sel (up, dn), fixed-point weights, and the exact sum"""
        uhf = base in ("jit_uhf", "mpi_uhf") or base.startswith("prop_u")
        mult = Fraction(n * 2 ** s) / Fraction(scale)
        up, dn, u = [], [], []
        tot = Fraction(0)
        for walkers, wnew in outs:
            if uhf:
                ok = isinstance(walkers, (list, tuple)) and len(walkers) == 2
                up.append(self.lib.decode(walkers[0], False, n) if ok else [])
                dn.append(self.lib.decode(walkers[1], True, n) if ok else [])
            else:
                up.append(self.lib.decode(walkers, False, n))
            wn = np.asarray(wnew)
            if wn.ndim != 1 or np.iscomplexobj(wn):
                u.append([-1] * int(wn.shape[0] if wn.ndim else 1))
                continue
            u.append([to_fixed(x, mult) for x in wn])
            for x in wn:
                if math.isfinite(float(x)):
                    tot += Fraction(float(x))
        usum = math.floor(tot * mult + Fraction(1, 2))
        run = {"up": up, "u": u, "usum": int(usum) if abs(usum) < CAP else -1, "ops": []}
        if uhf:
            run["dn"] = dn
        return run

    def threaded(self, base, n, ranks, wts, zeta, decoy, sched, eager, keys=None):
        """run an MPI implementation on `ranks` threads; rank r holds walkers r*n/R .. (r+1)*n/R - 1"""
        per = n // ranks

        def fn(comm, r):
            z = zeta if r == 0 else decoy          # only the root's offset may matter
            k = None if keys is None else keys[r]
            w, x = self.lib.call(base, r * per, (r + 1) * per, wts, z, comm=comm, key=k)
            return ([np.asarray(w[0]), np.asarray(w[1])] if isinstance(w, (list, tuple)) else np.asarray(w)), np.asarray(x)
        world = tc.ThreadWorld(ranks, schedule=sched, eager=eager, timeout=15.0)
        rr = tc.run_ranks(world, fn)
        self.mpi_runs += 1
        if rr.ok and sched is not None:
            arrivals = [e[1] for e in rr.log if e[0] == "arrive"]
            k = min(len(arrivals), len(sched))
            if arrivals[:k] != list(sched[:k]):
                raise MachineryError(f"thread communicator did not follow the TLC schedule {sched}: {arrivals}")
        return rr

    def run_impl(self, name, n, wts, zeta, decoy, s, scale, key=None, keys=None):
        """-> run record for the judge, or None after reporting an exception / protocol failure"""
        lib = self.lib
        lib._n_tot = n
        parts = name.split("@")
        base = parts[0]
        commspec = next((p for p in parts[1:] if p == "nac" or p.startswith("T")), None)
        info = {"impl": name, "w": [float(x) for x in wts], "zeta": zeta}
        if self.fail_sites.get(base + str(commspec), 0) >= 8:
            return None            # this call site already failed 8 times with an exception / protocol error
        try:
            if commspec is None or commspec == "nac":
                comm = lib.config.not_a_comm() if commspec == "nac" else None
                out = lib.call(base, 0, n, wts, zeta, comm=comm, key=key)
                return self.convert(base, n, [out], s, scale)
            ranks = int(commspec[1:])
            uhf = base in ("mpi_uhf", "prop_u.global")
            sched, eager = self.picker.next(ranks, uhf)
            rr = self.threaded(base, n, ranks, wts, zeta, decoy, sched, eager, keys)
            if not rr.ok:
                code_exc = [e for e in rr.errors if e is not None and not isinstance(e, tc.CommError)]
                if code_exc:
                    raise code_exc[0]
                # the collectives could not be completed under this TLC schedule: free-run to see what the code does
                rr2 = self.threaded(base, n, ranks, wts, zeta, decoy, None, eager, keys)
                if rr2.ok and [[o[0] for o in ops] for ops in rr2.ops] == [self.expected_ops(uhf)] * ranks:
                    raise MachineryError(f"{name}: TLC schedule {sched} (eager={eager}) could not be replayed "
                                         f"although the code issues the modelled collectives: {rr.describe()}")
                info.update({"schedule": sched, "eager": eager, "ops_per_rank": [[o[0] for o in ops] for ops in rr.ops]})
                self.fail_sites[base + str(commspec)] = self.fail_sites.get(base + str(commspec), 0) + 1
                self.chk.violation(site_of(name, "collectives"),
                                   f"{name}: the ranks' collectives do not match / cannot complete "
                                   f"({rr.describe()}); collectives issued per rank: {info['ops_per_rank']}", info)
                return None
            run = self.convert(base, n, rr.results, s, scale)
            run["ops"] = [[o[0] for o in ops] for ops in rr.ops]
            return run
        except MachineryError:
            raise
        except Exception as e:      # noqa: BLE001 - an exception of the library on a valid input is a finding
            self.fail_sites[base + str(commspec)] = self.fail_sites.get(base + str(commspec), 0) + 1
            self.chk.violation(site_of(name, "exception"), f"{name} raised {type(e).__name__}: {e} "
                               f"(weights {info['w']}, zeta {zeta})", info)
            return None

    @staticmethod
    def expected_ops(uhf):
        return ["Gather"] * (3 if uhf else 2) + ["Scatter"] * (3 if uhf else 2)


def impl_entry(name, runs, ranks=1):
    base = name.split("@")[0]
    return {"name": name, "uhf": base in ("jit_uhf", "mpi_uhf") or base.startswith("prop_u"),
            "mpi": any(p.startswith("T") for p in name.split("@")[1:]), "ranks": ranks, "runs": runs}


def comm_ranks(name):
    for p in name.split("@")[1:]:
        if p.startswith("T"):
            return int(p[1:])
    return 1


def scale_of(name):
    for p in name.split("@")[1:]:
        if p.startswith("x2^"):
            return 2.0 ** int(p[3:])
    return 1.0


def key_pool(lib, seed, size=512):
    """seeded PRNG keys and the offset each makes the propagators draw"""
    jax = lib.jax
    pool = jax.random.split(jax.random.PRNGKey(seed + 7), size)
    zetas = np.asarray(jax.vmap(lambda k: jax.random.uniform(jax.random.split(k)[1]))(pool))
    return [pool[i] for i in range(size)], zetas


# ------------------------------------------------------------------------------------------------ spec -> code
def grid_states(chk: Check, rng):
    """TLC enumerates the states to replay: (weight vector, offset cells)"""
    nmax, wmax = (4, 2) if chk.tier == "quick" else (5, 2)
    out = chk.scratch("grid")
    res = chk.tlc("CombGrid", f"INIT InitEnum\nNEXT Next\nCONSTANTS NMax = {nmax}\nWMax = {wmax}\nCHECK_DEADLOCK FALSE\n",
                  name="CombGrid-enum", env={"GRID_OUT": str(out)}, workers=8)
    # weights of very different magnitude inside one vector: m * 2^e, proposed here, cells computed by TLC
    mixed = []
    nmix = 60 if chk.tier == "quick" else 400
    for k in range(nmix):
        n = rng.choice([2, 3, 4, 5, 6] if chk.tier == "thorough" else [2, 3, 4])
        while True:
            w = [rng.choice([0, 1, 1, 2, 3]) * 2 ** rng.choice([0, 8, 16]) * rng.choice([1, 1, -1]) for _ in range(n)]
            if sum(abs(x) for x in w) > 0:
                break
        mixed.append({"id": k + 1, "w": w})
    # larger populations with small weights for the 3- and 4-rank partitions with 2 walkers per rank
    for n in ((6, 8) if chk.tier == "quick" else (6, 8, 12)):
        for _ in range(6 if chk.tier == "quick" else 40):
            while True:
                w = [rng.choice([0, 1, 2, 3]) * rng.choice([1, 1, -1]) for _ in range(n)]
                if sum(abs(x) for x in w) > 0:
                    break
            mixed.append({"id": len(mixed) + 1, "w": w})
    gin = chk.scratch("grid-in") / "vectors.ndjson"
    gin.write_text("".join(json.dumps(v) + "\n" for v in mixed))
    chk.tlc("CombGrid", f"INIT InitFile\nNEXT Next\nCONSTANTS NMax = {nmax}\nWMax = {wmax}\nCHECK_DEADLOCK FALSE\n",
            name="CombGrid-file", env={"GRID_IN": str(gin), "GRID_OUT": str(out)}, workers=4)
    states = []
    for p in sorted(out.glob("*.json")):
        rec = json.loads(p.read_text().splitlines()[0])
        states.append(rec)
    if len(states) != res.states // 2 + len(mixed):
        raise MachineryError(f"CombGrid wrote {len(states)} states, expected {res.states // 2 + len(mixed)}")
    # quick tier: of the enumerated vectors with N = NMax keep every non-negative one and a seeded quarter of the
    # others (the code sees the signs only through |w|; CombCheck proves SignSymmetric for every sign pattern)
    kept = [st for st in states if st["kind"] != "fine" or chk.tier != "quick" or len(st["w"]) < nmax
            or min(st["w"]) >= 0 or rng.random() < 0.25]
    return kept, {"NMax": nmax, "WMax": wmax, "enumerated_vectors": res.states // 2, "proposed_vectors": len(mixed),
                  "replayed_vectors": len(kept)}


def replay_states(chk: Check, lib: Lib, picker, states, rng):
    """every (w, cell) into every implementation; returns the records for the judge"""
    runner = Runner(chk, lib, picker)
    records, meta = [], {}
    quick = chk.tier == "quick"
    p_thread = {1: 0.02, 2: 0.05, 3: 0.12, 4: 0.06} if quick else {1: 0.05, 2: 0.25, 3: 0.5, 4: 0.25}
    keypool, pool_zeta = key_pool(lib, chk.seed)
    pool_frac = [Fraction(float(z)) for z in pool_zeta]
    verified = set()
    nstate = 0
    for st in states:
        w = st["w"]
        n = len(w)
        W = sum(abs(x) for x in w)
        s = fixed_bits(n, W)
        cells = st["cells"]
        mids = [(c["lo"] + c["hi"]) // 2 for c in cells]
        zetas = [m / (2.0 * W) for m in mids]
        is_enum = st["kind"] == "fine"
        names = ["np", "jit", "jit_uhf", "mpi@nac", "mpi_uhf@nac"]
        for r in (1, 2, 3, 4):
            if n % r == 0 and (not is_enum or rng.random() < p_thread[r] or n > 5):
                names += [f"mpi@T{r}", f"mpi_uhf@T{r}"]
        if rng.random() < (0.25 if quick else 0.5):
            e = rng.choice([-40, 40])
            names += [rng.choice(["jit", "np", "jit_uhf", "mpi_uhf@nac", "mpi@nac"]) + f"@x2^{e}"]
        impls = []
        for name in names:
            scale = scale_of(name)
            wts = np.array(w, dtype=np.float64) * scale
            runs = []
            for ci, z in enumerate(zetas):
                decoy = zetas[(ci + 1) % len(zetas)] if len(zetas) > 1 else 0.5 * z
                run = runner.run_impl(name, n, wts, z, decoy, s, scale)
                if run is None:
                    runs = None
                    break
                runs.append(run)
                chk.case((tuple(w), mids[ci], name), nontrivial=len({abs(x) for x in w}) > 1)
            if runs is not None:
                impls.append(impl_entry(name, runs, comm_ranks(name)))
        rid = len(records) + 1
        records.append({"id": rid, "w": w, "s": s, "full": True, "cells": cells, "impls": impls})
        meta[rid] = {"kind": "grid:" + st["kind"], "w": w, "zetas": zetas, "scale_note": "see impl name"}
        nstate += len(cells)

        # the propagators draw their own offset from prop_data["key"]: one key per cell (fine grid only)
        if is_enum or W <= 24:
            fine = [{"lo": 2 * c, "hi": 2 * c + 2} for c in range(W)]
            chosen = []
            guard = Fraction(1, 2 ** 20)
            for c in range(W):
                k = next((i for i, z in enumerate(pool_frac)
                          if Fraction(c, W) + guard < z < Fraction(c + 1, W) - guard), None)
                chosen.append(k)
            full = all(k is not None for k in chosen)
            cells_p = [fine[c] for c in range(W) if chosen[c] is not None]
            ks = [k for k in chosen if k is not None]
            pnames = ["np", "prop_r.local", "prop_u.local", "prop_r.global@nac", "prop_u.global@nac"]
            for r in (1, 2, 3, 4):
                if n % r == 0 and (rng.random() < 0.5 * p_thread[r] or n > 5):
                    pnames += [f"prop_r.global@T{r}", f"prop_u.global@T{r}"]
            wts = np.array(w, dtype=np.float64)
            impls = []
            for name in pnames:
                runs = []
                for k in ks:
                    z = float(pool_zeta[k])
                    if k not in verified:
                        verified.add(k)
                        if lib.drawn_zeta(keypool[k]) != z:
                            raise MachineryError("could not reproduce the propagator's offset from its key")
                    r = comm_ranks(name)
                    keys = [keypool[k]] + [keypool[(k + 17 * q) % len(keypool)] for q in range(1, r)]
                    run = runner.run_impl(name, n, wts, z, None, s, 1.0, key=keypool[k], keys=keys)
                    if run is None:
                        runs = None
                        break
                    runs.append(run)
                    chk.case((tuple(w), "key", int(k), name), nontrivial=len({abs(x) for x in w}) > 1)
                if runs is not None:
                    impls.append(impl_entry(name, runs, comm_ranks(name)))
            rid = len(records) + 1
            records.append({"id": rid, "w": w, "s": s, "full": full, "cells": cells_p, "impls": impls})
            meta[rid] = {"kind": "prop", "w": w, "zetas": [float(pool_zeta[k]) for k in ks], "keys": [int(k) for k in ks]}
            nstate += len(cells_p)
    chk.note("states_replayed", nstate)
    chk.note("thread_communicator_runs", runner.mpi_runs)
    chk.note("distinct_tlc_schedules_replayed", len(picker.used))
    return records, meta


# ------------------------------------------------------------------------------------------------ code -> spec
def judge(chk: Check, records, meta, name="judge"):
    wd = chk.scratch(f"comb-{name}")
    out = wd / "out"
    out.mkdir(exist_ok=True)
    with (wd / "traces.ndjson").open("w") as f:
        for r in records:
            f.write(json.dumps(r) + "\n")
    chk.tlc("CombTrace", "SPECIFICATION Spec\nCHECK_DEADLOCK FALSE\n", name=f"CombTrace-{name}",
            env={"COMB_TRACES": str(wd / "traces.ndjson"), "COMB_OUT": str(out)}, timeout=2400)
    nfail, mism, judged = 0, set(), 0
    for r in records:
        p = out / f"{r['id']}.json"
        if not p.exists():
            raise MachineryError(f"no verdict for record {r['id']}")
        v = json.loads(p.read_text().splitlines()[0])
        if not v["well_formed"]:
            raise MachineryError(f"the judge rejected record {r['id']} as malformed: {json.dumps(r)[:600]}")
        judged += v["judged"]
        mism.update(v["ref_mismatch"])
        by_name = {m["name"]: m for m in r["impls"]}
        for fl in v["failures"]:
            nfail += 1
            m = meta[r["id"]]
            cell = fl["cell"]
            run = by_name[fl["impl"]]["runs"][cell - 1] if cell else None
            zeta = m["zetas"][cell - 1] if cell else None
            chk.violation(site_of(fl["impl"], fl["clause"]),
                          f"{fl['impl']}: clause {fl['clause']} fails for integer weights {r['w']} "
                          f"(x scale in the name), " + (f"offset {zeta}: got {run}" if cell else "integrated over all offset cells"),
                          {"kind": m["kind"], "w": r["w"], "impl": fl["impl"], "clause": fl["clause"], "cell": cell,
                           "zeta": zeta, "cells": r["cells"], "got": run, "keys": m.get("keys"), "s": r["s"]})
    chk.traces += judged
    return nfail, sorted(mism)


def differential_stub(chk: Check, lib: Lib):
    """config.not_a_comm against ThreadComm(1) on the collectives sr.py uses (machinery sanity, not a clause)"""
    nac = lib.config.not_a_comm()
    rng = np.random.default_rng(chk.seed)
    a = rng.standard_normal((3, 2, 2))

    def fn(comm):
        g = np.zeros_like(a)
        comm.Gather(a, g, root=0)
        s = np.zeros_like(a)
        comm.Scatter(g * 2, s, root=0)
        return g, s
    g1, s1 = fn(nac)
    rr = tc.run_ranks(tc.ThreadWorld(1, timeout=5.0), fn)
    if not rr.ok or not (np.array_equal(rr.results[0][0], g1) and np.array_equal(rr.results[0][1], s1)):
        chk.violation("config.not_a_comm:Gather/Scatter", "not_a_comm differs from a one-rank communicator",
                      {"describe": rr.describe()})


def run(chk: Check):
    chk.rule = ("design: TLC proves the reference comb (cumsum + searchsorted-left, Comb.tla) against the property-level "
                "predicates for every signed integer weight vector (N<=NMax, |w_i|<=WMax, W>0) and every offset p/(2W), "
                "and the gather/comb/scatter protocol for R=1..4 under every interleaving and both MPI completion rules; "
                "spec->code: every TLC state (w, offset cell of the 1/W grid) is replayed at the cell midpoint into "
                "sr.stochastic_reconfiguration{,_uhf,_np,_mpi,_mpi_uhf} (not_a_comm and ThreadComm(R), every equal "
                "partition, TLC-generated arrival schedules) and into propagator_*.stochastic_reconfiguration_local/"
                "global (offset drawn from the key); code->spec: TLC judges CopiesOnly, EqualWeights, Conserves, "
                "FloorCeil, NoZeroSelected, SpinPaired, Unbiased (exact integral over the cells), AllImplsAgree, "
                "MPIEqualsSerialOnConcat, CollectiveOrder on the recorded outputs; case = (w, offset, implementation); "
                "non-trivial = weights not all equal in magnitude")
    chk.assumptions += [
        "W = sum|w_i| > 0: for the all-zero weight vector N|w_i|/W is undefined, so it is outside the property's "
        "quantifier (the code then copies walker 0 N times with weight 0, no NaN; noted, not judged)",
        "offsets strictly inside (0,1) and never on a breakpoint: every replayed offset is a cell midpoint of the 1/W "
        "grid (distance >= 1/(2W) from any tie, >= 1e-7 relative), or a drawn offset at least 2^-20 inside its cell",
        "weights of very different magnitude: integer vectors m*2^e (e in {0,8,16}, ratio up to 2e5 inside a vector) "
        "and whole-vector power-of-two scales 2^-40, 2^40 (exact in binary floating point; ScaleInvariant is a TLC "
        "theorem of the spec); new weights are compared in fixed point with 2^-s resolution, N*N*W*2^s < 2^30",
        "a run on R ranks is R threads sharing one thread communicator whose collectives follow MPI's matching "
        "rules; arrival orders are TLC behaviours of CombMPI.tla (exhaustive for R<=2, sampled for R=3,4)"]
    rng = pyrandom.Random(chk.seed)
    # the design-level TLC runs do not depend on the library: run them beside the replay
    bg = ThreadPoolExecutor(1)
    design_done = bg.submit(design, chk)
    try:
        _run_binding(chk, rng)
    finally:
        design_done.result()          # re-raises a MachineryError of the design-level runs
        bg.shutdown()


def _run_binding(chk: Check, rng):
    import time
    t = [time.time()]
    table = schedules(chk)
    t.append(time.time())
    lib = Lib()
    differential_stub(chk, lib)
    states, ginfo = grid_states(chk, rng)
    chk.note("replay_grid", ginfo)
    t.append(time.time())
    picker = SchedulePicker(table)
    records, meta = replay_states(chk, lib, picker, states, rng)
    t.append(time.time())
    nfail, mism = judge(chk, records, meta)
    t.append(time.time())
    chk.note("phase_wall_s", dict(zip(["schedules", "grid", "replay", "judge"], [round(b - a, 1) for a, b in zip(t, t[1:])])))
    chk.note("records_judged", len(records))
    chk.note("failing_clauses", nfail)
    chk.note("implementations_differing_from_reference_model_somewhere", mism)
    # what the code does outside the quantifier (W = 0), for the record
    try:
        lib._n_tot = 3
        wk, wn = lib.call("jit", 0, 3, np.zeros(3), 0.5)
        chk.note("all_zero_weights_outside_quantifier", {"sel": lib.decode(wk, False, 3), "new_weights": np.asarray(wn).tolist()})
    except Exception as e:      # noqa: BLE001
        chk.note("all_zero_weights_outside_quantifier", f"raises {type(e).__name__}")
    for r in records[:: max(1, len(records) // 5)]:
        m = r["impls"][0] if r["impls"] else None
        chk.sample({"w": r["w"], "cells": r["cells"][:4], "impls": [i["name"] for i in r["impls"]],
                    "np_first_cell": m["runs"][0] if m and m["runs"] else None})


def replay(chk: Check, case):
    """./check C07 --replay file: re-run one failing (w, implementation) and judge it again"""
    c = case["case"]
    lib = Lib()
    rng = pyrandom.Random(case.get("seed", 0))
    table = schedules(chk) if "@T" in c["impl"] else {}
    picker = SchedulePicker(table)
    w = c["w"]
    W = sum(abs(x) for x in w)
    n = len(w)
    runner = Runner(chk, lib, picker)
    s = fixed_bits(n, W)
    if c["kind"] == "prop":
        keypool, _ = key_pool(lib, case.get("seed", 0))
        ks = c["keys"]
        cells, zetas = c["cells"], [lib.drawn_zeta(keypool[k]) for k in ks]
    else:
        cells = c["cells"]
        zetas = [(x["lo"] + x["hi"]) / (4.0 * W) for x in cells]
        ks = [None] * len(cells)
    impls = []
    for name in ["np", c["impl"]]:
        scale = scale_of(name)
        runs = []
        for ci, z in enumerate(zetas):
            r = comm_ranks(name)
            key = None if ks[ci] is None else keypool[ks[ci]]
            keys = None if key is None else [key] + [keypool[(ks[ci] + 17 * q) % len(keypool)] for q in range(1, r)]
            run = runner.run_impl(name, n, np.array(w, dtype=np.float64) * scale, z,
                                  zetas[(ci + 1) % len(zetas)], s, scale, key=key, keys=keys)
            if run is None:
                return
            runs.append(run)
        impls.append(impl_entry(name, runs, comm_ranks(name)))
    rec = {"id": 1, "w": w, "s": s, "full": c["kind"] != "prop" or len(cells) == W, "cells": cells, "impls": impls}
    judge(chk, [rec], {1: {"kind": c["kind"], "w": w, "zetas": zetas, "keys": c.get("keys")}}, name="replay")
