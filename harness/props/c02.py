"""C02 - local energy equals <psi_T|H|phi>/<psi_T|phi>."""
import numpy as np

from .. import ladder, wf, wfcheck
from ..core import Check, repo_setup

LEVEL = "model_checking"
EPS_LADDER = (0.2, 0.1, 0.05, 0.025)


def tol_for(kind):
    if kind in ("cisd", "cisd_faster", "ucisd"):
        return wfcheck.TOL32
    if kind in wf.AD_KINDS:
        return 2e-5          # default eps = 1e-4: truncation ~1e-8, round-off of the second difference ~1e-6
    return wfcheck.TOL64


def run(chk: Check):
    repo_setup()
    from .c01 import theorems
    chk.rule = ("instances as in C01 plus a Hamiltonian (h0, symmetric integer h1 per spin, 1-3 symmetric integer "
                "Cholesky matrices); TLC evaluates <psi|2(H-h0)|phi> and <psi|phi> exactly from the second-quantised "
                "H (WfOracle.tla); the library's ham.build_measurement_intermediates + trial.calc_energy are replayed; "
                "case = (instance, walker, container); non-trivial = exact overlap non-zero")
    chk.assumptions += [
        "tolerances: 1e-9 (float64 kernels), 5e-5 (cisd, cisd_faster, ucisd: deliberate complex64 blocks), "
        "2e-5 (finite-difference kinds at their default eps=1e-4), all relative to max(1,|E|)",
        "finite-difference kinds: 'converges quadratically' is judged on the ladder eps=0.2..0.025 (halving "
        "shrinks |E(eps)-E_exact| by a factor in [3,5.5] on the two finest steps unless below 1e-7) and the "
        "Richardson-extrapolated value must equal the exact energy to max(1e-6, 8 x the extrapolation's own last "
        "correction)",
        "walkers in generic position for the library's algorithm (see C01)"]
    theorems(chk)
    insts = wfcheck.plan(chk, wf.ALL_KINDS, chk.tier, chk.seed + 1, want=("e",), nw=3)
    res, skipped = wfcheck.tlc_eval_robust(chk, insts, "c02")
    chk.note("skipped_overflow", skipped)
    traces, tinfo = [], {}
    seen_ladder = set()
    for I in insts:
        if I["id"] not in res:
            continue
        ex = wf.exact_values(I, res[I["id"]])
        # finite-difference kinds chosen for a step-size ladder are evaluated at the COARSE steps first and at the default
        # step afterwards: trial objects that differ only in eps must not share compiled code (a jit cache keyed on a
        # hash / equality that ignores eps would hand the coarse-step executable to the default-step trial)
        pre_vals = None
        if I["kind"] in wf.AD_KINDS:
            key_ = (I["kind"], I["norb"], I["nu"], I["nd"], I["restricted"])
            if not (chk.tier == "quick" and (key_ in seen_ladder or len([k for k in seen_ladder if k[0] == I["kind"]]) >= 1)):
                pre_vals = {eps: list(wfcheck.lib_eval(I, "e", eps=eps).values())[0] for eps in EPS_LADDER}
        got = wfcheck.lib_eval(I, "e")
        wfcheck.compare(chk, I, ex, got, "e", tol_for(I["kind"]), "energy")
        chk.traces += 1
        J = wfcheck.previous_like(insts, I)
        if J is not None:       # the same evaluation on dictionaries that were prepared for another problem before
            wfcheck.compare(chk, I, ex, wfcheck.lib_eval(I, "e", reprepare_from=J), "e", tol_for(I["kind"]), "energy-reprepared")
            chk.traces += 1
        chk.sample({"kind": I["kind"], "norb": I["norb"], "nelec": [I["nu"], I["nd"]], "spin_dependent_h1": I["spin_dep"],
                    "restricted_walkers": I["restricted"], "h1u": I["json"]["h1u"], "chol": I["json"]["chol"],
                    "walker0": I["json"]["walkers"][0],
                    "exact_energy0": None if ex[0]["zero"] else [ex[0]["e"].real, ex[0]["e"].imag]}, limit=4)
        # finite-difference ladder for AD kinds (one instance per kind and shape in quick, all in thorough)
        if I["kind"] in wf.AD_KINDS:
            key = (I["kind"], I["norb"], I["nu"], I["nd"], I["restricted"])
            if chk.tier == "quick" and (key in seen_ladder or len([k for k in seen_ladder if k[0] == I["kind"]]) >= 1):
                continue
            seen_ladder.add(key)
            vals = pre_vals if pre_vals is not None else {eps: list(wfcheck.lib_eval(I, "e", eps=eps).values())[0] for eps in EPS_LADDER}
            for k, e in enumerate(ex):
                if e["zero"] or isinstance(vals[EPS_LADDER[0]], dict):
                    continue
                E = [complex(vals[eps][k]) for eps in EPS_LADDER]
                # Richardson: eliminate eps^2, eps^4, eps^6 (the residual is a polynomial in eps^2)
                T = list(E)
                prev = None
                for lvl in range(1, len(T)):
                    prev = T
                    T = [(4 ** lvl * T[j + 1] - T[j]) / (4 ** lvl - 1) for j in range(len(T) - 1)]
                rich = abs(T[0] - e["e"])
                # the extrapolation's own error estimate: the last correction it made (difference to the best value of the
                # previous level).  A constant offset of the code's energy is common to all extrapolants and stays visible;
                # large eps^8 coefficients of a particular instance no longer raise an alarm (a thorough-tier false alarm)
                rich_est = abs(T[0] - prev[-1]) if prev is not None else 0.0
                sc = max(1.0, abs(e["e"]))
                tid = len(traces) + 1
                errs = [abs(x - e["e"]) for x in E]
                traces.append({"id": tid, "errs": errs + [rich], "scale": sc, "floor": 1e-7, "lo": (3, 1), "hi": (11, 2),
                               "first": len(E) - 1, "bound": 1e-6})
                # the last pair (finest eps -> richardson) is not a halving: enforce ratios only on one pair
                traces[-1]["errs"] = errs
                traces[-1]["bound"] = 1.0      # ladder trace: ratio clause only
                traces.append({"id": tid + 1, "errs": [rich], "scale": sc, "floor": 0.0, "lo": (1, 1), "first": 1,
                               "bound": max(1e-6, 8.0 * rich_est / sc)})
                tinfo[tid] = (I, k, "ladder", errs)
                tinfo[tid + 1] = (I, k, "richardson", [rich])
    verdicts = ladder.judge(chk, traces, "fd")
    ninf = 0
    for tid, v in verdicts.items():
        I, k, what, errs = tinfo[tid]
        chk.case(("fd", I["id"], k, what), nontrivial=bool(v.get("informative", True)) or what == "richardson")
        ninf += 1 if v.get("informative") else 0
        if not v["ok"]:
            chk.violation(f"energy-fd:{I['kind']}:{what}",
                          f"{I['kind']} finite-difference energy, walker {k}: {what} clause failed "
                          f"(residuals vs exact along eps={EPS_LADDER}: {errs}; verdict {v})",
                          {"instance": I["json"], "walker": k, "residuals": errs, "verdict": v})
    chk.traces += len(verdicts)
    chk.note("fd_ladders_informative", ninf)
    chk.note("tolerances", {"float64": wfcheck.TOL64, "complex64_kinds": wfcheck.TOL32, "fd_default_eps": 2e-5})
