"""C20 - lattices are consistent graphs that survive construction and pytree round trips.

Design level : spec/Lattice.tla - TLC enumerates every lattice parameter record up to the tier's bounds, checks the
               definitional reference model against the property-level predicates (plus single-fault mutants of
               the observation and the geometric justification of the property's scoping) and publishes every
               enumerated parameter record.
Binding      : for every parameter record TLC enumerated (plus a few seeded larger ones) the REAL lattice of
               ad_afqmc/lattices.py is constructed and looked at; one observation record per lattice is judged by
               spec/LatticeJudge.tla (same predicates, total verdicts).  Python never decides a predicate: it calls
               the library and transcribes what it sees (integers, canonical type-tagged strings, booleans).
"""
import dataclasses
import json
import random

import numpy as np

from ..core import Check, MachineryError, repo_setup

LEVEL = "model_checking"

BOUNDS = {"quick": dict(MaxChain=8, MaxRect=6, MaxTri=6, MaxCube=4),
          "thorough": dict(MaxChain=16, MaxRect=8, MaxTri=8, MaxCube=5)}
N_EXTRA = {"quick": 6, "thorough": 24}

MODEL_INVARIANTS = ["ModelSitesBijective", "ModelNbrClosed", "ModelNbrSymmetric", "ModelNbrIrreflexive",
                    "ModelAdjSymmetricZeroDiag", "ModelAdjIsNbrGraph", "ModelRegular", "ModelMaxDegree",
                    "ModelRoundTripEqual", "ModelHashEqConsistent", "ModelEqDiscriminates", "ModelVerdictClean",
                    "ScopeIsGeometric", "MutantsRejected", "StagesRejected"]
ACTIONS = ["ConstructA", "RoundTripA", "DumpA"]

DIM_NAMES = {"one_dimensional_chain": ["n_sites"], "two_dimensional_grid": ["l_x", "l_y"],
             "triangular_grid": ["l_x", "l_y"], "three_dimensional_grid": ["l_x", "l_y", "l_z"]}
DEFAULT_HOP = {"one_dimensional_chain": (1.0, -1.0), "two_dimensional_grid": (-1.0, -1.0, 1.0, 1.0)}


# ---------------------------------------------------------------------------------------------- design level
def design_check(chk: Check):
    """TLC: reference model |= predicates, for all sizes up to the tier's bounds; returns the enumerated params."""
    b = BOUNDS[chk.tier]
    out = chk.scratch("c20-params")
    cfg = "SPECIFICATION Spec\nCHECK_DEADLOCK FALSE\nCONSTANTS " + " ".join(f"{k} = {v}" for k, v in b.items()) + "\n"
    cfg += "".join(f"INVARIANT {i}\n" for i in MODEL_INVARIANTS)
    res = chk.tlc("Lattice", cfg, env={"C20_PARAMS_OUT": str(out)}, name="Lattice-design", coverage=True)
    if res.violated:
        raise MachineryError(f"reference model of Lattice.tla violates {res.violated_name} - the model or a "
                             f"predicate is wrong (not a finding about the code)")
    dead = [a for a in ACTIONS if a in res.coverage_zero]
    if dead:
        raise MachineryError(f"Lattice.tla: actions never taken: {dead}")
    expect = (2 * (b["MaxChain"] - 1) + 2 * (b["MaxRect"] - 1) ** 2 + 2 * (b["MaxTri"] - 1) ** 2
              + (b["MaxCube"] - 1) ** 3)
    specs = []
    for p in sorted(out.glob("*.json"), key=lambda q: int(q.stem)):
        specs.append(json.loads(p.read_text().splitlines()[0]))
    if len(specs) != expect or res.states != 4 * expect:
        raise MachineryError(f"Lattice.tla enumerated {len(specs)} lattices / {res.states} states, expected "
                             f"{expect} / {4 * expect}")
    chk.note("design_model", {"bounds": b, "lattices": expect, "states": res.states,
                              "invariants": MODEL_INVARIANTS, "wall_s": round(res.wall_s, 1)})
    return specs


def extra_specs(chk: Check, first_id: int):
    """a few seeded lattices beyond the exhaustive bounds (judged only; the model is not consulted)"""
    rng = random.Random(chk.seed * 7919 + 20)
    b = BOUNDS[chk.tier]
    out = []
    for k in range(N_EXTRA[chk.tier]):
        fam = k % 6
        if fam == 0:
            s = dict(kind="one_dimensional_chain", dims=[rng.randint(b["MaxChain"] + 1, b["MaxChain"] + 24)], open=False,
                     hop=rng.choice(["default", "custom"]))
        elif fam == 1:
            s = dict(kind="two_dimensional_grid", dims=[rng.randint(2, b["MaxRect"] + 3), rng.randint(b["MaxRect"] + 1, b["MaxRect"] + 3)],
                     open=False, hop=rng.choice(["default", "custom"]))
            if rng.random() < 0.5:
                s["dims"].reverse()
        elif fam in (2, 3):
            s = dict(kind="triangular_grid", dims=[rng.randint(2, b["MaxTri"] + 3), rng.randint(b["MaxTri"] + 1, b["MaxTri"] + 3)],
                     open=(fam == 3), hop="default")
            if rng.random() < 0.5:
                s["dims"].reverse()
        elif fam == 4:
            d = [rng.randint(2, 4), rng.randint(2, 5), b["MaxCube"] + 1]
            rng.shuffle(d)
            s = dict(kind="three_dimensional_grid", dims=d, open=False, hop="default")
        else:   # the sizes used in the repository's Hubbard examples
            s = rng.choice([dict(kind="triangular_grid", dims=[6, 6], open=True, hop="default"),
                            dict(kind="two_dimensional_grid", dims=[4, 4], open=False, hop="custom"),
                            dict(kind="two_dimensional_grid", dims=[8, 2], open=False, hop="default"),
                            dict(kind="triangular_grid", dims=[8, 3], open=True, hop="default")])
        s["id"] = first_id + k
        s["extra"] = True
        out.append(s)
    return out


# ---------------------------------------------------------------------------------------------- observation
def canon(v):
    """canonical, type-tagged, exact string of an attribute value (TLC compares these strings)"""
    if v is None:
        return "None"
    if isinstance(v, (bool, np.bool_)):
        return f"b:{bool(v)}"
    if isinstance(v, (int, np.integer)):
        return f"i:{int(v)}"
    if isinstance(v, (float, np.floating)):
        return f"f:{float(v)!r}"
    if isinstance(v, str):
        return f"s:{v}"
    if isinstance(v, tuple):
        return "(" + ",".join(canon(x) for x in v) + ")"
    if isinstance(v, list):
        return "[" + ",".join(canon(x) for x in v) + "]"
    if hasattr(v, "shape") and hasattr(v, "dtype"):
        a = np.asarray(v)
        return f"a:{a.dtype}:{list(a.shape)}:" + canon(a.tolist())
    return f"o:{type(v).__name__}:{v!r}"


def custom_hop(kind, seed):
    """seeded hop signs different from the class default (same length, entries +-1.0)"""
    rng = random.Random(seed * 31 + len(kind))
    d = DEFAULT_HOP[kind]
    while True:
        h = tuple(rng.choice([1.0, -1.0]) for _ in d)
        if h != d:
            return h


def build(spec, seed):
    from ad_afqmc import lattices as L
    kind, d = spec["kind"], spec["dims"]
    kw = {}
    if spec.get("hop", "default") == "custom":
        kw["hop_signs"] = custom_hop(kind, seed)
    if kind == "one_dimensional_chain":
        return L.one_dimensional_chain(d[0], **kw)
    if kind == "two_dimensional_grid":
        return L.two_dimensional_grid(d[0], d[1], **kw)
    if kind == "triangular_grid":
        return L.triangular_grid(d[0], d[1], open_x=True) if spec["open"] else L.triangular_grid(d[0], d[1])
    if kind == "three_dimensional_grid":
        return L.three_dimensional_grid(d[0], d[1], d[2])
    raise MachineryError(f"unknown lattice kind {kind}")


def other_specs(spec):
    """lattices differing from `spec` in one attribute (mirrors Others() of Lattice.tla)"""
    o = [("longer side", dict(spec, dims=[spec["dims"][0] + 1] + spec["dims"][1:]))]
    if spec["kind"] == "triangular_grid":
        o.append(("other boundary", dict(spec, open=not spec["open"])))
    if spec["kind"] in DEFAULT_HOP:
        o.append(("other hop signs", dict(spec, hop="custom" if spec.get("hop", "default") == "default" else "default")))
    return o


def _pos(p):
    return [int(x) for x in np.asarray(p).reshape(-1)]


def adjacency(l, sites, nbrs):
    """create_adjacency_matrix() where the class has one, else the matrix implied by neighbours + site numbering"""
    if hasattr(l, "create_adjacency_matrix"):
        a = np.asarray(l.create_adjacency_matrix())
        src = "create_adjacency_matrix"
    else:
        n = len(sites)
        inside = {tuple(s) for s in sites}
        a = np.zeros((n, n), dtype=int)
        for i in range(n):
            for q in nbrs[i]:
                if tuple(q) in inside:
                    j = int(l.get_site_num(tuple(q)))
                    if not 0 <= j < n:
                        raise ValueError(f"get_site_num({tuple(q)}) = {j} outside 0..{n - 1}")
                    a[i, j] = 1
                    a[j, i] = 1
        src = "implied by get_nearest_neighbors + get_site_num"
    if a.ndim != 2 or not np.all(a == np.round(a)):
        raise ValueError(f"adjacency is not an integer matrix (shape {a.shape})")
    return a.astype(int).tolist(), src


def look(l):
    """sites, site numbers, raw neighbours, adjacency of a lattice object"""
    sites = [_pos(s) for s in l.sites]
    snum = [int(l.get_site_num(s)) for s in l.sites]
    nbrs = [[_pos(q) for q in np.asarray(l.get_nearest_neighbors(s))] for s in l.sites]
    adj, src = adjacency(l, sites, nbrs)
    return sites, snum, nbrs, adj, src


def fields_of(l):
    if not dataclasses.is_dataclass(l):
        return []
    return [{"name": f.name, "val": canon(getattr(l, f.name))} for f in dataclasses.fields(l)]


def _eq(a, b):
    try:
        return bool(a == b)
    except Exception:
        return False


def _hash_eq(a, b):
    try:
        return hash(a) == hash(b)
    except Exception:
        return False


def observe(spec, seed):
    """one observation record (format: Lattice.tla, section 1/2) for the real lattice described by spec"""
    import jax
    rec = {"id": spec["id"], "kind": spec["kind"], "dims": spec["dims"], "open": bool(spec["open"]),
           "hop": spec.get("hop", "default"), "stage": "ok", "error": "", "n": 0, "coord": 0, "sites": [], "snum": [],
           "nbrs": [], "adj": [], "adj_source": "", "fields": [], "rt": [], "hashable": False, "self_eq": False,
           "copy_eq": False, "copy_hash_eq": False, "others": []}
    try:
        l = build(spec, seed)
    except MachineryError:
        raise
    except Exception as e:                                   # "every lattice with sides >= 2 can be constructed"
        rec["stage"], rec["error"] = "construct", f"{type(e).__name__}: {e}"
        return rec
    # history independence: what a lattice answers must not depend on which other lattices were built and USED
    # earlier in the same process (module-level tables keyed by an incomplete hash, shared mutable defaults):
    # its one-attribute neighbours (other boundary, longer side, other hop signs) are built and walked first
    for _, os_ in other_specs(spec):
        try:
            look(build(os_, seed))
        except Exception:
            pass                                             # that lattice is judged (and reported) on its own
    try:
        rec["sites"], rec["snum"], rec["nbrs"], rec["adj"], rec["adj_source"] = look(l)
        rec["n"], rec["coord"] = int(l.n_sites), int(l.coord_num)
        rec["fields"] = fields_of(l)
    except Exception as e:
        rec["stage"], rec["error"] = "observe", f"{type(e).__name__}: {e}"
        return rec
    trips = [("unflatten", lambda x: jax.tree_util.tree_unflatten(*reversed(jax.tree_util.tree_flatten(x)))),
             ("jit", lambda x: jax.jit(lambda y: y)(x))]
    for via, f in trips:
        t = {"via": via, "ran": True, "same_type": False, "fields": [], "adj": [], "eq": False, "hash_eq": False,
             "error": ""}
        try:
            r = f(l)
            t["same_type"] = type(r) is type(l)
            t["fields"] = fields_of(r)
            t["eq"], t["hash_eq"] = _eq(r, l), _hash_eq(r, l)
            try:
                t["adj"] = look(r)[3]
            except Exception as e:                           # left empty: differs from the original's matrix
                t["error"] = f"adjacency of the round-tripped lattice: {type(e).__name__}: {e}"
        except Exception as e:
            t["ran"], t["error"] = False, f"{type(e).__name__}: {e}"
        rec["rt"].append(t)
    try:
        hash(l)
        rec["hashable"] = True
    except Exception as e:
        rec["error"] = f"hash: {type(e).__name__}: {e}"
    rec["self_eq"] = _eq(l, l)
    try:
        c = build(spec, seed)
        rec["copy_eq"], rec["copy_hash_eq"] = _eq(c, l), _hash_eq(c, l)
    except Exception:
        pass
    for what, os_ in other_specs(spec):
        try:
            o = build(os_, seed)
        except Exception:
            continue                                         # that lattice is judged (and reported) on its own
        rec["others"].append({"what": what, "eq": _eq(o, l), "hash_eq": _hash_eq(o, l)})
    return rec


# ---------------------------------------------------------------------------------------------- judging
def judge(chk: Check, records, name="judge"):
    wd = chk.scratch(f"c20-{name}")
    out = wd / "out"
    out.mkdir(exist_ok=True)
    with (wd / "records.ndjson").open("w") as f:
        for r in records:
            f.write(json.dumps(r) + "\n")
    res = chk.tlc("LatticeJudge", "SPECIFICATION Spec\nCHECK_DEADLOCK FALSE\n",
                  env={"C20_RECORDS": str(wd / "records.ndjson"), "C20_OUT": str(out)}, name=f"LatticeJudge-{name}")
    if res.violated:
        raise MachineryError(f"LatticeJudge reported {res.violated_name}")
    verdicts = {}
    for r in records:
        p = out / f"{r['id']}.json"
        if not p.exists():
            raise MachineryError(f"no verdict for lattice record {r['id']}")
        verdicts[r["id"]] = json.loads(p.read_text().splitlines()[0])
    return verdicts


def side_class(spec):
    twos = [nm for nm, d in zip(DIM_NAMES[spec["kind"]], spec["dims"]) if d == 2]
    c = ",".join(f"{nm}=2" for nm in twos) or "sides>=3"
    if spec["kind"] == "triangular_grid":
        c += ":open_x" if spec["open"] else ":periodic"
    return c


def describe(spec):
    args = ", ".join(str(d) for d in spec["dims"])
    if spec["kind"] == "triangular_grid" and spec["open"]:
        args += ", open_x=True"
    if spec.get("hop", "default") == "custom":
        args += ", hop_signs=<non-default>"
    return f"{spec['kind']}({args})"


def report(spec, rec, v):
    """translate one TLC verdict into (site, what, replay) violations with specific site keys"""
    found = []
    kind, who = spec["kind"], describe(spec)
    replay = {"spec": {k: spec[k] for k in ("kind", "dims", "open", "hop") if k in spec}, "verdict": v,
              "error": rec.get("error", ""), "fields": rec["fields"],
              "rt": [{k: t[k] for k in ("via", "ran", "same_type", "fields", "eq", "hash_eq", "error")} for t in rec["rt"]]}
    for pred in v["failed"]:
        if pred == "Constructible":
            found.append((f"lattice:{kind}:construct:{side_class(spec)}",
                          f"{who} cannot be constructed: {rec['error']}", replay))
        elif pred in ("Observable", "WellShaped"):
            found.append((f"lattice:{kind}:observe:{side_class(spec)}",
                          f"{who}: sites / site numbers / neighbours / adjacency cannot be read: {rec['error']}", replay))
        elif pred == "RoundTripEqual":
            seen = set()
            for t in v["rt"]:                   # explicit round trip first, then the jitted one
                tag = "roundtrip" if t["via"] == "unflatten" else "jit-roundtrip"
                bad = []
                if not t["ran"]:
                    bad = ["raises"]
                elif not t["same_type"]:
                    bad = ["type"]
                elif t["diff_fields"]:
                    bad = list(t["diff_fields"])
                elif not t["adj_equal"]:
                    bad = ["adjacency"]
                elif not t["eq"]:
                    bad = ["eq"]
                elif not t["hash_eq"]:
                    bad = ["hash"]
                # the jitted round trip is reported only for what the explicit one did not already show
                bad = [b for b in bad if b not in seen]
                seen.update(bad)
                rt_rec = next(x for x in rec["rt"] if x["via"] == t["via"])
                for b in bad:
                    before = next((f["val"] for f in rec["fields"] if f["name"] == b), None)
                    after = next((f["val"] for f in rt_rec["fields"] if f["name"] == b), None)
                    extra = f" {b}: {before} -> {after};" if before is not None or after is not None else f" {b};"
                    found.append((f"lattice:{kind}:{tag}:{b}",
                                  f"{who} after {t['via']} round trip:{extra} adjacency matrix "
                                  f"{'unchanged' if t['adj_equal'] else 'DIFFERENT'}, == original: {t['eq']} "
                                  f"{rt_rec['error']}".strip(), replay))
        else:
            w = v.get("witness", {})
            if pred in ("HashEqConsistent", "EqDiscriminates"):
                he = {k: rec[k] for k in ("hashable", "self_eq", "copy_eq", "copy_hash_eq", "others")}
                found.append((f"lattice:{kind}:{pred}",
                              f"{who}: predicate {pred} fails (copy = second identical construction, others = "
                              f"lattices differing in one attribute): {he} {rec['error']}".strip(), replay))
                continue
            found.append((f"lattice:{kind}:{pred}:{side_class(spec)}",
                          f"{who}: predicate {pred} fails (first offending site per clause, 1-based, 0 = none: "
                          f"{ {k: x for k, x in w.items() if k != 'degrees' and x} }; degrees {w.get('degrees')}; "
                          f"coord_num {rec['coord']})", replay))
    return found


def check_specs(chk: Check, specs, name="judge"):
    records = [observe(s, chk.seed) for s in specs]
    verdicts = judge(chk, records, name)
    by_id = {s["id"]: s for s in specs}
    nfail = 0
    found = []
    sampled = set()
    for rec in records:
        s, v = by_id[rec["id"]], verdicts[rec["id"]]
        chk.case((s["kind"], tuple(s["dims"]), bool(s["open"]), s.get("hop", "default")), nontrivial=rec["stage"] == "ok")
        chk.traces += 1
        fam = (s["kind"], bool(s["open"]), s.get("hop", "default"))
        if rec["stage"] == "ok" and 8 <= rec["n"] <= 12 and fam not in sampled:     # one small example per family
            sampled.add(fam)
            chk.sample({"lattice": describe(s), "sites": rec["sites"], "neighbours_of_first_site": rec["nbrs"][0],
                        "degrees": v["witness"].get("degrees"), "checked": v["checked"], "failed": v["failed"]}, limit=7)
        if not v["ok"]:
            nfail += 1
            found += report(s, rec, v)
    # the first occurrence of every distinct site first (the framework keeps replay files for the first 20 only)
    seen, head, rest = set(), [], []
    for f in found:
        (rest if f[0] in seen else head).append(f)
        seen.add(f[0])
    for site, what, rp in head + rest:
        chk.violation(site, what, rp)
    return records, verdicts, nfail


# ---------------------------------------------------------------------------------------------- entry points
def run(chk: Check):
    repo_setup()
    chk.rule = ("case = one real lattice (class, side lengths, boundary, default / non-default hop_signs): every "
                "parameter record enumerated by TLC from Lattice.tla up to the tier's bounds (chains, l_x x l_y grids "
                "incl. l_x != l_y and sides of 2, triangular periodic/open, cubic) plus seeded larger ones; each is "
                "constructed in the library, observed (sites, site numbers, neighbours of every site, adjacency matrix, "
                "fields, hash/eq, explicit and jitted flatten-unflatten round trip) and judged by LatticeJudge.tla; "
                "non-trivial = the lattice could be constructed and observed")
    chk.assumptions += [
        "scoping exactly as in the property: NbrIrreflexive and Regular only when all sides >= 3 (Regular only for "
        "periodic lattices); with an open boundary MaxDegree <= coord_num only for an even number of rows",
        "open boundary with an ODD number of rows: the neighbour relation across the row seam cannot be symmetric for "
        "any zig-zag lattice (TLC-checked on the reference model: invariant ScopeIsGeometric); NbrSymmetric and "
        "NbrIrreflexive are therefore judged for periodic lattices and for open lattices with an even number of rows "
        "only; construction, bijection, adjacency symmetry/zero diagonal/agreement with the neighbours, round trips "
        "and hash/eq are judged for all",
        "with an open boundary get_nearest_neighbors may name positions outside the lattice; only listed SITES count "
        "as neighbours (as create_adjacency_matrix does); for periodic lattices every listed neighbour must be a site",
        "cubic grid (no create_adjacency_matrix): the adjacency implied by get_nearest_neighbors + get_site_num, "
        "symmetrised like the other classes do",
        "attribute values are compared as canonical type-tagged strings (int/float/bool/tuple/list/None distinguished)",
        "'non-default hop_signs' = a seeded +-1.0 tuple different from the class default, passed by keyword"]
    specs = design_check(chk)
    for s in specs:
        s["extra"] = False
    extras = extra_specs(chk, len(specs) + 1)
    records, verdicts, nfail = check_specs(chk, specs + extras)
    chk.note("lattices_judged", len(records))
    chk.note("lattices_from_tlc_enumeration", len(specs))
    chk.note("lattices_seeded_extra", [describe(s) for s in extras])
    chk.note("lattices_failing", nfail)
    chk.note("largest_n_sites", max([r["n"] for r in records] + [0]))
    preds = {}
    for v in verdicts.values():
        for p in v["checked"]:
            preds[p] = preds.get(p, 0) + 1
    chk.note("predicate_evaluations", preds)


def replay(chk: Check, case):
    repo_setup()
    s = dict(case["case"]["spec"])
    s.setdefault("hop", "default")
    s["id"] = 1
    chk.seed = case.get("seed", chk.seed)
    check_specs(chk, [s], "replay")
