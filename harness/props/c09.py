"""C09 - weights stay real, finite and non-negative; dead walkers stay dead."""
import json

import numpy as np

from .. import runlevel
from ..core import Check, MachineryError, repo_setup

LEVEL = "model_checking"

WCFG = """SPECIFICATION Spec
CONSTANTS
  Walkers = {{{walkers}}}
  Rule = "{rule}"
  MaxSteps = {steps}
INVARIANT WeightDomain
INVARIANT ShiftFiniteWhileAlive
INVARIANT WeightWindow
INVARIANT FactorWindow
INVARIANT PhaselessOneStep
PROPERTY DeadStaysDead
CHECK_DEADLOCK FALSE
"""


def design(chk: Check):
    """rule-level model: the phaseless rule and the NaN-scrubbing constrained-path rule keep every invariant on
    every abstract input history; the un-scrubbed constrained-path rules do not (design counterexamples: they say
    WHICH concrete histories to look for in the real code: population extinction -> infinite shift -> 0*inf, and
    - fast path only - a site rejecting both fields -> stored overlap 0 -> division by it)"""
    big = chk.tier == "thorough"
    r = chk.tlc("Weights", WCFG.format(walkers="a, b", rule="phaseless", steps=3 if big else 2), name="Weights-phaseless",
                timeout=1500)
    if r.violated:
        raise MachineryError(f"the phaseless weight rule violates {r.violated_name} in the model: model or reading of "
                             f"propagator.propagate is wrong")
    out = {}
    for rule, walkers, steps in (("cpmc_slow", "a", 2), ("cpmc_fast", "a", 1)):
        rr = chk.tlc("Weights", WCFG.format(walkers=walkers, rule=rule, steps=steps), name=f"Weights-{rule}",
                     expect_violation=True, timeout=1500)
        out[rule] = rr.violated_name if rr.violated else None
    for rule in (("cpmc_slow_scrub", "cpmc_fast_scrub") if big else ("cpmc_fast_scrub",)):
        rr = chk.tlc("Weights", WCFG.format(walkers="a" if not big else "a, b", rule=rule, steps=2), name=f"Weights-{rule}",
                     timeout=2400)
        if rr.violated:
            raise MachineryError(f"scrubbed rule {rule} violates {rr.violated_name} in the model")
    chk.note("design_counterexamples_unscrubbed_cpmc_rules", out)
    return out


MODEL_TO_DOUBLE = {(1, 8): 1e-3, (8, 1): 100.0, (1, 64): 1e-8, (1, 2): 0.5, (1, 1): 1.0, (2, 1): 2.0, (-1, 1): -1.0,
                   (0, 1): 0.0, (1, 4): 0.25, (1, 10): 7e-4, (4, 1): 60.0}


def to_double(v):
    if v["k"] == "nan":
        return float("nan")
    if v["k"] == "pinf":
        return float("inf")
    if v["k"] == "ninf":
        return float("-inf")
    x = MODEL_TO_DOUBLE[(v["n"], v["d"])]
    if v["u"] > 0:
        x = float(np.nextafter(x, np.inf))
    elif v["u"] < 0:
        x = float(np.nextafter(x, -np.inf))
    return x


def rule_replay(chk: Check):
    """spec -> code: every row of Weights.tla's exact one-step table of the phaseless rule is realised in the real
    propagator.propagate (prescribed overlap ratio through a trial proxy, zero shifts and fields, so that the
    importance function IS the prescribed number) - boundaries 1e-3 and 100 are hit exactly and one ulp beside"""
    import jax.numpy as jnp
    from ad_afqmc import propagation, wavefunctions
    wd_ = chk.scratch("wtable")
    chk.tlc("Weights", "SPECIFICATION TableSpec\nCONSTANTS\n  Walkers = {a}\n  Rule = \"phaseless\"\n  MaxSteps = 0\nCHECK_DEADLOCK FALSE\n",
            env={"WEIGHT_TABLE": str(wd_ / "table.ndjson")}, workers=1, name="Weights-table")
    rows = [json.loads(l) for l in (wd_ / "table.ndjson").read_text().splitlines()]
    n = len(rows)

    class Prescribed(wavefunctions.uhf):
        def calc_overlap(self, walkers, wave_data):
            return wave_data["_ov"]

        def calc_force_bias(self, walkers, ham_data, wave_data):
            nw = walkers[0].shape[0] if isinstance(walkers, (list, tuple)) else walkers.shape[0]
            return jnp.zeros((nw, ham_data["chol"].shape[0])) + 0.0j

        def __hash__(self):
            return hash(("PrescribedOverlap",) + tuple(self.__dict__.values()))

    for P, restricted in ((propagation.propagator_unrestricted, False), (propagation.propagator_restricted, True)):
        norb = 3
        trial = Prescribed(norb, (1, 1))
        prop = P(dt=0.01, n_walkers=n)
        f = np.array([to_double(r["f"]) for r in rows])
        w0 = np.array([to_double(r["w0"]) for r in rows])
        hd = {"chol": jnp.zeros((1, norb * norb)), "mf_shifts": jnp.zeros(1) + 0.0j, "h0_prop": 0.0,
              "exp_h1": jnp.array([np.eye(norb)] * 2) if not restricted else jnp.eye(norb)}
        wk = jnp.array(np.tile(np.eye(norb)[:, :1][None], (n, 1, 1)) + 0.0j)
        pd = {"walkers": wk if restricted else [wk, wk], "weights": jnp.array(w0), "overlaps": jnp.ones(n) + 0.0j,
              "pop_control_ene_shift": jnp.array(0.0), "e_estimate": jnp.array(0.0)}
        # the rule speaks about |I| cos(theta): every row is also realised with a sizeable phase, I = f e^{i phi} / cos(phi)
        # (same |I| cos(theta) = f, but |I| = f / cos(phi) lies on the other side of the window for rows near an edge);
        # with a phase the product is only accurate to an ulp, so rows exactly at / one ulp beside a threshold are left out
        for phi in (0.0, 1.0, -1.2):
            if phi == 0.0:
                sel = list(range(n))
                ov = f + 0.0j
            else:
                sel = [i for i, r in enumerate(rows) if r["f"]["k"] == "num" and r["f"]["u"] == 0 and np.isfinite(f[i])
                       and all(abs(abs(f[i]) - t) > 1e-9 * t for t in (1e-3, 100.0))]
                ov = np.where(np.isfinite(f), f, 0.0) * np.exp(1j * phi) / np.cos(phi)
                ov = np.where(np.isfinite(f), ov, f + 0.0j)
            wdata = {"_ov": jnp.array(ov)}
            pd = {"walkers": wk if restricted else [wk, wk], "weights": jnp.array(w0), "overlaps": jnp.ones(n) + 0.0j,
                  "pop_control_ene_shift": jnp.array(0.0), "e_estimate": jnp.array(0.0)}
            out = prop.propagate(trial, hd, pd, jnp.zeros((n, 1)), wdata)
            w1 = np.asarray(out["weights"])
            for i in sel:
                r = rows[i]
                exp_zero = r["r"]["k"] == "num" and r["r"]["n"] == 0
                got = complex(w1[i])
                chk.case(("rule", restricted, i, phi))
                chk.traces += 1
                if exp_zero:
                    ok = got == 0
                    expd = 0.0
                else:
                    expd = f[i] * w0[i]
                    ok = got.imag == 0 and np.isfinite(got.real) and abs(got.real - expd) <= (1e-15 if phi == 0.0 else 1e-13) * abs(expd)
                if not ok:
                    chk.violation(f"phaseless-rule:{'restricted' if restricted else 'unrestricted'}" + ("" if phi == 0.0 else ":with-phase"),
                                  f"propagate with |I|cos(theta) = {f[i]!r} (phase of I: {phi}) and weight {w0[i]!r}: new weight {got!r}, the "
                                  f"rule of Weights.tla gives {expd!r} (model row {r})", {"row": r, "f": repr(f[i]), "w0": repr(w0[i]), "phi": phi})
    chk.note("rule_table_rows", n)
    chk.sample({"rule_table_row": rows[0], "as_doubles": [repr(to_double(rows[0]["f"])), repr(to_double(rows[0]["w0"]))]})


def cls(x):
    x = complex(x)
    if x.imag != 0:
        return "cplx"
    x = x.real
    if np.isnan(x):
        return "nan"
    if np.isinf(x):
        return "inf"
    if x < 0:
        return "neg"
    return "zero" if x == 0 else "pos"


def fac(kind, w0, w1):
    if not (w0 > 0) or not np.isfinite(w1):
        return "undef"
    if w1 == 0:
        return "zero"
    if kind == "phaseless":
        r = w1 / w0
        if r < 1e-3 * (1 - 1e-12):
            return "below"
        if r > 100 * (1 + 1e-12) or w1 > 100:
            return "above"
        return "window"
    return "window" if 0 < w1 <= 100 else ("above" if w1 > 100 else "below")


def history(sysd, n_steps, qr_every, sr_every, seed, inject=0.0, rule="phaseless"):
    """a propagation history driven through the public single-step API, as the sampler composes it"""
    import jax.numpy as jnp
    from jax import random
    trial, prop, ham = sysd["trial"], sysd["prop"], sysd["ham"]
    hd, wd = dict(sysd["ham_data"]), dict(sysd["wave_data"])
    hd = ham.build_measurement_intermediates(hd, trial, wd)
    hd = ham.build_propagation_intermediates(hd, prop, trial, wd)
    pd = prop.init_prop_data(trial, wd, hd, None)
    key = random.PRNGKey(seed)
    pd["key"] = random.PRNGKey(seed + 1)
    nf = hd["chol"].shape[0] if rule == "phaseless" else sysd["norb"]
    rng = np.random.default_rng(seed)
    steps = []
    ov0 = np.asarray(pd["overlaps"])
    if not (np.all(np.isfinite(ov0)) and np.all(ov0 != 0)):
        return None
    for k in range(n_steps):
        key, sub = random.split(key)
        fields = np.array(random.normal(sub, shape=(prop.n_walkers, nf)))
        if inject and rng.random() < 0.15:
            i, j = rng.integers(prop.n_walkers), rng.integers(nf)
            fields[i, j] = rng.choice([-1, 1]) * inject
        w0 = np.asarray(pd["weights"]).copy()
        pd = prop.propagate(trial, hd, pd, jnp.array(fields), wd)
        w1 = np.asarray(pd["weights"]).copy()
        sh = complex(np.asarray(pd["pop_control_ene_shift"]))
        steps.append({"kind": "step", "c0": [cls(x) for x in w0], "c1": [cls(x) for x in w1],
                      "fac": [fac(rule, float(np.real(a)), float(np.real(b))) for a, b in zip(w0, w1)],
                      "shift_fin": bool(np.isfinite(sh.real) and sh.imag == 0), "w1": [complex(x) for x in w1]})
        if qr_every and (k + 1) % qr_every == 0:
            pd = prop.orthonormalize_walkers(pd)
            pd["overlaps"] = trial.calc_overlap(pd["walkers"], wd)
        if sr_every and (k + 1) % sr_every == 0:
            w0 = np.asarray(pd["weights"]).copy()
            pd = prop.stochastic_reconfiguration_local(pd)
            pd["overlaps"] = trial.calc_overlap(pd["walkers"], wd)
            if "greens" in pd:
                pd["greens"] = trial.calc_full_green_vmap(pd["walkers"], wd)
            w1 = np.asarray(pd["weights"]).copy()
            steps.append({"kind": "sr", "c0": [cls(x) for x in w0], "c1": [cls(x) for x in w1],
                          "fac": ["undef"] * len(w1), "shift_fin": steps[-1]["shift_fin"], "w1": [complex(x) for x in w1]})
    return steps


def scenarios(tier, seed):
    """(label, builder kwargs, history kwargs)"""
    from ad_afqmc import lattices
    sc = []
    nst = 80 if tier == "quick" else 600
    reps = 1 if tier == "quick" else 4
    for r in range(reps):
        for wt, tk, nelec in (("uhf", "uhf", (2, 1)), ("rhf", "rhf", (2, 2))):
            sc.append((f"phaseless:{wt}:moderate", dict(kind="abinitio", wt=wt, tk=tk, nelec=nelec, dt=0.02, vscale=0.3),
                       dict(n_steps=nst, qr_every=5, sr_every=20, inject=0.0)))
            sc.append((f"phaseless:{wt}:extreme", dict(kind="abinitio", wt=wt, tk=tk, nelec=nelec, dt=0.6, vscale=1.2, poor=True),
                       dict(n_steps=nst, qr_every=3, sr_every=0, inject=40.0)))
            sc.append((f"phaseless:{wt}:tiny-dt", dict(kind="abinitio", wt=wt, tk=tk, nelec=nelec, dt=1e-3, vscale=0.5),
                       dict(n_steps=nst // 2, qr_every=10, sr_every=25, inject=40.0)))
        for pk in ("cpmc", "cpmc_slow", "cpmc_nn", "cpmc_nn_slow", "cpmc_continuous"):
            for tk in (("uhf", "ghf") if pk in ("cpmc", "cpmc_slow") else ("uhf",)):
                sc.append((f"{pk}:{tk}:moderate", dict(kind="hubbard", pk=pk, tk=tk, u=4.0, dt=0.05, u_1=0.5),
                           dict(n_steps=nst, qr_every=5, sr_every=10, inject=0.0)))
                sc.append((f"{pk}:{tk}:extreme", dict(kind="hubbard", pk=pk, tk=tk, u=12.0, dt=0.5, u_1=2.0, poor=True),
                           dict(n_steps=nst // 2, qr_every=4, sr_every=0, inject=0.0)))
                sc.append((f"{pk}:{tk}:extreme-sr", dict(kind="hubbard", pk=pk, tk=tk, u=16.0, dt=1.0, u_1=2.0, poor=True),
                           dict(n_steps=nst // 2, qr_every=2, sr_every=7, inject=0.0)))
    # complex trial orbitals and hopping (twisted boundary): overlap ratios are complex, the weights must stay real
    for pk in ("cpmc", "cpmc_slow"):
        sc.append((f"{pk}:uhf:twisted", dict(kind="hubbard", pk=pk, tk="uhf", u=4.0, dt=0.05, u_1=0.0, twist=0.45),
                   dict(n_steps=nst // 2, qr_every=5, sr_every=10, inject=0.0)))
    return sc


def run(chk: Check):
    repo_setup()
    from ad_afqmc import lattices
    chk.rule = ("design: Weights.tla - the per-walker weight rules with IEEE NaN/inf semantics and the population machine "
                "(shift feedback, reconfiguration), TLC exhaustive over abstract inputs; implementation: long seeded "
                "step/QR/SR histories of all seven propagators (moderate, far-too-large and tiny time steps, strong "
                "interaction, poor trials, injected extreme fields) recorded step by step and judged by WeightsTrace.tla; "
                "a case = one recorded step; non-trivial = a step in which at least one weight changed class or factor "
                "left (0.5,2)")
    chk.assumptions += ["float weights are classified against the code's own thresholds with a 1e-12 relative guard band",
                        "histories start from init_prop_data populations (finite non-zero overlaps are verified, else the "
                        "history is skipped and counted)"]
    design(chk)
    rule_replay(chk)
    hists, meta = [], {}
    rng = np.random.default_rng(9000 + chk.seed)
    skipped = 0
    from ..core import housekeeping
    for k, (label, bk, hk) in enumerate(scenarios(chk.tier, chk.seed)):
        seed = 31 * chk.seed + k + 1
        housekeeping(limit=15000)
        if bk["kind"] == "abinitio":
            sysd = runlevel.make_system(np.random.default_rng(seed), norb=4, nelec=bk["nelec"], nchol=3, trial_kind=bk["tk"],
                                        walker_type=bk["wt"], n_walkers=6, dt=bk["dt"], vscale=bk["vscale"], proxied=False)
            if bk.get("poor"):
                import jax.numpy as jnp
                q, _ = np.linalg.qr(np.random.default_rng(seed + 5).normal(size=(4, 4)))
                if bk["tk"] == "rhf":
                    sysd["wave_data"]["mo_coeff"] = jnp.array(q[:, :2])
                else:
                    sysd["wave_data"]["mo_coeff"] = [jnp.array(q[:, : bk["nelec"][0]]), jnp.array(q[:, ::-1][:, : bk["nelec"][1]])]
            rule = "phaseless"
        else:
            lat = lattices.one_dimensional_chain(4) if k % 2 else lattices.two_dimensional_grid(2, 2)
            sysd = runlevel.make_hubbard(np.random.default_rng(seed), lat, (2, 2) if k % 3 else (2, 1), bk["u"], bk["dt"],
                                         prop_kind=bk["pk"], trial_kind=bk["tk"], n_walkers=6, u_1=bk.get("u_1", 0.0),
                                         poor_trial=bk.get("poor", False), proxied=False, twist=bk.get("twist", 0.0))
            rule = "cpmc"
        try:
            steps = history(sysd, seed=seed, rule=rule, **hk)
        except Exception as ex:
            chk.violation(f"history-raises:{label}", f"{label}: propagation history raised {type(ex).__name__}: {str(ex)[:200]}",
                          {"label": label})
            continue
        if steps is None:
            skipped += 1
            continue
        hid = len(hists) + 1
        hists.append({"id": hid, "steps": [{kk: vv for kk, vv in s.items() if kk != "w1"} for s in steps]})
        meta[hid] = (label, bk, hk, seed, steps)
    chk.note("histories_skipped_bad_initial_overlap", skipped)
    wd = chk.scratch("wtrace")
    (wd / "out").mkdir(exist_ok=True)
    with (wd / "h.ndjson").open("w") as f:
        for h in hists:
            f.write(json.dumps(h) + "\n")
    chk.tlc("WeightsTrace", "SPECIFICATION Spec\nCHECK_DEADLOCK FALSE\n",
            env={"WEIGHT_TRACES": str(wd / "h.ndjson"), "WEIGHT_OUT": str(wd / "out")}, name="WeightsTrace", timeout=1200)
    ndeaths = 0
    for h in hists:
        v = json.loads((wd / "out" / f"{h['id']}.json").read_text().splitlines()[0])
        label, bk, hk, seed, steps = meta[h["id"]]
        chk.traces += 1
        ndeaths += v["deaths"]
        for i, s in enumerate(steps):
            nt = s["c0"] != s["c1"] or any(x in ("zero", "below", "above") for x in s["fac"])
            chk.case((h["id"], i), nontrivial=nt)
        chk.sample({"history": label, "steps": v["nsteps"], "steps_with_deaths": v["deaths"], "ok": v["ok"],
                    "first_steps": [{kk: s[kk] for kk in ("kind", "c0", "c1", "fac", "shift_fin")} for s in steps[:2]]}, limit=5)
        if not v["ok"]:
            s = steps[v["at"] - 1]
            pk = label.split(":")[0]
            chk.violation(f"weights:{v['clause']}:{pk}",
                          f"history '{label}' (seed {seed}) violates {v['clause']} at event {v['at']}: before {s['c0']}, "
                          f"after {s['c1']}, factors {s['fac']}, shift finite {s['shift_fin']}, weights after {s['w1']}",
                          {"label": label, "builder": bk, "history": hk, "seed": seed, "at": v["at"],
                           "event": {kk: s[kk] for kk in ("kind", "c0", "c1", "fac", "shift_fin")}})
    chk.note("steps_with_deaths", ndeaths)
    chk.note("histories", len(hists))
    # ---- block level: the sampler's killed-walker fraction and the weight bits of complete sampler calls,
    # validated against the run-level specification (KilledFraction, WeightDomain, DeadStaysDead by construction)
    from .. import proxies
    S = proxies.sampler_proxy()
    for j, (dt, vs, blk) in enumerate([(0.6, 1.2, (3, 2, 2)), (0.3, 0.9, (4, 1, 2))] if chk.tier == "quick" else
                                      [(0.6, 1.2, (3, 2, 2)), (0.3, 0.9, (4, 1, 2)), (1.0, 1.5, (2, 3, 1)), (0.05, 0.4, (5, 2, 2))]):
        sysd = runlevel.make_system(np.random.default_rng(77 + j + chk.seed), norb=4, nelec=(2, 1), nchol=3, n_walkers=5, dt=dt,
                                    vscale=vs)
        pd0 = runlevel.init_prop_data(sysd, 40 + j)
        smp = S(n_prop_steps=blk[0], n_ene_blocks=blk[1], n_sr_blocks=blk[2], n_blocks=1)
        proxies.reset()
        out = runlevel.call_entry(sysd, smp, {"ad_mode": None, "orbital_rotation": True, "do_sr": True}, pd0)
        ev = proxies.snapshot()
        nk = float(np.asarray(out["prop_data"]["n_killed_walkers"]))
        tr = [e for e in proxies.to_trace(ev, 5, tid=1)]
        # the call alone (no driver continuation): validate up to Exit
        v = runlevel.validate_traces(chk, [tr], dict(n_walkers=5, neql=0, nblocks=1, steps=blk[0], ene=blk[1], sr=blk[2],
                                                     steps_eql=0, ene_eql=0, sr_eql=0), name=f"c09-{j}")[0]
        chk.traces += 1
        chk.case(("sampler-call", j))
        if v["property_violation"]:
            pv = v["property_violation"]
            chk.violation(f"sampler:{pv['name']}", f"sampler call dt={dt}, block {blk}: {pv['name']} at event {pv['line']}: "
                          f"{pv['event']} (n_killed fraction {nk})", {"dt": dt, "block": list(blk), "event": pv["event"]})
        elif not v["accepted"]:
            fu = v["first_unexplained"]
            name = "DeadStaysDead" if fu and fu.get("ev") == "Prop" and any(b and not a for a, b in zip(fu["alive0"], fu["alive1"])) \
                else "not-a-behaviour"
            chk.violation(f"sampler:{name}", f"sampler call dt={dt}, block {blk}: event {fu} cannot be explained at {v['at']}",
                          {"dt": dt, "block": list(blk), "event": fu})
        if not (0.0 <= nk <= 1.0):
            chk.violation("sampler:KilledFraction", f"reported killed-walker fraction {nk} outside [0,1] (dt={dt}, block {blk})",
                          {"dt": dt, "block": list(blk)})
        chk.note(f"killed_fraction_call_{j}", nk)


def replay(chk: Check, case):
    run(chk)
