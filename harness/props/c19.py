"""C19 - reported means and error bars follow their statistical definitions (ad_afqmc/stat_utils.py).

spec/Stats.tla          reference model in exact rationals + property-level predicates
spec/StatsTheorems.tla  TLC: the model satisfies the predicates on EVERY small series (design level)
spec/StatsBig.tla       the same quantities for series of any length (BigNat.tla), proved equal on small series
spec/StatsJudge.tla     TLC judges the outputs of the real blocking_analysis / reject_outliers / jackknife_ratios
"""
from __future__ import annotations

import itertools
from concurrent.futures import ThreadPoolExecutor

import numpy as np

from .. import stats as st
from ..core import Check, MachineryError, repo_setup

LEVEL = "model_checking"

INVS = ("T_Mean", "T_B1", "T_Scale", "T_Shift", "T_Const", "T_Loop", "T_Outlier", "T_Jack", "T_Big")
THEOREM_CFG = ("SPECIFICATION Spec\nCONSTANTS\n  WV = {wv}\n  EV <- {ev}\n  MaxN = {maxn}\n  MinN = 2\n  Full = {full}\n"
               + "".join(f"INVARIANT {i}\n" for i in INVS))
# (weights, samples, max length): together they reach block sizes 1, 2 and 5 and plateau decisions at every index
THEOREMS = {
    "quick": [("{1, 2, 3}", "EV013", 4, "FALSE"), ("{1, 2}", "EV01", 6, "FALSE"),
              ("{1}", "EV01", 11, "FALSE"), ("{1, 3}", "EVneg", 5, "FALSE")],
    "thorough": [("{1, 2, 3}", "EV013", 5, "TRUE"), ("{1, 2}", "EV01", 8, "FALSE"), ("{1}", "EV01", 13, "TRUE"),
                 ("{1, 3}", "EVneg", 6, "TRUE"), ("{1, 2}", "EVwide", 5, "TRUE"), ("{2, 3}", "EV01", 7, "FALSE")],
}

SITE = "stat_utils"


def theorems(chk: Check):
    cfgs = THEOREMS[chk.tier]
    per = max(2, 16 // len(cfgs)) if chk.tier == "quick" else 4

    def one(a):
        k, (wv, ev, maxn, full) = a
        return chk.tlc("StatsTheorems", THEOREM_CFG.format(wv=wv, ev=ev, maxn=maxn, full=full),
                       name=f"StatsTheorems-{k}", workers=per, timeout=3000, coverage=(k == 1))
    with ThreadPoolExecutor(max_workers=4) as ex:
        res = list(ex.map(one, enumerate(cfgs)))
    for (wv, ev, maxn, full), r in zip(cfgs, res):
        if r.violated:
            raise MachineryError(f"theorem {r.violated_name} about the reference model failed (WV={wv}, EV={ev}, "
                                 f"n<={maxn}); the specification is wrong, nothing is reported about the code")
        if r.coverage_zero:
            raise MachineryError(f"StatsTheorems: actions never taken: {r.coverage_zero}")
    chk.note("theorem_series_enumerated", sum(r.states for r in res))


# ----------------------------------------------------------------------------- instance generation
BLK_FULL = [{"tag": "plain", "table": True}, {"tag": "w*2^-20", "wscale": 2.0 ** -20},
            {"tag": "w*2^30", "wscale": 2.0 ** 30, "table": True}, {"tag": "w*3", "wscale": 3.0},
            {"tag": "w*0.1", "wscale": 0.1}, {"tag": "w*12345.678", "wscale": 12345.678},
            {"tag": "e*2^-10", "epow": 10}, {"tag": "w*2^-70,e*2^-3", "wscale": 2.0 ** -70, "epow": 3},
            {"tag": "e-75", "eshift": -75, "table": True}, {"tag": "(e+1000)*2^-4", "eshift": 1000, "epow": 4},
            {"tag": "int-dtype", "dtype": "int"}]
BLK_LITE = [{"tag": "plain"}, {"tag": "w*2^-20", "wscale": 2.0 ** -20, "table": True}]
BLK_LONG = [{"tag": "plain", "table": True}, {"tag": "w*2^30", "wscale": 2.0 ** 30}, {"tag": "w*0.1", "wscale": 0.1},
            {"tag": "e*2^-10", "epow": 10}, {"tag": "e-75", "eshift": -75}]


def draw_series(rng, n, style):
    """integer weights > 0 and integer samples; magnitudes shrink until the 32-bit guard of the spec passes"""
    wmax = {"short": 50, "medium": 8, "long": 4}[style["size"]]
    emax = {"short": 20, "medium": 5, "long": 3}[style["size"]]
    for attempt in range(12):
        w = rng.integers(1, wmax + 1, n)
        kind = style["kind"]
        if kind == "iid":
            e = rng.integers(-emax, emax + 1, n)
        elif kind == "ties":
            e = rng.choice(np.array([-1, 0, 0, 1, emax]), n)
        elif kind == "const":
            e = np.full(n, int(rng.integers(-emax, emax + 1)))
        elif kind == "nearconst":
            e = np.full(n, int(rng.integers(-emax, emax + 1)))
            e[rng.integers(0, n, max(1, n // 20))] += 1
        elif kind == "ar1":       # autocorrelated integers: the errors grow with the block size before they plateau
            rho = style.get("rho", 0.9)
            x = np.zeros(n)
            z = rng.normal(size=n)
            for t in range(1, n):
                x[t] = rho * x[t - 1] + z[t]
            e = np.clip(np.rint(x * emax / 3.0), -2 * emax, 2 * emax).astype(int)
        elif kind == "equalw":
            w = np.full(n, int(rng.integers(1, wmax + 1)))
            e = rng.integers(-emax, emax + 1, n)
        else:
            raise ValueError(kind)
        neqls = sorted({0, *[k for k in style.get("neqls", ()) if 0 <= k < n]})
        if st.guard_blocking(w, e, neqls):
            return w.astype(int), np.asarray(e).astype(int), neqls
        wmax = max(1, wmax // 2)
        emax = max(1, emax // 2)
    raise MachineryError(f"could not draw a series of length {n} within the 32-bit guard")


def blocking_plan(chk):
    """[(n, style)]"""
    rng = np.random.default_rng(1900 + chk.seed)
    q = chk.tier == "quick"
    kinds = ["iid", "ties", "ar1", "const", "nearconst", "equalw"]
    plan = []
    for n in list(range(4, 26)) + [int(x) for x in rng.integers(26, 61, 14 if q else 80)]:
        for kind in (rng.choice(kinds, 2, replace=False) if q else kinds):
            plan.append((n, {"size": "short", "kind": str(kind), "neqls": (1, n // 2, n - 4, n - 3, n - 1)}))
    for n in [61, 101, 199, 200, 201, 401, 402, 999, 1001] + [int(x) for x in rng.integers(61, 2000, 10 if q else 60)]:
        for kind in (rng.choice(kinds, 1) if q else ["iid", "ar1", "ties"]):
            plan.append((n, {"size": "medium", "kind": str(kind), "neqls": (n // 10, n // 2)}))
    longs = [2001, 10000] if q else [2000, 2001, 2002, 4999, 9999, 10000, 10000, 10000] + \
        [int(x) for x in rng.integers(2001, 10001, 16)]
    for i, n in enumerate(longs):
        plan.append((n, {"size": "long", "kind": ["ar1", "iid", "ties", "equalw"][i % 4],
                         "rho": [0.9, 0.98, 0.6][i % 3], "neqls": (n // 4,) if i % 2 else ()}))
    return rng, plan


def exhaustive_small(chk):
    """all series over small alphabets (the same sets StatsTheorems enumerates), replayed into the real code"""
    doms = [((1, 2), (0, 1), (4, 5, 6)), ((1, 2, 3), (0, 1, 3), (4,))] if chk.tier == "quick" else \
           [((1, 2), (0, 1), (4, 5, 6, 7)), ((1, 2, 3), (0, 1, 3), (4,)), ((1, 3), (-2, 0, 1), (5,))]
    for wv, ev, ns in doms:
        pairs = list(itertools.product(wv, ev))
        for n in ns:
            for combo in itertools.product(pairs, repeat=n):
                yield np.array([c[0] for c in combo]), np.array([c[1] for c in combo])


def outlier_data(rng, n, style):
    cols = []
    for c in range(3):
        if style == "heavy":
            x = rng.integers(-3, 4, n)
            bad = rng.random(n) < 0.06
            x[bad] += rng.integers(-900, 901, bad.sum())
        elif style == "spiky":           # more than half of the values identical: MAD = 0
            x = np.where(rng.random(n) < 0.62, 5, rng.integers(-40, 41, n))
        elif style == "ties":
            x = rng.choice(np.array([0, 0, 1, 1, 2, 7, -30]), n)
        else:
            x = rng.integers(-1000, 1001, n)
        cols.append(x)
    return np.stack(cols).T.astype(int)


# ----------------------------------------------------------------------------- run
def _fl(x):
    return None if x is None else float(x)


def run(chk: Check):
    repo_setup()
    chk.rule = ("a case = one call of the real stat_utils function on one presentation of an integer-valued instance "
                "(series x equilibration cut x weight/energy rescaling; data column x m; num/denom series), judged by "
                "TLC (StatsJudge.tla) against the exact rational reference; instances = every series over small "
                "alphabets (lengths 4..6/7) plus seeded random series of length 4..10000 (i.i.d., ties, AR(1), "
                "constant, near-constant, equal weights); non-trivial = the exact answer has a non-zero "
                "error / at least one rejected row; distinct by instance id and presentation; driver level: Report.tla "
                "(design, TLC exhaustive for small constants) replayed into the real driver.afqmc with scripted block "
                "results - samples_raw.dat, samples.dat, returned mean and error bar = a terminal state of the specification")
    chk.assumptions += [
        "samples and weights are integers (presented to the code as floats, also multiplied by powers of two so that "
        "the float inputs are exact, by 0.1 / 12345.678 / 3 to probe arbitrary weight scales, and with an integer "
        "constant (-75, +1000) added to the samples, the outputs being mapped back exactly): a wrong index, "
        "factor or sign in the code is an O(1) discrepancy against the exact value",
        "tolerances: mean 1e-10 of max(1,|mean|); error bar 1e-10 relative (2.5e-10 on its square) plus an absolute "
        "floor 1e-10*max(1,max|e|) so that rounding noise on constant data counts as zero; printed per-block-size "
        "table at print precision (4e-6 on the square, 1e-8 on the mean)",
        "plateau rule as implemented (first block size whose error is < 1.05 x the previous one -> max of the two): "
        "when the exact ratio of squared errors is within 1e-9 of 1.1025, or both errors are exactly zero, either "
        "outcome of that comparison is accepted",
        "outlier rows with |x-med| exactly equal to m*MAD (where the code's +1e-10 decides) are not judged; all "
        "other rows have a decision margin >= 1/(4q) of the data grid (>= 1e-3 after the 2^-7 rescaling)",
        "weight scales 2^-70 .. 2^30 are exercised; scales beyond ~1e+-150, where the squares of the block weights "
        "overflow/underflow in float64, are outside what is checked",
        "NOT checked (outside the technique, see DESIGN.md): agreement of the error bar with the true standard error "
        "over ensembles of random series and the AR(1) plateau-at-the-true-error clause",
        "exact evaluation reach: TLC evaluates series up to 10^4 samples exactly (BigNat.tla); 32-bit native block "
        "sums bound the magnitudes: |sum_block w e| <= 46340, i.e. at 10^4 samples weights <= 4 and |e| <= 3..6"]
    chk.trusted_base += ["python fractions.Fraction(float) (exact float -> rational conversion)",
                         "TLC evaluation of spec/BigNat.tla (self-tested by ASSUME BigNatSelfTest in every run)"]
    theorems(chk)

    recs, meta = [], {}
    rid = 0

    # ---- blocking: exhaustive small series
    n_ex = 0
    for w, e in exhaustive_small(chk):
        rid += 1
        obs = st.observe_blocking(w, e, 0, BLK_LITE)
        recs.append({"id": rid, "kind": "blocking", "w": w.tolist(), "e": e.tolist(), "neql": 0,
                     "sc2": int(max(1, np.abs(e).max() ** 2)), "obs": [o for o, _ in obs], "cost": len(w)})
        meta[rid] = {"fn": "blocking", "w": w, "e": e, "neql": 0, "raw": [r for _, r in obs], "variants": BLK_LITE,
                     "gen": "exhaustive"}
        n_ex += 1
    chk.note("exhaustive_small_series_replayed", n_ex)

    # ---- blocking: random series
    rng, plan = blocking_plan(chk)
    lens = []
    for n, style in plan:
        w, e, neqls = draw_series(rng, n, style)
        lens.append(n)
        for k in neqls:
            variants = BLK_LONG if style["size"] == "long" else (BLK_FULL if k == 0 else BLK_LITE)
            rid += 1
            obs = st.observe_blocking(w, e, k, variants)
            recs.append({"id": rid, "kind": "blocking", "w": w.tolist(), "e": e.tolist(), "neql": int(k),
                         "sc2": int(max(1, np.abs(e).max() ** 2)), "obs": [o for o, _ in obs],
                         "cost": 20 + (n - k) * (3 if style["size"] == "long" else 1)})
            meta[rid] = {"fn": "blocking", "w": w, "e": e, "neql": int(k), "raw": [r for _, r in obs],
                         "variants": variants, "gen": style}
    chk.note("random_series_lengths", {"min": min(lens), "max": max(lens), "count": len(lens),
                                       "ge_2000": sum(1 for x in lens if x >= 2000)})

    # ---- outliers
    q = chk.tier == "quick"
    orng = np.random.default_rng(1901 + chk.seed)
    ms = [(1.0, [1, 1]), (2.5, [5, 2]), (10.0, [10, 1]), (None, [10, 1])]
    ovars = [{"tag": "plain"}, {"tag": "x*2^-7-75", "pow": 7, "shift": -75}, {"tag": "int-dtype", "dtype": "int"}]
    osizes = list(range(4, 20)) + [int(x) for x in orng.integers(20, 400, 6 if q else 60)] + \
        ([2000, 10000] if q else [1999, 5000, 10000])
    for n in osizes:
        for style in (["heavy", "spiky"] if (q and n > 12) else ["heavy", "spiky", "ties", "wide"]):
            data = outlier_data(orng, n, style)
            for col0 in range(3):
                for m, mq in (ms if n <= 400 else ms[1:3]):
                    rid += 1
                    obs = st.observe_outliers(data, col0, m, ovars if n <= 400 else ovars[:2])
                    recs.append({"id": rid, "kind": "outliers", "data": data.tolist(), "col": col0 + 1, "m": mq,
                                 "obs": [o for o, _ in obs], "cost": 5 + n})
                    meta[rid] = {"fn": "outliers", "data": data, "col0": col0, "m": m, "raw": [r for _, r in obs],
                                 "variants": ovars if n <= 400 else ovars[:2], "gen": style}
    # exhaustive small columns (every column over {0..3}, lengths 4..6)
    cols = [c for n in (4, 5, 6) for c in itertools.product((0, 1, 2, 3), repeat=n)]
    if not q:
        cols += list(itertools.product((0, 1, 5), repeat=7))
    for col in cols:
        n = len(col)
        data = np.stack([np.arange(n), np.array(col), np.ones(n, dtype=int)]).T
        for m, mq in ms[:3]:
            rid += 1
            obs = st.observe_outliers(data, 1, m, ovars[:1])
            recs.append({"id": rid, "kind": "outliers", "data": data.tolist(), "col": 2, "m": mq,
                         "obs": [o for o, _ in obs], "cost": 3})
            meta[rid] = {"fn": "outliers", "data": data, "col0": 1, "m": m, "raw": [r for _, r in obs],
                         "variants": ovars[:1], "gen": "exhaustive"}

    # ---- jackknife
    jrng = np.random.default_rng(1902 + chk.seed)
    jvars = [{"tag": "plain"}, {"tag": "num*2^-10,den*2^5", "npow": 10, "dpow": 5},
             {"tag": "int-dtype", "dtype": "int"}]
    jsizes = list(range(4, 24)) + [int(x) for x in jrng.integers(24, 1500, 10 if q else 120)] + \
        ([3000, 10000] if q else [2000, 5000, 9999, 10000, 10000])
    for n in jsizes:
        for style in ("mixed", "neg", "ratio-const"):
            for attempt in range(10):
                dmax = 30 if n <= 200 else 4
                nmax = max(1, min(40, st.SQ // (3 * n)))
                den = jrng.integers(1, dmax + 1, n)
                if style == "mixed":
                    num = jrng.integers(-nmax, nmax + 1, n)
                elif style == "neg":
                    num = -jrng.integers(0, nmax + 1, n) * 1
                else:
                    num = -2 * den
                if st.guard_jackknife(num, den):
                    break
            else:
                continue
            rid += 1
            obs = st.observe_jackknife(num, den, jvars)
            recs.append({"id": rid, "kind": "jackknife", "num": num.tolist(), "den": den.tolist(),
                         "sc2": int(max(1, np.abs(num).max() ** 2)), "obs": [o for o, _ in obs], "cost": 5 + n})
            meta[rid] = {"fn": "jackknife", "num": num, "den": den, "raw": [r for _, r in obs], "variants": jvars,
                         "gen": style}
    if not q:   # exhaustive small jackknife instances
        for n in (4,):
            for combo in itertools.product(list(itertools.product((1, 2, 3), (-1, 0, 2))), repeat=n):
                den = np.array([c[0] for c in combo])
                num = np.array([c[1] for c in combo])
                rid += 1
                obs = st.observe_jackknife(num, den, jvars[:1])
                recs.append({"id": rid, "kind": "jackknife", "num": num.tolist(), "den": den.tolist(), "sc2": 4,
                             "obs": [o for o, _ in obs], "cost": 3})
                meta[rid] = {"fn": "jackknife", "num": num, "den": den, "raw": [r for _, r in obs],
                             "variants": jvars[:1], "gen": "exhaustive"}

    verdicts = {}
    for k, part in enumerate(st.batches(recs)):
        verdicts.update(st.judge(chk, part, f"bind{k}", nchunks=64))
    assess(chk, recs, meta, verdicts)
    # ---- what the DRIVER reports: spec/Report.tla (rank 0's bookkeeping between block results and the reported numbers),
    # TLC design check, then spec -> code: scripted block results through the real driver.afqmc on thread ranks; the
    # reported mean / error bar and the rows kept by the 10-MAD rule must be those of the specification
    from .. import report
    report.design(chk)
    report.replay_scripted(chk)
    # code -> spec: real runs (real sampler), rank 0's calls recorded and replayed by ReportTrace.tla
    report.replay_recorded(chk)


# ----------------------------------------------------------------------------- verdicts -> report
def _small(a, limit=400):
    a = np.asarray(a)
    return a.tolist() if a.size <= limit else {"length": int(a.shape[0]), "head": a[:40].tolist(),
                                               "note": "regenerate with the same VERIF_SEED/tier"}


def assess(chk: Check, recs, meta, verdicts):
    stats = {"plateau_value": 0, "plateau_none_nonzero": 0, "ties": 0, "zero_error": 0, "outlier_rejecting": 0,
             "outlier_edge_rows": 0, "outlier_mad0": 0, "max_ladder_index_accepted": 0}
    for r in recs:
        v, m = verdicts[r["id"]], meta[r["id"]]
        chk.traces += len(r["obs"])
        if m["fn"] == "blocking":
            errs = [st.big_to_float(x) for x in v["errs2"]]
            acc = [k + 1 for k, a in enumerate(v["accept"]) if a]
            nontriv = any(x > 0 for x in errs)
            if acc:
                stats["plateau_value"] += 1
                stats["max_ladder_index_accepted"] = max(stats["max_ladder_index_accepted"], max(acc))
            elif nontriv and len(errs) >= 2:
                stats["plateau_none_nonzero"] += 1
            stats["ties"] += sum(1 for c in v["classes"] if c == "tie")
            stats["zero_error"] += 0 if nontriv else 1
            exact = {"mean": v["mean"][0] / v["mean"][1], "block_sizes": v["bs"],
                     "errors": [float(np.sqrt(x)) for x in errs], "acceptable_plateau_index": acc,
                     "none_acceptable": v["accept_none"]}
            plain_ok = v["obs"][0]["ok"]
            for o, ov, raw, var in zip(r["obs"], v["obs"], m["raw"], m["variants"]):
                chk.case((r["id"], o["tag"]), nontrivial=nontriv)
                if ov["ok"]:
                    continue
                cut = "@neql>0" if r["neql"] > 0 else ""
                if o["tag"] == "int-dtype" and plain_ok:
                    site, what = f"{SITE}.blocking_analysis:integer-dtype-input", \
                        "integer-valued samples passed as an integer ndarray give a different result"
                elif not o["finite"]:
                    site, what = f"{SITE}.blocking_analysis:nonfinite-or-raises{cut}", "non-finite value or exception"
                elif not ov["mean_ok"]:
                    site, what = f"{SITE}.blocking_analysis:mean{cut}", "mean is not the weight-averaged mean"
                elif not ov["err_ok"]:
                    if plain_ok and o["tag"] != "plain":
                        site = f"{SITE}.blocking_analysis:rescaling-invariance"
                        what = f"error bar changes under the presentation '{o['tag']}'"
                    elif o["err_none"]:
                        site, what = f"{SITE}.blocking_analysis:error:none-for-value{cut}", \
                            "returned None where the plateau rule yields a value"
                    elif not acc:
                        site, what = f"{SITE}.blocking_analysis:error:value-for-none{cut}", \
                            "returned an error bar where the plateau rule yields None"
                    else:
                        site, what = f"{SITE}.blocking_analysis:error:value{cut}", \
                            "error bar differs from the exact blocked estimate"
                else:
                    site, what = f"{SITE}.blocking_analysis:printed-table", \
                        "printed per-block-size table (b, nb, mean, error) differs from the exact values"
                chk.violation(site, f"blocking_analysis(n={len(r['w'])}, neql={r['neql']}, {o['tag']}): {what}; "
                                    f"code returned mean={_fl(raw.get('mean'))} err={_fl(raw.get('err'))} "
                                    f"{raw.get('exception') or ''}; exact {exact}",
                              {"function": "blocking_analysis", "weights": _small(m["w"]), "energies": _small(m["e"]),
                               "neql": r["neql"], "presentation": var, "generator": m["gen"], "code": raw,
                               "exact": exact, "verdict": ov})
            if len(r["w"]) >= 2000 or (nontriv and acc and max(acc) >= 4):
                chk.sample({"function": "blocking_analysis", "n": len(r["w"]), "neql": r["neql"], "generator": m["gen"],
                            "exact": exact, "code": m["raw"][0]}, limit=5)
        elif m["fn"] == "outliers":
            nontriv = v["n_out"] > 0
            stats["outlier_rejecting"] += 1 if nontriv else 0
            stats["outlier_edge_rows"] += v["n_edge"]
            stats["outlier_mad0"] += 1 if (v["n_in"] == 0 and v["n_edge"] > 0) else 0
            for o, ov, raw, var in zip(r["obs"], v["obs"], m["raw"], m["variants"]):
                chk.case((r["id"], o["tag"]), nontrivial=nontriv)
                if ov["ok"]:
                    continue
                if o["tag"] == "int-dtype" and v["obs"][0]["ok"]:
                    site, what = f"{SITE}.reject_outliers:integer-dtype-input", \
                        "integer-valued data passed as an integer ndarray give a different result"
                elif raw.get("exception"):
                    site, what = f"{SITE}.reject_outliers:raises-or-malformed", raw["exception"]
                elif ov["n_lost"]:
                    site, what = f"{SITE}.reject_outliers:mask:dropped-inlier", \
                        f"{ov['n_lost']} row(s) strictly within m MADs of the median were dropped (first: row {ov['first_bad']})"
                elif ov["n_kept"]:
                    site, what = f"{SITE}.reject_outliers:mask:kept-outlier", \
                        f"{ov['n_kept']} row(s) strictly beyond m MADs of the median were kept (first: row {ov['first_bad']})"
                else:
                    site, what = f"{SITE}.reject_outliers:rows", "returned rows are not the kept rows of the input"
                chk.violation(site, f"reject_outliers(n={v['n']}, column {m['col0']}, m={m['m']}, {o['tag']}): {what}",
                              {"function": "reject_outliers", "data": _small(m["data"], 1200), "column": m["col0"],
                               "m": m["m"], "presentation": var, "generator": m["gen"],
                               "mask": _small(np.array(o["mask"]), 1200), "verdict": ov})
            if nontriv and v["n_edge"]:
                chk.sample({"function": "reject_outliers", "n": v["n"], "m": m["m"], "in": v["n_in"], "out": v["n_out"],
                            "edge": v["n_edge"]}, limit=7)
        else:
            for o, ov, raw, var in zip(r["obs"], v["obs"], m["raw"], m["variants"]):
                chk.case((r["id"], o["tag"]), nontrivial=m["gen"] != "ratio-const")
                if ov["ok"]:
                    continue
                which = "nonfinite-or-raises" if not o["finite"] else ("mean" if not ov["mean_ok"] else "sigma")
                if o["tag"] == "int-dtype" and v["obs"][0]["ok"]:
                    which = "integer-dtype-input"
                exact = {"mean": st.big_to_float(v["mean"]), "sigma": float(np.sqrt(st.big_to_float(v["sigma2"])))}
                chk.violation(f"{SITE}.jackknife_ratios:{which}",
                              f"jackknife_ratios(n={v['n']}, {o['tag']}): result ({which}) differs from the brute-force "
                              f"leave-one-out value; code {raw}; exact {exact}",
                              {"function": "jackknife_ratios", "num": _small(m["num"]), "den": _small(m["den"]),
                               "presentation": var, "code": raw, "exact": exact, "verdict": ov})
    chk.note("binding_statistics", stats)
    chk.note("records_judged", {k: sum(1 for r in recs if r["kind"] == k) for k in ("blocking", "outliers", "jackknife")})


def replay(chk: Check, case):
    """re-run one recorded violation (./check C19 --replay replay/C19-k.json) through the real code and the judge"""
    repo_setup()
    c = case["case"]
    fn = c["function"]
    var = [{"tag": "plain"}, c["presentation"]]
    if fn == "blocking_analysis":
        if isinstance(c["weights"], dict):
            raise MachineryError("series too long to be stored in the replay file; rerun with the recorded seed/tier")
        w, e = np.array(c["weights"]), np.array(c["energies"])
        obs = st.observe_blocking(w, e, c["neql"], var)
        rec = {"id": 1, "kind": "blocking", "w": w.tolist(), "e": e.tolist(), "neql": c["neql"],
               "sc2": int(max(1, np.abs(e).max() ** 2)), "obs": [o for o, _ in obs]}
        m = {"fn": "blocking", "w": w, "e": e, "neql": c["neql"], "gen": c.get("generator")}
    elif fn == "reject_outliers":
        if isinstance(c["data"], dict):
            raise MachineryError("data too long to be stored in the replay file; rerun with the recorded seed/tier")
        data = np.array(c["data"])
        mq = {1.0: [1, 1], 2.5: [5, 2], 10.0: [10, 1], None: [10, 1]}[c["m"]]
        obs = st.observe_outliers(data, c["column"], c["m"], var)
        rec = {"id": 1, "kind": "outliers", "data": data.tolist(), "col": c["column"] + 1, "m": mq,
               "obs": [o for o, _ in obs]}
        m = {"fn": "outliers", "data": data, "col0": c["column"], "m": c["m"], "gen": c.get("generator")}
    else:
        if isinstance(c["num"], dict):
            raise MachineryError("series too long to be stored in the replay file; rerun with the recorded seed/tier")
        num, den = np.array(c["num"]), np.array(c["den"])
        obs = st.observe_jackknife(num, den, var)
        rec = {"id": 1, "kind": "jackknife", "num": num.tolist(), "den": den.tolist(),
               "sc2": int(max(1, np.abs(num).max() ** 2)), "obs": [o for o, _ in obs]}
        m = {"fn": "jackknife", "num": num, "den": den, "gen": c.get("generator")}
    m.update({"raw": [r for _, r in obs], "variants": var})
    verdicts = st.judge(chk, [rec], "replay", nchunks=1)
    assess(chk, [rec], {1: m}, verdicts)
