"""C14 - walkers evolve independently; batching and storage format change nothing."""
import json

import numpy as np

from .. import proxies, runlevel, wf, wfcheck
from ..core import Check, MachineryError, repo_setup, VERIF

VERIF_SPEC = VERIF / "spec"

LEVEL = "model_checking"
TOL = 1e-12


def rel(a, b):
    a, b = np.asarray(a), np.asarray(b)
    if a.shape != b.shape:
        return np.inf
    if not (np.all(np.isfinite(a)) and np.all(np.isfinite(b))):
        return np.inf
    return float(np.max(np.abs(a - b) / np.maximum(1.0, np.abs(b)))) if a.size else 0.0


def tol_for(what, kind):
    """the library's own arithmetic limits what 'changes no output' can mean: finite-difference energies divide
    round-off by eps^2 = 1e-8, the hand-coded CISD energies down-cast blocks to complex64"""
    if what == "e" and kind in wf.AD_KINDS:
        return 1e-6
    if what == "e" and kind in ("cisd", "cisd_faster", "ucisd"):
        return 2e-5
    return TOL


def permute_pd(pd, p):
    import jax.numpy as jnp
    p = np.asarray(p)
    out = {}
    for k, v in pd.items():
        if isinstance(v, (list, tuple)):
            out[k] = [jnp.array(np.asarray(x)[p]) for x in v]
        elif hasattr(v, "shape") and len(v.shape) >= 1 and v.shape[0] == len(p) and k != "key":
            out[k] = jnp.array(np.asarray(v)[p])
        else:
            out[k] = v
    return out


def run(chk: Check):
    repo_setup()
    import dataclasses
    import jax.numpy as jnp
    from ad_afqmc import lattices
    chk.rule = ("design: Batching.tla index algebra (reshape/scan/vmap/reshape) = identity and permutation equivariant for "
                "all N <= 6, all divisors, all permutations (TLC exhaustive); spec->code: for TLC-chosen (N, divisors, "
                "permutations) every batched measurement and propagation routine is replayed on pairwise different "
                "walkers: outputs must permute with the walkers and not depend on n_batch; restricted vs unrestricted "
                "runs of a closed-shell problem must follow identical trajectories through sampler and driver; "
                "case = one (routine, N, n_batch or permutation)")
    chk.assumptions += ["equality up to 1e-12 relative (XLA may re-associate reductions across batch sizes), restricted vs "
                        "unrestricted trajectories up to 1e-9", "energies of finite-difference kinds up to 1e-6 and of the complex64 hand-coded CISD kinds up to 2e-5 (round-off floors of the library's own arithmetic)", "stochastic reconfiguration is population control and couples "
                        "walkers by design: it is not required to be permutation equivariant (C07 covers it)"]
    big = chk.tier == "thorough"
    r = chk.tlc("Batching", "SPECIFICATION Spec\nCONSTANTS\n  MaxN = %d\nINVARIANT BatchingIsIdentity\nINVARIANT Equivariant\n"
                "INVARIANT SplitJoin\nCHECK_DEADLOCK FALSE\n" % (7 if big else 6), name="Batching")
    if r.violated:
        raise MachineryError(f"Batching.tla violates its own theorem {r.violated_name}")
    # the arithmetic core of BatchingIsIdentity for ALL N and batch counts: TLAPS proof (spec/BatchingProof.tla), re-checked
    # here in a scratch copy; a prover time-out under load is recorded, not an alarm (TLC's bounded check above stands)
    import shutil
    import subprocess
    pd_ = chk.scratch("tlaps")
    shutil.copy(str(VERIF_SPEC / "tlaps" / "BatchingProof.tla"), str(pd_ / "BatchingProof.tla"))
    proved = None
    if shutil.which("tlapm"):
        for extra in ([], ["--stretch", "4"]):
            try:
                pr = subprocess.run(["tlapm", "--toolbox", "0", "0", *extra, "BatchingProof.tla"], cwd=str(pd_), capture_output=True, text=True,
                                    timeout=900)
                m_ = __import__("re").search(r"All (\d+) obligations proved", pr.stdout + pr.stderr)
                if m_:
                    proved = int(m_.group(1))
                    break
            except subprocess.TimeoutExpired:
                pass
    chk.note("tlaps_batching_roundtrip_obligations_proved", proved if proved is not None else "not re-checked in this run (prover unavailable or timed out)")
    rng = np.random.default_rng(1400 + chk.seed)
    reqs = [{"id": 1, "n": 4, "all": big, "picks": [int(x) for x in rng.integers(0, 1000, size=3)]},
            {"id": 2, "n": 6, "all": False, "picks": [int(x) for x in rng.integers(0, 1000, size=6 if big else 2)]}]
    wd = chk.scratch("batch")
    (wd / "out").mkdir(exist_ok=True)
    (wd / "req.ndjson").write_text("".join(json.dumps(q) + "\n" for q in reqs))
    chk.tlc("BatchingEmit", "SPECIFICATION ESpec\nCHECK_DEADLOCK FALSE\n",
            env={"BATCH_REQ": str(wd / "req.ndjson"), "BATCH_OUT": str(wd / "out")}, workers=2, name="BatchingEmit")
    plans = [json.loads((wd / "out" / f"{q['id']}.json").read_text().splitlines()[0]) for q in reqs]
    # ------------------------------------------------------------------ A. measurement routines
    kinds = wf.ALL_KINDS if big else ("rhf", "uhf", "noci", "multislater", "CISD", "ucisd", "cisd_faster", "GCISD")
    iid = 0
    for plan in plans:
        N = plan["n"]
        for kind in kinds:
            if N == 6 and not big and kind not in ("uhf", "rhf", "ucisd"):
                continue
            iid += 1
            restricted = kind in wf.RESTRICTED_ONLY or (kind == "rhf" and iid % 2 == 0)
            norb, nu, nd = (4, 2, 2) if kind != "GCISD" else (3, 2, 1)
            try:
                I = wf.make_instance(iid, rng, kind, norb, nu, nd, 2, N, restricted, spin_dep=False)
            except MachineryError:
                continue
            for what in ("ov", "e", "fb"):
                base = wfcheck.lib_eval(I, what, n_batch=1)
                for cname, b0 in base.items():
                    site = f"{what}:{kind}:{cname}"
                    if isinstance(b0, dict):
                        chk.violation(site + ":raises", f"{kind} {what} raised {b0['raises']}", {"kind": kind})
                        continue
                    for nb in plan["divisors"]:
                        got = wfcheck.lib_eval(I, what, n_batch=nb)[cname]
                        chk.case((site, N, "nb", nb))
                        chk.traces += 1
                        if isinstance(got, dict) or rel(got, b0) > tol_for(what, kind):
                            chk.violation(site + ":n_batch", f"{kind} calc_{what} ({cname}) with n_batch={nb} differs from "
                                          f"n_batch=1 for N={N}: {got} vs {b0}", {"instance": I["json"], "n_batch": nb})
                    for p in plan["perms"]:
                        p0 = [k - 1 for k in p]
                        J = dict(I)
                        J["walkers"] = [I["walkers"][k] for k in p0]
                        nbp = plan["divisors"][len(plan["divisors"]) // 2]
                        got = wfcheck.lib_eval(J, what, n_batch=nbp)[cname]
                        chk.case((site, N, "perm", tuple(p)))
                        chk.traces += 1
                        if isinstance(got, dict) or rel(got, np.asarray(b0)[p0]) > tol_for(what, kind):
                            chk.violation(site + ":permutation", f"{kind} calc_{what} ({cname}): permuting the walkers by {p} "
                                          f"does not permute the outputs (n_batch={nbp})", {"instance": I["json"], "perm": p})
            chk.sample({"routine": "calc_overlap/energy/force_bias", "kind": kind, "N": N, "divisors": plan["divisors"],
                        "perms": plan["perms"][:2]}, limit=3)
    # ------------------------------------------------------------------ A2. a dead walker in the batch
    # one walker exactly orthogonal to the trial (overlap 0, its own force bias / energy non-finite): the values of the
    # OTHER walkers must not depend on which batch they share with it, nor on where it sits in the population
    import scipy.linalg as _sla
    for kind in ("rhf", "uhf"):
        norb, nu, nd = (4, 2, 2) if kind == "rhf" else (4, 2, 1)
        for restricted in ((True, False) if kind == "rhf" else (False,)):
            try:
                I = wf.make_instance(9000 + len(kind) + int(restricted), rng, kind, norb, nu, nd, 2, 4, restricted, spin_dep=False)
            except MachineryError:
                continue
            trial, wd, hd, ham = wf.build_lib(I)
            Cu = np.asarray(wd["mo_coeff"] if kind == "rhf" else wd["mo_coeff"][0], dtype=complex)
            null = _sla.null_space(Cu.conj().T)[:, 0]               # orthogonal to every occupied trial orbital
            for pos, how in ((0, "orthogonal"), (2, "nan")):
                J = dict(I)
                wk = [(np.array(w[0], dtype=complex), np.array(w[1], dtype=complex)) for w in I["walkers"]]
                wu = wk[pos][0].copy()
                if how == "orthogonal":
                    wu[:, 0] = null
                else:               # a walker that blew up earlier: its matrix is NaN (weight 0, still in the population until SR)
                    wu[:] = np.nan
                wk[pos] = (wu, wu.copy() if (restricted or kind == "rhf" and nu == nd and restricted) else wk[pos][1])
                J["walkers"] = wk
                healthy = [k for k in range(4) if k != pos]
                for what in ("fb", "e"):
                    base = wfcheck.lib_eval(J, what, n_batch=1)
                    for cname, b0 in base.items():
                        if isinstance(b0, dict):
                            continue
                        for nb in (2, 4):
                            got = wfcheck.lib_eval(J, what, n_batch=nb)[cname]
                            chk.case(("dead-walker", kind, restricted, pos, what, cname, nb))
                            chk.traces += 1
                            if isinstance(got, dict) or rel(np.asarray(got)[healthy], np.asarray(b0)[healthy]) > tol_for(what, kind):
                                chk.violation(f"{what}:{kind}:{cname}:dead-walker-in-batch", f"{kind} calc_{what} ({cname}): with walker {pos} dead ({how}: "
                                              f"orthogonal to the trial / NaN matrix), the values of the other walkers depend on n_batch ({nb} vs 1): "
                                              f"{np.asarray(got)[healthy].tolist() if not isinstance(got, dict) else got} vs {np.asarray(b0)[healthy].tolist()}",
                                              {"kind": kind, "n_batch": nb, "dead": pos})
    # ------------------------------------------------------------------ B. propagation routines
    def prop_cases():
        for wt, tk, nelec in (("uhf", "uhf", (2, 1)), ("rhf", "rhf", (2, 2))):
            yield f"phaseless:{wt}", lambda N, nb, wt=wt, tk=tk, nelec=nelec: runlevel.make_system(
                np.random.default_rng(5), norb=4, nelec=nelec, nchol=3, trial_kind=tk, walker_type=wt, n_walkers=N, dt=0.05,
                n_batch=nb, proxied=False)
        for pk in (("cpmc", "cpmc_slow") if not big else ("cpmc", "cpmc_slow", "cpmc_continuous")):
            yield pk, lambda N, nb, pk=pk: runlevel.make_hubbard(np.random.default_rng(6), lattices.one_dimensional_chain(4), (2, 2),
                                                               4.0, 0.05, prop_kind=pk, n_walkers=N, proxied=False)
    for plan in plans:
        N = plan["n"]
        for label, mk in prop_cases():
            cp = label.startswith("cpmc")
            outs = {}
            for nb in (plan["divisors"] if not cp else [1]):
                sysd = mk(N, nb)
                trial, prop, ham = sysd["trial"], sysd["prop"], sysd["ham"]
                hd = ham.build_measurement_intermediates(dict(sysd["ham_data"]), trial, sysd["wave_data"])
                hd = ham.build_propagation_intermediates(hd, prop, trial, sysd["wave_data"])
                pd = prop.init_prop_data(trial, sysd["wave_data"], hd, None)
                # pairwise different walkers, weights, overlaps: a first random step
                r0 = np.random.default_rng(9)
                nf = sysd["norb"] if cp else hd["chol"].shape[0]
                f0 = jnp.array(r0.normal(size=(N, nf)))
                pd = prop.propagate(trial, hd, pd, f0, sysd["wave_data"])
                pd = dict(pd)
                pd["weights"] = pd["weights"] * jnp.array(1.0 + 0.1 * np.arange(N))
                f1 = r0.normal(size=(N, nf))

                def step(pdx, fx, free=False):
                    pdx = runlevel.copy_prop_data(pdx)
                    if free:
                        o = prop.propagate_free(trial, hd, pdx, jnp.array(fx), sysd["wave_data"])
                    else:
                        o = prop.propagate(trial, hd, pdx, jnp.array(fx), sysd["wave_data"])
                    wk = o["walkers"]
                    flat = np.concatenate([np.asarray(x).reshape(N, -1) for x in (wk if isinstance(wk, (list, tuple)) else [wk])], axis=1)
                    return {"weights": np.asarray(o["weights"]), "overlaps": np.asarray(o["overlaps"]), "walkers": flat,
                            "shift": np.asarray(o["pop_control_ene_shift"]).reshape(1)}
                modes = [False] + ([True] if label == "phaseless:uhf" else [])
                for free in modes:
                    tag = label + (":free" if free else "")
                    b0 = step(pd, f1, free)
                    outs[(nb, free)] = b0
                    for p in plan["perms"]:
                        p0 = np.array([k - 1 for k in p])
                        got = step(permute_pd(pd, p0), f1[p0], free)
                        chk.case((tag, N, nb, tuple(p)))
                        chk.traces += 1
                        bad = [k for k in ("weights", "overlaps", "walkers") if rel(got[k], b0[k][p0]) > TOL]
                        if rel(got["shift"], b0["shift"]) > TOL:
                            bad.append("shift(not symmetric)")
                        if bad:
                            chk.violation(f"propagate:{tag}:permutation", f"{tag} N={N} n_batch={nb}: permuting walkers, fields, "
                                          f"weights and overlaps by {p} does not permute {bad}", {"perm": p, "label": tag, "n_batch": nb})
            for (nb, free), o in outs.items():
                ref = outs[(1 if (1, free) in outs else nb, free)]
                chk.case((label, N, "nb", nb, free))
                bad = [k for k in ("weights", "overlaps", "walkers", "shift") if rel(o[k], ref[k]) > TOL]
                if bad:
                    chk.violation(f"propagate:{label}:n_batch", f"{label} N={N}: n_batch={nb} changes {bad}", {"label": label, "n_batch": nb})
    # ------------------------------------------------------------------ B2. initial state from user-supplied walkers
    # init_prop_data(init_walkers=...) is where the shift is first computed: with pairwise different walkers the initial
    # estimate / shift must be a symmetric function of the population (here: the plain mean of the walkers' local
    # energies, all weights being 1), overlaps must follow the walkers, and restricted / unrestricted containers of
    # the same closed-shell population must start from the same state
    def orthonormal(r, N, norb, nocc):
        out = []
        for _ in range(N):
            a = r.normal(size=(norb, nocc)) + 1j * r.normal(size=(norb, nocc)) * 0.3
            a[:nocc, :nocc] += 2.0 * np.eye(nocc)      # keep the trial overlap away from zero
            out.append(np.linalg.qr(a)[0])
        return np.array(out)
    for plan in plans:
        N = plan["n"]
        r1 = np.random.default_rng(1470 + chk.seed + N)
        init = {}
        for wt, tk, nelec in (("rhf", "rhf", (2, 2)), ("uhf", "uhf", (2, 2)), ("uhf", "uhf", (2, 1))):
            sysd = runlevel.make_system(np.random.default_rng(5), norb=4, nelec=nelec, nchol=3, trial_kind=tk, walker_type=wt,
                                        n_walkers=N, dt=0.05, proxied=False)
            trial, prop, ham = sysd["trial"], sysd["prop"], sysd["ham"]
            hd = ham.build_measurement_intermediates(dict(sysd["ham_data"]), trial, sysd["wave_data"])
            hd = ham.build_propagation_intermediates(hd, prop, trial, sysd["wave_data"])
            if nelec == (2, 2):
                wu = init.setdefault("closed", orthonormal(r1, N, 4, 2))
                wk = jnp.array(wu) if wt == "rhf" else [jnp.array(wu), jnp.array(wu)]
            else:
                wk = [jnp.array(orthonormal(r1, N, 4, nelec[0])), jnp.array(orthonormal(r1, N, 4, nelec[1]))]
            take = (lambda w, q: jnp.array(np.asarray(w)[q])) if wt == "rhf" else (lambda w, q: [jnp.array(np.asarray(x)[q]) for x in w])
            pd = prop.init_prop_data(trial, sysd["wave_data"], hd, wk)
            es = np.real(np.asarray(trial.calc_energy(wk, hd, sysd["wave_data"])))
            tag = f"init_prop_data:{wt}:{nelec[0]}{nelec[1]}"
            chk.case((tag, N, "mean"))
            chk.traces += 1
            got = (float(pd["e_estimate"]), float(pd["pop_control_ene_shift"]))
            if max(abs(got[0] - es.mean()), abs(got[1] - es.mean())) > 1e-10 * max(1.0, abs(es.mean())):
                chk.violation(f"{tag}:estimate-not-symmetric", f"{tag} N={N} with pairwise different user-supplied walkers (unit weights): "
                              f"e_estimate / shift {got} is not the population mean {es.mean()} of the local energies {es.tolist()}",
                              {"label": tag, "N": N})
            for p in plan["perms"][:3]:
                p0 = np.array([k - 1 for k in p])
                pd2 = prop.init_prop_data(trial, sysd["wave_data"], hd, take(wk, p0))
                chk.case((tag, N, tuple(p)))
                chk.traces += 1
                bad = []
                if abs(float(pd2["e_estimate"]) - got[0]) > 1e-10 * max(1.0, abs(got[0])) or \
                        abs(float(pd2["pop_control_ene_shift"]) - got[1]) > 1e-10 * max(1.0, abs(got[1])):
                    bad.append("e_estimate/shift (not a symmetric function of the population)")
                if rel(np.asarray(pd2["overlaps"]), np.asarray(pd["overlaps"])[p0]) > TOL:
                    bad.append("overlaps")
                if bad:
                    chk.violation(f"{tag}:permutation", f"{tag} N={N}: permuting the supplied walkers by {p} changes {bad}: "
                                  f"{float(pd2['e_estimate'])} vs {got[0]}", {"label": tag, "perm": p})
            if nelec == (2, 2):
                init[wt] = (got, np.asarray(pd["overlaps"]))
        if "rhf" in init and "uhf" in init:
            chk.case(("init_prop_data:restricted-vs-unrestricted", N))
            d = max(abs(init["rhf"][0][0] - init["uhf"][0][0]), abs(init["rhf"][0][1] - init["uhf"][0][1]),
                    float(np.max(np.abs(init["rhf"][1] - init["uhf"][1]))))
            if d > 1e-9:
                chk.violation("init_prop_data:restricted-vs-unrestricted", f"N={N}: the same closed-shell population gives a different "
                              f"initial estimate/shift/overlaps in the restricted and unrestricted containers: {init['rhf'][0]} vs "
                              f"{init['uhf'][0]} (max difference {d})", {"N": N})
    # ------------------------------------------------------------------ C. restricted vs unrestricted trajectories
    S = proxies.sampler_proxy()
    # C0. sampler level, including Cholesky matrices that are NOT symmetric (the two propagators must still build the
    # same one-body propagator and follow the same trajectory)
    for sym in (True, False, "h1", "rdm1"):
        outs = {}
        for wt in ("rhf", "uhf"):
            sysd = runlevel.make_system(np.random.default_rng(41 + chk.seed), norb=4, nelec=(2, 2), nchol=3, trial_kind=wt,
                                        walker_type=wt, n_walkers=4, dt=0.03, vscale=0.4)
            if sym == "h1":     # a NON-symmetric one-body matrix, the same for both spins (h1 + coupling x a non-symmetric operator)
                a_ = np.triu(np.random.default_rng(44 + chk.seed).normal(size=(4, 4))) * 0.3
                sysd["ham_data"]["h1"] = sysd["ham_data"]["h1"] + jnp.array([a_, a_])
            elif sym == "rdm1":   # a caller-supplied wave_data["rdm1"] (it sets the mean-field shift) that is NOT the trial's own density
                d_ = np.random.default_rng(46 + chk.seed).normal(size=(4, 4)) * 0.15
                d_ = np.asarray(sysd["wave_data"]["rdm1"][0]) + (d_ + d_.T) / 2
                sysd["wave_data"]["rdm1"] = jnp.array([d_, d_])
            elif not sym:
                g = np.random.default_rng(43 + chk.seed).normal(size=(3, 4, 4)) * 0.3
                sysd["ham_data"]["chol"] = jnp.array(g.reshape(3, -1))
            pd0 = runlevel.init_prop_data(sysd, 77)
            smp = S(n_prop_steps=3, n_ene_blocks=2, n_sr_blocks=2, n_blocks=1)
            o = runlevel.call_entry(sysd, smp, {"ad_mode": None, "orbital_rotation": True, "do_sr": True}, pd0)
            eh = np.asarray(sysd["ham_data_built"]["exp_h1"])
            outs[wt] = (o["energy"], np.asarray(o["prop_data"]["weights"]), eh if wt == "rhf" else eh[0])
        chk.case(("sampler-trajectory", sym))
        chk.traces += 2
        de = abs(outs["rhf"][0] - outs["uhf"][0])
        dw = float(np.max(np.abs(outs["rhf"][1] - outs["uhf"][1])))
        dh = float(np.max(np.abs(outs["rhf"][2] - outs["uhf"][2])))
        if de > 1e-9 * max(1, abs(outs["uhf"][0])) or dw > 1e-9 or dh > 1e-12:
            chk.violation("trajectory:sampler:restricted-vs-unrestricted" + (":nonsymmetric-h1" if sym == "h1" else ":supplied-rdm1" if sym == "rdm1" else "" if sym is True else ":nonsymmetric-chol"),
                          f"closed-shell problem ({'non-symmetric one-body matrix' if sym == 'h1' else 'caller-supplied rdm1' if sym == 'rdm1' else 'symmetric Cholesky matrices' if sym is True else 'non-symmetric Cholesky matrices'}): restricted and unrestricted "
                          f"sampler runs differ: energies {outs['rhf'][0]} vs {outs['uhf'][0]}, max weight difference {dw}, exp_h1 "
                          f"difference {dh}", {"symmetric_chol": sym})
    # C0b. sampler level, fields drawn INSIDE the sampler: the same seed must give the same block energy, weights and walkers
    # for every batch count of the propagator and of the trial (a draw whose layout depends on n_batch changes the run)
    for wt in ("rhf", "uhf"):
        ref = None
        for nb in (1, 2, 4):
            sysd = runlevel.make_system(np.random.default_rng(45 + chk.seed), norb=4, nelec=(2, 2) if wt == "rhf" else (2, 1), nchol=3,
                                        trial_kind=wt, walker_type=wt, n_walkers=4, dt=0.03, vscale=0.4, n_batch=nb)
            pd0 = runlevel.init_prop_data(sysd, 78)
            smp = S(n_prop_steps=3, n_ene_blocks=2, n_sr_blocks=1, n_blocks=1)
            o = runlevel.call_entry(sysd, smp, {"ad_mode": None, "orbital_rotation": True, "do_sr": True}, pd0)
            wk = o["prop_data"]["walkers"]
            flat = np.concatenate([np.asarray(x).reshape(4, -1) for x in (wk if isinstance(wk, (list, tuple)) else [wk])], axis=1)
            got = (o["energy"], np.asarray(o["prop_data"]["weights"]), flat)
            chk.case(("sampler-n_batch", wt, nb))
            chk.traces += 1
            if ref is None:
                ref = got
            elif abs(got[0] - ref[0]) > 1e-10 * max(1, abs(ref[0])) or rel(got[1], ref[1]) > 1e-10 or rel(got[2], ref[2]) > 1e-10:
                chk.violation(f"sampler:{wt}:n_batch", f"sampler.propagate_phaseless ({wt} walkers, same seed): n_batch={nb} gives energy {got[0]} and "
                              f"weights {got[1].tolist()}, n_batch=1 gives {ref[0]} and {ref[1].tolist()}", {"walker_type": wt, "n_batch": nb})
    combos = [({}, (2, 2, 1)), (dict(ad_mode="forward"), (2, 1, 2))] if not big else \
        [({}, (2, 2, 2)), (dict(ad_mode="forward"), (2, 1, 2)), (dict(ad_mode="reverse", orbital_rotation=False), (2, 2, 1)),
         (dict(ad_mode="forward", do_sr=False), (3, 2, 1))]
    for j, (o, blk) in enumerate(combos):
        res = {}
        for wt in ("rhf", "uhf"):
            sysd = runlevel.make_system(np.random.default_rng(300 + j + chk.seed), norb=4, nelec=(2, 2), nchol=3, trial_kind=wt,
                                        walker_type=wt, n_walkers=4, dt=0.03, vscale=0.4)
            opts = runlevel.default_options(seed=17 + j, n_eql=1, n_ene_blocks_eql=1, n_sr_blocks_eql=2, **o)
            try:
                ev, out, _, files = runlevel.run_driver(chk, sysd, opts, blk, 2, name=f"c14-{j}-{wt}")
            except Exception as ex:
                chk.violation(f"trajectory:{wt}:raises", f"driver with {wt} walkers raised {type(ex).__name__}: {str(ex)[:200]}",
                              {"options": o})
                res = None
                break
            res[wt] = (ev, out, proxies.to_trace(ev, 4, tid=1))
        if not res:
            continue
        (ev_r, out_r, tr_r), (ev_u, out_u, tr_u) = res["rhf"], res["uhf"]
        chk.case(("trajectory", j))
        chk.traces += 2
        strip = lambda tr: [{k: v for k, v in e.items() if k not in ("cohval",)} for e in tr]
        if strip(tr_r) != strip(tr_u):
            k = next((i for i, (a, b) in enumerate(zip(strip(tr_r), strip(tr_u))) if a != b), min(len(tr_r), len(tr_u)))
            chk.violation("trajectory:different-behaviour", f"closed-shell run, options {o}, block {blk}: restricted and unrestricted "
                          f"runs are different behaviours of the run-level spec from event {k + 1}: "
                          f"{tr_r[k] if k < len(tr_r) else None} vs {tr_u[k] if k < len(tr_u) else None}", {"options": o, "block": list(blk)})
            continue
        worst, where = 0.0, None
        for a, b in zip(ev_r, ev_u):
            if a["ev"] != b["ev"]:
                worst, where = np.inf, (a["ev"], b["ev"])
                break
            for key in ("w", "e", "w1", "shift"):
                if key in a and key in b:
                    d = rel(np.asarray(a[key]), np.asarray(b[key]))
                    if d > worst:
                        worst, where = d, (a["ev"], key, a["seq"])
        if out_r[0] is None or abs(out_r[0] - out_u[0]) > 1e-9 * max(1, abs(out_u[0])):
            worst, where = max(worst, abs((out_r[0] or 0) - (out_u[0] or 0))), "final energy"
        v = runlevel.validate_traces(chk, [tr_u], dict(n_walkers=4, neql=1, nblocks=2, steps=blk[0], ene=blk[1], sr=blk[2],
                                                       steps_eql=50, ene_eql=1, sr_eql=2), name=f"c14-{j}")[0]
        if not v["accepted"] or v["property_violation"]:
            chk.violation("trajectory:not-a-behaviour", f"options {o}: the common trace is not a behaviour of Afqmc.tla: {v['first_unexplained']} "
                          f"{v['property_violation']}", {"options": o})
        if worst > 1e-9:
            chk.violation("trajectory:restricted-vs-unrestricted", f"closed-shell run, options {o}, block {blk}: restricted and "
                          f"unrestricted walkers diverge by {worst} at {where} (energies {out_r[0]} vs {out_u[0]})",
                          {"options": o, "block": list(blk)})
        chk.sample({"trajectory": {"options": o, "block": list(blk)}, "events": len(ev_u), "max_relative_difference": worst,
                    "energies": [out_r[0], out_u[0]]}, limit=5)
