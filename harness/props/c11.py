"""C11 - determinant-list trials mean what they say; an exact trial gives zero variance."""
import itertools
import struct

import numpy as np

from .. import proxies, runlevel, wf, wfcheck
from ..core import Check, MachineryError, repo_setup

LEVEL = "model_checking"


def state_dict(dets, cs, norb):
    st = {}
    for (a, b), c in zip(dets, cs):
        st[(tuple(1 if p in a else 0 for p in range(norb)), tuple(1 if p in b else 0 for p in range(norb)))] = float(c)
    return st


def write_dice(path, dets, cs, norb):
    """Dice dets.bin: int32 ndets, int32 norbs, then per determinant a float64 coefficient and norbs chars"""
    with open(path, "wb") as f:
        f.write(struct.pack("i", len(dets)))
        f.write(struct.pack("i", norb))
        for (a, b), c in zip(dets, cs):
            f.write(struct.pack("d", float(c)))
            for p in range(norb):
                ch = b"2" if (p in a and p in b) else b"a" if p in a else b"b" if p in b else b"0"
                f.write(struct.pack("c", ch))


def run(chk: Check):
    repo_setup()
    import jax
    import jax.numpy as jnp
    from ad_afqmc import pyscf_interface, wavefunctions, propagation, hamiltonian
    from .c01 import theorems
    from .c02 import tol_for
    chk.rule = ("TLC enumerates ALL ordered pairs (reference, other determinant) of a small orbital space as two-element lists "
                "(isolating every excitation sign against every reference) plus seeded longer lists (random order / reference / "
                "cut-off at and above the largest rank); each goes through get_excitations -> multislater overlap, force bias, "
                "energy and is compared with the exact sum_i c_i <D_i|... from Fock.tla; the same list in a different order / "
                "with a different first element must give the same numbers; Dice files are round-tripped through read_dets; "
                "zero variance: the integer matrix of H (HamOracle.tla) is diagonalised, its ground vector becomes the trial, "
                "and every local energy / every block energy of complete driver runs must equal the eigenvalue")
    chk.assumptions += ["overlap/force bias 1e-9, finite-difference energies 2e-5, zero-variance energies 2e-5 relative to "
                        "max(1,|E|) (the finite-difference floor of the multi-Slater energy)",
                        "numpy.linalg.eigh supplies the eigenvector; its residual against TLC's integer matrix is verified <= 1e-10",
                        "pyscf FCI is trusted for the molecular zero-variance case"]
    theorems(chk)
    import time as _t
    _t0 = _t.time()
    def lap(name):
        chk.note("t_" + name, round(_t.time() - _t0, 1))
    big = chk.tier == "thorough"
    rng = np.random.default_rng(1100 + chk.seed)
    # ------------------------------------------------------------------ (a) all ordered pairs
    insts, iid = [], 0
    spaces = [(3, 2, 1)] + ([(3, 1, 1), (4, 2, 2)] if big else [])
    for (norb, nu, nd) in spaces:
        allp = [(a, b) for a in itertools.combinations(range(norb), nu) for b in itertools.combinations(range(norb), nd)]
        pairs = list(itertools.permutations(allp, 2))
        if len(pairs) > 400:
            pairs = [pairs[i] for i in rng.permutation(len(pairs))[:400]]
        ham = wf.gen_ham(rng, norb, 2, True)
        for (ref, oth) in pairs:
            iid += 1
            c = int(rng.choice([-3, -2, -1, 1, 2, 3]))
            I = wf.make_instance(iid, rng, "multislater", norb, nu, nd, 2, 2, False, spin_dep=True,
                                 topts={"dets": [ref, oth], "coeffs": [1, c]}, want=("e", "fb"))
            insts.append(I)
    npairs = len(insts)
    # ------------------------------------------------------------------ (b) longer lists, order / reference / cut-off
    groups = []
    for rep in range(6 if big else 3):
        norb, nu, nd = [(3, 2, 1), (4, 2, 2), (4, 2, 1)][rep % 3]
        allp = [(a, b) for a in itertools.combinations(range(norb), nu) for b in itertools.combinations(range(norb), nd)]
        nl = int(rng.integers(3, min(len(allp), 12) + 1))
        pick = [allp[i] for i in rng.permutation(len(allp))[:nl]]
        cs = [int(x) for x in rng.choice([-3, -2, -1, 1, 2, 3], size=nl)]
        base = None
        members = []
        for variant in range(3):
            perm = list(rng.permutation(nl)) if variant else list(range(nl))
            dets = [pick[i] for i in perm]
            coefs = [cs[i] for i in perm]
            ranks = [len(set(a) - set(dets[0][0])) + len(set(b) - set(dets[0][1])) for a, b in dets]
            mx = max(max(ranks), 1) + (variant % 2)          # cut-off exactly at / above the largest listed rank
            iid += 1
            restr = rep % 2 == 1 and nu == nd
            I = wf.make_instance(iid, np.random.default_rng(50 + rep), "multislater", norb, nu, nd, 2, 3, restr,
                                 spin_dep=not restr, topts={"dets": dets, "coeffs": coefs, "max_excitation": mx}, want=("e", "fb"))
            if base is None:
                base = I
            else:   # same physics: same Hamiltonian and walkers, only the list order / reference / cut-off differ
                I["ham"], I["walkers"] = base["ham"], base["walkers"]
                for k in ("h1u", "h1d", "chol", "walkers"):
                    I["json"][k] = base["json"][k]
            members.append(I)
            insts.append(I)
        groups.append(members)
    lap("generated")
    res, skipped = wfcheck.tlc_eval_robust(chk, insts, "c11")
    lap("tlc_done")
    chk.note("skipped_overflow", skipped)
    chk.note("ordered_pairs", npairs)
    for I in insts:
        if I["id"] not in res:
            continue
        ex = wf.exact_values(I, res[I["id"]])
        # generic position w.r.t. THIS reference
        if any(p.iszero() for w in I["walkers"] for p in wf.pivots(I["trial"], I["norb"], I["nu"], I["nd"], w[0], w[1])):
            continue
        ctx = jax.disable_jit() if I["id"] <= npairs and I["id"] % 24 else _null()
        with ctx:
            for what in ("ov", "fb", "e"):
                if what == "e" and I["id"] <= npairs and I["id"] % (4 if big else 8):
                    continue
                got = wfcheck.lib_eval(I, what)
                wfcheck.compare(chk, I, ex, got, what, tol_for("multislater") if what == "e" else wfcheck.TOL64, "detlist")
        chk.traces += 1
        if I["id"] <= 3 or I["id"] == npairs + 1:
            chk.sample({"dets": I["json"]["trial"]["dets"], "norb": I["norb"], "exact_overlap0": [ex[0]["ov"].real, ex[0]["ov"].imag]}, limit=4)
    lap("lists_done")
    for members in groups:     # spec-level statement: the exact values of all variants coincide
        vals = [wf.exact_values(m, res[m["id"]]) for m in members if m["id"] in res]
        for v in vals[1:]:
            for a, b in zip(vals[0], v):
                if abs(a["ov"] - b["ov"]) > 1e-12:
                    raise MachineryError("DetListVec is not order independent in the spec")
    # ------------------------------------------------------------------ (c) files
    wdir = chk.scratch("dice")
    for rep in range(4 if big else 2):
        norb, nu, nd = [(4, 2, 2), (5, 3, 2)][rep % 2]
        allp = [(a, b) for a in itertools.combinations(range(norb), nu) for b in itertools.combinations(range(norb), nd)]
        pick = [allp[i] for i in rng.permutation(len(allp))[:8]]
        cs = [float(x) for x in rng.normal(size=8)]
        fn = str(wdir / f"dets{rep}.bin")
        write_dice(fn, pick, cs, norb)
        for nd_read in (None, 5):
            norbs, st, nall = pyscf_interface.read_dets(fn, nd_read)
            want = list(state_dict(pick, cs, norb).items())[: (nd_read or 8)]
            chk.case(("read_dets", rep, nd_read))
            chk.traces += 1
            if norbs != norb or nall != 8 or list(st.items()) != want:
                chk.violation("read_dets", f"read_dets(ndets={nd_read}) does not return the written determinants/coefficients in "
                              f"order: got {list(st.items())[:3]}..., wrote {want[:3]}...", {"dets": [list(map(list, p)) for p in pick], "cs": cs})
        a1 = pyscf_interface.get_excitations(fname=fn, max_excitation=nu + nd)
        a2 = pyscf_interface.get_excitations(state=state_dict(pick, cs, norb), max_excitation=nu + nd)
        same = all(set(x) == set(y) and all(np.array_equal(np.asarray(x[k]), np.asarray(y[k])) for k in x) for x, y in zip(a1[:5], a2[:5])) \
            and np.array_equal(a1[5], a2[5])
        chk.case(("file-vs-state", rep))
        if not same:
            chk.violation("get_excitations:file-vs-state", "get_excitations gives different tables for a determinant file and for the same "
                          "state passed as a dictionary", {"dets": [list(map(list, p)) for p in pick]})
    lap("files_done")
    # ------------------------------------------------------------------ (d) zero variance with TLC's H matrix
    zspaces = [(3, 2, 1, 2), (3, 2, 1, 3)] + ([(4, 2, 2, 2), (3, 1, 1, 3)] if big else [(4, 2, 1, 2)])
    zv_carry = None
    for zi, (norb, nu, nd, nchol) in enumerate(zspaces):
        ham = wf.gen_ham(rng, norb, nchol, False)
        ham["chol"] = ham["chol"] * 1          # integers
        cfgs, H = wf.hmatrix(chk, ham, norb, nu, nd, rid=zi + 1, name=f"z{zi}")
        w, v = np.linalg.eigh(H)
        if len(w) > 1 and w[1] - w[0] < 1e-6:
            continue
        e0, vec = w[0], v[:, 0]
        if np.max(np.abs(H @ vec - e0 * vec)) > 1e-10:
            raise MachineryError("eigenvector residual too large")
        order = np.argsort(-np.abs(vec))
        dets = [cfgs[i] for i in order if abs(vec[i]) > 1e-12]
        cs = [vec[i] for i in order if abs(vec[i]) > 1e-12]
        st = state_dict(dets, cs, norb)
        Acre, Ades, Bcre, Bdes, coeff, ref_det = pyscf_interface.get_excitations(state=st, max_excitation=nu + nd)
        T = proxies.trial_proxy(wavefunctions.multislater)
        trial = T(norb, (nu, nd), max_excitation=nu + nd)
        wd = {"Acre": Acre, "Ades": Ades, "Bcre": Bcre, "Bdes": Bdes, "coeff": coeff, "ref_det": ref_det}
        hm = hamiltonian.hamiltonian(norb)
        hd = {"h0": ham["h0"], "h1": jnp.array(np.array([ham["h1u"], ham["h1d"]]) * 1.0),
              "chol": jnp.array(ham["chol"].reshape(nchol, -1) * 1.0), "ene0": 0.0}
        # every other Hamiltonian is prepared in the dictionary that was prepared for the PREVIOUS Hamiltonian (its input
        # fields overwritten): an exact eigenvector must give the eigenvalue of the Hamiltonian that is in the dictionary now
        src = dict(hd)
        if zv_carry is not None and zi % 2 == 1:
            zv_carry.update(hd)
            src = zv_carry
        hdm = hm.build_measurement_intermediates(src, trial, wd)
        zv_carry = hdm
        nwk = 8
        ups = jnp.array(rng.normal(size=(nwk, norb, nu)) + 1j * rng.normal(size=(nwk, norb, nu)))
        dns = jnp.array(rng.normal(size=(nwk, norb, nd)) + 1j * rng.normal(size=(nwk, norb, nd)))
        with proxies.suppress():
            es = np.asarray(trial.calc_energy([ups, dns], hdm, wd))
            ovs = np.asarray(trial.calc_overlap([ups, dns], wd))
        tolz = 2e-5 * max(1.0, abs(e0))
        for k in range(nwk):
            chk.case(("zero-variance-walker", zi, k))
            chk.traces += 1
            if abs(ovs[k]) > 1e-3 and abs(es[k] - e0) > tolz:
                chk.violation("zero-variance:local-energy", f"exact eigenvector as determinant-list trial (norb={norb}, nelec=({nu},{nd})): "
                              f"local energy of a random walker {es[k]} differs from the eigenvalue {e0}",
                              {"ham": {k2: np.asarray(v2).tolist() for k2, v2 in ham.items() if k2 != 'h0'}, "walker": k})
                break
        # complete driver runs
        P = proxies.prop_proxy(propagation.propagator_unrestricted)
        for seed in (() if zi == 1 else (5, 6) if big else (5,)):
            sysd = {"ham": hm, "ham_data": hd, "trial": trial, "wave_data": dict(wd), "prop": P(dt=0.01, n_walkers=4),
                    "norb": norb, "nelec": (nu, nd)}
            opts = runlevel.default_options(seed=seed, n_eql=1, n_ene_blocks_eql=1, n_sr_blocks_eql=1)
            try:
                ev, out, stdout, files = runlevel.run_driver(chk, sysd, opts, (3, 2, 1), 3, name=f"zv{zi}-{seed}")
            except Exception as ex_:
                chk.violation("zero-variance:driver-raises", f"driver run with the exact determinant-list trial raised "
                              f"{type(ex_).__name__}: {str(ex_)[:300]}", {"norb": norb})
                continue
            worst = 0.0
            for e in ev:
                if e["ev"] == "Energy":
                    worst = max(worst, float(np.max(np.abs(np.real(np.asarray(e["e"])) - e0))))
            raw = [[float(x) for x in l.split()] for l in files.get("samples_raw.dat", "").splitlines() if l.strip()]
            worst_block = max([abs(r[1] - e0) for r in raw] or [np.inf])
            chk.case(("zero-variance-driver", zi, seed))
            chk.traces += 1
            tr = proxies.to_trace(ev, 4, tid=1)
            v_ = runlevel.validate_traces(chk, [tr], dict(n_walkers=4, neql=1, nblocks=3, steps=3, ene=2, sr=1, steps_eql=50,
                                                          ene_eql=1, sr_eql=1), name=f"zv{zi}-{seed}")[0]
            if not v_["accepted"] or v_["property_violation"]:
                chk.violation("zero-variance:trace", f"driver run with determinant-list trial: trace verdict {v_['first_unexplained']} "
                              f"{v_['property_violation']}", {"norb": norb})
            if worst > tolz or worst_block > max(tolz, 2e-6 * abs(e0) + 1e-5) or out[0] is None or abs(out[0] - e0) > max(tolz, 1e-5):
                chk.violation("zero-variance:driver", f"driver run (seed {seed}) with the exact eigenvector as trial: local energies deviate "
                              f"from the eigenvalue {e0} by up to {worst}, block energies by {worst_block}, final energy {out[0]}",
                              {"norb": norb, "nelec": [nu, nd], "seed": seed})
            chk.sample({"zero_variance": {"norb": norb, "nelec": [nu, nd], "eigenvalue": e0, "ndets": len(dets),
                                          "max_local_energy_deviation": worst, "max_block_deviation": worst_block,
                                          "reference_determinant": [list(dets[0][0]), list(dets[0][1])]}}, limit=6)
    lap("zero_variance_done")
    # ------------------------------------------------------------------ (e) molecular FCI vector through get_fci_state
    try:
        from pyscf import gto, scf, fci, ao2mo
        mols = [("H 0 0 0; H 0 0 1.4; H 0 0 2.9", 0, 1)] + ([("H 0 0 0; H 0 0 1.4; H 0 0 2.9; H 0 0 4.1", 0, 0),
                                                                 ("H 0 0 0; H 0 0 1.5; H 0 1.3 0.2", 1, 0)] if big else [])
        for atom, spin, charge in mols:
            mol = gto.M(atom=atom, basis="sto-3g", unit="bohr", spin=spin, charge=charge, verbose=0)
            mf = scf.RHF(mol) if spin == 0 else scf.ROHF(mol)
            mf.kernel()
            ci = fci.FCI(mf)
            efci, _ = ci.kernel()
            norb = mol.nao
            nelec = mol.nelec
            st = pyscf_interface.get_fci_state(ci, tol=1e-12)
            h1 = mf.mo_coeff.T @ mf.get_hcore() @ mf.mo_coeff
            eri = ao2mo.restore(4, ao2mo.kernel(mol, mf.mo_coeff), norb)
            ch0 = pyscf_interface.modified_cholesky(eri, 1e-10)
            chol = np.zeros((ch0.shape[0], norb, norb))
            tri = np.tril_indices(norb)
            for g in range(ch0.shape[0]):
                chol[g][tri] = ch0[g]
                chol[g] = chol[g] + chol[g].T - np.diag(np.diag(chol[g]))
            mx = sum(nelec)
            Acre, Ades, Bcre, Bdes, coeff, ref_det = pyscf_interface.get_excitations(state=st, max_excitation=mx)
            trial = wavefunctions.multislater(norb, nelec, max_excitation=mx)
            wd = {"Acre": Acre, "Ades": Ades, "Bcre": Bcre, "Bdes": Bdes, "coeff": coeff, "ref_det": ref_det}
            hm = hamiltonian.hamiltonian(norb)
            hd = {"h0": mol.energy_nuc(), "h1": jnp.array([h1, h1]), "chol": jnp.array(chol.reshape(len(chol), -1)), "ene0": 0.0}
            hd = hm.build_measurement_intermediates(hd, trial, wd)
            ups = jnp.array(np.eye(norb)[:, : nelec[0]][None] + 0.3 * rng.normal(size=(6, norb, nelec[0])) + 0j)
            dns = jnp.array(np.eye(norb)[:, : nelec[1]][None] + 0.3 * rng.normal(size=(6, norb, nelec[1])) + 0j)
            es = np.asarray(trial.calc_energy([ups, dns], hd, wd))
            chk.case(("molecular-fci", atom))
            chk.traces += 1
            if np.max(np.abs(es - efci)) > 2e-5:
                chk.violation("zero-variance:fci-state", f"pyscf FCI vector of {atom} through get_fci_state/get_excitations: local energies "
                              f"{es} differ from E_FCI={efci}", {"atom": atom})
            chk.sample({"molecule": atom, "E_fci": float(efci), "max_deviation": float(np.max(np.abs(es - efci)))}, limit=7)
    except ImportError:
        chk.note("pyscf_missing", True)


class _null:
    def __enter__(self):
        return self

    def __exit__(self, *a):
        return False
