"""C06 - AD energy derivatives are the true derivatives of the sampled estimator."""
import numpy as np

from .. import ladder, proxies, runlevel, wf
from ..core import Check, MachineryError, repo_setup

LEVEL = "other"
HS = (1e-2, 3e-3, 1e-3)


def entry_fn(sysd, sampler, opts):
    """the function of (coupling, observable, prop_data) that driver.afqmc differentiates"""
    trial, prop, ham = sysd["trial"], sysd["prop"], sysd["ham"]
    hd, wd = dict(sysd["ham_data_built"]), dict(sysd["wave_data"])
    if not opts["orbital_rotation"] and not opts["do_sr"]:
        return lambda x, y, z: sampler.propagate_phaseless_ad_nosr_norot(ham, hd, x, y, prop, z, trial, wd)
    if not opts["orbital_rotation"]:
        return lambda x, y, z: sampler.propagate_phaseless_ad_norot(ham, hd, x, y, prop, z, trial, wd)
    if not opts["do_sr"]:
        return lambda x, y, z: sampler.propagate_phaseless_ad_nosr(ham, hd, x, y, prop, z, trial, wd)
    return lambda x, y, z: sampler.propagate_phaseless_ad(ham, hd, x, y, prop, z, trial, wd)


def discrete_signature(ev):
    """what must not change between two runs for a finite difference to be meaningful: reconfiguration
    selections and alive bits (the estimator is only piecewise smooth: comb and clipping)"""
    sig = []
    for e in proxies.to_trace(ev, 0):
        if e["ev"] == "Prop":
            sig.append(("P", tuple(e["alive1"])))
        elif e["ev"] in ("SRLocal", "SRGlobal"):
            sig.append(("S", e.get("moved"), tuple(e["alive1"])))
    return sig


def run(chk: Check):
    repo_setup()
    import jax.numpy as jnp
    from jax import jvp, vjp
    from .c08 import design
    from .c12 import make_converged_system
    chk.rule = ("design: Afqmc.tla SameEstimator (every AD entry point follows the canonical schedule of the plain sampler); "
                "implementation: per (entry point, walker type, Hamiltonian, observable, block structure, seed) jvp and vjp are "
                "taken of the sampler entry point with exactly driver.afqmc's conventions and the relations Primal (plain = "
                "forward = reverse energy), FD (|central difference - jvp| along h = 1e-2, 3e-3, 1e-3), Rev (<rdm, O> = jvp for "
                "three observables against one rdm; per-spin trace = electron count for a single block) are judged by Ladder.tla "
                "on fixed-point residuals; one-body limit: energy and response against TLC's exact sum_occ eps_i and tr(rho O) "
                "(HamOracle.tla); case = one relation")
    chk.assumptions += ["finite-difference agreement is a numerical relation between runs of the code (steps h for which the two "
                        "shifted runs differ in a reconfiguration selection or clipping branch are discarded: the estimator is "
                        "only piecewise smooth)", "primal equality 1e-9, <rdm,O> = jvp 1e-7, traces 1e-6, FD 1e-4 relative at h=1e-3 and h^2 convergence of the central difference towards the jvp (each step /3 shrinks the residual to <= 0.4 of the previous until 2e-7 relative)",
                        "one-body limit compared with TLC's exact integers at 1e-8"]
    design(chk)
    big = chk.tier == "thorough"
    rng = np.random.default_rng(600 + chk.seed)
    S = proxies.sampler_proxy()
    traces, info = [], {}

    def rel_trace(name, errs, scale, bound, lo=(1, 1), ctx=None, floor=0.0):
        tid = len(traces) + 1
        traces.append({"id": tid, "errs": list(errs), "scale": max(1.0, abs(scale)), "floor": floor, "lo": lo, "hi": (0, 1),
                       "first": 1, "bound": bound, "ceil": 1.0})
        info[tid] = (name, list(errs), scale, bound, ctx)
        chk.case((name, tid))

    combos = [("uhf", dict(orbital_rotation=True, do_sr=True), (2, 2, 2)), ("uhf", dict(orbital_rotation=False, do_sr=True), (2, 1, 1)),
              ("rhf", dict(orbital_rotation=True, do_sr=True), (2, 1, 1)), ("uhf", dict(orbital_rotation=False, do_sr=False), (2, 2, 1))]
    if big:
        combos += [("rhf", dict(orbital_rotation=True, do_sr=True), (2, 2, 1)), ("uhf", dict(orbital_rotation=True, do_sr=False), (3, 2, 1)),
                   ("uhf", dict(orbital_rotation=False, do_sr=False), (2, 2, 1)), ("rhf", dict(orbital_rotation=False, do_sr=True), (3, 1, 2))]
    for ci, (wt, o, blk) in enumerate(combos):
        nelec = (2, 1) if wt == "uhf" else (2, 2)
        sysd = make_converged_system(700 + ci + chk.seed, norb=4, nelec=nelec, nchol=2, trial_kind=wt, walker_type=wt, n_walkers=4,
                                     dt=0.02, vscale=0.3)
        pd0 = runlevel.init_prop_data(sysd, 60 + ci)
        pd0["weights"] = jnp.array([0.7, 1.3, 1.1, 0.9])
        # as in a driver run, the stored overlaps handed to an entry point are stale (QR + global reconfiguration
        # happened after the previous block): every entry point has to refresh them itself
        pd0["overlaps"] = pd0["overlaps"] * (0.83 + 0.4j) - 0.02
        pd0["pop_control_ene_shift"] = pd0["e_estimate"] - 0.41      # carried over from a previous block
        pd0["n_killed_walkers"] = jnp.array(3.0)
        smp = S(n_prop_steps=blk[0], n_ene_blocks=blk[1], n_sr_blocks=blk[2], n_blocks=1)
        norb = sysd["norb"]
        obs = []
        for k in range(3):
            a = rng.normal(size=(norb, norb))
            b = rng.normal(size=(norb, norb))
            if k == 1:      # "every observable matrix": a non-symmetric one (upper triangle only)
                a, b = np.triu(a), np.triu(b)
                obs.append(np.array([a, b if wt == "uhf" else a]))
            else:
                obs.append(np.array([(a + a.T) / 2, (b + b.T) / 2 if wt == "uhf" else (a + a.T) / 2]))
        ctx = {"walker_type": wt, "options": o, "block": list(blk)}
        site = f"{wt}:{'rot' if o['orbital_rotation'] else 'norot'}:{'sr' if o['do_sr'] else 'nosr'}"
        try:
            e_plain = runlevel.call_entry(sysd, smp, {"ad_mode": None, "orbital_rotation": True, "do_sr": True}, pd0)["energy"] \
                if o["do_sr"] or blk[2] == 1 else None
            fwd = [runlevel.call_entry(sysd, smp, dict(o, ad_mode="forward"), pd0, observable_op=ob) for ob in obs]
            rev = runlevel.call_entry(sysd, smp, dict(o, ad_mode="reverse"), pd0)
        except Exception as ex:
            chk.violation(f"ad-entry-raises:{site}", f"AD entry point raised {type(ex).__name__}: {str(ex)[:300]}", ctx)
            continue
        e_f, e_r = fwd[0]["energy"], rev["energy"]
        if e_plain is not None:
            rel_trace(f"primal:{site}", [max(abs(e_plain - e_f), abs(e_plain - e_r), abs(e_f - e_r))], e_f, 1e-9, ctx=ctx)
        else:
            rel_trace(f"primal:{site}", [abs(e_f - e_r)], e_f, 1e-9, ctx=ctx)
        rdm = rev["rdm"]
        for k, ob in enumerate(obs):
            d = fwd[k]["deriv"]
            rel_trace(f"rev-vs-fwd:{site}", [abs(float(np.sum(rdm * ob)) - d)], d, 1e-7, ctx=dict(ctx, observable=k))
        if blk[1] * (blk[2] if o["do_sr"] else 1) == 1:
            rel_trace(f"rdm-trace:{site}", [max(abs(np.trace(rdm[0]) - nelec[0]), abs(np.trace(rdm[1]) - nelec[1]))], 1.0, 1e-6, ctx=ctx)
        # finite differences of the same deterministic function (same seed), first observable
        f = entry_fn(sysd, smp, o)
        for kobs in (0, 1):
          op = jnp.array(obs[kobs])
          errs, used = [], []
          for h in HS:
            proxies.reset()
            ep, _ = f(h, op, runlevel.copy_prop_data(pd0))
            sp = discrete_signature(proxies.snapshot())
            proxies.reset()
            em, _ = f(-h, op, runlevel.copy_prop_data(pd0))
            sm = discrete_signature(proxies.snapshot())
            if sp != sm:
                continue
            used.append(h)
            errs.append(abs((float(ep) - float(em)) / (2 * h) - fwd[kobs]["deriv"]))
          chk.note(f"fd_steps_used_{ci}_{kobs}", used)
          if len(errs) >= 2:
            # a central difference of a smooth function converges to its derivative like h^2: every step of the ladder
            # (h shrinks by >= 3) must shrink the residual to <= 0.4 of the previous one (exact ratio 0.1; a derivative
            # that is off by a constant leaves a residual that stops shrinking) until it is below 2e-7 relative, and it
            # must be small at the finest usable h
            rel_trace(f"fd-vs-fwd:{site}", errs, fwd[kobs]["deriv"], 1e-4 if used[-1] <= 1e-3 else 1e-3, lo=(5, 2),
                      ctx=dict(ctx, steps=used, observable=kobs), floor=2e-7)
        chk.sample({"case": ctx, "E_plain": e_plain, "E_forward": e_f, "E_reverse": e_r, "jvp": fwd[0]["deriv"],
                    "rdm_dot_O": float(np.sum(rdm * obs[0])), "fd_residuals_last_observable": dict(zip(map(str, used), errs))}, limit=4)
    # ------------------------------------------------------------------ exactly solvable one-body limit
    reqs, lim = [], {}
    for li in range(4 if big else 2):
        norb = 3 if li % 2 == 0 else 4
        nelec = [(2, 1), (2, 2), (1, 1), (3, 1)][li]
        M, d = wf.orth_scaled(rng, norb)
        evals = [int(x) for x in rng.permutation(np.arange(-norb, norb))[:norb]]
        obsi = [[wf.rand_sym(rng, norb, -2, 2), wf.rand_sym(rng, norb, -2, 2)] for _ in range(2)]
        reqs.append({"id": li + 1, "kind": "onebody", "m": wf.enc_i(M), "d": d, "evals": evals, "nocc": list(nelec),
                     "obs": [[wf.enc_i(x[0]), wf.enc_i(x[1])] for x in obsi]})
        lim[li + 1] = (norb, nelec, M, d, evals, obsi)
    ans = wf.ham_oracle(chk, reqs, "onebody")
    for rid, (norb, nelec, M, d, evals, obsi) in lim.items():
        a = ans[rid]
        h = (M @ np.diag(evals) @ M.T) / (d * d)
        e0 = a["e0"][0] + a["e0"][1]
        for rot in (True, False):
            sysd = runlevel.make_system(np.random.default_rng(5), norb=norb, nelec=nelec, nchol=1, trial_kind="uhf",
                                        walker_type="uhf", n_walkers=3, dt=0.01)
            sysd["ham_data"]["h1"] = jnp.array([h, h])
            sysd["ham_data"]["chol"] = jnp.zeros((1, norb * norb))
            sysd["ham_data"]["h0"] = 0.0
            order = np.argsort(evals)
            Cq = M[:, order] / d
            sysd["wave_data"]["mo_coeff"] = [jnp.array(Cq[:, : nelec[0]]), jnp.array(Cq[:, : nelec[1]])]
            sysd["wave_data"]["rdm1"] = jnp.array([Cq[:, : nelec[0]] @ Cq[:, : nelec[0]].T, Cq[:, : nelec[1]] @ Cq[:, : nelec[1]].T])
            pd0 = runlevel.init_prop_data(sysd, 9)
            smp = S(n_prop_steps=3, n_ene_blocks=1, n_sr_blocks=1, n_blocks=1)
            o = dict(orbital_rotation=rot, do_sr=True)
            site = f"one-body-limit:{'rot' if rot else 'norot'}"
            ctx = {"h": h.tolist(), "nelec": list(nelec), "orbital_rotation": rot}
            try:
                for k, ob in enumerate(obsi):
                    out = runlevel.call_entry(sysd, smp, dict(o, ad_mode="forward"), pd0, observable_op=np.array(ob) * 1.0)
                    exact_d = (a["trnum"][0][k] + a["trnum"][1][k]) / a["d2"]
                    rel_trace(f"{site}:energy", [abs(out["energy"] - e0)], e0, 1e-8, ctx=ctx)
                    rel_trace(f"{site}:response", [abs(out["deriv"] - exact_d)], exact_d, 1e-8, ctx=dict(ctx, observable=k))
                rv = runlevel.call_entry(sysd, smp, dict(o, ad_mode="reverse"), pd0)
                rel_trace(f"{site}:rdm-trace", [max(abs(np.trace(rv["rdm"][0]) - nelec[0]), abs(np.trace(rv["rdm"][1]) - nelec[1]))], 1.0, 1e-6, ctx=ctx)
                exact_r = (a["trnum"][0][0] + a["trnum"][1][0]) / a["d2"]
                rel_trace(f"{site}:rdm-response", [abs(float(np.sum(rv["rdm"] * np.array(obsi[0]))) - exact_r)], exact_r, 1e-8, ctx=ctx)
            except Exception as ex:
                chk.violation(f"ad-entry-raises:{site}", f"one-body limit raised {type(ex).__name__}: {str(ex)[:300]}", ctx)
            chk.sample({"one_body_limit": {"eigenvalues": evals, "nelec": list(nelec), "E0_exact": e0, "orbital_scale": d}}, limit=6)
            if not rot:
                continue
            # ---- the same limit THROUGH THE DRIVER, from a trial that is NOT the eigenstate: with orbital relaxation the
            # optimised trial is the exact eigenstate, so every block energy is sum_occ eps_i and every block response
            # tr(rho O) whatever the walkers are - for do_sr True and False (the driver's own dispatch of the entry points)
            qr = np.linalg.qr(np.eye(norb) + 0.35 * np.random.default_rng(60 + rid).normal(size=(norb, norb)))[0]
            Cp = Cq @ qr
            sysp = dict(sysd)
            sysp["wave_data"] = {"mo_coeff": [jnp.array(Cp[:, : nelec[0]]), jnp.array(Cp[:, : nelec[1]])],
                                 "rdm1": jnp.array([Cp[:, : nelec[0]] @ Cp[:, : nelec[0]].T, Cp[:, : nelec[1]] @ Cp[:, : nelec[1]].T])}
            exact_d = (a["trnum"][0][0] + a["trnum"][1][0]) / a["d2"]
            for do_sr in (True, False):
                opts = runlevel.default_options(seed=3 + rid, n_eql=1, ad_mode="forward", orbital_rotation=True, do_sr=do_sr)
                dsite = f"one-body-limit:driver:rot:{'sr' if do_sr else 'nosr'}"
                try:
                    _, res, _, files = runlevel.run_driver(chk, sysp, opts, (2, 1, 1), 2, name=f"c06-drv-{rid}-{int(do_sr)}",
                                                           observable=(np.array(obsi[0]) * 1.0, 0.0))
                    raw = np.atleast_2d(np.array([[float(x) for x in ln.split()] for ln in files["samples_raw.dat"].splitlines() if ln.strip()]))
                    rel_trace(f"{dsite}:energy", [float(np.max(np.abs(raw[:, 1] - e0)))], e0, 2e-6, ctx=dict(ctx, do_sr=do_sr))
                    rel_trace(f"{dsite}:response", [float(np.max(np.abs(raw[:, 2] - exact_d)))], exact_d, 2e-6, ctx=dict(ctx, do_sr=do_sr))
                except Exception as ex:
                    chk.violation(f"ad-entry-raises:{dsite}", f"driver.afqmc in the one-body limit raised {type(ex).__name__}: {str(ex)[:300]}", ctx)
    verdicts = ladder.judge(chk, traces, "ad")
    for tid, v in verdicts.items():
        name, errs, scale, bound, ctx = info[tid]
        chk.traces += 1
        if not v["ok"]:
            chk.violation(name, f"{name}: residual(s) {errs} (relative scale {max(1.0, abs(scale)):.4g}) exceed the bound {bound} / the "
                                f"non-increase rule ({v}); context {ctx}", {"context": ctx, "residuals": errs})
    chk.note("explanation", "TLC decides the block-structure design (all entry points share the estimator schedule), judges every "
             "numerical relation on fixed-point residuals and supplies the exact one-body-limit values; FD-vs-AD agreement is a "
             "relation between runs of the code")
