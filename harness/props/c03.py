"""C03 - force bias equals <psi_T|L_g|phi>/<psi_T|phi> for every Cholesky operator."""
import numpy as np

from .. import wf, wfcheck
from ..core import Check, repo_setup

LEVEL = "model_checking"


def run(chk: Check):
    repo_setup()
    import jax
    import jax.numpy as jnp
    from .c01 import theorems
    chk.rule = ("instances as in C02; TLC evaluates <psi|L_g|phi> and <psi|phi> exactly for every Cholesky matrix; "
                "trial.calc_force_bias (hand-coded or reverse-mode) and, for AD kinds, a forward-mode jvp of the same "
                "public overlap function are each compared component by component with the exact value; "
                "case = (instance, walker, container, mode)")
    chk.assumptions += ["tolerance 1e-9 relative per component", "walkers in generic position (see C01)",
                        "the Leibniz theorem of FockTheorems.tla (model-checked) identifies <psi|L|phi> with the "
                        "logarithmic derivative of the overlap along exp(xL)"]
    theorems(chk)
    insts = wfcheck.plan(chk, wf.ALL_KINDS, chk.tier, chk.seed + 2, want=("fb",), nw=4)
    res, skipped = wfcheck.tlc_eval_robust(chk, insts, "c03")
    chk.note("skipped_overflow", skipped)
    for I in insts:
        if I["id"] not in res:
            continue
        ex = wf.exact_values(I, res[I["id"]])
        got = wfcheck.lib_eval(I, "fb")
        wfcheck.compare(chk, I, ex, got, "fb", wfcheck.TOL64, "forcebias", tag="/library")
        chk.traces += 1
        # "for every walker": the batched evaluation (two batches of two pairwise different walkers) must give each walker ITS value
        wfcheck.compare(chk, I, ex, wfcheck.lib_eval(I, "fb", n_batch=2), "fb", wfcheck.TOL64, "forcebias-batched", tag="/n_batch=2")
        chk.traces += 1
        J = wfcheck.previous_like(insts, I)
        if J is not None:       # the same evaluation on dictionaries that were prepared for another problem before
            wfcheck.compare(chk, I, ex, wfcheck.lib_eval(I, "fb", reprepare_from=J), "fb", wfcheck.TOL64, "forcebias-reprepared", tag="/library")
            chk.traces += 1
        chk.sample({"kind": I["kind"], "norb": I["norb"], "nelec": [I["nu"], I["nd"]], "chol": I["json"]["chol"],
                    "walker0": I["json"]["walkers"][0],
                    "exact_fb0": None if ex[0]["zero"] else [[z.real, z.imag] for z in ex[0]["fb"]]}, limit=4)
        # forward-mode evaluation of the same logarithmic derivative for the AD kinds
        if I["kind"] in wf.AD_KINDS:
            trial, wd, hd, ham = wf.build_lib(I)
            nchol = hd["chol"].shape[0]
            arr = []
            for (wu, wdn) in I["walkers"]:
                wu, wdn = jnp.array(wu), jnp.array(wdn)
                row = []
                for g in range(nchol):
                    tang = jnp.zeros(nchol, dtype=complex).at[g].set(1.0)
                    if I["kind"] in wf.RESTRICTED_ONLY:
                        f = lambda x: trial._overlap_with_rot_sd_restricted(x, wu, hd["chol"], wd)
                    else:
                        f = lambda x: trial._overlap_with_rot_sd(x, wu, wdn, hd["chol"], wd)
                    val, d = jax.jvp(f, (jnp.zeros(nchol, dtype=complex),), (tang,))
                    row.append(complex(d / val))
                arr.append(row)
            wfcheck.compare(chk, I, ex, {"forward-mode": np.array(arr)}, "fb", wfcheck.TOL64, "forcebias", tag="/jvp")
