"""C15 - observables are covariant under orthogonal orbital rotations."""
import numpy as np

from .. import wf, wfcheck
from ..core import Check, MachineryError, repo_setup

LEVEL = "model_checking"
KINDS = ("rhf", "uhf", "ghf", "noci")


def rotate_instance(I, M, d):
    """the same physical problem in the basis rotated by the orthogonal matrix C = M/d:
    trial orbitals and walkers are multiplied by C^T; the Hamiltonian is rotated BY THE LIBRARY"""
    C = M / d
    J = dict(I)
    tr = dict(I["trial"])
    k = I["kind"]
    if k == "rhf":
        tr["C"] = C.T @ tr["C"]
    elif k == "uhf":
        tr["Cu"], tr["Cd"] = C.T @ tr["Cu"], C.T @ tr["Cd"]
    elif k == "ghf":
        n = I["norb"]
        tr["C"] = np.vstack([C.T @ tr["C"][:n], C.T @ tr["C"][n:]])
    elif k == "noci":
        tr["du"] = np.array([C.T @ x for x in tr["du"]])
        tr["dd"] = np.array([C.T @ x for x in tr["dd"]])
    J["trial"] = tr
    J["walkers"] = [(C.T @ a, C.T @ b) for a, b in I["walkers"]]
    return J


def lib_eval_rotated(I, J, C, what, prepared_first=False, anti=None):
    """library values in the rotated frame; ham_data is rotated with ham.rotate_orbs.
    anti: antisymmetric matrices (one per spin) added to the STORED one-body matrices before anything else - every
    orbital-based trial takes the symmetric part of the stored matrix when it prepares its intermediates, so the
    measured values must stay those of the symmetric Hamiltonian, in every basis"""
    import jax.numpy as jnp
    trial, wd, hd, ham = wf.build_lib(J)
    if anti is not None:
        hd = dict(hd)
        hd["h1"] = hd["h1"] + jnp.array(np.asarray(anti) * 1.0)
    if prepared_first:
        # a Hamiltonian that already carries measurement intermediates (of the UNROTATED trial) is rotated and then
        # prepared again for the rotated trial: stale intermediates must not survive
        t0, wd0, _, _ = wf.build_lib(I)
        hd = ham.build_measurement_intermediates(hd, t0, wd0)
    hd = ham.rotate_orbs(hd, jnp.array(C))
    ups = jnp.array(np.array([w[0] for w in J["walkers"]]))
    dns = jnp.array(np.array([w[1] for w in J["walkers"]]))
    if what != "ov":
        hd = ham.build_measurement_intermediates(hd, trial, wd)
    fn = {"ov": lambda w: trial.calc_overlap(w, wd), "e": lambda w: trial.calc_energy(w, hd, wd),
          "fb": lambda w: trial.calc_force_bias(w, hd, wd)}[what]
    out = {}
    try:
        out["list"] = np.asarray(fn([ups, dns]))
    except Exception as ex:
        out["list"] = {"raises": f"{type(ex).__name__}: {str(ex)[:200]}"}
    if I["restricted"]:
        try:
            out["array"] = np.asarray(fn(ups))
        except Exception as ex:
            out["array"] = {"raises": f"{type(ex).__name__}: {str(ex)[:200]}"}
    return out


def run(chk: Check):
    repo_setup()
    import jax.numpy as jnp
    from ad_afqmc import hamiltonian
    from .c01 import theorems
    chk.rule = ("(a) congruence: TLC computes C^T X C exactly (HamOracle.tla) for seeded invertible integer C (non-symmetric) and "
                "integer h1[0], h1[1], Cholesky matrices; ham.rotate_orbs must reproduce it; (b) covariance: exact overlap, "
                "energy and force bias of an instance (WfOracle.tla) must be returned by the library when trial orbitals and "
                "walkers are rotated by an exactly orthogonal C (signed permutations, Hadamard/2, (1,2,2)/3, (3,4,5)/5 blocks) "
                "and the Hamiltonian is rotated by the library's own routine; (c) spec theorem: for signed permutations the "
                "rotated problem, evaluated by TLC itself, has the same energy/force bias and the same overlap; (d) the same "
                "energies when the STORED one-body matrices carry an extra antisymmetric part (only the symmetric part is "
                "physical; every orbital-based trial symmetrises when it prepares its intermediates); "
                "case = (instance, walker, observable)")
    chk.assumptions += ["orthogonal matrices are restricted to exactly representable ones (a polynomial identity that holds on "
                        "them and fails for a wrong index/transposition is an O(1) discrepancy)", "tolerance 1e-9 relative"]
    theorems(chk)
    rng = np.random.default_rng(1500 + chk.seed)
    big = chk.tier == "thorough"
    # ---------------------------------------------------------------- (a) the rotation routine is the congruence
    reqs, data = [], {}
    for rid in range(1, (12 if big else 5) + 1):
        n = int(rng.choice([2, 3, 4]))
        for _ in range(100):
            C = wf.rand_int(rng, (n, n), -2, 2)
            if abs(round(np.linalg.det(C))) >= 1 and not np.array_equal(C, C.T):
                break
        ham = wf.gen_ham(rng, n, int(rng.integers(1, 4)), True)
        if rid % 2 == 0:     # the congruence statement is about EVERY matrix: non-symmetric one-body / Cholesky matrices too
            ham["h1u"], ham["h1d"] = wf.rand_int(rng, (n, n)), wf.rand_int(rng, (n, n))
            ham["chol"] = np.array([wf.rand_int(rng, (n, n)) for _ in ham["chol"]])
        xs = [ham["h1u"], ham["h1d"]] + list(ham["chol"])
        reqs.append({"id": rid, "kind": "cong", "c": wf.enc_i(C), "xs": [wf.enc_i(x) for x in xs]})
        data[rid] = (n, C, ham)
    ans = wf.ham_oracle(chk, reqs, "cong")
    for rid, (n, C, ham) in data.items():
        hm = hamiltonian.hamiltonian(n)
        hd = {"h0": ham["h0"], "h1": jnp.array(np.array([ham["h1u"], ham["h1d"]]) * 1.0),
              "chol": jnp.array(ham["chol"].reshape(len(ham["chol"]), -1) * 1.0)}
        out = hm.rotate_orbs(hd, jnp.array(C * 1.0))
        got = [np.asarray(out["h1"][0]), np.asarray(out["h1"][1])] + [np.asarray(x).reshape(n, n) for x in np.asarray(out["chol"])]
        exact = [np.array(x, dtype=float) for x in ans[rid]["out"]]
        names = ["h1[0]", "h1[1]"] + [f"chol[{g}]" for g in range(len(ham["chol"]))]
        for nm, g, e in zip(names, got, exact):
            chk.case(("cong", rid, nm))
            chk.traces += 1
            if g.shape != e.shape or not np.allclose(g, e, rtol=0, atol=1e-12):
                chk.violation(f"rotate_orbs:{nm.split('[')[0]}", f"ham.rotate_orbs: {nm} is not C^T X C for C={C.tolist()}: got "
                              f"{g.tolist()}, exact {e.tolist()}", {"C": C.tolist(), "which": nm})
        chk.sample({"congruence": {"C": C.tolist(), "h1u": ham["h1u"].tolist(), "exact_CT_h1u_C": ans[rid]["out"][0]}}, limit=2)
    # ---------------------------------------------------------------- (b) covariance of the measurements
    insts, rots = [], {}
    iid = 0
    shapes = [(3, 2, 1), (4, 2, 2)] + ([(3, 1, 1), (4, 3, 1), (2, 1, 1)] if big else [])
    for kind in KINDS:
        for (norb, nu, nd) in shapes:
            if kind == "rhf" and nu != nd:
                continue
            for rep in range(4 if big else 2):
                iid += 1
                try:
                    I = wf.make_instance(iid, rng, kind, norb, nu, nd, 1 + iid % 3, 3, restricted=(rep % 2 == 1),
                                         spin_dep=(kind != "rhf" and rep % 2 == 0), want=("e", "fb"))
                except MachineryError:
                    continue
                M, d = wf.orth_scaled(rng, norb) if rep % 2 == 0 else wf.orth_int(rng, norb)
                insts.append(I)
                rots[I["id"]] = (M, d)
    # (c) the rotated problem as a second exact instance when the rotation is a signed permutation (integers stay integers)
    twins = {}
    for I in list(insts):
        M, d = rots[I["id"]]
        if d == 1:
            J = rotate_instance(I, M, d)
            ham2 = {"h0": I["ham"]["h0"], "h1u": M.T @ I["ham"]["h1u"] @ M, "h1d": M.T @ I["ham"]["h1d"] @ M,
                    "chol": np.array([M.T @ c @ M for c in I["ham"]["chol"]])}
            js = dict(I["json"])
            js["id"] = 10000 + I["id"]
            tr = J["trial"]
            kj = dict(I["json"]["trial"])
            if I["kind"] == "rhf":
                kj["tup"] = kj["tdn"] = wf.enc_c(tr["C"])
            elif I["kind"] == "uhf":
                kj["tup"], kj["tdn"] = wf.enc_c(tr["Cu"]), wf.enc_c(tr["Cd"])
            elif I["kind"] == "ghf":
                kj["C"] = wf.enc_c(tr["C"])
            else:
                kj["dets"] = [{"c": int(c), "tup": wf.enc_c(a), "tdn": wf.enc_c(b)} for c, a, b in zip(tr["cs"], tr["du"], tr["dd"])]
            js["trial"] = kj
            js["h1u"], js["h1d"], js["chol"] = wf.enc_i(ham2["h1u"]), wf.enc_i(ham2["h1d"]), [wf.enc_i(c) for c in ham2["chol"]]
            js["walkers"] = [{"wup": wf.enc_c(a), "wdn": wf.enc_c(b)} for a, b in J["walkers"]]
            twin = dict(J)
            twin.update({"id": js["id"], "json": js, "ham": ham2})
            twins[I["id"]] = twin
    res, skipped = wfcheck.tlc_eval_robust(chk, insts + list(twins.values()), "c15")
    chk.note("skipped_overflow", skipped)
    for I in insts:
        if I["id"] not in res:
            continue
        ex = wf.exact_values(I, res[I["id"]])
        M, d = rots[I["id"]]
        if I["id"] in twins and twins[I["id"]]["id"] in res:
            ex2 = wf.exact_values(twins[I["id"]], res[twins[I["id"]]["id"]])
            for a, b in zip(ex, ex2):
                same = a["zero"] == b["zero"] and abs(a["ov"] - b["ov"]) < 1e-12 and (a["zero"] or (
                    abs(a["e"] - b["e"]) < 1e-12 and all(abs(x - y) < 1e-12 for x, y in zip(a["fb"], b["fb"]))))
                if not same:
                    raise MachineryError("spec theorem failed: Fock.tla is not covariant under a signed permutation "
                                         f"(instance {I['id']}): {a} vs {b}")
            chk.note("spec_covariance_theorem_instances", chk.extra.get("spec_covariance_theorem_instances", 0) + 1)
        J = rotate_instance(I, M, d)
        for what in ("ov", "e", "fb"):
            got = lib_eval_rotated(I, J, M / d, what)
            wfcheck.compare(chk, I, ex, got, what, wfcheck.TOL64, "rotated", tag=f"/rotated(d={d})")
            if what == "e":
                # a non-symmetric stored one-body matrix (h1 + A, A antisymmetric, different for the two spins): only its
                # symmetric part is physical; rotating it and preparing the trial again must give the same energies
                A = np.array([np.triu(x, 1) - np.triu(x, 1).T for x in wf.rand_int(rng, (2, I["norb"], I["norb"]), -3, 3)])
                got = lib_eval_rotated(I, J, M / d, what, anti=A)
                wfcheck.compare(chk, I, ex, got, what, wfcheck.TOL64, "rotated-nonsymmetric-h1", tag=f"/h1+A,rotated(d={d})")
            if what != "ov" and I["id"] % 2 == 0:
                got = lib_eval_rotated(I, J, M / d, what, prepared_first=True)
                wfcheck.compare(chk, I, ex, got, what, wfcheck.TOL64, "rotated-after-prepare", tag=f"/prepared,rotated(d={d}),prepared")
        chk.traces += 1
        chk.sample({"kind": I["kind"], "norb": I["norb"], "nelec": [I["nu"], I["nd"]], "rotation_numerator": M.tolist(),
                    "rotation_denominator": d, "exact_energy0": None if ex[0]["zero"] else [ex[0]["e"].real, ex[0]["e"].imag]}, limit=5)
