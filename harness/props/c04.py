"""C04 - the phaseless step is an exact importance-sampling reweighting of exp(-dt H)."""
import dataclasses

import numpy as np
import scipy.linalg

from .. import ladder, manybody, wf, wfcheck
from ..core import Check, MachineryError, repo_setup

LEVEL = "other"
DTS = (0.04, 0.02, 0.01, 0.005)

THEOREM_CFG = """SPECIFICATION Spec
CONSTANTS
  NORB = 2
  NELECS <- Nel2q
INVARIANT MeanFieldIdentity
INVARIANT Hermitian
CHECK_DEADLOCK FALSE
"""


def cases(tier, seed):
    """(trial kind, propagator, norb, nu, nd, nchol, spin-dependent h1)"""
    q = [("uhf", "unrestricted", 3, 2, 1, 2, True), ("rhf", "restricted", 3, 1, 1, 2, False),
         ("noci", "unrestricted", 2, 1, 1, 1, True)]
    t = [("ghf", "unrestricted", 3, 1, 1, 2, True), ("multislater", "unrestricted", 3, 2, 1, 1, True),
         ("ucisd", "unrestricted", 3, 1, 1, 2, True), ("cisd", "restricted", 3, 1, 1, 2, False),
         ("uhf", "unrestricted", 3, 2, 2, 3, True), ("uhf", "unrestricted", 2, 1, 0, 2, True),
         ("rhf", "restricted", 3, 2, 2, 1, False), ("uhf", "unrestricted", 3, 1, 1, 2, False)]
    return q + (t if tier == "thorough" else [])


def run(chk: Check):
    repo_setup()
    import jax.numpy as jnp
    from ad_afqmc import propagation
    chk.rule = ("per case (trial kind, propagator, small integer Hamiltonian with spin-dependent h1, arbitrary integer rdm1 for "
                "the shift, complex walker): TLC supplies the integer matrix of H (HamOracle.tla) and proves the mean-field "
                "identity (FockTheorems.tla); the code's mf_shifts / h0_prop / exp_h1 are compared with the spec's integers "
                "(exp_h1 with scipy expm of the spec's generator); one propagate() call on the tensor Gauss-Hermite nodes gives "
                "LHS = sum_k omega_k I_k SDVec(W'_k)/o'_k with I_k, theta_k from the guarded hook, RHS = expm(-dt(H-E_shift)) "
                "SDVec(phi)/o; the residual ladder over dt is judged by Ladder.tla (every halving shrinks it at least 3x until "
                "the floor); theta and the applied weight are compared with their definitions; case = (case, dt)")
    chk.assumptions += ["scipy.linalg.expm and Gauss-Hermite quadrature (7 points per field) are trusted numerics",
                        "the order of convergence is observed on the finite ladder dt = 0.04 .. 0.005, not proved",
                        "TLC decides: what H is (integer matrix), the mean-field identity, the ladder predicate; the weight "
                        "rule itself is decided in C09"]
    r = chk.tlc("FockTheorems", THEOREM_CFG, name="FockTheorems-meanfield", timeout=1500)
    if r.violated:
        raise MachineryError(f"spec theorem {r.violated_name} failed")
    rng = np.random.default_rng(400 + chk.seed)
    traces, info = [], {}
    for ci, (kind, pk, norb, nu, nd, nchol, spin) in enumerate(cases(chk.tier, chk.seed)):
        restricted = pk == "restricted"
        I = wf.make_instance(ci + 1, rng, kind, norb, nu, nd, nchol, 1, restricted, spin_dep=spin, want=())
        ham = I["ham"]
        cfgs, H = wf.hmatrix(chk, ham, norb, nu, nd, rid=ci + 1, name=f"c04-{ci}")
        trial, wd, hd0, hm = wf.build_lib(I)
        # physical scale: H = SC * H_int exactly (h0, h1 scaled by SC, Cholesky matrices by sqrt(SC)), so that the
        # ladder dt = 0.04..0.005 is in the asymptotic regime; TLC's integer matrix times SC is the exact H
        SC = 1.0 / 8.0
        hd0["h0"] = ham["h0"] * SC
        hd0["h1"] = hd0["h1"] * SC
        hd0["chol"] = hd0["chol"] * np.sqrt(SC)
        H = H * SC
        ham = {"h0": ham["h0"] * SC, "h1u": ham["h1u"] * SC, "h1d": ham["h1d"] * SC, "chol": ham["chol"] * np.sqrt(SC)}
        # an arbitrary (non-trial) integer rdm1 for the mean-field shift
        rdm = np.array([wf.rand_sym(rng, norb, -1, 1), wf.rand_sym(rng, norb, -1, 1)]) * 1.0
        wd["rdm1"] = jnp.array(rdm)
        wup, wdn = I["walkers"][0]
        site = f"{kind}:{pk}"
        # ---- the three pieces of the mean-field split, against the spec's integers
        l = np.array([np.sum(c * (rdm[0] + rdm[1])) for c in ham["chol"]])
        h1eff = (ham["h1u"] + ham["h1d"]) / 2.0 if restricted else None
        v0 = 0.5 * sum(c @ c for c in ham["chol"])
        errs = []
        Es = 0.3
        hd_carry = None
        for dt in DTS:
            P = propagation.propagator_restricted if restricted else propagation.propagator_unrestricted
            nodes, om = manybody.gauss_hermite(nchol, 7 if nchol <= 2 else 5)
            K = len(om)
            prop = P(dt=dt, n_walkers=K)
            # every other instance re-prepares the SAME dictionary for the next time step, as user code does
            # (ham_data = ham.build_..._intermediates(ham_data, ...)): nothing prepared for one dt may survive into the next
            hd = hm.build_measurement_intermediates(hd_carry if (ci % 3 != 0 and hd_carry is not None) else dict(hd0), trial, wd)
            hd = hm.build_propagation_intermediates(hd, prop, trial, wd)
            hd_carry = hd
            if dt == DTS[0]:
                ok_mf = np.allclose(np.asarray(hd["mf_shifts"]), 1j * l, atol=1e-12)
                ok_h0 = abs(complex(hd["h0_prop"]) - (-ham["h0"] + 0.5 * np.sum(l ** 2))) < 1e-12
                gens = [h1eff - v0 + np.einsum("g,gij->ij", l, ham["chol"])] if restricted else \
                    [ham["h1u"] - v0 + np.einsum("g,gij->ij", l, ham["chol"]), ham["h1d"] - v0 + np.einsum("g,gij->ij", l, ham["chol"])]
                eh = np.asarray(hd["exp_h1"])
                eh = [eh] if restricted else [eh[0], eh[1]]
                ok_exp = all(np.allclose(a, scipy.linalg.expm(-dt * g / 2.0), atol=1e-11) for a, g in zip(eh, gens))
                chk.case(("intermediates", ci))
                chk.traces += 1
                if not (ok_mf and ok_h0 and ok_exp):
                    chk.violation(f"meanfield-split:{pk}", f"{pk} propagator: mf_shifts/h0_prop/exp_h1 are not the pieces of the exact "
                                  f"mean-field identity (mf_shifts ok={ok_mf}, h0_prop ok={ok_h0}, exp_h1 ok={ok_exp}; l={l.tolist()})",
                                  {"instance": I["json"], "rdm1": rdm.tolist()})
            wk = jnp.array(np.tile(wup[None], (K, 1, 1)))
            wkd = jnp.array(np.tile(wdn[None], (K, 1, 1)))
            walkers = wk if restricted else [wk, wkd]
            ov = trial.calc_overlap(walkers, wd)
            pd = {"walkers": walkers, "weights": jnp.ones(K), "overlaps": ov, "pop_control_ene_shift": jnp.array(Es),
                  "e_estimate": jnp.array(0.0), "_verif_imp_fun": jnp.zeros(K) + 0.0j, "_verif_theta": jnp.zeros(K)}
            out = prop.propagate(trial, hd, pd, jnp.array(nodes), wd)
            imp = np.asarray(out["_verif_imp_fun"])
            th = np.asarray(out["_verif_theta"])
            if not np.any(imp != 0):
                raise MachineryError("the verification hook did not fire (ANKIT76_AD_AFQMC_VERIF not honoured?)")
            onew = np.asarray(out["overlaps"])
            W1 = out["walkers"]
            phi0 = manybody.sdvec(cfgs, wup, wdn)
            o0 = complex(np.asarray(ov)[0])
            lhs = np.zeros(len(cfgs), dtype=complex)
            for k in range(K):
                a = np.asarray(W1[k]) if restricted else np.asarray(W1[0][k])
                b = a if restricted else np.asarray(W1[1][k])
                lhs += om[k] * imp[k] * manybody.sdvec(cfgs, a, b) / onew[k]
            rhs = scipy.linalg.expm(-dt * (H - Es * np.eye(len(cfgs)))) @ phi0 / o0
            errs.append(float(np.linalg.norm(lhs - rhs) / np.linalg.norm(rhs)))
            # theta: phase of the overlap ratio after removing the mean-field phase
            fb = np.asarray(trial.calc_force_bias(walkers, hd, wd))
            xbar = -np.sqrt(dt) * (1j * fb - np.asarray(hd["mf_shifts"]))
            shifted = nodes - xbar
            th_def = np.angle(np.exp(-np.sqrt(dt) * np.sum(shifted * np.asarray(hd["mf_shifts"]), axis=1)) * onew / o0)
            dth = np.abs(np.angle(np.exp(1j * (th - th_def))))
            f = np.abs(imp) * np.cos(th)
            wexp = np.where(np.isnan(f), 0.0, f)
            wexp = np.where(wexp < 1e-3, 0.0, wexp)
            wexp = np.where(wexp > 100.0, 0.0, wexp)
            wgot = np.asarray(out["weights"])
            guard = (np.abs(f - 1e-3) < 1e-9) | (np.abs(f - 100.0) < 1e-7)
            chk.case(("step", ci, dt))
            if np.max(dth) > 1e-9:
                chk.violation(f"theta:{site}", f"theta of propagate differs from arg(overlap ratio x exp(-sqrt(dt) sum (x-xbar) mf)) by "
                              f"{np.max(dth)} (dt={dt})", {"instance": I["json"], "dt": dt})
            if np.max(np.abs(wgot - wexp)[~guard]) > 1e-12 * max(1.0, np.max(np.abs(wexp))):
                chk.violation(f"weight:{site}", f"applied weight differs from |I| max(0, cos theta) with the documented window "
                              f"(dt={dt}): max diff {np.max(np.abs(wgot - wexp))}", {"instance": I["json"], "dt": dt})
        tid = len(traces) + 1
        traces.append({"id": tid, "errs": errs, "scale": 1.0, "floor": 3e-7, "lo": (3, 1), "hi": (0, 1), "first": 1, "bound": 0.02,
                       "ceil": 0.05})
        info[tid] = (site, I, errs, rdm)
        chk.sample({"case": [kind, pk, norb, nu, nd, nchol], "h1u": I["json"]["h1u"], "chol": I["json"]["chol"],
                    "residuals_over_dt": dict(zip(map(str, DTS), errs))}, limit=6)
    # the "set to zero when it is not a number or leaves the documented window" clause on exact prescribed inputs:
    # every row of Weights.tla's one-step table realised in propagate (thresholds hit exactly and one ulp beside)
    from .c09 import rule_replay
    rule_replay(chk)
    verdicts = ladder.judge(chk, traces, "dt")
    for tid, v in verdicts.items():
        site, I, errs, rdm = info[tid]
        chk.traces += 1
        if not v["ok"]:
            chk.violation(f"field-average:{site}", f"{site}: sum_k omega_k I_k |phi'_k>/o'_k does not approach exp(-dt(H-E_shift))|phi>/o "
                          f"as O(dt^2): residuals {errs} for dt={DTS} (verdict {v})", {"instance": I["json"], "rdm1": rdm.tolist(),
                                                                                      "residuals": errs})
        elif not v["informative"]:
            chk.note("uninformative_ladders", chk.extra.get("uninformative_ladders", 0) + 1)
    chk.note("explanation", "TLC decides H (integer matrix in the configuration basis), the mean-field identity and the ladder "
             "predicate; the Gaussian average and matrix exponential are trusted numerics; see assumptions")
