"""C08 - cached overlaps are coherent with the walkers whenever a step reads them."""
import copy

import numpy as np

from .. import proxies, runlevel
from ..core import Check, MachineryError, repo_setup

LEVEL = "model_checking"

DESIGN_CFG = """SPECIFICATION Spec
CONSTANTS
  Walkers = {{w1, w2}}
  NEql = {neql}
  NBlocks = {nblocks}
  NSteps = 2
  NEne = 2
  NSr = 2
  NStepsEql = 1
  NEneEql = 2
  NSrEql = 1
  AdModes = {{"none", "forward", "reverse", "2rdm"}}
  OrbRots = {{TRUE, FALSE}}
  DoSrs = {{TRUE, FALSE}}
  SaveWalkers = {save}
  Mutation = "{mutation}"
INVARIANT TypeOK
INVARIANT ReadCoherent
INVARIANT ShiftInitialised
INVARIANT ShiftFiniteWhileAlive
INVARIANT KilledFraction
INVARIANT SameEstimator
INVARIANT SelectTotal
INVARIANT KeyDiscipline
INVARIANT MeasureCount
PROPERTY DeadStaysDead
PROPERTY Terminates
CHECK_DEADLOCK FALSE
"""


def design(chk: Check, which=("ReadCoherent",)):
    """exhaustive model checking of the run-level design + negative configs (non-vacuity)"""
    big = chk.tier == "thorough"
    r = chk.tlc("Afqmc", DESIGN_CFG.format(neql=2, nblocks=3 if big else 2, save="TRUE", mutation="none"),
                name="Afqmc-design", coverage=True, timeout=1800)
    if r.violated:
        raise MachineryError(f"run-level design violates {r.violated_name}: the specification is wrong")
    if r.coverage_zero:
        raise MachineryError(f"actions never taken in the design run: {r.coverage_zero}")
    for m, inv in (("no_block_refresh", "ReadCoherent"), ("no_sr_refresh", "ReadCoherent"), ("no_entry_refresh", "ReadCoherent"),
                   ("no_shift_reset", "ShiftInitialised")):
        rn = chk.tlc("Afqmc", DESIGN_CFG.format(neql=1, nblocks=1, save="FALSE", mutation=m), name=f"Afqmc-neg-{m}",
                     expect_violation=True, count=False)
        if not (rn.violated and rn.violated_name == inv):
            raise MachineryError(f"negative config {m} was not rejected: {inv} is vacuous")
    chk.note("negative_configs_rejected", ["no_block_refresh", "no_sr_refresh", "no_entry_refresh", "no_shift_reset"])


def scenarios(tier, seed):
    base = [
        dict(trial="uhf", wt="uhf", nelec=(2, 1), opts=dict(), block=(2, 2, 2), nblocks=2, eql=(1, 1, 2)),
        dict(trial="rhf", wt="rhf", nelec=(2, 2), opts=dict(), block=(3, 1, 2), nblocks=2, eql=(2, 2, 1)),
        dict(trial="uhf", wt="uhf", nelec=(2, 2), opts=dict(ad_mode="forward"), block=(2, 2, 1), nblocks=2, eql=(1, 1, 1)),
        dict(trial="uhf", wt="uhf", nelec=(2, 1), opts=dict(ad_mode="reverse", orbital_rotation=False), block=(2, 1, 2),
             nblocks=2, eql=(1, 1, 1)),
        dict(trial="uhf", wt="uhf", nelec=(2, 1), opts=dict(save_walkers=True), block=(1, 2, 1), nblocks=3, eql=(1, 2, 1)),
        # every sampler entry point must restore coherence itself after the driver's QR + global reconfiguration:
        dict(trial="uhf", wt="uhf", nelec=(2, 1), opts=dict(ad_mode="forward", orbital_rotation=False, do_sr=False), block=(3, 2, 1),
             nblocks=3, eql=(1, 1, 1)),
        dict(trial="uhf", wt="uhf", nelec=(2, 2), opts=dict(ad_mode="forward", do_sr=False), block=(3, 2, 1), nblocks=3, eql=(1, 1, 1)),
        # open-shell trial on restricted (single-matrix) walkers: the down determinant is the first n_dn columns
        dict(trial="uhf", wt="rhf", nelec=(2, 1), opts=dict(), block=(2, 2, 2), nblocks=2, eql=(1, 1, 1)),
    ]
    if tier == "thorough":
        base += [
            dict(trial="rhf", wt="rhf", nelec=(1, 1), opts=dict(ad_mode="forward", do_sr=False), block=(2, 2, 1), nblocks=2, eql=(1, 1, 1)),
            dict(trial="rhf", wt="rhf", nelec=(2, 2), opts=dict(ad_mode="reverse"), block=(2, 2, 2), nblocks=2, eql=(1, 1, 1)),
            dict(trial="uhf", wt="uhf", nelec=(3, 1), opts=dict(ad_mode="reverse", do_sr=False), block=(3, 2, 1), nblocks=2, eql=(2, 1, 2)),
            dict(trial="uhf", wt="uhf", nelec=(2, 0), opts=dict(), block=(2, 3, 2), nblocks=3, eql=(2, 1, 1)),
            dict(trial="uhf", wt="uhf", nelec=(2, 2), opts=dict(ad_mode="2rdm"), block=(2, 1, 1), nblocks=2, eql=(1, 1, 1)),
            dict(trial="rhf", wt="uhf", nelec=(2, 2), opts=dict(), block=(2, 2, 2), nblocks=2, eql=(1, 1, 1)),
            dict(trial="uhf", wt="rhf", nelec=(2, 1), opts=dict(), block=(2, 2, 1), nblocks=2, eql=(1, 1, 1)),
        ]
    for k, s in enumerate(base):
        s["seed"] = 100 * seed + k + 1
    return base


def run(chk: Check):
    repo_setup()
    chk.rule = ("design: every driver/sampler history of Afqmc.tla for small block counts and the full option matrix "
                "(TLC exhaustive); implementation: complete driver.afqmc runs recorded through observation proxies, one "
                "event per spec action, each Prop event carrying the MEASURED coherence bit "
                "max_w|cached-recomputed|/|cached| <= 1e-9; a case = one recorded propagation step; non-trivial = the "
                "walkers were modified (step/QR/SR) since the previous step; plus spec->code replay: TLC's canonical "
                "schedule stepped through the public single-step API with explicit refresh must reproduce the "
                "sampler's weights/walkers/energies")
    chk.assumptions += ["coherence tolerance 1e-9 relative", "one MPI rank here (multi-rank collectives: C07)",
                        "equality of sampler vs explicit replay judged at 1e-10 relative"]
    design(chk)
    # ---------------------------------------------------------------- recorded driver histories
    rng = np.random.default_rng(4200 + chk.seed)
    traces, metas = [], []
    for k, sc in enumerate(scenarios(chk.tier, chk.seed)):
        nw = 6 if k % 2 == 0 else 5
        sysd = runlevel.make_system(rng, norb=4, nelec=sc["nelec"], nchol=3, trial_kind=sc["trial"],
                                    walker_type=sc["wt"], n_walkers=nw, dt=0.05 if k % 2 else 0.03, vscale=0.45)
        opts = runlevel.default_options(seed=sc["seed"], n_eql=sc["eql"][0], n_ene_blocks_eql=sc["eql"][1],
                                        n_sr_blocks_eql=sc["eql"][2], **sc["opts"])
        try:
            ev, res, out, files = runlevel.run_driver(chk, sysd, opts, sc["block"], sc["nblocks"], name=f"drv{k}")
        except Exception as ex:
            chk.violation(f"driver-run-raises:{sc['wt']}:{sc['opts'].get('ad_mode')}",
                          f"driver.afqmc raised {type(ex).__name__}: {str(ex)[:300]} for scenario {sc}", {"scenario": sc})
            continue
        if sc["opts"].get("save_walkers"):
            # DriverSave: one snapshot per sampling block, taken after the driver's QR and before the global
            # reconfiguration (so it must equal the population the reconfiguration received)
            saved = files.get("saved_prop_data", [])
            srg = [e for e in ev if e["ev"] == "SRGlobal"][-sc["nblocks"]:]
            ok = len(saved) == sc["nblocks"]
            for sp, e in zip(saved, srg):
                f_saved = proxies._flat(sp["walkers"])
                ok = ok and len(f_saved) == len(e["f0"]) and all(np.array_equal(a, b) for a, b in zip(f_saved, e["f0"])) \
                    and np.array_equal(np.asarray(sp["weights"]), np.asarray(e["w0"]))
            chk.case(("save_walkers", k))
            if not ok:
                chk.violation("driver:save_walkers", f"save_walkers: {len(saved)} snapshots for {sc['nblocks']} sampling blocks, or a snapshot "
                              f"differs from the population handed to the global reconfiguration", {"scenario": sc})
        tr = proxies.to_trace(ev, nw, tid=k + 1, options=opts)
        traces.append(tr)
        metas.append((sc, nw, dict(n_walkers=nw, neql=sc["eql"][0], nblocks=sc["nblocks"], steps=sc["block"][0],
                                   ene=sc["block"][1], sr=sc["block"][2], steps_eql=50, ene_eql=sc["eql"][1],
                                   sr_eql=sc["eql"][2], save=bool(sc["opts"].get("save_walkers")))))
    verdicts = []
    nmoved = 0
    for tr, (sc, nw, kw) in zip(traces, metas):
        v = runlevel.validate_traces(chk, [tr], dict(kw), name=f"t{tr[0]['tid']}")[0]
        verdicts.append(v)
        nprop = sum(1 for e in tr if e["ev"] == "Prop")
        for e in tr:
            if e["ev"] == "Prop":
                chk.case((tr[0]["tid"], e["k"]))
        chk.traces += 1
        site_tag = f"{sc['wt']}:{sc['opts'].get('ad_mode') or 'plain'}"
        if v["property_violation"]:
            pv = v["property_violation"]
            chk.violation(f"trace:{pv['name']}:{site_tag}",
                          f"recorded driver run (scenario {sc}) violates {pv['name']} at event {pv['line']}: {pv['event']}",
                          {"scenario": sc, "event": pv["event"], "trace_head": tr[:40]})
        elif not v["accepted"]:
            chk.violation(f"trace:not-a-behaviour:{site_tag}",
                          f"recorded driver run (scenario {sc}) is not a behaviour of Afqmc.tla: first unexplained event "
                          f"#{v['reached'] + 1} {v['first_unexplained']} at spec state {v['at']}",
                          {"scenario": sc, "verdict": {k: v[k] for k in ('reached', 'len', 'at')}, "event": v["first_unexplained"]})
        chk.sample({"scenario": {k2: (list(v2) if isinstance(v2, tuple) else v2) for k2, v2 in sc.items()},
                    "events": len(tr), "prop_events": nprop,
                    "max_coherence_defect": max([e.get("cohval", 0.0) for e in tr if e["ev"] == "Prop"] or [0.0]),
                    "sr_events_that_moved_walkers": sum(1 for e in tr if e["ev"] in ("SRLocal", "SRGlobal") and e.get("moved")),
                    "accepted": v["accepted"], "head": [e["ev"] for e in tr[:12]]}, limit=5)
        nmoved += sum(1 for e in tr if e["ev"] in ("SRLocal", "SRGlobal") and e.get("moved"))
    chk.note("sr_events_that_moved_walkers", nmoved)
    # ---------------------------------------------------------------- the binding is real: corrupted traces are rejected
    if traces:
        tr = copy.deepcopy(traces[0])
        kw = dict(metas[0][2])
        iprop = [i for i, e in enumerate(tr) if e["ev"] == "Prop"]
        flipped = copy.deepcopy(tr)
        flipped[iprop[len(iprop) // 2]]["coh"] = False
        dropped = [e for i, e in enumerate(copy.deepcopy(tr)) if i != iprop[-1]]
        for t, name in ((flipped, "flip"), (dropped, "drop")):
            for i, e in enumerate(t):
                e["k"] = i + 1
            v = runlevel.validate_traces(chk, [t], dict(kw), name=f"corrupt-{name}")[0]
            if v["accepted"] and not v["property_violation"]:
                raise MachineryError(f"corrupted trace ({name}) was accepted: the trace specification does not bind")
        chk.note("corrupted_traces_rejected", ["coh bit flipped", "Prop event dropped"])
    # ---------------------------------------------------------------- multi-rank histories (thread communicator)
    from .. import ranks
    rk = chk.tlc("AfqmcRanks", "SPECIFICATION Spec\nCONSTANTS\n  Ranks = {r1, r2, r3}\n  NEql = 2\n  NBlocks = 3\n  UHF = TRUE\n"
                 "  RdmGather = TRUE\n  AllowInitFail = FALSE\nINVARIANT SameCollective\nINVARIANT InStep\nINVARIANT EstimateAgrees\n"
                 "PROPERTY Terminates\nPROPERTY NoStuckRank\n", name="AfqmcRanks", workers=4, deadlock=True)
    if rk.violated:
        raise MachineryError(f"AfqmcRanks.tla violates {rk.violated_name}")
    mr = [(2, "uhf", (2, 1), {}, (3, 1, 2), 2, (1, 1, 1))]
    if chk.tier == "thorough":
        mr += [(3, "uhf", (2, 2), dict(ad_mode="reverse", orbital_rotation=False), (2, 1, 1), 2, (1, 1, 2)),
               (2, "rhf", (2, 2), dict(ad_mode="forward"), (2, 2, 1), 3, (2, 1, 1)), (4, "uhf", (2, 1), {}, (2, 1, 1), 2, (1, 1, 1))]
    recs, rmeta = [], {}
    for j, (R, wt, nelec, o, blk, nbl, eql) in enumerate(mr):
        nw = 4
        mk = lambda r, wt=wt, nelec=nelec, j=j: runlevel.make_system(np.random.default_rng(880 + j + chk.seed), norb=4, nelec=nelec,
                                                                    nchol=3, trial_kind=wt, walker_type=wt, n_walkers=nw, dt=0.05,
                                                                    vscale=0.4)
        opts = runlevel.default_options(seed=23 + j + chk.seed, n_eql=eql[0], n_ene_blocks_eql=eql[1], n_sr_blocks_eql=eql[2], **o)
        ev, rr, world = ranks.run_driver_ranks(chk, R, mk, opts, blk, nbl, name=f"mr{j}")
        rec, inf = ranks.analyse(ev, rr, world, R, nw)
        rec.update({"id": j + 1, "neql": eql[0], "nblocks": nbl, "uhf": wt == "uhf", "rdm": o.get("ad_mode") in ("reverse", "2rdm")})
        recs.append(rec)
        rmeta[j + 1] = (R, wt, o, blk, inf)
        # every rank's own event stream must be a behaviour of the single-rank machine, coherence bits included
        for r in range(R):
            tr = proxies.to_trace([e for e in ev if int(e.get("rank", 0)) == r], nw, tid=1, options=opts)
            if not tr:
                continue
            v = runlevel.validate_traces(chk, [tr], dict(n_walkers=nw, neql=eql[0], nblocks=nbl, steps=blk[0], ene=blk[1], sr=blk[2],
                                                         steps_eql=50, ene_eql=eql[1], sr_eql=eql[2]), name=f"mr{j}-r{r}")[0]
            chk.traces += 1
            for e in tr:
                if e["ev"] == "Prop":
                    chk.case(("mr", j, r, e["k"]))
            if v["property_violation"]:
                pv = v["property_violation"]
                chk.violation(f"trace:{pv['name']}:multirank:{wt}", f"{R}-rank driver run, rank {r}: {pv['name']} violated at event "
                              f"{pv['line']}: {pv['event']}", {"ranks": R, "rank": r, "options": o, "event": pv["event"]})
            elif not v["accepted"]:
                chk.violation(f"trace:not-a-behaviour:multirank:{wt}", f"{R}-rank driver run, rank {r}: first unexplained event "
                              f"{v['first_unexplained']} at {v['at']} ({inf['describe']})", {"ranks": R, "rank": r, "options": o})
    if recs:
        vd = ranks.judge_runs(chk, recs, "c08")
        for rid, v in vd.items():
            R, wt, o, blk, inf = rmeta[rid]
            chk.traces += 1
            chk.sample({"multi_rank_run": {"ranks": R, "walker_type": wt, "options": o, "block": list(blk)},
                        "collectives_per_rank": v["program_len"], "walkers_moved_across_ranks": inf["moved_across_ranks"],
                        "ok": v["ok"]}, limit=7)
            if not v["ok"]:
                chk.violation(f"multirank:{v['clause']}:{wt}", f"{R}-rank driver run ({wt} walkers, options {o}): {v['clause']} fails "
                              f"(rank {v['bad_rank']}, collective #{v['at']}, expected {v['expected']}; {inf['describe']})",
                              {"ranks": R, "options": o, "verdict": v})
        chk.note("walkers_moved_across_ranks", sum(m[4]["moved_across_ranks"] for m in rmeta.values()))
        chk.note("multirank_runs_with_extinct_population", sum(1 for m in rmeta.values() if m[4]["degenerate"]))
    # ---------------------------------------------------------------- spec -> code: schedule replay
    reqs, cases = [], []
    combos = [("none", True, True, (2, 2, 2)), ("forward", True, True, (2, 1, 2)), ("forward", False, True, (3, 2, 1)),
              ("forward", True, False, (2, 2, 1)), ("forward", False, False, (2, 2, 1))]
    if chk.tier == "thorough":
        combos += [("none", True, True, (4, 3, 2)), ("forward", False, True, (2, 2, 2)), ("forward", True, True, (1, 3, 3)),
                   ("none", True, True, (1, 1, 1))]
    for i, (mode, rot, sr, blk) in enumerate(combos):
        reqs.append({"id": i + 1, "steps": blk[0], "ene": blk[1], "sr": blk[2], "ad_mode": mode, "orbital_rotation": rot,
                     "do_sr": sr})
    sch = runlevel.schedules(chk, reqs, "c08")
    S = proxies.sampler_proxy()
    for i, r in enumerate(reqs):
        for wt, tk, nelec in ((("uhf", "uhf", (2, 1)),) if chk.tier == "quick" and i % 2 else
                              (("uhf", "uhf", (2, 1)), ("rhf", "rhf", (2, 2)))):
            sysd = runlevel.make_system(rng, norb=4, nelec=nelec, nchol=2, trial_kind=tk, walker_type=wt, n_walkers=4)
            pd0 = runlevel.init_prop_data(sysd, 500 + i + chk.seed)
            # SR-sensitive population: unequal weights, so the comb really duplicates / drops walkers
            import jax.numpy as jnp
            pd0["weights"] = jnp.array([0.15, 1.9, 0.7, 1.25])
            # the stored overlaps a sampler call receives are in general STALE (the driver re-orthonormalises and
            # reconfigures after the previous call without refreshing them): hand over deliberately wrong ones
            pd0["overlaps"] = pd0["overlaps"] * (1.37 - 0.21j) + 0.05
            pd0["pop_control_ene_shift"] = pd0["e_estimate"] - 0.41      # carried over from a previous block
            pd0["n_killed_walkers"] = jnp.array(3.0)
            smp = S(n_prop_steps=r["steps"], n_ene_blocks=r["ene"], n_sr_blocks=r["sr"], n_blocks=1)
            o = {"ad_mode": None if r["ad_mode"] == "none" else r["ad_mode"], "orbital_rotation": r["orbital_rotation"],
                 "do_sr": r["do_sr"]}
            site = f"replay:{sch[r['id']]['entry']}:{wt}"
            try:
                out = runlevel.call_entry(sysd, smp, o, pd0)
            except Exception as ex:
                chk.violation(site + ":raises", f"entry point {sch[r['id']]['entry']} raised {type(ex).__name__}: {str(ex)[:200]}",
                              {"request": r})
                continue
            e2, pd2, bes, bws = runlevel.replay_schedule(sysd, sch[r["id"]], pd0, r["steps"])
            w1, w2 = np.asarray(out["prop_data"]["weights"]), np.asarray(pd2["weights"])
            wk1, wk2 = out["prop_data"]["walkers"], pd2["walkers"]
            if isinstance(wk1, (list, tuple)):
                dwalk = max(float(np.max(np.abs(np.asarray(wk1[s]) - np.asarray(wk2[s])))) for s in range(2))
            else:
                dwalk = float(np.max(np.abs(np.asarray(wk1) - np.asarray(wk2))))
            ok = (abs(out["energy"] - e2) <= 1e-10 * max(1, abs(e2)) and np.allclose(w1, w2, rtol=1e-10, atol=1e-12)
                  and dwalk <= 1e-9)
            chk.case(("replay", r["id"], wt))
            chk.traces += 1
            if not ok:
                chk.violation(site, f"sampler entry {sch[r['id']]['entry']} ({wt} walkers, block {r['steps']},{r['ene']},{r['sr']}) "
                                    f"differs from the explicit single-step replay with refresh after every modification: "
                                    f"energy {out['energy']} vs {e2}, max weight diff {float(np.max(np.abs(w1 - w2)))}, "
                                    f"max walker diff {dwalk}", {"request": r, "walker_type": wt})
