"""C17 - Cholesky factorisations reproduce their input and stay differentiable (spec/Cholesky.tla)."""
import json
import math
import re
from fractions import Fraction as F

import numpy as np

from .. import chol, ladder
from ..core import Check, MachineryError, repo_setup

LEVEL = "model_checking"

CODE_THR0 = 1e-8            # what the code is given where the exact model uses thr = 0
TOL_REPRO = -10             # max|M - L^T L| <= thr + 1e-10 * max|M|
TOL_TANGENT = -8            # |jvp - exact tangent| <= 1e-8 * max(|tangent|, |direction|)
MOLS = {
    "H2": "H 0 0 0; H 0 0 0.74",
    "H4": "H 0 0 0; H 0 0 0.9; H 0 0 1.9; H 0 0 2.8",
    "LiH": "Li 0 0 0; H 0 0 1.6",
    "H2O": "O 0 0 0.1173; H 0 0.7572 -0.4692; H 0 -0.7572 -0.4692",
    # the same molecule with a hydrogen first: the first AO of the molecule is then not the one of the p-shell atom
    "HOH": "H 0 0.7572 -0.4692; O 0 0 0.1173; H 0 -0.7572 -0.4692",
    "NH3": "N 0 0 0.1; H 0 0.94 -0.27; H 0.81 -0.47 -0.27; H -0.81 -0.47 -0.27",
    "H2O/6-31g": "O 0 0 0.1173; H 0 0.7572 -0.4692; H 0 -0.7572 -0.4692",
    "LiH/6-31g": "Li 0 0 0; H 0 0 1.6",
    "H2/cc-pvdz": "H 0 0 0; H 0 0 0.74",
    # generally contracted shells (bas_nctr > 1): AO offsets are sum (2l+1) * nctr, not sum (2l+1)
    "LiH/cc-pvdz": "Li 0 0 0; H 0 0 1.6",
}


# ----------------------------------------------------------------------------- instances
def build_instances(chk: Check):
    rng = np.random.default_rng(chk.seed + 1700)
    quick = chk.tier == "quick"
    insts, seen = [], set()

    def add(A, D=None, cls="", with_dir=True, S=None):
        n = len(A)
        if with_dir and S is None:
            S = chol.sym_dir(rng, n)
        I = chol.make_instance(A, D=D, S=S if with_dir else None, cls=cls)
        if I is None:
            return "dropped"
        if I["_key"] in seen:
            return "dup"
        seen.add(I["_key"])
        I["id"] = len(insts) + 1
        insts.append(I)
        return "ok"

    dropped = 0
    # (a) exhaustive: every A in E^{n x r}, n <= 3, every r <= n (distinct M = A A^T only)
    for n in (1, 2, 3):
        for r in range(1, n + 1):
            ent = [-1, 0, 1] if (quick and n == 3 and r == 3) else [-1, 0, 1, 2]
            for A in chol.exhaustive(n, r, ent):
                add(A, cls=f"exh-n{n}")
    n_exh = len(insts)
    # (b) n = 4, every rank, seeded
    for k in range(150 if quick else 1500):
        r = 1 + k % 4
        add(rng.integers(-1, 3, size=(4, r)).tolist(), cls=f"n4-r{r}")
    # (c) badly scaled diagonals  D M D, D_i in {1, 4, 1/4, 32, 1/32}
    pool = [F(1), F(4), F(1, 4), F(32), F(1, 32)]
    for k in range(200 if quick else 1500):
        n = 2 + k % 3
        r = 1 + (k // 3) % n
        D = [pool[int(x)] for x in rng.integers(0, len(pool), size=n)]
        if all(x == 1 for x in D):
            D[0] = F(32)
        if add(rng.integers(-1, 3, size=(n, r)).tolist(), D=D, cls="scaled") == "dropped":
            dropped += 1
    # (d) tied / repeated pivots: equal diagonals, duplicated rows, signed permutations of rows
    for n in (2, 3, 4):
        add(np.eye(n, dtype=int).tolist(), cls="tied")
        add((2 * np.eye(n, dtype=int)).tolist(), cls="tied")
        add((np.eye(n, dtype=int) + np.ones((n, n), dtype=int)).tolist(), cls="tied")
    for k in range(60 if quick else 400):
        n = 3 + k % 2
        r = 1 + k % (n - 1)
        B = rng.integers(-1, 3, size=(n - 1, r))
        row = B[int(rng.integers(0, n - 1))] * int(rng.choice([-1, 1]))
        A = np.vstack([B, row])[rng.permutation(n)]
        add(A.tolist(), cls="tied")
    # (e) electron-repulsion shaped: M[(ij),(kl)] = sum_g L_g[i,j] L_g[k,l], L_g symmetric 2x2 integer
    #     (rows (01) and (10) identical: permanently tied pivots); direction with the same 8-fold symmetry
    for k in range(40 if quick else 300):
        r = 1 + k % 3
        Ls = []
        for _ in range(r):
            X = rng.integers(-1, 3, size=(2, 2))
            Ls.append(np.triu(X) + np.triu(X, 1).T)
        A = np.array([L.reshape(4) for L in Ls]).T
        Xs = []
        for _ in range(2):
            X = rng.integers(-2, 3, size=(2, 2))
            Xs.append(np.triu(X) + np.triu(X, 1).T)
        S = sum(np.outer(X.reshape(4), Y.reshape(4)) + np.outer(Y.reshape(4), X.reshape(4))
                for X, Y in [(Xs[0], Xs[1]), (Xs[1], Xs[1])])
        add(A.tolist(), cls="eri2", S=S.tolist())
    chk.note("instances", {"total": len(insts), "exhaustive_n<=3": n_exh, "dropped_by_overflow_guard": dropped,
                           "by_class": _count(I["cls"].split("-")[0] for I in insts)})
    return insts


def _count(it):
    d = {}
    for x in it:
        d[x] = d.get(x, 0) + 1
    return d


# ----------------------------------------------------------------------------- model checking
MODEL_CFG = """SPECIFICATION SpecModel
CONSTANT LOOPS = {%s}
%s
"""
ALL_INV = ["InvResidual", "InvPivots", "InvTermination", "InvReproduces", "InvScan"]


def model_check(chk: Check, insts):
    wd = chk.scratch("chol-model")
    chol.write_insts(wd / "insts.ndjson", insts)
    env = {"CHOL_INSTS": str(wd / "insts.ndjson")}
    inv = "\n".join(f"INVARIANT {x}" for x in ALL_INV) + "\nPROPERTY PropNonIncreasing"
    # the loop shapes that must satisfy every property-level predicate
    r = chk.tlc("Cholesky", MODEL_CFG % ('"scan", "chunk", "numpyfix"', inv), env=env, name="Cholesky-model",
                coverage=True)
    if r.violated:
        raise MachineryError(f"reference model violates {r.violated_name} (scan/chunk/numpyfix loops):\n"
                             + "\n".join(r.stdout.splitlines()[-60:]))
    for act in ("Load", "Step", "Done"):
        if act in r.coverage_zero:
            raise MachineryError(f"model action {act} never taken (vacuous model run)")
    chk.note("model_states_good_loops", r.states)
    # the numpy loop shape as written in the library: everything but Reproduces must hold ...
    inv2 = "\n".join(f"INVARIANT {x}" for x in ALL_INV if x != "InvReproduces") + "\nPROPERTY PropNonIncreasing"
    r2 = chk.tlc("Cholesky", MODEL_CFG % ('"numpy"', inv2), env=env, name="Cholesky-model-numpy")
    if r2.violated:
        raise MachineryError(f"reference model violates {r2.violated_name} (numpy loop):\n"
                             + "\n".join(r2.stdout.splitlines()[-60:]))
    # ... and TLC is asked for a design-level counterexample of Reproduces on the small instances
    small = [I for I in insts if I["n"] == 2]
    chol.write_insts(wd / "small.ndjson", small)
    r3 = chk.tlc("Cholesky", MODEL_CFG % ('"numpy"', "INVARIANT InvReproduces"),
                 env={"CHOL_INSTS": str(wd / "small.ndjson")}, name="Cholesky-model-numpy-cex", workers=1)
    cex = None
    if r3.violated:
        if r3.violated_name != "InvReproduces":
            raise MachineryError(f"unexpected violation {r3.violated_name} in the counterexample search")
        last = r3.stdout[r3.stdout.rfind("State "):]
        mi = re.search(r"/\\ idx = (\d+)", last)
        mt = re.search(r"/\\ thr = <<(-?\d+), (\d+)>>", last)
        mm = re.search(r"/\\ m = (\d+)", last)
        if not (mi and mt and mm):
            raise MachineryError("cannot parse TLC's counterexample")
        cex = {"id": small[int(mi.group(1)) - 1]["id"], "thr": [int(mt.group(1)), int(mt.group(2))],
               "nvec": int(mm.group(1))}
    chk.note("numpy_loop_design_counterexample", cex)
    return cex


# ----------------------------------------------------------------------------- the code under test
class Code:
    def __init__(self):
        import jax
        import jax.numpy as jnp
        from ad_afqmc import linalg_utils, pyscf_interface
        self.jax, self.jnp, self.lu, self.pi = jax, jnp, linalg_utils, pyscf_interface
        self._gram, self._jvp = {}, {}

    def numpy_chol(self, M, thr):
        with np.errstate(all="ignore"):
            return np.asarray(self.pi.modified_cholesky(np.array(M, dtype=float), float(thr)))

    def numpy_chol_int(self, M, thr):
        """the same routine handed an integer ndarray (integer-valued matrices are legal symmetric PSD input)"""
        with np.errstate(all="ignore"):
            return np.asarray(self.pi.modified_cholesky(np.array(np.rint(M), dtype=np.int64), float(thr)))

    def chunked_chol(self, mol, thr):
        # default buffer (cmax * nao = 10 nao vectors) is ample for these molecules (rank <= nao (nao + 1) / 2 <= 28)
        with np.errstate(all="ignore"):
            return np.asarray(self.pi.chunked_cholesky(mol, max_error=float(thr)))

    def jax_chol(self, M, cnt):
        n = M.shape[0]
        return np.asarray(self.lu.modified_cholesky(self.jnp.asarray(M), n, int(cnt)))

    def gram_fn(self, n, cnt):
        key = (n, cnt)
        if key not in self._gram:
            lu = self.lu

            def g(X):
                L = lu.modified_cholesky(X, n, cnt)
                return L.T @ L
            self._gram[key] = self.jax.jit(g)
            self._jvp[key] = self.jax.jit(lambda X, S: self.jax.jvp(g, (X,), (S,))[1])
        return self._gram[key], self._jvp[key]


def attempt(fn, *args):
    """call the library; an exception raised by the code under test is an observation, not a machinery failure"""
    try:
        return fn(*args), None
    except MachineryError:
        raise
    except Exception as ex:                                   # noqa: BLE001
        return None, f"{type(ex).__name__}: {ex}"[:300]


def big_matrix(seed, n, r):
    """seeded n x n PSD matrix of rank r with O(1) entries (regenerated on replay)"""
    rng = np.random.default_rng([seed, 1717, n, r])
    A = rng.standard_normal((n, r)) / np.sqrt(r)
    M = A @ A.T
    return (M + M.T) / 2


def repro_record(rid, M, L, thr, nmax=None, rowmax=False):
    M = np.asarray(M, dtype=float)
    if L is None:                                             # the routine raised
        L = np.full((1, M.shape[0]), np.nan)
    L = np.asarray(L, dtype=float).reshape(-1, M.shape[0])
    fin = bool(np.all(np.isfinite(L)))
    E = np.abs(M - L.T @ L) if fin else np.full(M.shape, np.inf)
    if rowmax:
        E = E.max(axis=1)
    return {"id": rid, "errs": E.reshape(-1).tolist(), "thr": thr, "scale": float(np.abs(M).max()),
            "tolexp": TOL_REPRO, "finite": fin, "nvec": L.shape[0], "nmax": M.shape[0] if nmax is None else nmax}


def run(chk: Check):
    repo_setup()
    code = Code()
    chk.rule = ("instance = symmetric PSD matrix M = D A A^T D (A integer n x r, every n <= 3 exhaustively over "
                "entries -1..2 [quick: -1..1 for 3x3], seeded n = 4, diagonal rescalings, tied pivots, ERI-shaped "
                "4x4) x threshold; TLC model-checks the three loop shapes on exact rationals and then judges "
                "max|M - L^T L| <= thr + 1e-10 max|M| on what the real routines return; case = (routine, instance, "
                "threshold / count); non-trivial = at least one Cholesky step taken")
    chk.assumptions += [
        "thresholds given to the code are >= 1e-8 (the NumPy routine regularises its pivots by +1e-10); the "
        "exact model's thr = 0 is replayed as 1e-8",
        "tolerances: reproduction thr + 1e-10*max|M| element-wise; JAX routine asked for exactly rank vectors "
        "1e-10*max|M|; jvp vs exact tangent 1e-8*max(|tangent|,|direction|); finite-difference ladder judged by "
        "Ladder.tla (each halving of the step shrinks |FD - jvp| by >= 3 unless at round-off floor)",
        "derivatives are judged only where M |-> Gram is differentiable: full rank (identity map), or every pivot "
        "choice unique or a structurally persistent tie (identical rows), as certified by TLC per instance",
        "the JAX routine asked for MORE vectors than the rank divides by a zero pivot (TLC: InvScan shows this is "
        "unavoidable in exact arithmetic); outside the contract, recorded as an observation only",
        "molecular ERIs from pyscf mol.intor('int2e') are trusted"]
    chk.trusted_base += ["pyscf integrals (int2e)", "numpy float64 matmul for M - L^T L", "jax.jvp as the AD entry point"]

    insts = build_instances(chk)
    by_id = {I["id"]: I for I in insts}
    cex = model_check(chk, insts)
    orc = chol.oracle(chk, insts)

    # the reference model must itself satisfy the predicates (else the machinery is wrong, not the code)
    n_model_cex = 0
    for I in insts:
        o = orc[I["id"]]
        if not o["exact_at_rank"] or not o["full_tangent_is_dir"]:
            raise MachineryError(f"oracle inconsistent on instance {I['id']}")
        for lp in ("chunk", "numpyfix"):
            if not all(x["ok"] for x in o[lp]):
                raise MachineryError(f"oracle: loop {lp} does not reproduce instance {I['id']}")
        n_model_cex += sum(1 for x in o["numpy"] if not x["ok"])
    chk.note("numpy_loop_model_counterexamples", n_model_cex)

    recs, info = [], {}

    def push(rec, **kw):
        rec["id"] = len(recs) + 1
        recs.append(rec)
        info[rec["id"]] = kw

    # ------------------------------------------------------------------ replay of every TLC instance
    # design-level counterexamples of the numpy loop shape first (TLC's own one at the very front)
    order = sorted(insts, key=lambda I: (0 if cex and I["id"] == cex["id"] else 1,
                                         0 if not all(x["ok"] for x in orc[I["id"]]["numpy"]) else 1, I["id"]))
    for I in order:
        o = orc[I["id"]]
        M = chol.qmat(o["M"])
        n, rank = I["n"], o["rank"]
        md = float(M.diagonal().max())
        thrs = [(CODE_THR0 if t[0] == 0 else float(F(t[0], t[1]))) for t in I["thrs"]]
        model_ok = [x["ok"] for x in o["numpy"]] + [None, None]
        model_nv = [(x["nvec"], y["nvec"]) for x, y in zip(o["numpy"], o["numpyfix"])] + [None, None]
        thrs += [max(CODE_THR0, 1e-6 * md), max(CODE_THR0, 1e-3 * md)]
        for t, mok, mnv in zip(thrs, model_ok, model_nv):
            L, exc = attempt(code.numpy_chol, M, t)
            push(repro_record(0, M, L, t), routine="numpy", inst=I["id"], thr=t, rank=rank, n=n, model_ok=mok,
                 model_nvec=mnv,
                 M=M.tolist(), nontrivial=L is not None and L.shape[0] > 0, exception=exc)
        if np.array_equal(M, np.rint(M)):        # integer-valued instance: also presented as an integer ndarray
            for t in thrs[:2]:
                L, exc = attempt(code.numpy_chol_int, M, t)
                push(repro_record(0, M, L, t), routine="numpy", inst=f"{I['id']}-int64", thr=t, rank=rank, n=n, model_ok=None,
                     M=M.tolist(), nontrivial=L is not None and L.shape[0] > 0, exception=exc)
        L, exc = attempt(code.jax_chol, M, rank)
        push(repro_record(0, M, L, 0.0), routine="jax", inst=I["id"], cnt=rank, rank=rank, n=n, M=M.tolist(),
             nontrivial=True, exception=exc)

    # ------------------------------------------------------------------ seeded float matrices (not TLC instances)
    rng = np.random.default_rng(chk.seed + 1701)
    for k in range(60 if chk.tier == "quick" else 400):
        n = int(rng.integers(2, 13))
        r = [1, n, int(rng.integers(1, n + 1))][k % 3]
        A = rng.standard_normal((n, r))
        d = np.ones(n) if k % 2 else 10.0 ** rng.integers(-3, 4, size=n)
        M = (A @ A.T) * np.outer(d, d)
        M = (M + M.T) / 2
        md = float(M.diagonal().max())
        for t in (1e-8 * max(1.0, md), 1e-5 * md, 1e-2 * md, 0.3 * md):
            t = max(t, CODE_THR0)
            L, exc = attempt(code.numpy_chol, M, t)
            push(repro_record(0, M, L, t), routine="numpy", inst=f"float-{k}", thr=t, rank=r, n=n, model_ok=None,
                 M=M.tolist(), nontrivial=L is not None and L.shape[0] > 0, exception=exc)
        if n <= 8:
            L, exc = attempt(code.jax_chol, M, r)
            push(repro_record(0, M, L, 0.0), routine="jax", inst=f"float-{k}", cnt=r, rank=r, n=n, M=M.tolist(),
                 nontrivial=True, exception=exc)

    # ------------------------------------------------------------------ LARGE seeded float matrices
    # "every symmetric PSD matrix ... any rank including full rank": buffer sizes, iteration caps and anything else
    # that scales with sqrt(n) or a fixed multiple only shows beyond n ~ 100.  Row maxima of |M - L^T L| are handed
    # to the judge (the predicate is on the maximum), the matrix is regenerated from (seed, n, r) on replay.
    big_sizes = [40, 101, 144, 190] if chk.tier == "quick" else [40, 64, 101, 121, 144, 169, 190, 230, 300]
    for k, n in enumerate(big_sizes):
        for r in (n, max(1, int(0.9 * n)), max(1, n // 3), 1):
            M = big_matrix(chk.seed, n, r)
            md = float(M.diagonal().max())
            for t in (1e-8 * max(1.0, md), 1e-4 * md):
                L, exc = attempt(code.numpy_chol, M, t)
                push(repro_record(0, M, L, t, rowmax=True), routine="numpy", inst=f"big-{n}-{r}", thr=t, rank=r, n=n, model_ok=None,
                     big={"seed": chk.seed, "n": n, "r": r}, nontrivial=L is not None and L.shape[0] > 0, exception=exc)
        if n <= 64:
            M = big_matrix(chk.seed, n, n)
            L, exc = attempt(code.jax_chol, M, n)
            push(repro_record(0, M, L, 0.0, rowmax=True), routine="jax", inst=f"big-{n}-{n}", cnt=n, rank=n, n=n,
                 big={"seed": chk.seed, "n": n, "r": n}, nontrivial=True, exception=exc)

    # ------------------------------------------------------------------ observation (outside the contract)
    # TLC (InvScan): asked for more vectors than the rank, the scan loop necessarily divides by a zero pivot
    obs = {"probed": 0, "non_finite_output": 0}
    for I in [I for I in insts if orc[I["id"]]["rank"] < I["n"]][:25]:
        L, exc = attempt(code.jax_chol, chol.qmat(orc[I["id"]]["M"]), orc[I["id"]]["rank"] + 1)
        obs["probed"] += 1
        obs["non_finite_output"] += 0 if (L is not None and np.all(np.isfinite(L))) else 1
    chk.note("observation_jax_routine_asked_for_rank_plus_one_vectors", obs)
    out = {}
    for lp in ("numpy", "chunk", "numpyfix"):
        res = [(x, orc[I["id"]]["rank"], I["n"]) for I in insts for x in orc[I["id"]][lp]]
        out[lp] = {"runs": len(res), "stopped_before_rank": sum(1 for x, rk, n in res if x["nvec"] < rk),
                   "returned_n_vectors": sum(1 for x, rk, n in res if x["nvec"] == n),
                   "reproduces": sum(1 for x, rk, n in res if x["ok"])}
    chk.note("model_loop_outcomes", out)

    # ------------------------------------------------------------------ derivatives of the JAX routine
    traces, tinfo = derivative_records(chk, code, insts, orc, push)

    # ------------------------------------------------------------------ shell-chunked routine on molecular ERIs
    chunked_records(chk, code, push)

    # ------------------------------------------------------------------ TLC judges everything recorded
    # (a few records with known verdicts ride along: a judge that mis-evaluates them is a machinery failure)
    for errs, thr, scale, fin, nv, nm, expect in [
            ([1.005e-8, 0.0], 1e-8, 1.0, True, 1, 2, True), ([1.02e-8], 1e-8, 1.0, True, 1, 2, False),
            ([0.5000000000000001], 0.5, 2.0, True, 1, 2, True), ([0.5001], 0.5, 2.0, True, 1, 2, False),
            ([3e-7], 0.0, 4096.0, True, 2, 2, True), ([5e-7], 0.0, 4096.0, True, 2, 2, False),
            ([0.0], 0.0, 1.0, False, 1, 2, False), ([0.0], 0.0, 1.0, True, 3, 2, False), ([0.0, 0.0], 0.0, 3.0, True, 0, 2, True),
            ([1e-3, 2.0e-3, 1.5e-3], 1.9e-3, 1e-6, True, 1, 4, False), ([1e-30], 0.0, 1e-19, True, 1, 4, True)]:
        push({"errs": errs, "thr": thr, "scale": scale, "tolexp": TOL_REPRO, "finite": fin, "nvec": nv, "nmax": nm},
             routine="selftest", expect=expect)
    verdicts = chol.judge(chk, recs)
    report(chk, recs, info, verdicts)
    lv = ladder.judge(chk, traces, "c17-fd")
    ninf = 0
    for tid, v in lv.items():
        k = tinfo[tid]
        chk.case(("fd", k["inst"]), nontrivial=bool(v.get("informative")))
        chk.traces += 1
        ninf += 1 if v.get("informative") else 0
        if not v["ok"]:
            chk.violation(f"linalg_utils.modified_cholesky:fd-ladder:{'full-rank' if k['rank'] == k['n'] else 'rank-deficient'}",
                          f"jvp of M -> Gram(modified_cholesky(M, {k['rank']} vectors)) does not match central finite "
                          f"differences: |FD_h - jvp| along h = {k['hs']} is {k['errs']} (verdict {v})",
                          {"kind": "fd", **k})
    chk.note("fd_ladders", {"judged": len(lv), "informative": ninf})
    chk.note("tolerances", {"reproduce_rel": 1e-10, "tangent_rel": 1e-8, "code_thr_for_exact_zero": CODE_THR0})


# ----------------------------------------------------------------------------- derivatives
def derivative_records(chk, code, insts, orc, push):
    jnp = code.jnp
    quick = chk.tier == "quick"
    cand = [I for I in insts if orc[I["id"]]["has_dir"]]
    # spread over classes / ranks deterministically
    cand.sort(key=lambda I: (I["id"] * 2654435761) % 1000003)
    cap = 400 if quick else 4000
    traces, tinfo = [], {}
    nfd = 0
    for I in cand[:cap]:
        o = orc[I["id"]]
        n, rank = I["n"], o["rank"]
        M = chol.qmat(o["M"])
        S = np.array(I["S"], dtype=float)
        gram, jvp = code.gram_fn(n, rank)
        T, exc = attempt(lambda: np.asarray(jvp(jnp.asarray(M), jnp.asarray(S))))
        if T is None:
            T = np.full((n, n), np.nan)
        fin = bool(np.all(np.isfinite(T)))
        judged_exact = o["smooth"] or rank == n
        if judged_exact:
            Tx = chol.qmat(o["T"])
            errs = (np.abs(T - Tx) if fin else np.full(T.shape, np.inf)).reshape(-1).tolist()
            scale = float(max(np.abs(Tx).max(), np.abs(S).max()))
        else:
            errs, scale = [0.0], float(np.abs(S).max())
        push({"errs": errs, "thr": 0.0, "scale": scale, "tolexp": TOL_TANGENT, "finite": fin, "nvec": 0, "nmax": 0},
             routine="jvp", inst=I["id"], rank=rank, n=n, M=M.tolist(), S=I["S"], exact=judged_exact,
             tangent=T.tolist(), nontrivial=judged_exact, exception=exc)
        # finite-difference ladder (3 points) where TLC certifies a stable pivot order for |h| <= hmax
        if not (o["smooth"] and fin):
            continue
        hmax = float(chol.qf(o["hmax"]))
        h0 = 2.0 ** math.floor(math.log2(min(1 / 32, hmax / 8)))
        if h0 < 2.0 ** -16:
            continue
        hs = [h0, h0 / 2, h0 / 4]
        errs = []
        for h in hs:
            fd, _ = attempt(lambda: (np.asarray(gram(jnp.asarray(M + h * S)))
                                     - np.asarray(gram(jnp.asarray(M - h * S)))) / (2 * h))
            errs.append(float(np.abs(fd - T).max()) if fd is not None and np.all(np.isfinite(fd)) else float("inf"))
        tscale = float(max(np.abs(T).max(), np.abs(S).max()))
        # residuals in units of the largest one (but not below 1e-6 of the tangent: round-off level ladders
        # then sit entirely under the floor and are counted as uninformative)
        unit = max(min(max(errs), 1e6 * tscale), 1e-6 * tscale)
        nfd += 1
        traces.append({"id": nfd, "errs": errs, "scale": unit, "floor": max(1e-6, 1e-9 * tscale / unit),
                       "lo": (3, 1), "first": 1, "bound": 1.0})      # ratio clause only: shrinking by >= 3 per halving
        tinfo[nfd] = {"inst": I["id"], "rank": rank, "n": n, "M": M.tolist(), "S": I["S"], "hs": hs, "errs": errs}
    return traces, tinfo


# ----------------------------------------------------------------------------- chunked routine
def chunked_records(chk, code, push):
    from pyscf import gto
    # molecules with multi-function (p) shells exercise the AO -> shell bookkeeping of the chunked routine
    names = ["H2", "H4", "LiH", "H2O", "HOH", "LiH/cc-pvdz"] if chk.tier == "quick" else list(MOLS)
    for name in names:
        mol = gto.M(atom=MOLS[name], basis=name.split("/")[1] if "/" in name else "sto-3g", verbose=0)
        nao = mol.nao_nr()
        eri = mol.intor("int2e").reshape(nao * nao, nao * nao)
        for t in (1e-3, 1e-5, 1e-7):
            L, exc = attempt(code.chunked_chol, mol, t)
            push(repro_record(0, eri, L, t), routine="chunked", inst=name, thr=t, rank=None, n=nao * nao,
                 nontrivial=L is not None and L.shape[0] > 0, exception=exc)
            # prep_afqmc applies the dense NumPy routine to user-supplied ERIs: same matrices, same judge
            L2, exc = attempt(code.numpy_chol, eri, t)
            push(repro_record(0, eri, L2, t), routine="numpy", inst=f"eri-{name}", thr=t, rank=None, n=nao * nao,
                 model_ok=None, nontrivial=L2 is not None and L2.shape[0] > 0, exception=exc)


# ----------------------------------------------------------------------------- verdicts -> report
def site_of(k):
    if k["routine"] == "numpy":
        cls = "molecular-eri" if k["rank"] is None else ("full-rank" if k["rank"] == k["n"] else "rank-deficient")
        return f"pyscf_interface.modified_cholesky:reproduce:{cls}"
    if k["routine"] == "jax":
        return f"linalg_utils.modified_cholesky:exact-at-rank:{'full-rank' if k['rank'] == k['n'] else 'rank-deficient'}"
    if k["routine"] == "jvp":
        return f"linalg_utils.modified_cholesky:jvp:{'full-rank' if k['rank'] == k['n'] else 'rank-deficient'}"
    return f"pyscf_interface.chunked_cholesky:reproduce:{k['inst']}"


def _val(d):
    return d[0] * 10.0 ** d[1]


def report(chk, recs, info, verdicts):
    agree = {"model_fail_code_fail": 0, "model_fail_code_ok": 0, "model_ok_code_fail": 0, "model_ok_code_ok": 0}
    shape = {"runs": 0, "vectors_as_numpy_loop_shape": 0, "vectors_as_numpyfix_loop_shape": 0}
    for r in recs:
        k, v = info[r["id"]], verdicts[r["id"]]
        if k["routine"] == "selftest":
            if v["ok"] != k["expect"]:
                raise MachineryError(f"judge self-test failed: {r} -> {v}, expected ok = {k['expect']}")
            continue
        chk.traces += 1
        chk.case((k["routine"], str(k["inst"]), k.get("thr", k.get("cnt", 0))), nontrivial=bool(k.get("nontrivial", True)))
        if k.get("model_ok") is not None:
            agree[("model_ok" if k["model_ok"] else "model_fail") + ("_code_ok" if v["ok"] else "_code_fail")] += 1
        if k.get("model_nvec"):          # informational: which loop shape of the spec the code follows
            shape["runs"] += 1
            shape["vectors_as_numpy_loop_shape"] += int(r["nvec"] == k["model_nvec"][0])
            shape["vectors_as_numpyfix_loop_shape"] += int(r["nvec"] == k["model_nvec"][1])
        if k["routine"] in ("numpy", "jax") and "M" in k and k["n"] <= 4:
            chk.sample({"routine": k["routine"], "M": k["M"], "thr_or_count": k.get("thr", k.get("cnt")),
                        "vectors_returned": r["nvec"], "max_error": _val(v["worst"]), "bound": _val(v["bound"])}, limit=6)
        if v["ok"]:
            continue
        rk = "unknown" if k["rank"] is None else k["rank"]
        what = {
            "numpy": f"pyscf_interface.modified_cholesky(M, {k.get('thr')}) on a {k['n']}x{k['n']} PSD matrix "
                     f"(rank {rk})",
            "jax": f"linalg_utils.modified_cholesky(M, norb, {k.get('cnt')}) on a {k['n']}x{k['n']} PSD matrix of rank {rk}",
            "jvp": f"jax.jvp of M -> Gram(linalg_utils.modified_cholesky(M, norb, {rk})), {k['n']}x{k['n']}",
            "chunked": f"pyscf_interface.chunked_cholesky({str(k['inst']) if '/' in str(k['inst']) else str(k['inst']) + '/sto-3g'}, {k.get('thr')})",
        }[k["routine"]]
        qty = "max|jvp - exact tangent (TLC)|" if k["routine"] == "jvp" else "max|M - sum_g L_g L_g^T|"
        if k.get("exception"):
            detail = f"raised {k['exception']}"
        elif not v["finite_ok"]:
            detail = "non-finite output"
        elif not v["count_ok"]:
            detail = f"returned {r['nvec']} vectors, more than the dimension {r['nmax']}"
        else:
            detail = (("" if k["routine"] == "jvp" else f"returned {r['nvec']} vectors, ")
                      + f"{qty} = {_val(v['worst']):.3e} > bound {_val(v['bound']):.3e}")
        chk.violation(site_of(k), f"{what}: {detail}",
                      {"kind": k["routine"], **{x: y for x, y in k.items() if x not in ("nontrivial",)},
                       "verdict": v})
    chk.note("numpy_loop_model_vs_code", agree)
    chk.note("numpy_routine_vector_counts_vs_model", shape)


# ----------------------------------------------------------------------------- replay of a stored case
def replay(chk: Check, case):
    repo_setup()
    code = Code()
    c = case["case"]
    recs, info = [], {}

    def push(rec, **kw):
        rec["id"] = len(recs) + 1
        recs.append(rec)
        info[rec["id"]] = kw
    M = np.array(c.get("M", [[1.0]]), dtype=float)
    if "big" in c:
        M = big_matrix(c["big"]["seed"], c["big"]["n"], c["big"]["r"])
        c = dict(c, M=None)
        if c["kind"] == "numpy":
            L = code.numpy_chol(M, c["thr"])
            push(repro_record(0, M, L, c["thr"], rowmax=True), **{k: c[k] for k in ("routine", "inst", "thr", "rank", "n", "big")})
        else:
            L = code.jax_chol(M, c["cnt"])
            push(repro_record(0, M, L, 0.0, rowmax=True), **{k: c[k] for k in ("routine", "inst", "cnt", "rank", "n", "big")})
    elif c["kind"] == "numpy" and "M" in c:
        L = code.numpy_chol(M, c["thr"])
        push(repro_record(0, M, L, c["thr"]), **{k: c[k] for k in ("routine", "inst", "thr", "rank", "n")}, M=c["M"])
    elif c["kind"] == "jax":
        L = code.jax_chol(M, c["cnt"])
        push(repro_record(0, M, L, 0.0), **{k: c[k] for k in ("routine", "inst", "cnt", "rank", "n")}, M=c["M"])
    elif c["kind"] == "chunked" or c["kind"] == "numpy":
        chk.tier = "thorough"
        chunked_records(chk, code, push)
    else:
        raise MachineryError(f"replay of kind {c['kind']} not supported; rerun the check with VERIF_SEED={case['seed']}")
    report(chk, recs, info, chol.judge(chk, recs, "replay"))
