"""Exact-instance protocol for C10 (spec/CPMC.tla): seeded instance generation, TLC evaluation,
reading TLC's exact rationals back.  Python here only draws inputs and converts numbers; every
property-level predicate about the model is decided by TLC (invariants of CPMC.tla), and every
exact reference value the library is compared with is one TLC wrote."""
from __future__ import annotations

import json
from fractions import Fraction
from pathlib import Path

import numpy as np

from .core import Check, MachineryError

INVARIANTS = ("InvOverlap", "InvGreen", "InvTrace", "InvRatio", "InvProb", "InvPair", "InvSum")

# HS pairs (p, q) with p + q = 2:  e^{-dt U} = p q
HS_PAIRS = [(Fraction(3, 2), Fraction(1, 2)), (Fraction(5, 4), Fraction(3, 4)),
            (Fraction(4, 3), Fraction(2, 3)), (Fraction(7, 4), Fraction(1, 4))]
# update constants (cP, cQ) for the arbitrary-pair theorem; the first two are the HS constants of (3/2, 1/2)
CSET = [(Fraction(1, 2), Fraction(-1, 2)), (Fraction(-1, 2), Fraction(1, 2)), (Fraction(2), Fraction(-1, 3)),
        (Fraction(-1), Fraction(1, 2)), (Fraction(-3, 2), Fraction(1))]


def rq(x):
    f = Fraction(x)
    return [f.numerator, f.denominator]


def rmat(A):
    return [[rq(int(x)) if not isinstance(x, Fraction) else rq(x) for x in row] for row in A]


def fr(pair):
    """TLC rational -> Fraction (None for the overflow sentinel)"""
    if pair[1] == 0:
        return None
    return Fraction(pair[0], pair[1])


def fmat(M):
    return [[fr(x) for x in row] for row in M]


def to_float(M):
    return np.array([[float(x) for x in row] for row in M], dtype=float)


def idet(A):
    """exact determinant of an integer matrix"""
    A = [[Fraction(int(x)) for x in row] for row in A]
    n = len(A)
    d = Fraction(1)
    for i in range(n):
        piv = next((r for r in range(i, n) if A[r][i] != 0), None)
        if piv is None:
            return 0
        if piv != i:
            A[i], A[piv] = A[piv], A[i]
            d = -d
        d *= A[i][i]
        for r in range(i + 1, n):
            f = A[r][i] / A[i][i]
            for c in range(i, n):
                A[r][c] -= f * A[i][c]
    return d


# ----------------------------------------------------------------------------- lattices
def lattice_of(n, rng=None, which=None):
    """(json record, adjacency from the LIBRARY's lattice classes)"""
    from ad_afqmc import lattices
    if n == 4 and (which == "grid" or (which is None and rng is not None and rng.random() < 0.5)):
        lat = lattices.two_dimensional_grid(2, 2)
        return {"kind": "grid", "lx": 2, "ly": 2}, np.asarray(lat.create_adjacency_matrix()).astype(int), lat
    lat = lattices.one_dimensional_chain(n)
    return {"kind": "chain", "lx": n, "ly": 1}, np.asarray(lat.create_adjacency_matrix()).astype(int), lat


# ----------------------------------------------------------------------------- instances
UNIFORM_COLS = {
    2: [[1, 1], [1, -1]],
    4: [[1, 1, 1, 1], [1, -1, 1, -1], [1, 1, -1, -1], [1, -1, -1, 1]],
    3: [[1, 1, 1]],
}


def gen_trial(rng, kind, n, nu, nd, uniform):
    """integer trial as a 2n x N matrix (UHF: block diagonal).  uniform: equal density on every site."""
    N = nu + nd
    for _ in range(200):
        C = np.zeros((2 * n, N), dtype=int)
        if kind == "uhf":
            if uniform and n in UNIFORM_COLS and max(nu, nd) <= len(UNIFORM_COLS[n]):
                cols = np.array(UNIFORM_COLS[n]).T
                C[:n, :nu] = cols[:, rng.permutation(cols.shape[1])[:nu]]
                C[n:, nu:] = cols[:, rng.permutation(cols.shape[1])[:nd]]
            else:
                uniform = False
                C[:n, :nu] = rng.integers(-1, 3, size=(n, nu))
                C[n:, nu:] = rng.integers(-1, 3, size=(n, nd))
            if idet(C[:n, :nu].T @ C[:n, :nu]) == 0 or idet(C[n:, nu:].T @ C[n:, nu:]) == 0:
                continue
        else:
            uniform = False
            C = rng.integers(-1, 3, size=(2 * n, N))
            if idet(C.T @ C) == 0:
                continue
            if not (np.any(C[:n, :] != 0) and np.any(C[n:, :] != 0)):
                continue
        return C, uniform
    raise MachineryError("could not draw a full-rank trial")


def gen_instance(iid, rng, n, nu, nd, kind, *, uniform=False, pairs=True, spin_m=False, lattice=None,
                 positive=False):
    N = nu + nd
    lat, adj, _ = lattice_of(n, rng, lattice)
    for _ in range(500):
        C, uni = gen_trial(rng, kind, n, nu, nd, uniform)
        lo = 0 if positive else -2
        wu = rng.integers(lo, 3, size=(n, nu))
        wd = rng.integers(lo, 3, size=(n, nd))
        Wg = np.zeros((2 * n, N), dtype=int)
        Wg[:n, :nu], Wg[n:, nu:] = wu, wd
        if idet(C.T @ Wg) == 0:
            continue
        # half step: a*I + b*adjacency (a first-order image of expm(-dt K/2), K = -t adjacency) or random
        if rng.random() < 0.7:
            a, b = [(2, 1), (3, 1), (1, 1), (3, 2)][int(rng.integers(0, 4))]
            mu = a * np.eye(n, dtype=int) + b * adj
        else:
            mu = rng.integers(-1, 3, size=(n, n))
        md = mu.copy()
        if spin_m:
            md = rng.integers(-1, 3, size=(n, n))
        if idet(mu) == 0 or idet(md) == 0:
            continue
        p, q = HS_PAIRS[int(rng.integers(0, len(HS_PAIRS)))]
        w0 = [Fraction(1), Fraction(1), Fraction(1, 2), Fraction(3, 4), Fraction(2)][int(rng.integers(0, 5))]
        js = {"id": iid, "n": n, "nu": nu, "nd": nd, "c": rmat(C), "wu": rmat(wu), "wd": rmat(wd), "w0": rq(w0),
              "mu": rmat(mu), "md": rmat(md), "hs": [rq(p), rq(q)], "cset": [[rq(a), rq(b)] for a, b in CSET],
              "pairs": bool(pairs), "lat": lat, "adj": adj.tolist()}
        return {"id": iid, "n": n, "nu": nu, "nd": nd, "kind": kind, "uniform": uni, "C": C, "wu": wu, "wd": wd,
                "mu": mu, "md": md, "p": p, "q": q, "w0": w0, "lat": lat, "adj": adj, "pairs": bool(pairs),
                "json": js}
    raise MachineryError("could not draw an instance with non-zero overlap")


# ----------------------------------------------------------------------------- TLC
def cfg_text(design, invariants=INVARIANTS, extra=()):
    lines = ["SPECIFICATION Spec", f"CONSTANT Design = {'TRUE' if design else 'FALSE'}",
             f"CONSTANT Emit = {'FALSE' if design else 'TRUE'}", "CHECK_DEADLOCK FALSE"]
    lines += [f"INVARIANT {i}" for i in invariants]
    lines += [f"INVARIANT {i}" for i in extra]
    return "\n".join(lines) + "\n"


def tlc_eval(chk: Check, insts, name, timeout=1700):
    """run the state machine of CPMC.tla over the instances; returns {id: {"init":..,"half1":..,"sum":..,
    "leaves": {code: rec}, "dead": [...], "pairs": {(P,Q): rec}}}.  An invariant violation is a defect of the
    reference model: MachineryError."""
    wd = chk.scratch(f"cpmc-{name}")
    inp, out = wd / "inst.ndjson", wd / "out"
    out.mkdir(exist_ok=True)
    with inp.open("w") as f:
        for I in insts:
            f.write(json.dumps(I["json"]) + "\n")
    r = chk.tlc("CPMC", cfg_text(False), env={"CPMC_INST": str(inp), "CPMC_OUT": str(out)}, name=f"CPMC-{name}",
                timeout=timeout)
    if r.violated:
        raise MachineryError(f"reference model CPMC.tla violates its own theorem {r.violated_name} on the "
                             f"{name} instances:\n" + "\n".join(r.stdout.splitlines()[-60:]))
    return read_out(out, insts), r


def read_out(out: Path, insts):
    res = {I["id"]: {"leaves": {}, "dead": [], "pairs": {}} for I in insts}
    for p in out.iterdir():
        iid, tag = p.stem.split("_", 1)
        rec = json.loads(p.read_text().splitlines()[0])
        R = res[int(iid)]
        if tag.startswith("leaf_"):
            R["leaves"][int(tag[5:])] = rec
        elif tag.startswith("dead_"):
            R["dead"].append(rec)
        elif tag.startswith("pair_"):
            _, P, Q = tag.split("_")
            R["pairs"][(int(P), int(Q))] = rec
        else:
            R[tag] = rec
    for I in insts:
        if "init" not in res[I["id"]]:
            raise MachineryError(f"TLC wrote no result for instance {I['id']}")
    return res
