"""Exact-instance protocol for C10 (spec/CPMC.tla): seeded instance generation, TLC evaluation,
reading TLC's exact rationals back.  Python here only draws inputs and converts numbers; every
property-level predicate about the model is decided by TLC (invariants of CPMC.tla), and every
exact reference value the library is compared with is one TLC wrote."""
from __future__ import annotations

import json
from fractions import Fraction
from pathlib import Path

import numpy as np

from .core import Check, MachineryError

INVARIANTS = ("InvOverlap", "InvGreen", "InvTrace", "InvRatio", "InvProb", "InvPair", "InvSum")

# HS pairs (p, q) with p + q = 2:  e^{-dt U} = p q
HS_PAIRS = [(Fraction(3, 2), Fraction(1, 2)), (Fraction(5, 4), Fraction(3, 4)),
            (Fraction(4, 3), Fraction(2, 3)), (Fraction(7, 4), Fraction(1, 4))]
# update constants (cP, cQ) for the arbitrary-pair theorem; the first two are the HS constants of (3/2, 1/2)
CSET = [(Fraction(1, 2), Fraction(-1, 2)), (Fraction(-1, 2), Fraction(1, 2)), (Fraction(2), Fraction(-1, 3)),
        (Fraction(-1), Fraction(1, 2)), (Fraction(-3, 2), Fraction(1))]


def rq(x):
    f = Fraction(x)
    return [f.numerator, f.denominator]


def rmat(A):
    return [[rq(int(x)) if not isinstance(x, Fraction) else rq(x) for x in row] for row in A]


def fr(pair):
    """TLC rational -> Fraction (None for the overflow sentinel)"""
    if pair[1] == 0:
        return None
    return Fraction(pair[0], pair[1])


def fmat(M):
    return [[fr(x) for x in row] for row in M]


def to_float(M):
    return np.array([[float(x) for x in row] for row in M], dtype=float)


def idet(A):
    """exact determinant of an integer matrix"""
    A = [[Fraction(int(x)) for x in row] for row in A]
    n = len(A)
    d = Fraction(1)
    for i in range(n):
        piv = next((r for r in range(i, n) if A[r][i] != 0), None)
        if piv is None:
            return 0
        if piv != i:
            A[i], A[piv] = A[piv], A[i]
            d = -d
        d *= A[i][i]
        for r in range(i + 1, n):
            f = A[r][i] / A[i][i]
            for c in range(i, n):
                A[r][c] -= f * A[i][c]
    return d


# ----------------------------------------------------------------------------- lattices
def lattice_of(n, rng=None, which=None):
    """(json record, adjacency from the LIBRARY's lattice classes)"""
    from ad_afqmc import lattices
    if n == 4 and (which == "grid" or (which is None and rng is not None and rng.random() < 0.5)):
        lat = lattices.two_dimensional_grid(2, 2)
        return {"kind": "grid", "lx": 2, "ly": 2}, np.asarray(lat.create_adjacency_matrix()).astype(int), lat
    lat = lattices.one_dimensional_chain(n)
    return {"kind": "chain", "lx": n, "ly": 1}, np.asarray(lat.create_adjacency_matrix()).astype(int), lat


# ----------------------------------------------------------------------------- instances
UNIFORM_COLS = {
    2: [[1, 1], [1, -1]],
    4: [[1, 1, 1, 1], [1, -1, 1, -1], [1, 1, -1, -1], [1, -1, -1, 1]],
    3: [[1, 1, 1]],
}


def gen_trial(rng, kind, n, nu, nd, uniform, hi=3):
    """integer trial as a 2n x N matrix (UHF: block diagonal; GHF: a block-diagonal part plus spin-mixing entries).
    uniform: equal density on every site (UHF only, where integer plane-wave-like columns exist)."""
    N = nu + nd
    for _ in range(400):
        C = np.zeros((2 * n, N), dtype=int)
        uni = bool(uniform and n in UNIFORM_COLS and max(nu, nd) <= len(UNIFORM_COLS[n]))
        if uni:
            cols = np.array(UNIFORM_COLS[n]).T
            C[:n, :nu] = cols[:, rng.permutation(cols.shape[1])[:nu]]
            C[n:, nu:] = cols[:, rng.permutation(cols.shape[1])[:nd]]
        else:
            C[:n, :nu] = rng.integers(-1, hi, size=(n, nu))
            C[n:, nu:] = rng.integers(-1, hi, size=(n, nd))
        if idet(C[:n, :nu].T @ C[:n, :nu]) == 0 or idet(C[n:, nu:].T @ C[n:, nu:]) == 0:
            continue
        if kind == "ghf":
            uni = False
            k = int(rng.integers(1, 4))
            for _k in range(k):             # spin-mixing entries: up components of a "down" orbital and vice versa
                if rng.random() < 0.5:
                    C[int(rng.integers(0, n)), nu + int(rng.integers(0, nd))] += int(rng.choice([-1, 1]))
                else:
                    C[n + int(rng.integers(0, n)), int(rng.integers(0, nu))] += int(rng.choice([-1, 1]))
            if rng.random() < 0.3:          # fully generic GHF now and then
                C = rng.integers(-1, hi, size=(2 * n, N))
            if idet(C.T @ C) == 0 or not (np.any(C[:n, nu:] != 0) or np.any(C[n:, :nu] != 0)):
                continue
        return C, uni
    raise MachineryError("could not draw a full-rank trial")


def fdet(A):
    """exact determinant of a square matrix of Fractions"""
    A = [list(r) for r in A]
    n = len(A)
    d = Fraction(1)
    for i in range(n):
        piv = next((r for r in range(i, n) if A[r][i] != 0), None)
        if piv is None:
            return Fraction(0)
        if piv != i:
            A[i], A[piv] = A[piv], A[i]
            d = -d
        d *= A[i][i]
        for r in range(i + 1, n):
            f = A[r][i] / A[i][i]
            if f:
                for c in range(i, n):
                    A[r][c] -= f * A[i][c]
    return d


def scout_tree(C, wu, wd, mu, md, p, q, w0):
    """walk over all field paths with Python Fractions (slow-propagator style, determinants only).  Used ONLY
    to steer instance selection (unconstrained vs constrained mix; numbers small enough for TLC's 32-bit
    rationals); it judges nothing - whether an instance is unconstrained / overflows is reported by TLC.
    returns (smallest candidate ratio or half-step overlap ratio, largest weight, largest |numerator| or
    denominator among weights, overlaps and branch probabilities, number of reachable states at which both
    field values are rejected)"""
    n, nu = len(wu), len(wu[0])
    nd = len(wd[0])
    N = nu + nd
    F = Fraction
    Cf = [[F(int(x)) for x in row] for row in C]

    def mm(M, W):
        return [[sum(F(int(M[i][k])) * W[k][j] for k in range(n)) for j in range(len(W[0]))] for i in range(n)]

    def ov(a, b):
        O = [[sum(Cf[P][bb] * (a[P][aa] if aa < nu else 0) for P in range(n)) +
              sum(Cf[n + P][bb] * (b[P][aa - nu] if aa >= nu else 0) for P in range(n))
              for aa in range(N)] for bb in range(N)]
        return fdet(O)
    big = [1]

    def see(*xs):
        for x in xs:
            big[0] = max(big[0], abs(x.numerator), x.denominator)
    hs = [(p, q), (q, p)]
    a0 = [[F(int(x)) for x in row] for row in wu]
    b0 = [[F(int(x)) for x in row] for row in wd]
    o0 = ov(a0, b0)
    a, b = mm(mu, a0), mm(md, b0)
    o1 = ov(a, b)
    if o0 == 0 or o1 == 0:
        return F(-1), F(0), 1 << 40, 0
    ndead = 0
    lo = o1 / o0
    wmax = F(0)
    w1 = w0 * lo
    see(o0, o1, w1)
    stack = [(a, b, o1, w1, 0)]
    while stack:
        a, b, o, w, k = stack.pop()
        if k == n:
            o2 = ov(mm(mu, a), mm(md, b))
            r = o2 / o
            lo = min(lo, r)
            wmax = max(wmax, abs(w * r))
            see(o2, w * r)
            continue
        rs, nxt = [], []
        for x in (0, 1):
            a2 = [list(r) for r in a]
            b2 = [list(r) for r in b]
            a2[k] = [hs[x][0] * v for v in a2[k]]
            b2[k] = [hs[x][1] * v for v in b2[k]]
            o2 = ov(a2, b2)
            rs.append(o2 / o)
            nxt.append((a2, b2, o2))
        lo = min(lo, rs[0], rs[1])
        tot = max(rs[0], F(0)) + max(rs[1], F(0))
        if tot == 0 and w > 0:
            ndead += 1
        for x in (0, 1):
            if rs[x] > 0:
                see(nxt[x][2], w * tot / 2, rs[x] / tot)
                stack.append((nxt[x][0], nxt[x][1], nxt[x][2], w * tot / 2, k + 1))
    return lo, wmax, big[0], ndead


def half_mats(n, adj, heavy):
    """integer stand-ins for expm(-dt K/2) with small entries (TLC's rationals are 32 bit).
    n <= 3: a*I + b*adjacency (first-order image of expm(-dt K/2), K = -t*adjacency) and T = tridiag(1,2,1) with
    the last diagonal entry 1 (positive definite, determinant 1); n = 4: T and its mirror image; n = 4 with four
    electrons (heavy): determinant-1 matrices with eigenvalues near 1 - a NON-symmetric shear (which also tells
    exp_h1 from its transpose) and a bond-pair block matrix - so that overlaps stay below ~10^6."""
    T = 2 * np.eye(n, dtype=int) + np.eye(n, k=1, dtype=int) + np.eye(n, k=-1, dtype=int)
    T[n - 1, n - 1] = 1
    if heavy:
        S = np.eye(n, dtype=int)
        S[0, 1], S[3, 2], S[1, 2] = 1, 1, -1
        B = np.eye(n, dtype=int)
        B[0, 1] = B[1, 0] = B[2, 3] = B[3, 2] = 1
        B[1, 1] = B[2, 2] = 2
        return [S, S.T.copy(), B]
    out = [T, T[::-1, ::-1].copy()]
    if n <= 3:
        S = np.eye(n, dtype=int)
        S[0, 1] = 1
        S[n - 1, 0] = -1 if n == 3 else 1
        out.append(S)
        for a, b in ((2, 1), (3, 1)):
            M = a * np.eye(n, dtype=int) + b * adj
            if idet(M) != 0:
                out.append(M)
    return out


def gen_instance(iid, rng, n, nu, nd, kind, *, uniform=False, pairs=True, spin_m=False, lattice=None,
                 want="free"):
    """one exact instance.  want: steer (by scout_tree) towards an instance on which no constraint is active on
    any field path ("free"), on which one is ("constrained"), or on which some reachable state rejects both
    field values ("dead").  What the instance really is, is decided by TLC (sum.allfree, dead states)."""
    want_free = want == "free"
    tries = 400 if want != "dead" else 4000
    N = nu + nd
    heavy = n >= 4 and N >= 4
    lat, adj, _ = lattice_of(n, rng, lattice)
    best = None
    for attempt in range(tries):
        C, uni = gen_trial(rng, kind, n, nu, nd, uniform, hi=2 if heavy else 3)
        if want_free:
            # a walker near the block part of the trial: positive overlaps, like a walker late in a CPMC run
            wu = C[:n, :nu] + (rng.random((n, nu)) < 0.25) * rng.integers(-1, 2, size=(n, nu))
            wd = C[n:, nu:] + (rng.random((n, nd)) < 0.25) * rng.integers(-1, 2, size=(n, nd))
        else:
            wu = rng.integers(-2, 3, size=(n, nu))
            wd = rng.integers(-2, 3, size=(n, nd))
        Wg = np.zeros((2 * n, N), dtype=int)
        Wg[:n, :nu], Wg[n:, nu:] = wu, wd
        if idet(C.T @ Wg) == 0:
            continue
        # half step: a small positive definite integer matrix, or (constrained instances) any invertible one
        hm = half_mats(n, adj, heavy)
        if want_free or rng.random() < 0.6:
            mu = hm[int(rng.integers(0, len(hm)))]
        else:
            mu = rng.integers(-1, 3, size=(n, n))
        md = mu.copy()
        if spin_m:
            md = hm[int(rng.integers(0, len(hm)))]
            if not want_free and rng.random() < 0.5:
                md = rng.integers(-1, 3, size=(n, n))
        if idet(mu) == 0 or idet(md) == 0:
            continue
        p, q = HS_PAIRS[int(rng.integers(0, 1 if heavy else len(HS_PAIRS)))]
        w0c = [Fraction(1), Fraction(1, 2), Fraction(3, 4), Fraction(2), Fraction(1, 10), Fraction(1, 50)]
        w0 = w0c[int(rng.integers(0, 1 if heavy else 4))]
        lo, wmax, big, ndead = scout_tree(C, wu, wd, mu, md, p, q, w0)
        free = lo > Fraction(1, 1000)
        # initial weight: keep the final weight well below the cap of 100 on free instances
        if want_free and wmax > 50:
            ok = [w for w in w0c if wmax / w0 * w <= 50]
            if not ok:
                continue
            w0 = ok[0]
            lo, wmax, big, ndead = scout_tree(C, wu, wd, mu, md, p, q, w0)
        wanted = not (free != bool(want_free) or (want_free and big >= 1 << 28)
                      or (want == "dead" and (ndead == 0 or big >= 1 << 28)))
        if not wanted and (best is not None or attempt < tries - 1):
            if best is not None or attempt % 20:
                continue            # keep an occasional fallback candidate in case the wanted kind never shows up
        js = {"id": iid, "n": n, "nu": nu, "nd": nd, "c": rmat(C), "wu": rmat(wu), "wd": rmat(wd), "w0": rq(w0),
              "mu": rmat(mu), "md": rmat(md), "hs": [rq(p), rq(q)], "cset": [[rq(a), rq(b)] for a, b in CSET],
              "pairs": bool(pairs), "lat": lat, "adj": adj.tolist()}
        best = {"id": iid, "n": n, "nu": nu, "nd": nd, "kind": kind, "uniform": uni, "C": C, "wu": wu, "wd": wd,
                "mu": mu, "md": md, "p": p, "q": q, "w0": w0, "lat": lat, "adj": adj, "pairs": bool(pairs),
                "want": want, "json": js}
        if wanted:
            return best
    if best is not None:
        return best
    raise MachineryError("could not draw an instance with non-zero overlap")


# ----------------------------------------------------------------------------- TLC
def cfg_text(design, invariants=INVARIANTS, extra=(), big=False):
    lines = ["SPECIFICATION Spec", f"CONSTANT Design = {'TRUE' if design else 'FALSE'}",
             f"CONSTANT DesignBig = {'TRUE' if big else 'FALSE'}",
             f"CONSTANT Emit = {'FALSE' if design else 'TRUE'}", "CHECK_DEADLOCK FALSE"]
    lines += [f"INVARIANT {i}" for i in invariants]
    lines += [f"INVARIANT {i}" for i in extra]
    return "\n".join(lines) + "\n"


def tlc_eval(chk: Check, insts, name, timeout=1700):
    """run the state machine of CPMC.tla over the instances; returns {id: {"init":..,"half1":..,"sum":..,
    "leaves": {code: rec}, "dead": [...], "pairs": {(P,Q): rec}}}.  An invariant violation is a defect of the
    reference model: MachineryError."""
    wd = chk.scratch(f"cpmc-{name}")
    inp, out = wd / "inst.ndjson", wd / "out"
    out.mkdir(exist_ok=True)
    with inp.open("w") as f:
        for I in insts:
            f.write(json.dumps(I["json"]) + "\n")
    r = chk.tlc("CPMC", cfg_text(False), env={"CPMC_INST": str(inp), "CPMC_OUT": str(out)}, name=f"CPMC-{name}",
                timeout=timeout)
    if r.violated:
        raise MachineryError(f"reference model CPMC.tla violates its own theorem {r.violated_name} on the "
                             f"{name} instances:\n" + "\n".join(r.stdout.splitlines()[-60:]))
    return read_out(out, insts), r


def read_out(out: Path, insts):
    res = {I["id"]: {"leaves": {}, "dead": [], "pairs": {}} for I in insts}
    for p in out.iterdir():
        iid, tag = p.stem.split("_", 1)
        rec = json.loads(p.read_text().splitlines()[0])
        R = res[int(iid)]
        if tag.startswith("leaf_"):
            R["leaves"][int(tag[5:])] = rec
        elif tag.startswith("dead_"):
            R["dead"].append(rec)
        elif tag.startswith("pair_"):
            _, P, Q = tag.split("_")
            R["pairs"][(int(P), int(Q))] = rec
        else:
            R[tag] = rec
    for I in insts:
        if "init" not in res[I["id"]]:
            raise MachineryError(f"TLC wrote no result for instance {I['id']}")
    return res
