"""What driver.afqmc reports - spec/Report.tla bound to the real driver in both directions.

spec -> code (scripted): the harness fixes what every rank's sampler call returns in every block (small integers,
    non-finite observables included); spec/ReportOracle.tla runs Report.tla on that input and writes its terminal
    states; the REAL driver.afqmc runs on thread ranks with a scripted sampler returning the same values; the files it
    writes (every samples_raw.dat dump, samples.dat, rdm1_afqmc.npz), the numbers it returns and prints must be those of
    a terminal state of the specification.
code -> spec (recorded): real runs (real sampler) with rank 0's calls recorded are replayed by spec/ReportTrace.tla.
"""
from __future__ import annotations

import contextlib
import io
import json
import os
import re
import threading
from fractions import Fraction
from unittest import mock

import numpy as np

from . import proxies, runlevel
from .core import Check, MachineryError
from .threadcomm import CommError, FakeMPI, ThreadWorld, run_ranks

NAN = -999
# clauses of Report.tla that restate the property the check is registered for (C19: reported mean / error bar follow
# their statistical definitions on the rows that the 10-MAD rule keeps); the others (rank order of the table, dump
# schedule, large-deviation count, density-matrix average) are specification beyond the listed properties
PROPERTY_CLAUSES = {"ReportedMean", "ReportedError", "CleanIsSelection", "DriverRuns"}
DESIGN_INVS = ("RankOrdered", "NoNaNReported", "TwoRdmObservableIsTrial", "RawIsWholeBlocks", "RawComplete", "RawFresh",
               "DumpSchedule", "CleanIsSelection", "ReportedMean", "LargeDeviationsCounted", "RdmFromKeptRowsOnly")
CFG = """SPECIFICATION {spec}
CONSTANTS
  NRanks = {R}
  NBlk = {nblk}
  AdMode = "{ad}"
  WVals = {wv}
  EVals = {ev}
  OVals = {ov}
  NormVals = {nv}
  TrialObs = {tobs}
  TrialNorm = {tnrm}
  NoObsVal = {noobs}
  Mutation = "{mut}"
"""


def design(chk: Check):
    """TLC: Report.tla satisfies its properties for every outcome of every rank in every block (small constants), and
    every named wrong bookkeeping violates one of them"""
    big = chk.tier == "thorough"
    runs = [dict(R=2, nblk=2, ad="forward", wv="{1, 2}", ev="{0, 1, 30}", ov="{0, 40}", nv="{0}"),
            dict(R=1, nblk=4, ad="none", wv="{1, 2}", ev="{0, 1, 30}", ov="{0}", nv="{0}"),
            dict(R=2, nblk=2, ad="reverse", wv="{1}", ev="{0, 1}", ov="{0, 3}", nv="{5, 90}"),
            dict(R=2, nblk=25, ad="none", wv="{1}", ev="{0}", ov="{0}", nv="{0}", noest=True)]
    if big:
        runs += [dict(R=3, nblk=2, ad="forward", wv="{1, 2}", ev="{0, 1, 30}", ov="{0, 40}", nv="{0}"),
                 dict(R=2, nblk=2, ad="2rdm", wv="{1, 2}", ev="{0, 1}", ov="{0}", nv="{5, 90}"),
                 dict(R=1, nblk=5, ad="none", wv="{1, 2}", ev="{0, 1, 30}", ov="{0}", nv="{0}")]
    out = []
    for k, c in enumerate(runs):
        cfg = CFG.format(spec="Spec", tobs=1, tnrm=2, noobs=0, mut="none", **{x: c[x] for x in ("R", "nblk", "ad", "wv", "ev", "ov", "nv")})
        cfg += "".join(f"INVARIANT {i}\n" for i in DESIGN_INVS + (() if c.get("noest") else ("EstimateTracksBlocks",)))
        cfg += "PROPERTY AppendOnly\nPROPERTY Terminates\n"
        r = chk.tlc("Report", cfg, name=f"Report-design-{k}", timeout=2400)
        if r.violated:
            raise MachineryError(f"Report.tla violates its own property {r.violated_name} ({c})")
        out.append(r.states)
    muts = {"reversed_rank_order": "RankOrdered", "dump_one_block_short": "RawFresh",
            "always_energy_column": "CleanIsSelection", "report_unfiltered": "ReportedMean"}
    c = runs[0]
    for m, inv in muts.items():
        cfg = CFG.format(spec="Spec", tobs=1, tnrm=2, noobs=0, mut=m, **{x: c[x] for x in ("R", "nblk", "ad", "wv", "ev", "ov", "nv")})
        cfg += "".join(f"INVARIANT {i}\n" for i in DESIGN_INVS)
        r = chk.tlc("Report", cfg, name=f"Report-mut-{m}", timeout=1200, expect_violation=True, count=False)
        if not r.violated or r.violated_name != inv:
            raise MachineryError(f"Report.tla with Mutation={m} should violate {inv}, TLC says {r.violated_name}")
    chk.note("report_design_states", out)
    chk.note("report_design_mutations_rejected", sorted(muts))


# ----------------------------------------------------------------------------------------- spec -> code
def oracle(chk: Check, req, name):
    """terminal states of Report.tla on the scripted input"""
    wd = chk.scratch(f"report-{name}")
    (wd / "out").mkdir(exist_ok=True)
    (wd / "req.json").write_text(json.dumps({"raw": req["raw"]}) + "\n")
    cfg = CFG.format(spec="OSpec", R=req["R"], nblk=req["nblk"], ad=req["ad"], wv="{0}", ev="{0}", ov="{0}", nv="{0}",
                     tobs=req["trial_obs"], tnrm=req["trial_norm"], noobs=0, mut="none")
    cfg += "".join(f"INVARIANT {i}\n" for i in DESIGN_INVS + (("EstimateTracksBlocks",) if req["nblk"] <= 6 else ()))
    cfg += "CHECK_DEADLOCK FALSE\n"
    r = chk.tlc("ReportOracle", cfg, env={"REPORT_REQ": str(wd / "req.json"), "REPORT_OUT": str(wd / "out")}, workers=1,
                name=f"ReportOracle-{name}", timeout=600)
    if r.violated:
        raise MachineryError(f"Report.tla violates {r.violated_name} on scripted input {req}")
    states = [json.loads(p.read_text().splitlines()[0]) for p in sorted((wd / "out").glob("*.json"))]
    if not states:
        raise MachineryError("ReportOracle wrote no terminal state:\n" + r.stdout[-1200:])
    return states


def small_system(seed, n_walkers=4):
    """4 orbitals, (2,2) electrons, uhf trial in its own MO basis: trial rdm1 = diag(1,1,0,0) per spin, so the trial's
    observable for the operator |0><0| (spin up) is exactly 1 and the norm of its rdm1 exactly 2"""
    import jax.numpy as jnp
    sysd = runlevel.make_system(np.random.default_rng(seed), norb=4, nelec=(2, 2), nchol=2, trial_kind="uhf", walker_type="uhf",
                                n_walkers=n_walkers, dt=0.01, proxied=False)
    eye = np.eye(4)
    sysd["wave_data"]["mo_coeff"] = [jnp.array(eye[:, :2]), jnp.array(eye[:, :2])]
    sysd["wave_data"]["rdm1"] = jnp.array([np.diag([1.0, 1, 0, 0])] * 2)
    return sysd


def scripted_sampler(script, n_blocks, ad, n_walkers):
    """a sampler whose entry points return the scripted (energy, observable / rdm sample, total weight) of block k"""
    import jax
    import jax.numpy as jnp
    from ad_afqmc import sampling

    class Scripted(sampling.sampler):
        def _out(self, prop_data, extra):
            k = self._k
            self._k += 1
            w, e, o, nrm = self._script[k]
            pd = dict(prop_data)
            pd["weights"] = jnp.full(n_walkers, float(w) / n_walkers)
            return float(e) + extra(o, nrm), pd

        def propagate_phaseless(self, ham, ham_data, prop, prop_data, trial, wave_data):
            self._est_in.append(float(prop_data["e_estimate"]))
            return self._out(prop_data, lambda o, nrm: 0.0)

        def _ad(self, ham, ham_data, coupling, op, prop, prop_data, trial, wave_data):
            def extra(o, nrm):
                if ad == "forward":      # d/d coupling = o; a non-finite derivative with a finite primal: sqrt at 0
                    return coupling * float(o) if o != NAN else jnp.sqrt(coupling)
                z = op - jax.lax.stop_gradient(op)              # zero, with unit cotangent
                if ad == "reverse":
                    if o == NAN:
                        return jnp.sqrt(z[0, 0, 0])
                    D = np.zeros(op.shape)
                    D[0, 0, 0] = float(o)
                    D[0, 1, 1] = float(np.sqrt(max(float(nrm) ** 2 - float(o) ** 2, 0.0)))
                    return jnp.sum(z * jnp.array(D))
                if nrm == NAN:
                    return jnp.sqrt(z[0, 0, 0, 0])
                D = np.zeros(op.shape)
                D[0, 0, 0, 0] = float(nrm)
                return jnp.sum(z * jnp.array(D))
            return self._out(prop_data, extra)

        propagate_phaseless_ad = propagate_phaseless_ad_norot = propagate_phaseless_ad_nosr = _ad
        propagate_phaseless_ad_nosr_norot = propagate_phaseless_ad_1 = _ad

    s = Scripted(n_prop_steps=1, n_ene_blocks=1, n_sr_blocks=1, n_blocks=n_blocks)
    s._script, s._k, s._est_in = script, 0, []
    return s


def run_scripted(chk: Check, req, name, seed=0, timeout=300.0):
    """the real driver.afqmc on req['R'] thread ranks with the scripted samplers; returns what it wrote / returned"""
    from ad_afqmc import driver
    R, nblk, ad = req["R"], req["nblk"], req["ad"]
    nw = 4
    world = ThreadWorld(R, eager=False, timeout=timeout)
    systems = [small_system(9100 + seed, nw) for _ in range(R)]
    samplers = [scripted_sampler([req["raw"][b][r] for b in range(nblk)], nblk, ad, nw) for r in range(R)]
    options = runlevel.default_options(seed=5 + seed, n_eql=0, ad_mode=None if ad == "none" else ad)
    observable = None
    if ad in ("forward", "reverse"):
        op = np.zeros((2, 4, 4))
        op[0, 0, 0] = 1.0
        observable = (op, 0.0)
    saves = []
    orig = np.savetxt

    def rec_savetxt(fname, X, *a, **k):
        saves.append((os.path.basename(str(fname)), np.array(X, dtype=float, copy=True)))
        return orig(fname, X, *a, **k)

    def body(comm, r):
        s = systems[r]
        return driver.afqmc(dict(s["ham_data"]), s["ham"], s["prop"], s["trial"], dict(s["wave_data"]), samplers[r], observable,
                            dict(options), FakeMPI(comm))

    d = chk.scratch(name)
    old = os.getcwd()
    os.chdir(d)
    buf = io.StringIO()
    try:
        with contextlib.redirect_stdout(buf), mock.patch.object(np, "savetxt", rec_savetxt), np.errstate(all="ignore"):
            rr = run_ranks(world, body, join_timeout=timeout)
    finally:
        os.chdir(old)
    real = [e for e in rr.errors if e is not None and not isinstance(e, CommError)]
    if not rr.ok and not real:          # only the communicator failed (hang, deadline): the harness, not the driver
        raise MachineryError(f"scripted driver run did not complete: {rr.describe()}")
    out = {"ok": rr.ok, "describe": "; ".join(f"{type(e).__name__}: {str(e)[:200]}" for e in real), "results": rr.results,
           "saves": saves, "stdout": buf.getvalue(),
           "est_in": [s._est_in for s in samplers], "dir": d}
    for f in ("samples_raw.dat", "samples.dat"):
        if (d / f).exists():
            out[f] = np.atleast_2d(np.loadtxt(d / f))
    for f, key in (("rdm1_afqmc.npz", "rdm1"), ("rdm2_afqmc.npz", "rdm2")):
        if (d / f).exists():
            out[f] = np.load(d / f)[key]
    m = re.search(r"Number of large deviations:\s*(-?\d+)", out["stdout"])
    out["large"] = int(m.group(1)) if m else None
    m = re.search(r"Number of outliers in post:\s*(-?\d+)", out["stdout"])
    out["outliers"] = int(m.group(1)) if m else None
    return out


def _q(x):
    return None if (x[1] == 0) else Fraction(int(x[0]), int(x[1]))


def compare_scripted(req, states, obs):
    """-> list of (clause, detail): empty iff what the driver wrote and returned is a terminal state of Report.tla"""
    R, nblk, ad = req["R"], req["nblk"], req["ad"]
    bad = []
    if not obs["ok"]:
        return [("DriverRuns", f"driver.afqmc raised / hung: {obs['describe']}")]
    st0 = states[0]
    table = np.array([[float(x) for x in row[:3]] for row in st0["table"]])
    raw = obs.get("samples_raw.dat")
    if raw is None or raw.shape != table.shape or not np.array_equal(raw, table):
        bad.append(("RankOrdered/RawComplete", f"samples_raw.dat {None if raw is None else raw.tolist()} is not the table "
                    f"{table.tolist()} (rows = blocks x ranks in rank order, observable column with the substitution rule)"))
    # every dump of samples_raw.dat: after blocks st0['dumps'] the filled prefix, then the whole table
    want = [(k + 1) * R for k in st0["dumps"]] + [R * nblk]
    got = [len(np.atleast_2d(a)) for f, a in obs["saves"] if f == "samples_raw.dat"]
    if got != want:
        bad.append(("DumpSchedule", f"samples_raw.dat was written with {got} rows, the specification dumps {want}"))
    else:
        for (f, a), nrow in zip([s for s in obs["saves"] if s[0] == "samples_raw.dat"], want):
            if not np.array_equal(np.atleast_2d(a), table[:nrow]):
                bad.append(("RawIsWholeBlocks", f"a dump of samples_raw.dat with {nrow} rows is not the filled prefix of the table"))
                break
    if obs["large"] != st0["large"]:
        bad.append(("LargeDeviationsCounted", f"printed number of large deviations {obs['large']}, specification {st0['large']}"))
    # the kept rows: one of the terminal states (they differ only in rows exactly on the 10 MAD edge)
    clean = obs.get("samples.dat")
    match = None
    for st in states:
        c = np.array([[float(x) for x in row] for row in st["clean"]]).reshape(-1, 3)
        if clean is not None and clean.shape == c.shape and np.array_equal(clean, c):
            match = st
            break
    if match is None:
        bad.append(("CleanIsSelection", f"samples.dat {None if clean is None else clean.tolist()} is not the selection of the table by "
                    f"10 MAD of the {'observable' if ad in ('forward', 'reverse') else 'energy'} column; specification: "
                    f"{[s['clean'] for s in states]}"))
        return bad
    if obs["outliers"] != len(match["table"]) - len(match["clean"]):
        bad.append(("CleanIsSelection", f"printed number of outliers {obs['outliers']}, specification {len(match['table']) - len(match['clean'])}"))
    from . import stats as st
    e = _q(match["e"])
    errs = [st.big_to_float(x) for x in match["errs"]]
    accept = [0.0 if k == 0 else max(errs[k - 1], errs[k - 2]) ** 0.5 for k in match["accept"]]
    res = obs["results"]
    if any(r != res[0] for r in res):
        bad.append(("AllRanksReturnTheSame", f"ranks returned {res}"))
    ge, gerr = res[0]
    if ge is None or abs(float(ge) - float(e)) > 1e-9 * max(1.0, abs(float(e))):
        bad.append(("ReportedMean", f"returned energy {ge}, weighted mean of the kept rows {float(e)}"))
    if gerr is None or not any(abs(float(gerr) - a) <= 1e-7 * max(1.0, a) for a in accept):
        bad.append(("ReportedError", f"returned error bar {gerr}; the blocking analysis of the kept rows admits {accept} "
                    f"(per-block-size errors {[x ** 0.5 for x in errs]}, 0 where it has no plateau)"))
    if ad == "reverse":
        kept = {tuple(x) for x in match["rdm_kept"]}
        rows = [(row, b, r) for i, row in enumerate(match["table"]) for (b, r) in [(i // R + 1, i % R + 1)] if (b, r) in kept]
        num, den = np.zeros((2, 4, 4)), 0.0
        for row, b, r in rows:
            w, _, o, nrm = req["raw"][b - 1][r - 1]
            D = np.zeros((2, 4, 4))
            if o == NAN:
                D[0], D[1] = np.diag([1.0, 1, 0, 0]), np.diag([1.0, 1, 0, 0])
            else:
                D[0, 0, 0] = o
                D[0, 1, 1] = np.sqrt(max(nrm ** 2 - o ** 2, 0.0))
            num += w * D.astype(np.float32)
            den += w
        got = obs.get("rdm1_afqmc.npz")
        if got is None or den == 0 or np.max(np.abs(got - num / den)) > 1e-5 * max(1.0, np.max(np.abs(num / den))):
            bad.append(("RdmIsWeightedMeanOfKeptSamples", f"rdm1_afqmc.npz is not the weight-average of the density-matrix samples "
                        f"{sorted(kept)} that survive both outlier rejections"))
    return bad


# ----------------------------------------------------------------------------------------- scripted inputs
def scripted_requests(chk: Check):
    rng = np.random.default_rng(9000 + chk.seed)
    big = chk.tier == "thorough"
    reqs = []

    def add(R, nblk, ad, gen):
        raw = [[gen(b, r) for r in range(R)] for b in range(nblk)]
        reqs.append({"id": len(reqs) + 1, "R": R, "nblk": nblk, "ad": ad, "raw": raw, "trial_obs": 1, "trial_norm": 2})

    W = lambda: int(rng.integers(1, 4))
    E = lambda p=0.15: int(rng.choice([40, -35])) if rng.random() < p else int(rng.integers(-3, 4))

    def fwd(b, r):
        u = rng.random()
        o = NAN if u < 0.15 else (int(rng.choice([60, -50])) if u < 0.3 else int(rng.integers(-2, 3)))
        return [W(), E(), o, 0]

    def rev(b, r):
        u = rng.random()
        if u < 0.15:
            return [W(), E(0.05), NAN, 0]
        nrm = 100 if u < 0.3 else 5
        o = int(rng.choice([0, 3, 4])) * (nrm // 5)
        return [W(), E(0.05), o, nrm]

    for R, nblk in ((1, 6), (2, 3), (3, 4), (2, 6)) + (((4, 3), (1, 12), (3, 5)) if big else ()):
        add(R, nblk, "none", lambda b, r: [W(), E(), 0, 0])
        add(R, nblk, "forward", fwd)
        add(R, nblk, "reverse", rev)
    add(2, 25, "none", lambda b, r: [1, int(rng.integers(0, 2)), 0, 0])          # dumps every 2 blocks
    add(1, 31, "forward", lambda b, r: [1, int(rng.integers(0, 2)), int(rng.integers(0, 2)), 0])     # every 3
    if big:
        add(3, 20, "none", lambda b, r: [W(), int(rng.integers(0, 2)), 0, 0])
        add(1, 40, "reverse", lambda b, r: [1, int(rng.integers(0, 2)), int(rng.choice([0, 3, 4])), 5])
    return reqs


def replay_scripted(chk: Check, violation_site="driver.afqmc:report"):
    """run every scripted request through specification and driver; report mismatches through chk.violation"""
    reqs = scripted_requests(chk)
    stats = {"requests": len(reqs), "with_large_deviations": 0, "with_outliers": 0, "edge_branching": 0, "rows": 0}
    for q in reqs:
        states = oracle(chk, q, f"q{q['id']}")
        obs = run_scripted(chk, q, f"scripted-{q['id']}", seed=chk.seed)
        bad = compare_scripted(q, states, obs)
        chk.case(("report-scripted", q["id"]), nontrivial=True)
        chk.traces += 1
        stats["with_large_deviations"] += int(states[0]["large"] > 0)
        stats["with_outliers"] += int(len(states[0]["clean"]) < len(states[0]["table"]))
        stats["edge_branching"] += int(len(states) > 1)
        stats["rows"] += len(states[0]["table"])
        for clause, detail in bad:
            msg = (f"driver.afqmc with scripted block results ({q['R']} rank(s), {q['nblk']} blocks, ad_mode {q['ad']}): "
                   f"{clause}: {detail}")
            if clause in PROPERTY_CLAUSES:
                chk.violation(f"{violation_site}:{clause}:{q['ad']}", msg, {"request": q})
            else:
                chk.divergence(f"{violation_site}:{clause}:{q['ad']}", msg)
        chk.sample({"report_scripted": {"ranks": q["R"], "blocks": q["nblk"], "ad_mode": q["ad"]}, "rows": len(states[0]["table"]),
                    "kept": len(states[0]["clean"]), "large_deviations": states[0]["large"], "dumps_after_blocks": states[0]["dumps"],
                    "returned": [None if x is None else float(x) for x in (obs["results"][0] or (None, None))] if obs["ok"] else None},
                   limit=4)
    chk.note("report_scripted", stats)
    return stats
