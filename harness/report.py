"""What driver.afqmc reports - spec/Report.tla bound to the real driver in both directions.

spec -> code (scripted): the harness fixes what every rank's sampler call returns in every block (small integers,
    non-finite observables included); spec/ReportOracle.tla runs Report.tla on that input and writes its terminal
    states; the REAL driver.afqmc runs on thread ranks with a scripted sampler returning the same values; the files it
    writes (every samples_raw.dat dump, samples.dat, rdm1_afqmc.npz), the numbers it returns and prints must be those of
    a terminal state of the specification.
code -> spec (recorded): real runs (real sampler) with rank 0's calls recorded are replayed by spec/ReportTrace.tla.
"""
from __future__ import annotations

import contextlib
import io
import json
import os
import re
import threading
from fractions import Fraction
from unittest import mock

import numpy as np

from . import proxies, runlevel
from .core import Check, MachineryError
from .threadcomm import CommError, FakeMPI, ThreadWorld, run_ranks

NAN = -999
# clauses of Report.tla that restate the property the check is registered for (C19: reported mean / error bar follow
# their statistical definitions on the rows that the 10-MAD rule keeps); the others (rank order of the table, dump
# schedule, large-deviation count, density-matrix average) are specification beyond the listed properties
PROPERTY_CLAUSES = {"ReportedMean", "ReportedError", "CleanIsSelection", "DriverRuns"}
DESIGN_INVS = ("RankOrdered", "NoNaNReported", "TwoRdmObservableIsTrial", "RawIsWholeBlocks", "RawComplete", "RawFresh",
               "DumpSchedule", "CleanIsSelection", "ReportedMean", "LargeDeviationsCounted", "RdmFromKeptRowsOnly")
CFG = """SPECIFICATION {spec}
CONSTANTS
  NRanks = {R}
  NBlk = {nblk}
  AdMode = "{ad}"
  WVals = {wv}
  EVals = {ev}
  OVals = {ov}
  NormVals = {nv}
  TrialObs = {tobs}
  TrialNorm = {tnrm}
  NoObsVal = {noobs}
  Mutation = "{mut}"
"""


def design(chk: Check):
    """TLC: Report.tla satisfies its properties for every outcome of every rank in every block (small constants), and
    every named wrong bookkeeping violates one of them"""
    big = chk.tier == "thorough"
    runs = [dict(R=2, nblk=2, ad="forward", wv="{1, 2}", ev="{0, 1, 30}", ov="{0, 40}", nv="{0}"),
            dict(R=1, nblk=4, ad="none", wv="{1, 2}", ev="{0, 1, 30}", ov="{0}", nv="{0}"),
            dict(R=2, nblk=2, ad="reverse", wv="{1}", ev="{0, 1}", ov="{0, 3}", nv="{5, 90}"),
            dict(R=2, nblk=25, ad="none", wv="{1}", ev="{0}", ov="{0}", nv="{0}", noest=True)]
    if big:
        runs += [dict(R=3, nblk=2, ad="forward", wv="{1}", ev="{0, 1, 30}", ov="{0}", nv="{0}"),
                 dict(R=2, nblk=2, ad="2rdm", wv="{1, 2}", ev="{0, 1}", ov="{0}", nv="{5, 90}"),
                 dict(R=1, nblk=5, ad="none", wv="{1, 2}", ev="{0, 1, 30}", ov="{0}", nv="{0}")]
    out = []
    for k, c in enumerate(runs):
        cfg = CFG.format(spec="Spec", tobs=1, tnrm=2, noobs=0, mut="none", **{x: c[x] for x in ("R", "nblk", "ad", "wv", "ev", "ov", "nv")})
        cfg += "".join(f"INVARIANT {i}\n" for i in DESIGN_INVS + (() if c.get("noest") else ("EstimateTracksBlocks",)))
        cfg += "PROPERTY AppendOnly\nPROPERTY Terminates\n"
        r = chk.tlc("Report", cfg, name=f"Report-design-{k}", timeout=2400)
        if r.violated:
            raise MachineryError(f"Report.tla violates its own property {r.violated_name} ({c})")
        out.append(r.states)
    muts = {"reversed_rank_order": "RankOrdered", "dump_one_block_short": "RawFresh",
            "always_energy_column": "CleanIsSelection", "report_unfiltered": "ReportedMean"}
    c = runs[0]
    for m, inv in muts.items():
        cfg = CFG.format(spec="Spec", tobs=1, tnrm=2, noobs=0, mut=m, **{x: c[x] for x in ("R", "nblk", "ad", "wv", "ev", "ov", "nv")})
        cfg += "".join(f"INVARIANT {i}\n" for i in DESIGN_INVS)
        r = chk.tlc("Report", cfg, name=f"Report-mut-{m}", timeout=1200, expect_violation=True, count=False)
        if not r.violated or r.violated_name != inv:
            raise MachineryError(f"Report.tla with Mutation={m} should violate {inv}, TLC says {r.violated_name}")
    chk.note("report_design_states", out)
    chk.note("report_design_mutations_rejected", sorted(muts))


# ----------------------------------------------------------------------------------------- spec -> code
def oracle(chk: Check, req, name):
    """terminal states of Report.tla on the scripted input"""
    wd = chk.scratch(f"report-{name}")
    (wd / "out").mkdir(exist_ok=True)
    (wd / "req.json").write_text(json.dumps({"raw": req["raw"]}) + "\n")
    cfg = CFG.format(spec="OSpec", R=req["R"], nblk=req["nblk"], ad=req["ad"], wv="{0}", ev="{0}", ov="{0}", nv="{0}",
                     tobs=req["trial_obs"], tnrm=req["trial_norm"], noobs=0, mut="none")
    cfg += "".join(f"INVARIANT {i}\n" for i in DESIGN_INVS + (("EstimateTracksBlocks",) if req["nblk"] <= 6 else ()))
    cfg += "CHECK_DEADLOCK FALSE\n"
    r = chk.tlc("ReportOracle", cfg, env={"REPORT_REQ": str(wd / "req.json"), "REPORT_OUT": str(wd / "out")}, workers=1,
                name=f"ReportOracle-{name}", timeout=600)
    if r.violated:
        raise MachineryError(f"Report.tla violates {r.violated_name} on scripted input {req}")
    states = [json.loads(p.read_text().splitlines()[0]) for p in sorted((wd / "out").glob("*.json"))]
    if not states:
        raise MachineryError("ReportOracle wrote no terminal state:\n" + r.stdout[-1200:])
    return states


def small_system(seed, n_walkers=4):
    """4 orbitals, (2,2) electrons, uhf trial in its own MO basis: trial rdm1 = diag(1,1,0,0) per spin, so the trial's
    observable for the operator |0><0| (spin up) is exactly 1 and the norm of its rdm1 exactly 2"""
    import jax.numpy as jnp
    sysd = runlevel.make_system(np.random.default_rng(seed), norb=4, nelec=(2, 2), nchol=2, trial_kind="uhf", walker_type="uhf",
                                n_walkers=n_walkers, dt=0.01, proxied=False)
    eye = np.eye(4)
    sysd["wave_data"]["mo_coeff"] = [jnp.array(eye[:, :2]), jnp.array(eye[:, :2])]
    sysd["wave_data"]["rdm1"] = jnp.array([np.diag([1.0, 1, 0, 0])] * 2)
    return sysd


def scripted_sampler(script, n_blocks, ad, n_walkers):
    """a sampler whose entry points return the scripted (energy, observable / rdm sample, total weight) of block k"""
    import jax
    import jax.numpy as jnp
    from ad_afqmc import sampling

    class Scripted(sampling.sampler):
        def _out(self, prop_data, extra):
            k = self._k
            self._k += 1
            w, e, o, nrm = self._script[k]
            pd = dict(prop_data)
            pd["weights"] = jnp.full(n_walkers, float(w) / n_walkers)
            return float(e) + extra(o, nrm), pd

        def propagate_phaseless(self, ham, ham_data, prop, prop_data, trial, wave_data):
            self._est_in.append(float(prop_data["e_estimate"]))
            return self._out(prop_data, lambda o, nrm: 0.0)

        def _ad(self, ham, ham_data, coupling, op, prop, prop_data, trial, wave_data):
            def extra(o, nrm):
                if ad == "forward":      # d/d coupling = o; a non-finite derivative with a finite primal: sqrt at 0
                    return coupling * float(o) if o != NAN else jnp.sqrt(coupling)
                z = op - jax.lax.stop_gradient(op)              # zero, with unit cotangent
                if ad == "reverse":
                    if o == NAN:
                        return jnp.sqrt(z[0, 0, 0])
                    D = np.zeros(op.shape)
                    D[0, 0, 0] = float(o)
                    D[0, 1, 1] = float(np.sqrt(max(float(nrm) ** 2 - float(o) ** 2, 0.0)))
                    return jnp.sum(z * jnp.array(D))
                if nrm == NAN:
                    return jnp.sqrt(z[0, 0, 0, 0])
                D = np.zeros(op.shape)
                D[0, 0, 0, 0] = float(nrm)
                return jnp.sum(z * jnp.array(D))
            return self._out(prop_data, extra)

        propagate_phaseless_ad = propagate_phaseless_ad_norot = propagate_phaseless_ad_nosr = _ad
        propagate_phaseless_ad_nosr_norot = propagate_phaseless_ad_1 = _ad

    s = Scripted(n_prop_steps=1, n_ene_blocks=1, n_sr_blocks=1, n_blocks=n_blocks)
    s._script, s._k, s._est_in = script, 0, []
    return s


def run_scripted(chk: Check, req, name, seed=0, timeout=900.0):
    """the real driver.afqmc on req['R'] thread ranks with the scripted samplers; returns what it wrote / returned"""
    from ad_afqmc import driver
    R, nblk, ad = req["R"], req["nblk"], req["ad"]
    nw = 4
    world = ThreadWorld(R, eager=False, timeout=timeout)
    systems = [small_system(9100 + seed, nw) for _ in range(R)]
    samplers = [scripted_sampler([req["raw"][b][r] for b in range(nblk)], nblk, ad, nw) for r in range(R)]
    options = runlevel.default_options(seed=5 + seed, n_eql=0, ad_mode=None if ad == "none" else ad)
    observable = None
    if ad in ("forward", "reverse"):
        op = np.zeros((2, 4, 4))
        op[0, 0, 0] = 1.0
        observable = (op, 0.0)
    saves = []
    orig = np.savetxt

    def rec_savetxt(fname, X, *a, **k):
        saves.append((os.path.basename(str(fname)), np.array(X, dtype=float, copy=True)))
        return orig(fname, X, *a, **k)

    def body(comm, r):
        s = systems[r]
        return driver.afqmc(dict(s["ham_data"]), s["ham"], s["prop"], s["trial"], dict(s["wave_data"]), samplers[r], observable,
                            dict(options), FakeMPI(comm))

    d = chk.scratch(name)
    old = os.getcwd()
    os.chdir(d)
    buf = io.StringIO()
    try:
        with contextlib.redirect_stdout(buf), mock.patch.object(np, "savetxt", rec_savetxt), np.errstate(all="ignore"):
            rr = run_ranks(world, body, join_timeout=timeout)
    finally:
        os.chdir(old)
    real = [e for e in rr.errors if e is not None and not isinstance(e, CommError)]
    if not rr.ok and not real:          # only the communicator failed (hang, deadline): the harness, not the driver
        raise MachineryError(f"scripted driver run did not complete: {rr.describe()}")
    out = {"ok": rr.ok, "describe": "; ".join(f"{type(e).__name__}: {str(e)[:200]}" for e in real), "results": rr.results,
           "saves": saves, "stdout": buf.getvalue(),
           "est_in": [s._est_in for s in samplers], "dir": d}
    for f in ("samples_raw.dat", "samples.dat"):
        if (d / f).exists():
            out[f] = np.atleast_2d(np.loadtxt(d / f))
    for f, key in (("rdm1_afqmc.npz", "rdm1"), ("rdm2_afqmc.npz", "rdm2")):
        if (d / f).exists():
            out[f] = np.load(d / f)[key]
    s0 = systems[0]
    out["trial_obs_f32"] = float(np.float32(np.sum(np.asarray(s0["trial"].get_rdm1(s0["wave_data"])) * np.asarray(s0["ham_data"]["h1"]))))
    m = re.search(r"Number of large deviations:\s*(-?\d+)", out["stdout"])
    out["large"] = int(m.group(1)) if m else None
    m = re.search(r"Number of outliers in post:\s*(-?\d+)", out["stdout"])
    out["outliers"] = int(m.group(1)) if m else None
    return out


def _q(x):
    return None if (x[1] == 0) else Fraction(int(x[0]), int(x[1]))


def compare_scripted(req, states, obs):
    """-> list of (clause, detail): empty iff what the driver wrote and returned is a terminal state of Report.tla"""
    R, nblk, ad = req["R"], req["nblk"], req["ad"]
    bad = []
    if not obs["ok"]:
        return [("DriverRuns", f"driver.afqmc raised / hung: {obs['describe']}")]
    st0 = states[0]
    # 2rdm mode: the observable column is ALWAYS the trial's own observable (a float known to the harness); the model
    # carries it as the integer TrialObs
    omap = (lambda x: obs["trial_obs_f32"] if ad == "2rdm" else float(x))
    table = np.array([[float(row[0]), float(row[1]), omap(row[2])] for row in st0["table"]])
    raw = obs.get("samples_raw.dat")
    if raw is None or raw.shape != table.shape or not np.array_equal(raw, table):
        bad.append(("RankOrdered/RawComplete", f"samples_raw.dat {None if raw is None else raw.tolist()} is not the table "
                    f"{table.tolist()} (rows = blocks x ranks in rank order, observable column with the substitution rule)"))
    # every dump of samples_raw.dat: after blocks st0['dumps'] the filled prefix, then the whole table
    want = [(k + 1) * R for k in st0["dumps"]] + [R * nblk]
    got = [len(np.atleast_2d(a)) for f, a in obs["saves"] if f == "samples_raw.dat"]
    if got != want:
        bad.append(("DumpSchedule", f"samples_raw.dat was written with {got} rows, the specification dumps {want}"))
    else:
        for (f, a), nrow in zip([s for s in obs["saves"] if s[0] == "samples_raw.dat"], want):
            if not np.array_equal(np.atleast_2d(a), table[:nrow]):
                bad.append(("RawIsWholeBlocks", f"a dump of samples_raw.dat with {nrow} rows is not the filled prefix of the table"))
                break
    if obs["large"] != st0["large"]:
        bad.append(("LargeDeviationsCounted", f"printed number of large deviations {obs['large']}, specification {st0['large']}"))
    # the kept rows: one of the terminal states (they differ only in rows exactly on the 10 MAD edge)
    clean = obs.get("samples.dat")
    match = None
    for st in states:
        c = np.array([[float(row[0]), float(row[1]), omap(row[2])] for row in st["clean"]]).reshape(-1, 3)
        if clean is not None and clean.shape == c.shape and np.array_equal(clean, c):
            match = st
            break
    if match is None:
        bad.append(("CleanIsSelection", f"samples.dat {None if clean is None else clean.tolist()} is not the selection of the table by "
                    f"10 MAD of the {'observable' if ad in ('forward', 'reverse') else 'energy'} column; specification: "
                    f"{[s['clean'] for s in states]}"))
        return bad
    if obs["outliers"] != len(match["table"]) - len(match["clean"]):
        bad.append(("CleanIsSelection", f"printed number of outliers {obs['outliers']}, specification {len(match['table']) - len(match['clean'])}"))
    from . import stats as st
    e = _q(match["e"])
    errs = [st.big_to_float(x) for x in match["errs"]]
    accept = [0.0 if k == 0 else max(errs[k - 1], errs[k - 2]) ** 0.5 for k in match["accept"]]
    res = obs["results"]
    if any(r != res[0] for r in res):
        bad.append(("AllRanksReturnTheSame", f"ranks returned {res}"))
    ge, gerr = res[0]
    if ge is None or abs(float(ge) - float(e)) > 1e-9 * max(1.0, abs(float(e))):
        bad.append(("ReportedMean", f"returned energy {ge}, weighted mean of the kept rows {float(e)}"))
    if gerr is None or not any(abs(float(gerr) - a) <= 1e-7 * max(1.0, a) for a in accept):
        bad.append(("ReportedError", f"returned error bar {gerr}; the blocking analysis of the kept rows admits {accept} "
                    f"(per-block-size errors {[x ** 0.5 for x in errs]}, 0 where it has no plateau)"))
    if ad == "2rdm":
        kept = {tuple(x) for x in match["rdm_kept"]}
        num, den = 0.0, 0.0
        for i, row in enumerate(match["table"]):
            b, r = i // R + 1, i % R + 1
            if (b, r) in kept:
                w, _, _, nrm = req["raw"][b - 1][r - 1]
                num += w * float(np.float32(nrm))
                den += w
        got = obs.get("rdm2_afqmc.npz")
        want = np.zeros((4, 4, 4, 4))
        if den:
            want[0, 0, 0, 0] = 2.0 * num / den
        if got is None or den == 0 or np.max(np.abs(got - want)) > 1e-5 * max(1.0, np.max(np.abs(want))):
            bad.append(("RdmIsWeightedMeanOfKeptSamples", f"rdm2_afqmc.npz is not twice the weight-average of the 2-RDM samples "
                        f"{sorted(kept)} that survive both outlier rejections"))
    if ad == "reverse":
        kept = {tuple(x) for x in match["rdm_kept"]}
        rows = [(row, b, r) for i, row in enumerate(match["table"]) for (b, r) in [(i // R + 1, i % R + 1)] if (b, r) in kept]
        num, den = np.zeros((2, 4, 4)), 0.0
        for row, b, r in rows:
            w, _, o, nrm = req["raw"][b - 1][r - 1]
            D = np.zeros((2, 4, 4))
            if o == NAN:
                D[0], D[1] = np.diag([1.0, 1, 0, 0]), np.diag([1.0, 1, 0, 0])
            else:
                D[0, 0, 0] = o
                D[0, 1, 1] = np.sqrt(max(nrm ** 2 - o ** 2, 0.0))
            num += w * D.astype(np.float32)
            den += w
        got = obs.get("rdm1_afqmc.npz")
        if got is None or den == 0 or np.max(np.abs(got - num / den)) > 1e-5 * max(1.0, np.max(np.abs(num / den))):
            bad.append(("RdmIsWeightedMeanOfKeptSamples", f"rdm1_afqmc.npz is not the weight-average of the density-matrix samples "
                        f"{sorted(kept)} that survive both outlier rejections"))
    return bad


# ----------------------------------------------------------------------------------------- scripted inputs
def scripted_requests(chk: Check):
    rng = np.random.default_rng(9000 + chk.seed)
    big = chk.tier == "thorough"
    reqs = []

    def add(R, nblk, ad, gen):
        raw = [[gen(b, r) for r in range(R)] for b in range(nblk)]
        reqs.append({"id": len(reqs) + 1, "R": R, "nblk": nblk, "ad": ad, "raw": raw, "trial_obs": 1, "trial_norm": 2})

    W = lambda: int(rng.integers(1, 4))
    E = lambda p=0.15: int(rng.choice([40, -35])) if rng.random() < p else int(rng.integers(-3, 4))

    def fwd(b, r):
        u = rng.random()
        o = NAN if u < 0.15 else (int(rng.choice([60, -50])) if u < 0.3 else int(rng.integers(-2, 3)))
        return [W(), E(), o, 0]

    def rev(b, r):
        u = rng.random()
        if u < 0.15:
            return [W(), E(0.05), NAN, 0]
        nrm = 100 if u < 0.3 else 5
        o = int(rng.choice([0, 3, 4])) * (nrm // 5)
        return [W(), E(0.05), o, nrm]

    for R, nblk in ((1, 6), (2, 3), (3, 4), (2, 6)) + (((4, 3), (1, 12), (3, 5)) if big else ()):
        add(R, nblk, "none", lambda b, r: [W(), E(), 0, 0])
        add(R, nblk, "forward", fwd)
        add(R, nblk, "reverse", rev)
    for R, nblk in ((1, 6), (2, 4)) + (((3, 4),) if big else ()):
        add(R, nblk, "2rdm", lambda b, r: [W(), E(), 0, int(rng.choice([5, 6, 7, 400]))])
    add(2, 25, "none", lambda b, r: [1, int(rng.integers(0, 2)), 0, 0])          # dumps every 2 blocks
    add(1, 31, "forward", lambda b, r: [1, int(rng.integers(0, 2)), int(rng.integers(0, 2)), 0])     # every 3
    if big:
        add(3, 20, "none", lambda b, r: [W(), int(rng.integers(0, 2)), 0, 0])
        add(1, 40, "reverse", lambda b, r: [1, int(rng.integers(0, 2)), int(rng.choice([0, 3, 4])), 5])
    return reqs


def replay_scripted(chk: Check, violation_site="driver.afqmc:report"):
    """run every scripted request through specification and driver; report mismatches through chk.violation"""
    reqs = scripted_requests(chk)
    stats = {"requests": len(reqs), "with_large_deviations": 0, "with_outliers": 0, "edge_branching": 0, "rows": 0}
    for q in reqs:
        states = oracle(chk, q, f"q{q['id']}")
        obs = run_scripted(chk, q, f"scripted-{q['id']}", seed=chk.seed)
        bad = compare_scripted(q, states, obs)
        chk.case(("report-scripted", q["id"]), nontrivial=True)
        chk.traces += 1
        stats["with_large_deviations"] += int(states[0]["large"] > 0)
        stats["with_outliers"] += int(len(states[0]["clean"]) < len(states[0]["table"]))
        stats["edge_branching"] += int(len(states) > 1)
        stats["rows"] += len(states[0]["table"])
        for clause, detail in bad:
            msg = (f"driver.afqmc with scripted block results ({q['R']} rank(s), {q['nblk']} blocks, ad_mode {q['ad']}): "
                   f"{clause}: {detail}")
            if clause in PROPERTY_CLAUSES:
                chk.violation(f"{violation_site}:{clause}:{q['ad']}", msg, {"request": q})
            else:
                chk.divergence(f"{violation_site}:{clause}:{q['ad']}", msg)
        chk.sample({"report_scripted": {"ranks": q["R"], "blocks": q["nblk"], "ad_mode": q["ad"]}, "rows": len(states[0]["table"]),
                    "kept": len(states[0]["clean"]), "large_deviations": states[0]["large"], "dumps_after_blocks": states[0]["dumps"],
                    "returned": [None if x is None else float(x) for x in (obs["results"][0] or (None, None))] if obs["ok"] else None},
                   limit=4)
    chk.note("report_scripted", stats)
    return stats


# ----------------------------------------------------------------------------------------- code -> spec (recorded runs)
_tls = threading.local()


class RecComm:
    """delegating communicator that records the driver's own collectives (float32 gathers, the integer reduce, the
    object broadcasts) in the calling rank's log"""

    def __init__(self, inner, log):
        self._inner, self._log = inner, log

    def __getattr__(self, k):
        return getattr(self._inner, k)

    def Gather(self, sendbuf, recvbuf, root=0):
        out = self._inner.Gather(sendbuf, recvbuf, root=root)
        sb = np.asarray(sendbuf)
        if sb.dtype == np.float32:                     # the reconfiguration's own gathers are float64 / complex
            self._log.append(("Gather", sb.copy(), None if recvbuf is None else np.array(recvbuf, copy=True)))
        return out

    def Reduce(self, sendbuf, recvbuf, op=None, root=0):
        out = self._inner.Reduce(sendbuf, recvbuf, op=op, root=root) if op is not None else self._inner.Reduce(sendbuf, recvbuf, root=root)
        sb = np.asarray(sendbuf[0] if isinstance(sendbuf, (list, tuple)) else sendbuf)
        if np.issubdtype(sb.dtype, np.integer):
            rb = recvbuf[0] if isinstance(recvbuf, (list, tuple)) else recvbuf
            self._log.append(("Reduce", int(sb), None if rb is None else int(np.asarray(rb))))
        return out

    def bcast(self, obj, root=0):
        out = self._inner.bcast(obj, root=root)
        self._log.append(("bcast", out))
        return out


def record_run(chk: Check, R, mk_system, options, block, n_blocks, observable, name, timeout=900.0):
    """a REAL run of driver.afqmc (real sampler, proxied for observation) on R thread ranks with rank 0's bookkeeping
    calls recorded in program order.  returns dict(logs per rank, ad observations per rank, proxy events, results)"""
    import jax
    from ad_afqmc import driver, stat_utils
    S = proxies.sampler_proxy()
    world = ThreadWorld(R, eager=False, timeout=timeout)
    systems, logs, adobs = [], [[] for _ in range(R)], [[] for _ in range(R)]
    for r in range(R):
        sysd = mk_system(r)
        for k in ("trial", "prop"):
            sysd[k]._rank = r
        smp = S(n_prop_steps=block[0], n_ene_blocks=block[1], n_sr_blocks=block[2], n_blocks=n_blocks)
        smp._rank = r
        sysd["sampler"] = smp
        systems.append(sysd)
    proxies.reset()
    orig_savetxt, orig_block, orig_rej = np.savetxt, stat_utils.blocking_analysis, stat_utils.reject_outliers
    orig_jvp, orig_vjp = driver.jvp, driver.vjp

    def mylog():
        return logs[getattr(_tls, "rank", 0)]

    def rec_savetxt(fname, X, *a, **k):
        mylog().append(("Savetxt", os.path.basename(str(fname)), np.array(X, dtype=float, copy=True)))
        return orig_savetxt(fname, X, *a, **k)

    def rec_block(w, e, neql=0, printQ=False, **k):
        out = orig_block(w, e, neql=neql, printQ=printQ, **k)
        mylog().append(("Blocking", np.array(w, dtype=float, copy=True), np.array(e, dtype=float, copy=True), int(neql), bool(printQ), out))
        return out

    def rec_rej(data, obs, *a, **k):
        out = orig_rej(data, obs, *a, **k)
        mylog().append(("Reject", np.array(data, dtype=float, copy=True), int(obs), (a, k), np.array(out[0], dtype=float, copy=True),
                        np.array(out[1], dtype=bool, copy=True)))
        return out

    def rec_jvp(fun, primals, tangents, has_aux=False):
        out = orig_jvp(fun, primals, tangents, has_aux=has_aux)
        import jax.numpy as jnp
        adobs[_tls.rank].append({"e": float(out[0]), "o": float(out[1]), "wsum": float(jnp.sum(out[2]["weights"])),
                                 "eest_out": float(out[2]["e_estimate"])})
        return out

    def rec_vjp(fun, *primals, has_aux=False):
        e, f, aux = orig_vjp(fun, *primals, has_aux=has_aux)
        import jax.numpy as jnp
        rec = {"e": float(e), "wsum": float(jnp.sum(aux["weights"])), "eest_out": float(aux["e_estimate"]), "rdm": None}
        adobs[_tls.rank].append(rec)

        def f2(ct):
            res = f(ct)
            rec["rdm"] = np.array(res[1], copy=True)
            return res
        return e, f2, aux

    def body(comm, r):
        _tls.rank = r
        s = systems[r]
        return driver.afqmc(dict(s["ham_data"]), s["ham"], s["prop"], s["trial"], dict(s["wave_data"]), s["sampler"], observable,
                            dict(options), FakeMPI(RecComm(comm, logs[r])))

    d = chk.scratch(name)
    old = os.getcwd()
    os.chdir(d)
    buf = io.StringIO()
    try:
        with contextlib.redirect_stdout(buf), mock.patch.object(np, "savetxt", rec_savetxt), \
                mock.patch.object(stat_utils, "blocking_analysis", rec_block), mock.patch.object(stat_utils, "reject_outliers", rec_rej), \
                mock.patch.object(driver, "jvp", rec_jvp), mock.patch.object(driver, "vjp", rec_vjp), np.errstate(all="ignore"):
            rr = run_ranks(world, body, join_timeout=timeout)
    finally:
        os.chdir(old)
    if not rr.ok:
        real = [e for e in rr.errors if e is not None and not isinstance(e, CommError)]
        if not real:
            raise MachineryError(f"recorded driver run did not complete: {rr.describe()}")
    m = re.search(r"Number of large deviations:\s*(-?\d+)", buf.getvalue())
    return {"ok": rr.ok, "describe": rr.describe(), "logs": logs, "adobs": adobs, "events": proxies.snapshot(), "results": rr.results,
            "large": int(m.group(1)) if m else None, "systems": systems, "dir": d}


def build_trace(rec, R, n_blocks, ad, observable, trial_rdm1):
    """rank 0's recorded calls -> the event list of ReportTrace.tla (floats -> identifiers) + the constants"""
    f32 = lambda x: float(np.float32(x))
    vals = {0.0}
    log0 = rec["logs"][0]
    if observable is not None:
        op, const = np.asarray(observable[0], dtype=float), float(observable[1])
    else:
        op, const = np.asarray(rec["systems"][0]["ham_data"]["h1"], dtype=float), 0.0
    trial_obs = f32(float(np.sum(np.asarray(trial_rdm1) * op)) + const)
    trial_norm = float(np.linalg.norm(np.asarray(trial_rdm1).astype(np.float32).astype(np.float64)))   # the table stores float32 samples in a float64 array
    # ---- what every rank obtained in every block (independent observation points)
    per = []
    for r in range(R):
        if ad == "none":
            ex = [e for e in rec["events"] if e["ev"] == "Exit" and int(e.get("rank", 0)) == r]
            per.append([{"e": e["energy"], "wsum": e["wsum"], "eest_out": e["eest_out"], "o": None, "rdm": None} for e in ex])
        else:
            per.append(rec["adobs"][r])
        if len(per[-1]) != n_blocks:
            raise MachineryError(f"rank {r}: {len(per[-1])} observed sampler calls for {n_blocks} blocks")
    first_prop = {}        # e_estimate read by the first step of each sampler call, per rank
    for r in range(R):
        armed, out = False, []
        for e in rec["events"]:
            if int(e.get("rank", 0)) != r:
                continue
            if e["ev"] == "Enter":
                armed = True
            elif e["ev"] == "Prop" and armed:
                out.append(float(np.real(e["eest"])))
                armed = False
        first_prop[r] = out
    nonfinite = lambda x: x is None or not np.all(np.isfinite(x))
    raw = [[None] * R for _ in range(n_blocks)]
    for b in range(n_blocks):
        for r in range(R):
            x = per[r][b]
            w, e = f32(x["wsum"]), f32(x["e"])
            o, nrm = f32(const), 0.0
            if ad == "forward":
                o = NAN if nonfinite(x["o"]) else f32(x["o"] + const)
            elif ad == "reverse":
                ob = None if x["rdm"] is None else float(np.sum(np.asarray(x["rdm"]) * op))
                o = NAN if nonfinite(ob) else f32(ob + const)
                nrm = NAN if o == NAN else float(np.linalg.norm(np.asarray(x["rdm"]).astype(np.float32).astype(np.float64)))
            raw[b][r] = [w, e, o, nrm]
            vals.update(v for v in (w, e, o, nrm) if v != NAN)
    vals.update((trial_obs, trial_norm, f32(const)))
    # ---- rank 0's calls
    gathers = [[x for x in rec["logs"][r] if x[0] == "Gather"] for r in range(R)]
    events, gi, bi, block_idx, bcasts = [], 0, 0, -1, [x[1] for x in log0 if x[0] == "bcast"]
    ngath = 4 if ad in ("reverse", "2rdm") else 3
    names = ["w", "e", "o", "nrm"]
    pending = []       # (event dict, list of float slots to translate later)
    est_prev = None

    def key(a):        # identity of a float32 payload: scalars by value, density-matrix samples by their norm
        a = np.asarray(a)
        return float(a.reshape(-1)[0]) if a.size == 1 else float(np.linalg.norm(a.astype(np.float32).astype(np.float64)))

    for x in log0:
        if x[0] == "Gather":
            k = gi % ngath
            if k == 0:
                block_idx += 1
                b = block_idx
                est_ok = True
                if b > 0 and all(len(first_prop[r]) > b for r in range(R)):
                    be_prev = float(bcasts[b - 1])
                    for r in range(R):
                        want = 0.9 * per[r][b - 1]["eest_out"] + 0.1 * be_prev
                        got = first_prop[r][b]
                        if not (abs(got - want) <= 1e-5 * max(1.0, abs(want)) or (np.isnan(got) and np.isnan(want))):
                            est_ok = False
                events.append({"ev": "Sample", "raw": raw[b], "est_ok": est_ok})
            sends = [key(gathers[r][gi][1]) for r in range(R)]
            recv = np.asarray(x[2])
            recvs = [key(recv[r]) for r in range(R)]
            ev = {"ev": "Gather", "what": names[k], "send": sends, "recv": recvs, "be": 0.0, "be_ok": True}
            if k == ngath - 1:
                wrow = [key(np.asarray([g for g in log0 if g[0] == "Gather"][gi - k][2])[r]) for r in range(R)]
                erow = [key(np.asarray([g for g in log0 if g[0] == "Gather"][gi - k + 1][2])[r]) for r in range(R)]
                be = float(bcasts[block_idx])
                want = float(np.dot(wrow, erow) / np.sum(wrow)) if np.sum(wrow) != 0 else float("nan")
                ev["be"] = be
                ev["be_ok"] = bool(abs(be - want) <= 1e-5 * max(1.0, abs(want)) or (np.isnan(be) and np.isnan(want)))
            vals.update(v for v in sends + recvs + [ev["be"]] if np.isfinite(v))
            events.append(ev)
            gi += 1
        elif x[0] == "Savetxt":
            rows = np.atleast_2d(x[2])
            vals.update(float(v) for v in rows.reshape(-1) if np.isfinite(v))
            events.append({"ev": "Savetxt", "file": x[1], "rows": rows.tolist()})
        elif x[0] == "Blocking":
            mean, err = x[5]
            vals.update(float(v) for v in np.concatenate([x[1], x[2]]) if np.isfinite(v))
            for v in (mean, err):
                if v is not None and np.isfinite(v):
                    vals.add(float(v))
            events.append({"ev": "Blocking", "w": x[1].tolist(), "x": x[2].tolist(), "neql": x[3], "mean": None if mean is None else float(mean),
                           "err": None if err is None else float(err), "avg_ok": True})
        elif x[0] == "Reject":
            a, k = x[3]
            vals.update(float(v) for v in x[1].reshape(-1) if np.isfinite(v))
            events.append({"ev": "Reject", "rows": np.atleast_2d(x[1]).tolist(), "col": x[2], "m_default": not a and not k,
                           "mask": [bool(v) for v in x[5]], "out": np.atleast_2d(x[4]).reshape(-1, x[1].shape[1]).tolist()})
        elif x[0] == "Reduce":
            events.append({"ev": "Reduce", "send": [next(y[1] for y in rec["logs"][r] if y[0] == "Reduce") for r in range(R)], "recv": x[2]})
    res = rec["results"]
    e0, err0 = res[0]
    for v in (e0, err0):
        if v is not None and np.isfinite(v):
            vals.add(float(v))
    events.append({"ev": "Return", "e": None if e0 is None else float(e0), "err": None if err0 is None else float(err0),
                   "all_ranks_same": all((np.asarray(r_, dtype=float) == np.asarray(res[0], dtype=float)).all() or
                                         (np.isnan(np.asarray(r_, dtype=float)) == np.isnan(np.asarray(res[0], dtype=float))).all() for r_ in res),
                   "large": rec["large"] if rec["large"] is not None else -7})
    # ---- floats -> identifiers
    order = {v: i for i, v in enumerate(sorted(vals))}

    def ident(v):
        if v is None:
            return -1
        if isinstance(v, (list, tuple)):
            return [ident(t) for t in v]
        if isinstance(v, bool) or isinstance(v, str):
            return v
        if isinstance(v, (int, np.integer)) and not isinstance(v, bool) and v == NAN:
            return NAN
        v = float(v)
        return order[v] if np.isfinite(v) else NAN

    out = []
    for ev in events:
        d = dict(ev)
        if d["ev"] == "Sample":
            d["raw"] = [ident(x) for x in d["raw"]]
        elif d["ev"] == "Gather":
            d["send"], d["recv"], d["be"] = ident(d["send"]), ident(d["recv"]), ident(d["be"])
        elif d["ev"] == "Savetxt":
            d["rows"] = [ident(r_) for r_ in d["rows"]]
        elif d["ev"] == "Blocking":
            d["w"], d["x"], d["mean"], d["err"] = ident(d["w"]), ident(d["x"]), ident(d["mean"]), ident(d["err"])
        elif d["ev"] == "Reject":
            d["rows"], d["out"] = [ident(r_) for r_ in d["rows"]], [ident(r_) for r_ in d["out"]]
        elif d["ev"] == "Return":
            d["e"], d["err"] = ident(d["e"]), ident(d["err"])
        out.append(d)
    consts = {"tobs": order[trial_obs], "tnrm": order[trial_norm], "noobs": order[f32(const)], "zero": order[0.0]}
    return out, consts, raw


def validate_recorded(chk: Check, trace, consts, R, n_blocks, ad, name):
    wd = chk.scratch(f"reptrace-{name}")
    (wd / "trace.ndjson").write_text("".join(json.dumps(e) + "\n" for e in trace))
    cfg = CFG.format(spec="TSpec", R=R, nblk=n_blocks, ad=ad, wv="{0}", ev="{0}", ov="{0}", nv="{0}", tobs=consts["tobs"],
                     tnrm=consts["tnrm"], noobs=consts["noobs"], mut="none")
    cfg += f"  ZeroId = {consts['zero']}\nCONSTRAINT Track\nPOSTCONDITION WriteVerdict\nCHECK_DEADLOCK FALSE\n"
    r = chk.tlc("ReportTrace", cfg, env={"REPORT_TRACE": str(wd / "trace.ndjson"), "REPORT_VERDICT": str(wd / "verdict.json")},
                workers=1, name=f"ReportTrace-{name}", timeout=600)
    if not (wd / "verdict.json").exists():
        raise MachineryError("ReportTrace wrote no verdict:\n" + r.stdout[-1500:])
    v = json.loads((wd / "verdict.json").read_text().splitlines()[0])
    v["accepted"] = v["reached"] == v["len"]
    v["clause"] = v["bad"][1] if v["bad"][0] else ""
    v["first_unexplained"] = None if v["accepted"] else trace[v["reached"]]
    return v


TRACE_PROPERTY_CLAUSES = ("ReportedMean", "CleanIsSelection", "CleanFileIsKeptRows", "ReturnedEnergyIsReportedMean",
                          "ReturnedErrorIsReportedError", "ReportedObservable")


def replay_recorded(chk: Check, violation_site="driver.afqmc:report"):
    """real runs (real sampler) recorded and replayed by ReportTrace.tla; a corrupted copy of the first trace must be rejected"""
    big = chk.tier == "thorough"
    scen = [(1, "none", (2, 1, 1), 4), (2, "forward", (2, 1, 1), 3), (3, "none", (1, 2, 1), 3), (2, "reverse", (2, 1, 1), 3),
            (1, "none", (1, 1, 1), 22)]
    if big:
        scen += [(3, "forward", (1, 1, 2), 4), (4, "none", (2, 1, 1), 3), (2, "forward", (1, 1, 1), 31), (3, "reverse", (1, 1, 1), 4)]
    stats = {"runs": 0, "events": 0, "rejected_corruptions": 0}
    first = None
    for j, (R, ad, blk, nblk) in enumerate(scen):
        mk = lambda r, j=j: runlevel.make_system(np.random.default_rng(9300 + j + chk.seed), norb=4, nelec=(2, 1), nchol=2, trial_kind="uhf",
                                                 walker_type="uhf", n_walkers=4, dt=0.02, vscale=0.3)
        opts = runlevel.default_options(seed=31 + j + chk.seed, n_eql=1, ad_mode=None if ad == "none" else ad)
        obsv = None
        if ad != "none":
            a = np.random.default_rng(9400 + j).normal(size=(2, 4, 4))
            obsv = ((a + a.transpose(0, 2, 1)) / 2, 0.25)
        rec = record_run(chk, R, mk, opts, blk, nblk, obsv, f"rec{j}")
        if not rec["ok"]:
            chk.violation(f"{violation_site}:DriverRuns:{ad}", f"driver.afqmc ({R} rank(s), ad_mode {ad}) raised: {rec['describe']}", {"scenario": [R, ad, blk, nblk]})
            continue
        s0 = rec["systems"][0]
        trial_rdm1 = np.asarray(s0["trial"].get_rdm1(s0["wave_data"]))
        trace, consts, raw = build_trace(rec, R, nblk, ad, obsv, trial_rdm1)
        v = validate_recorded(chk, trace, consts, R, nblk, ad, f"rec{j}")
        stats["runs"] += 1
        stats["events"] += len(trace)
        chk.traces += 1
        chk.case(("report-recorded", j), nontrivial=True)
        if first is None:
            first = (trace, consts, R, nblk, ad)
        what = None
        if v["clause"]:
            what = f"clause {v['clause']} fails at event {v['bad'][0]} ({trace[v['bad'][0] - 1]['ev']})"
        elif not v["accepted"]:
            what = f"first unexplained call {json.dumps(v['first_unexplained'])[:300]} at {v['at']}"
        if what:
            msg = f"recorded run of driver.afqmc ({R} rank(s), ad_mode {ad}, {nblk} blocks) is not a behaviour of Report.tla: {what}"
            if v["clause"] and v["clause"].startswith(TRACE_PROPERTY_CLAUSES):
                chk.violation(f"{violation_site}:trace:{v['clause'].split('(')[0]}:{ad}", msg, {"scenario": [R, ad, list(blk), nblk]})
            else:
                chk.divergence(f"{violation_site}:trace:{(v['clause'] or 'not-a-behaviour').split('(')[0]}:{ad}", msg)
        chk.sample({"report_recorded": {"ranks": R, "ad_mode": ad, "blocks": nblk}, "events": len(trace), "accepted": v["accepted"],
                    "clause": v["clause"]}, limit=5)
    # the binding must bind: corrupted copies of an accepted trace are rejected
    if first is not None:
        trace, consts, R, nblk, ad = first
        import copy
        muts = []
        t1 = copy.deepcopy(trace)
        g = next(e for e in t1 if e["ev"] == "Gather" and e["what"] == "e")
        g["recv"] = list(reversed(g["recv"])) if len(g["recv"]) > 1 else [g["recv"][0] + 1]
        muts.append(("gathered energies in the wrong order / changed", t1))
        t2 = copy.deepcopy(trace)
        k = next(i for i, e in enumerate(t2) if e["ev"] == "Reject")
        t2[k]["col"] = 2 - t2[k]["col"] + 1 if t2[k]["col"] in (1, 2) else 1
        muts.append(("outlier rejection on the other column", t2))
        t3 = [e for e in copy.deepcopy(trace)]
        k = next(i for i, e in enumerate(t3) if e["ev"] == "Savetxt")
        del t3[k]
        muts.append(("first dump of samples_raw.dat missing", t3))
        t4 = copy.deepcopy(trace)
        t4[-1]["e"] = t4[-1]["e"] + 1
        muts.append(("returned energy is not the analysed mean", t4))
        for nm, t in muts:
            v = validate_recorded(chk, t, consts, R, nblk, ad, "corrupt")
            if v["accepted"] and not v["clause"]:
                raise MachineryError(f"ReportTrace accepted a corrupted trace ({nm}): the trace specification does not bind")
            stats["rejected_corruptions"] += 1
    chk.note("report_recorded", stats)
    return stats
