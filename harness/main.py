"""Dispatcher: ./check <ID> [--tier quick|thorough] [--replay path]"""
import argparse
import importlib
import json
import os
import sys
import traceback
from pathlib import Path

sys.path.insert(0, str(Path(__file__).resolve().parent.parent))
from harness.core import Check, MachineryError  # noqa: E402

LEVELS = {}


def main():
    ap = argparse.ArgumentParser()
    ap.add_argument("pid")
    ap.add_argument("--tier", default=os.environ.get("VERIF_TIER", "quick"), choices=["quick", "thorough"])
    ap.add_argument("--replay", default=None)
    a = ap.parse_args()
    seed = int(os.environ.get("VERIF_SEED", "0") or 0)
    mod = importlib.import_module(f"harness.props.{a.pid.lower()}")
    chk = Check(a.pid, a.tier, seed, getattr(mod, "LEVEL", "model_checking"))
    try:
        if a.replay:
            case = json.loads(Path(a.replay).read_text())
            mod.replay(chk, case)
        else:
            mod.run(chk)
        rc = chk.finish()
    except MachineryError as e:
        print(f"MACHINERY-FAILURE property={a.pid}: {e}", file=sys.stderr)
        chk.cleanup()
        sys.exit(2)
    except Exception:
        traceback.print_exc()
        print(f"MACHINERY-FAILURE property={a.pid}: unexpected exception", file=sys.stderr)
        chk.cleanup()
        sys.exit(2)
    sys.exit(rc)


if __name__ == "__main__":
    main()
