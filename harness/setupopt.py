"""Binding of spec/Setup.tla (the option-resolution machine of mpi_jax._prep_afqmc) to the real routine.

Design   : TLC explores every (options source, working directory, given options) combination of Setup.tla and
           checks the theorems Total, TrialAsAsked, PropAsAsked, DefaultsWithoutOptions, Precedence, FixedPointWitness.
Replay   : the harness draws seeded instances (plus a full factorial over the failure-deciding factors), TLC walks
           each through the machine and writes the expected final record, the harness builds the REAL directory
           (FCIDUMP_chol, mo_coeff.npz, amplitudes.npz, trial.pkl, observable.h5, dets.pkl, options.bin - valid,
           absent or corrupt as the instance says), calls the REAL `_prep_afqmc`, projects what it returned or raised
           onto the spec's variables and compares field by field; for every call that returned, the completed options
           are fed back as the argument and must reproduce the same record (fixed point).
Verdicts : a mismatch in (outcome, trial class, propagator class, number of Taylor terms) on a row inside C16's
           quantifier (trial rhf/uhf/cisd/ucisd, walker_type rhf/uhf, usable options) is a C16 violation (the same
           clauses as Pipeline.tla's option table, here with every directory state); every other mismatch is a
           specification divergence outside the property (printed, recorded in the evidence, never an alarm).
"""
import contextlib
import io
import itertools
import json
import os
import pickle
from pathlib import Path

import numpy as np

from .core import Check, MachineryError

INVARIANTS = ["TypeOK", "Total", "TrialAsAsked", "PropAsAsked", "DefaultsWithoutOptions", "Precedence", "FixedPointWitness"]
QUICK_OVERRIDES = " AdmOpts <- QuickAdm\n SymOpts <- QuickSym\n NbOpts <- QuickNb\n ObsOpts <- QuickObs\n"
TRIALS = ["absent", "none", "rhf", "uhf", "noci", "cisd", "ucisd", "other"]
WTS = ["absent", "rhf", "uhf", "ghf"]
TRI = ["absent", "true", "false"]
ADMS = ["absent", "none", "forward", "reverse", "2rdm", "bogus"]
SRCS = ["arg", "file", "corrupt", "nofile"]
AMPS = ["none", "r", "u", "junk"]
TPKL = ["none", "valid", "corrupt"]
OBSF = ["none", "valid", "corrupt"]
DETS = ["none", "valid"]
SHELLS = ["closed", "open"]
GIVEN_NUMS = dict(dt=0.02, n_walkers=7, n_prop_steps=3, n_ene_blocks=4, n_sr_blocks=2, n_blocks=6, n_ene_blocks_eql=8,
                  n_sr_blocks_eql=9, n_eql=11, ene0=1.5, seed=17)
NORB = 3
OUTCOMES = {"ok", "no_trial", "ValueError", "AssertionError", "crashed:FileNotFoundError", "crashed:UnboundLocalError"}


@contextlib.contextmanager
def _in_dir(path):
    old = os.getcwd()
    os.chdir(path)
    try:
        yield
    finally:
        os.chdir(old)


def design(chk: Check):
    cfg = ("SPECIFICATION Spec\nCHECK_DEADLOCK FALSE\nCONSTANTS Design = TRUE\n"
           + (QUICK_OVERRIDES if chk.tier == "quick" else "")
           + "".join(f"INVARIANT {i}\n" for i in INVARIANTS))
    res = chk.tlc("Setup", cfg, name="Setup-design", timeout=1500)
    if res.violated:
        raise MachineryError(f"Setup.tla: the reference machine violates its own theorem {res.violated_name}")
    if res.states < 100_000:
        raise MachineryError(f"Setup.tla: only {res.states} states - the enumeration collapsed")
    chk.note("setup_design", {"states": res.states, "theorems": INVARIANTS, "wall_s": round(res.wall_s, 1),
                              "value_sets": "quick" if chk.tier == "quick" else "full"})


def instances(chk: Check):
    rng = np.random.default_rng([chk.seed, 160016])
    n_random = 260 if chk.tier == "quick" else 2500

    def rnd_given():
        return {"trial": str(rng.choice(TRIALS)), "wt": str(rng.choice(WTS)), "fp": str(rng.choice(TRI)),
                "sym": str(rng.choice(TRI)), "nb": int(rng.choice([0, 1, 2])), "adm": str(rng.choice(ADMS, p=[.3, .15, .15, .1, .1, .2])),
                "nums": bool(rng.integers(2))}

    def rnd_dir():
        return {"amp": str(rng.choice(AMPS)), "tpkl": str(rng.choice(TPKL)), "obsf": str(rng.choice(OBSF)),
                "dets": str(rng.choice(DETS)), "shell": str(rng.choice(SHELLS))}

    out = []
    # full factorial over the factors that decide how the call ends; the rest drawn at random
    for t, w, a, p, dd, sh in itertools.product(TRIALS, WTS, AMPS, ["none", "valid"], DETS, SHELLS):
        if chk.tier == "quick" and rng.random() > 0.25:
            continue
        g = dict(rnd_given(), trial=t, wt=w)
        if rng.random() < 0.85:
            g["adm"] = str(rng.choice(["absent", "none", "forward", "reverse", "2rdm"]))
        out.append({"src": str(rng.choice(["arg", "file"])), "g": g, "d": dict(rnd_dir(), amp=a, tpkl=p, dets=dd, shell=sh)})
    for _ in range(n_random):
        out.append({"src": str(rng.choice(SRCS, p=[.4, .3, .15, .15])), "g": rnd_given(), "d": rnd_dir()})
    for i, x in enumerate(out):
        x["id"] = i + 1
        x["decoy"] = bool(rng.integers(2))          # src = arg: an options.bin with other values lies around
    return out


def oracle(chk: Check, insts, need_all_outcomes=True):
    wd = chk.scratch("c16-setup-oracle")
    out = wd / "out"
    out.mkdir(exist_ok=True)
    (wd / "insts.ndjson").write_text("".join(json.dumps({k: x[k] for k in ("id", "src", "g", "d")}) + "\n" for x in insts))
    cfg = "SPECIFICATION Spec\nCHECK_DEADLOCK FALSE\nCONSTANTS Design = FALSE\n"
    chk.tlc("Setup", cfg, env={"SETUP_INSTS": str(wd / "insts.ndjson"), "SETUP_OUT": str(out)}, name="Setup-oracle", workers=4)
    exp = {}
    for x in insts:
        p = out / f"{x['id']}.json"
        if not p.exists():
            raise MachineryError(f"Setup.tla produced no expected record for instance {x['id']}")
        exp[x["id"]] = json.loads(p.read_text().splitlines()[0])
    seen = {e["outcome"] for e in exp.values()}
    if need_all_outcomes and seen != OUTCOMES:
        raise MachineryError(f"Setup.tla replay sample does not reach every outcome: missing {sorted(OUTCOMES - seen)}")
    return exp


# ------------------------------------------------------------------------------------------------ real directories
def _nelec(shell):
    return (2, 2) if shell == "closed" else (2, 1)


def _h1():
    h1 = np.array([[-1.0, 0.3, 0.0], [0.3, -0.5, 0.2], [0.0, 0.2, 0.1]])
    return h1


def build_dir(d: Path, x):
    import h5py
    from ad_afqmc import wavefunctions
    for f in d.iterdir():
        f.unlink()
    na, nb = _nelec(x["d"]["shell"])
    rng = np.random.default_rng(x["id"])
    chol = rng.normal(size=(2, NORB, NORB))
    chol = chol + chol.transpose(0, 2, 1)
    with h5py.File(d / "FCIDUMP_chol", "w") as f:
        f["header"] = np.array([na + nb, NORB, na - nb, 2])
        f["hcore"] = _h1().flatten()
        f["hcore_mod"] = _h1().flatten()
        f["chol"] = chol.flatten()
        f["energy_core"] = 0.25
    q = np.linalg.qr(rng.normal(size=(NORB, NORB)))[0]
    np.savez(d / "mo_coeff.npz", mo_coeff=np.array([np.eye(NORB), q]))
    amp = x["d"]["amp"]
    nv = NORB - na
    if amp == "r":
        np.savez(d / "amplitudes.npz", ci1=rng.normal(size=(na, nv)), ci2=rng.normal(size=(na, nv, na, nv)))
    elif amp == "u":
        nvb = NORB - nb
        np.savez(d / "amplitudes.npz", ci1a=rng.normal(size=(na, nv)), ci1b=rng.normal(size=(nb, nvb)),
                 ci2aa=rng.normal(size=(na, nv, na, nv)), ci2ab=rng.normal(size=(na, nv, nb, nvb)),
                 ci2bb=rng.normal(size=(nb, nvb, nb, nvb)))
    elif amp == "junk":
        np.savez(d / "amplitudes.npz", t1=rng.normal(size=(na, nv)))
    if x["d"]["tpkl"] == "valid":
        tr = wavefunctions.uhf(NORB, (na, nb))
        with open(d / "trial.pkl", "wb") as f:
            pickle.dump([tr, {"mo_coeff": [np.eye(NORB)[:, :na], q[:, :nb]]}], f)
    elif x["d"]["tpkl"] == "corrupt":
        (d / "trial.pkl").write_bytes(b"this is not a pickle")
    if x["d"]["obsf"] == "valid":
        with h5py.File(d / "observable.h5", "w") as f:
            f["constant"] = np.array([0.75])
            f["op"] = np.arange(NORB * NORB, dtype=float)
    elif x["d"]["obsf"] == "corrupt":
        (d / "observable.h5").write_bytes(b"this is not an hdf5 file")
    if x["d"]["dets"] == "valid":
        with open(d / "dets.pkl", "wb") as f:
            pickle.dump([np.array([0.8, 0.6]), [np.stack([np.eye(NORB)[:, :na], q[:, :na]]),
                                                np.stack([np.eye(NORB)[:, :nb], q[:, :nb]])]], f)
    given = given_dict(x["g"])
    if x["src"] == "file":
        with open(d / "options.bin", "wb") as f:
            pickle.dump(given, f)
    elif x["src"] == "corrupt":
        (d / "options.bin").write_bytes(b"\x80garbage")
    elif x["src"] == "arg" and x["decoy"]:
        with open(d / "options.bin", "wb") as f:
            pickle.dump({"dt": 0.5, "walker_type": "uhf", "trial": "uhf", "n_batch": 3, "free_projection": True}, f)
    return given


def given_dict(g):
    o = {}
    if g["trial"] != "absent":
        o["trial"] = {"none": None, "other": "multislater"}.get(g["trial"], g["trial"])
    if g["wt"] != "absent":
        o["walker_type"] = g["wt"]
    if g["fp"] != "absent":
        o["free_projection"] = g["fp"] == "true"
    if g["sym"] != "absent":
        o["symmetry"] = g["sym"] == "true"
    if g["nb"]:
        o["n_batch"] = g["nb"]
    if g["adm"] != "absent":
        o["ad_mode"] = {"none": None, "bogus": "backward"}.get(g["adm"], g["adm"])
    if g["nums"]:
        o.update(GIVEN_NUMS)
    return o


def project(ret, seed_given):
    """what _prep_afqmc returned, in the vocabulary of Setup.tla; `wired` lists objects that do not carry the options"""
    ham_data, ham, prop, trial, wave_data, sampler, observable, options, _ = ret
    o = options
    wired = []
    seed = o["seed"]
    if not seed_given:
        if not (isinstance(seed, (int, np.integer)) and 1 <= int(seed) < 10 ** 6):
            wired.append(f"drawn seed {seed!r} outside 1..10^6-1")
        seed = 0
    nums = {"dt": int(round(o["dt"] * 1000)), "n_walkers": int(o["n_walkers"]), "n_prop_steps": int(o["n_prop_steps"]),
            "n_ene_blocks": int(o["n_ene_blocks"]), "n_sr_blocks": int(o["n_sr_blocks"]), "n_blocks": int(o["n_blocks"]),
            "n_ene_blocks_eql": int(o["n_ene_blocks_eql"]), "n_sr_blocks_eql": int(o["n_sr_blocks_eql"]),
            "n_eql": int(o["n_eql"]), "ene0x10": int(round(float(o["ene0"]) * 10)), "seed": int(seed)}
    tname = o["trial"]
    opts = {"trial": "none" if tname is None else ("other" if tname == "multislater" else str(tname)),
            "wt": str(o["walker_type"]), "fp": bool(o["free_projection"]), "sym": bool(o["symmetry"]), "nb": int(o["n_batch"]),
            "adm": "none" if o["ad_mode"] is None else str(o["ad_mode"]), "osr": bool(o["do_sr"]),
            "orot": bool(o["orbital_rotation"]), "save": bool(o["save_walkers"]), "nums": nums}
    if observable is None:
        obs = "none"
    else:
        op = np.asarray(observable[0])
        ref = np.arange(NORB * NORB, dtype=float).reshape(NORB, NORB)
        good = (op.ndim == 2 and np.array_equal(op, ref)) or (op.ndim == 3 and op.shape[0] == 2 and all(np.array_equal(op[i], ref) for i in (0, 1)))
        obs = ("stacked" if op.ndim == 3 else "single") if good and float(observable[1]) == 0.75 else "garbled"
    tr = {"class": "None" if trial is None else type(trial).__name__, "nb": 0 if trial is None else int(trial.n_batch),
          "keys": sorted(wave_data.keys())}
    mask = np.asarray(ham_data["mask"])
    h1 = np.asarray(ham_data["h1"])
    mk = "ones" if np.array_equal(mask, np.ones(h1.shape)) else ("pattern" if np.array_equal(mask, (np.abs(h1) > 1e-10) * 1.0) else "other")
    pr = {"class": type(prop).__name__, "nb": int(prop.n_batch), "terms": int(prop.n_exp_terms), "mask": mk}
    if float(prop.dt) != float(o["dt"]) or int(prop.n_walkers) != int(o["n_walkers"]):
        wired.append(f"propagator dt/n_walkers {prop.dt}/{prop.n_walkers} != options {o['dt']}/{o['n_walkers']}")
    if (sampler.n_prop_steps, sampler.n_ene_blocks, sampler.n_sr_blocks, sampler.n_blocks) != \
            (o["n_prop_steps"], o["n_ene_blocks"], o["n_sr_blocks"], o["n_blocks"]):
        wired.append("sampler counts differ from the options")
    if float(ham_data["ene0"]) != float(o["ene0"]):
        wired.append("ham_data['ene0'] differs from options['ene0']")
    if trial is not None and (int(trial.norb) != NORB):
        wired.append("trial.norb differs from the header")
    return {"outcome": "ok" if trial is not None else "no_trial", "opts": opts, "obs": obs, "trial": tr, "prop": pr, "wired": wired}


NO = {"opts": {"trial": "none", "wt": "rhf", "fp": False, "sym": False, "nb": 0, "adm": "none", "osr": True, "orot": True, "save": False,
               "nums": {"dt": 10, "n_walkers": 50, "n_prop_steps": 50, "n_ene_blocks": 50, "n_sr_blocks": 1, "n_blocks": 50,
                        "n_ene_blocks_eql": 5, "n_sr_blocks_eql": 10, "n_eql": 1, "ene0x10": 0, "seed": 0}},
      "obs": "none", "trial": {"class": "None", "nb": 0, "keys": []}, "prop": {"class": "None", "nb": 0, "terms": 0, "mask": "none"},
      "wired": []}


def call(x, given, arg=None):
    from ad_afqmc import mpi_jax
    passed = None
    if arg is not None:
        passed = dict(arg)
    elif x["src"] == "arg":
        passed = dict(given)
    seed_given = "seed" in (passed if passed is not None else (given if x["src"] == "file" else {}))
    try:
        with contextlib.redirect_stdout(io.StringIO()):
            ret = mpi_jax._prep_afqmc(passed)
    except ValueError:
        return dict(NO, outcome="ValueError"), None
    except AssertionError:
        return dict(NO, outcome="AssertionError"), None
    except Exception as e:
        return dict(NO, outcome=f"crashed:{type(e).__name__}"), None
    return project(ret, seed_given), ret[7]


FIELDS = ("outcome", "opts", "obs", "trial", "prop")


def diff(exp, got):
    out = []
    for f in FIELDS:
        if exp[f] != got[f]:
            if isinstance(exp[f], dict):
                out += [(f"{f}.{k}", exp[f][k], got[f].get(k)) for k in exp[f] if exp[f][k] != got[f].get(k)]
            else:
                out.append((f, exp[f], got[f]))
    for w in got["wired"]:
        out.append(("wired", "objects carry the completed options", w))
    return out


def in_c16_scope(x):
    return (x["src"] in ("arg", "file") and x["g"]["trial"] in ("rhf", "uhf", "cisd", "ucisd") and x["g"]["wt"] in ("rhf", "uhf")
            and x["g"]["adm"] != "bogus")


C16_FIELDS = {"outcome", "trial.class", "prop.class", "prop.terms"}


def run(chk: Check, only=None):
    """`only`: a recorded instance (replay of one reported row) instead of the seeded sample"""
    if only is None:
        design(chk)
        insts = instances(chk)
    else:
        insts = [only]
    exp = oracle(chk, insts, need_all_outcomes=only is None)
    d = chk.scratch("c16-setup-dir")
    n_fix = 0
    reached = {}
    with _in_dir(d):
        for x in insts:
            given = build_dir(d, x)
            got, options = call(x, given)
            e = exp[x["id"]]
            reached[e["outcome"]] = reached.get(e["outcome"], 0) + 1
            chk.case(("setup-table", x["src"], json.dumps(x["g"], sort_keys=True), json.dumps(x["d"], sort_keys=True)))
            chk.traces += 1
            problems = diff(e, got)
            if not problems and options is not None:
                # fixed point: the completed dictionary, passed back as the argument, resolves to itself
                again, _ = call(x, given, arg=options)
                n_fix += 1
                e2 = json.loads(json.dumps(e))
                if e2["opts"]["nums"]["seed"] == 0:
                    e2["opts"]["nums"]["seed"] = again["opts"]["nums"]["seed"]      # the drawn seed is now a given one
                    if again["opts"]["nums"]["seed"] != int(options["seed"]):
                        problems.append(("fixed-point.seed", int(options["seed"]), again["opts"]["nums"]["seed"]))
                problems += [("fixed-point." + f, a, b) for f, a, b in diff(e2, again)]
            for field, want, have in problems:
                what = (f"_prep_afqmc, source={x['src']} given={x['g']} directory={x['d']}: {field}: Setup.tla expects {want!r}, "
                        f"the routine gave {have!r} (expected outcome {e['outcome']}, observed {got['outcome']})")
                base = field.replace("fixed-point.", "")
                if in_c16_scope(x) and base in C16_FIELDS:
                    chk.violation(f"options:setup-table:{base}", what, {"setup_instance": x, "expected": e, "observed": got})
                else:
                    chk.divergence(f"setup-table:{base}", what)
    chk.note("setup_table", {"instances": len(insts), "fixed_point_replays": n_fix, "expected_outcomes": reached})
