"""Float-side many-body helpers for the propagation checks (C04, C05): Slater-determinant vectors in the
configuration order chosen by TLC (HamOracle.tla), tensor Gauss-Hermite quadrature."""
import itertools

import numpy as np


def sdvec(cfgs, wup, wdn):
    """components det(Wup[A,:]) det(Wdn[B,:]) in TLC's configuration order"""
    wup, wdn = np.asarray(wup), np.asarray(wdn)
    out = np.zeros(len(cfgs), dtype=complex)
    for i, (a, b) in enumerate(cfgs):
        da = np.linalg.det(wup[list(a), :]) if len(a) else 1.0
        db = np.linalg.det(wdn[list(b), :]) if len(b) else 1.0
        out[i] = da * db
    return out


def gauss_hermite(nfields, npts):
    """nodes (K, nfields) and weights (K,) of the tensor rule for the standard normal density"""
    x, w = np.polynomial.hermite_e.hermegauss(npts)
    w = w / np.sqrt(2 * np.pi)
    nodes = np.array(list(itertools.product(x, repeat=nfields)))
    weights = np.array([np.prod(c) for c in itertools.product(w, repeat=nfields)])
    return nodes, weights


def rdm1(cfgs, vec, norb):
    """<psi|a+_p a_q|psi>/<psi|psi> per spin for psi = sum_c vec[c] |cfgs[c]> (cfgs: (alpha tuple, beta tuple), sorted tuples);
    brute force, for cross-checking special instances the integer oracle cannot represent"""
    import numpy as np
    idx = {c: i for i, c in enumerate(cfgs)}
    out = np.zeros((2, norb, norb), dtype=complex)
    nrm = np.vdot(vec, vec)
    for i, (a, b) in enumerate(cfgs):
        for sp, occ in ((0, a), (1, b)):
            for q in occ:
                rest = [x for x in occ if x != q]
                sq = (-1) ** occ.index(q)
                for p in range(norb):
                    if p in rest:
                        continue
                    new = tuple(sorted(rest + [p]))
                    sp_ = (-1) ** new.index(p)
                    c2 = (new, b) if sp == 0 else (a, new)
                    out[sp, p, q] += np.conj(vec[idx[c2]]) * sq * sp_ * vec[i]
    return out / nrm
