"""Float-side many-body helpers for the propagation checks (C04, C05): Slater-determinant vectors in the
configuration order chosen by TLC (HamOracle.tla), tensor Gauss-Hermite quadrature."""
import itertools

import numpy as np


def sdvec(cfgs, wup, wdn):
    """components det(Wup[A,:]) det(Wdn[B,:]) in TLC's configuration order"""
    wup, wdn = np.asarray(wup), np.asarray(wdn)
    out = np.zeros(len(cfgs), dtype=complex)
    for i, (a, b) in enumerate(cfgs):
        da = np.linalg.det(wup[list(a), :]) if len(a) else 1.0
        db = np.linalg.det(wdn[list(b), :]) if len(b) else 1.0
        out[i] = da * db
    return out


def gauss_hermite(nfields, npts):
    """nodes (K, nfields) and weights (K,) of the tensor rule for the standard normal density"""
    x, w = np.polynomial.hermite_e.hermegauss(npts)
    w = w / np.sqrt(2 * np.pi)
    nodes = np.array(list(itertools.product(x, repeat=nfields)))
    weights = np.array([np.prod(c) for c in itertools.product(w, repeat=nfields)])
    return nodes, weights
