"""Exact-instance protocol for the measurement kernels (shared by C01, C02, C03, C11, C13, C15).

Instances are generated here (seeded), evaluated exactly by TLC (spec/WfOracle.tla) and then
evaluated by the library; this module only *compares* floats with the Gaussian integers TLC wrote.
"""
from __future__ import annotations

import itertools
import json
from fractions import Fraction

import numpy as np

from .core import Check, MachineryError

AD_KINDS = ("multislater", "CISD", "UCISD", "GCISD", "CISD_THC")
RESTRICTED_ONLY = ("CISD", "CISD_THC", "cisd", "cisd_faster")
SPIN_H1_KINDS = ("uhf", "ghf", "noci", "multislater", "ucisd", "UCISD", "GCISD")
ALL_KINDS = ("rhf", "uhf", "ghf", "noci", "multislater", "CISD", "UCISD", "GCISD", "CISD_THC",
             "cisd", "cisd_faster", "ucisd")


# ----------------------------------------------------------------------------- exact helpers
def cdet(M):
    """exact determinant of a square matrix of python complex-with-int-parts / ints (as Fractions)"""
    n = len(M)
    if n == 0:
        return 1
    if n == 1:
        return M[0][0]
    tot = 0
    for i in range(n):
        if M[i][n - 1] == 0:
            continue
        minor = [row[: n - 1] for k, row in enumerate(M) if k != i]
        tot += (-1) ** (i + n - 1) * M[i][n - 1] * cdet(minor)
    return tot


def gi(z):
    """numpy complex with integer parts -> python complex-like exact pair using ints"""
    return complex(int(round(z.real)), int(round(z.imag)))


def exact_det(A):
    A = np.asarray(A)
    M = [[_G(int(round(x.real)), int(round(x.imag))) for x in row] for row in A.astype(complex)]
    d = cdet(M)
    return d if isinstance(d, _G) else _G(int(d))


class _G:
    """Gaussian integer with exact arithmetic (enough for cdet)."""
    __slots__ = ("re", "im")

    def __init__(self, re, im=0):
        self.re, self.im = re, im

    def __mul__(self, o):
        if isinstance(o, int):
            return _G(self.re * o, self.im * o)
        return _G(self.re * o.re - self.im * o.im, self.re * o.im + self.im * o.re)

    __rmul__ = __mul__

    def __add__(self, o):
        if isinstance(o, int):
            return _G(self.re + o, self.im)
        return _G(self.re + o.re, self.im + o.im)

    __radd__ = __add__

    def __eq__(self, o):
        if isinstance(o, int):
            return self.re == o and self.im == 0
        return self.re == o.re and self.im == o.im

    def iszero(self):
        return self.re == 0 and self.im == 0


def enc_c(M):
    M = np.asarray(M)
    return [[[int(round(x.real)), int(round(x.imag))] for x in row] for row in M.astype(complex)]


def enc_i(M):
    return np.rint(np.asarray(M)).astype(int).tolist()


def rand_int(rng, shape, lo=-2, hi=2):
    return rng.integers(lo, hi + 1, size=shape)


def rand_cplx(rng, shape, lo=-2, hi=2):
    return rand_int(rng, shape, lo, hi) + 1j * rand_int(rng, shape, lo, hi)


def rand_sym(rng, n, lo=-2, hi=2):
    a = rand_int(rng, (n, n), lo, hi)
    return np.triu(a) + np.triu(a, 1).T


def signed_perm(rng, n):
    P = np.zeros((n, n), dtype=int)
    perm = rng.permutation(n)
    for k in range(n):
        P[perm[k], k] = rng.choice([-1, 1])
    return P


H4 = np.array([[1, 1, 1, 1], [1, -1, 1, -1], [1, 1, -1, -1], [1, -1, -1, 1]])
R3 = np.array([[1, 2, 2], [2, 1, -2], [2, -2, 1]])


def orth_scaled(rng, n, mix=True):
    """(M, d): integer matrix with M^T M = d^2 I.  d=1: signed permutation; d=2: a 4x4 Hadamard block;
    d=3: the 3x3 block [[1,2,2],[2,1,-2],[2,-2,1]]; conjugated by random signed permutations."""
    opts = [1]
    if mix and n >= 4:
        opts.append(2)
    if mix and n >= 3:
        opts.append(3)
    d = int(rng.choice(opts))
    B = np.eye(n, dtype=int) * d
    if d == 2:
        B[:4, :4] = H4
    elif d == 3:
        B[:3, :3] = R3
    return signed_perm(rng, n) @ B @ signed_perm(rng, n), d


def fullrank_cols(rng, r, c, cplx=True, tries=200):
    """random (r x c) Gaussian-integer matrix with a non-zero leading c x c minor and full rank"""
    for _ in range(tries):
        M = rand_cplx(rng, (r, c)) if cplx else rand_int(rng, (r, c)).astype(complex)
        if c == 0:
            return M
        d = exact_det(M[:c, :])
        if not d.iszero():
            return M
    raise MachineryError("could not draw a full-rank matrix")


# ----------------------------------------------------------------------------- instance generation
def gen_ham(rng, norb, nchol, spin_dep):
    h1u = rand_sym(rng, norb)
    h1d = rand_sym(rng, norb) if spin_dep else h1u.copy()
    chol = np.array([rand_sym(rng, norb) for _ in range(nchol)])
    h0 = float(rng.integers(-3, 4)) + 0.25
    return {"h0": h0, "h1u": h1u, "h1d": h1d, "chol": chol}


def gen_trial(rng, kind, norb, nu, nd, opts=None):
    """returns dict(json=<Trials.tla record>, py=<parameters as numpy>, pivots=callable(wup,wdn)->list of exact dets
    that the library's algorithm divides by)"""
    opts = opts or {}
    N = nu + nd
    if kind == "rhf":
        C = fullrank_cols(rng, norb, nu)
        return {"kind": kind, "json": {"kind": "sd", "tup": enc_c(C), "tdn": enc_c(C)}, "C": C}
    if kind == "uhf":
        Cu, Cd = fullrank_cols(rng, norb, nu), fullrank_cols(rng, norb, nd)
        return {"kind": kind, "json": {"kind": "sd", "tup": enc_c(Cu), "tdn": enc_c(Cd)}, "Cu": Cu, "Cd": Cd}
    if kind == "ghf":
        C = rand_int(rng, (2 * norb, N))
        return {"kind": kind, "json": {"kind": "ghf", "C": enc_c(C)}, "C": C}
    if kind == "noci":
        nd_ = opts.get("ndets", int(rng.integers(1, 5)))
        cs = rng.integers(-3, 4, size=nd_)
        cs[cs == 0] = 1
        du = np.array([rand_int(rng, (norb, nu)) for _ in range(nd_)])
        dd = np.array([rand_int(rng, (norb, nd)) for _ in range(nd_)])
        return {"kind": kind, "json": {"kind": "noci", "dets": [
            {"c": int(cs[k]), "tup": enc_c(du[k]), "tdn": enc_c(dd[k])} for k in range(nd_)]},
            "cs": cs, "du": du, "dd": dd}
    if kind == "multislater":
        alla = list(itertools.combinations(range(norb), nu))
        allb = list(itertools.combinations(range(norb), nd))
        allp = [(a, b) for a in alla for b in allb]
        nl = opts.get("ndets", int(rng.integers(2, min(len(allp), 8) + 1)))
        if opts.get("dets") is not None:
            dets = opts["dets"]
        else:
            pick = rng.permutation(len(allp))[:nl]
            dets = [allp[i] for i in pick]
            if opts.get("aufbau_first"):
                ref = (tuple(range(nu)), tuple(range(nd)))
                dets = [ref] + [d for d in dets if d != ref]
        cs = opts.get("coeffs")
        if cs is None:
            cs = rng.integers(-3, 4, size=len(dets))
            cs[cs == 0] = 2
        return {"kind": kind, "json": {"kind": "dets", "dets": [
            {"c": int(cs[k]), "a": [p + 1 for p in dets[k][0]], "b": [p + 1 for p in dets[k][1]]}
            for k in range(len(dets))]}, "dets": dets, "cs": np.array(cs),
            "max_excitation": opts.get("max_excitation")}
    if kind in ("CISD", "cisd", "cisd_faster", "CISD_THC"):
        nocc, nv = nu, norb - nu
        c1 = rand_int(rng, (nocc, nv), -3, 3)
        if kind == "CISD_THC":
            npt = opts.get("npt", 2)
            Xo = rand_int(rng, (npt, nocc), -1, 1)
            Xv = rand_int(rng, (npt, nv), -1, 1)
            V = rand_sym(rng, npt, -2, 2)
            return {"kind": kind, "json": {"kind": "thc", "c1": enc_i(c1), "Xo": enc_i(Xo), "Xv": enc_i(Xv),
                                           "V": enc_i(V)}, "c1": c1, "Xo": Xo, "Xv": Xv, "V": V}
        c2 = rand_int(rng, (nocc, nv, nocc, nv), -3, 3)
        c2 = c2 + c2.transpose(2, 3, 0, 1)          # symmetric under (ia)<->(jb)
        return {"kind": kind, "json": {"kind": "cisd", "c1": enc_i(c1), "c2": enc_i(c2)}, "c1": c1, "c2": c2}
    if kind in ("UCISD", "ucisd"):
        nvA, nvB = norb - nu, norb - nd
        c1A = rand_int(rng, (nu, nvA), -3, 3)
        c1B = rand_int(rng, (nd, nvB), -3, 3)
        t = rand_int(rng, (nu, nvA, nu, nvA), -2, 2)
        c2AA = t - t.transpose(2, 1, 0, 3) - t.transpose(0, 3, 2, 1) + t.transpose(2, 3, 0, 1)
        t = rand_int(rng, (nd, nvB, nd, nvB), -2, 2)
        c2BB = t - t.transpose(2, 1, 0, 3) - t.transpose(0, 3, 2, 1) + t.transpose(2, 3, 0, 1)
        c2AB = rand_int(rng, (nu, nvA, nd, nvB), -3, 3)
        moB, d = (orth_scaled(rng, norb) if not opts.get("moB_identity") else (np.eye(norb, dtype=int), 1))
        return {"kind": kind, "d": d, "json": {"kind": "ucisd", "moB": enc_i(moB), "d": d, "c1A": enc_i(c1A), "c1B": enc_i(c1B),
                                       "c2AA": enc_i(c2AA), "c2BB": enc_i(c2BB), "c2AB": enc_i(c2AB)},
                "moB": moB, "c1A": c1A, "c1B": c1B, "c2AA": c2AA, "c2BB": c2BB, "c2AB": c2AB}
    if kind == "GCISD":
        nv = 2 * norb - N
        c1 = rand_int(rng, (N, nv), -3, 3)
        t = rand_int(rng, (N, nv, N, nv), -2, 2)
        c2 = t - t.transpose(2, 1, 0, 3) - t.transpose(0, 3, 2, 1) + t.transpose(2, 3, 0, 1)
        if opts.get("ghf_mix", True) and rng.random() < 0.5:
            C, d = orth_scaled(rng, 2 * norb)
        else:   # signed permutation whose first N columns hold nu alpha and nd beta spin-orbitals
            d = 1
            pa, pb = rng.permutation(norb), rng.permutation(norb) + norb
            order = np.concatenate([pa[:nu], pb[:nd], rng.permutation(np.concatenate([pa[nu:], pb[nd:]]))])
            order[:N] = rng.permutation(order[:N])
            C = np.zeros((2 * norb, 2 * norb), dtype=int)
            for k, P in enumerate(order):
                C[P, k] = rng.choice([-1, 1])
        return {"kind": kind, "d": d, "json": {"kind": "gcisd", "C": enc_i(C), "d": d, "c1": enc_i(c1), "c2": enc_i(c2)},
                "C": C, "c1": c1, "c2": c2}
    raise ValueError(kind)


def pivots(tr, norb, nu, nd, wup, wdn):
    """exact values of every determinant the library's algorithm for this kind divides by
    (besides the total overlap).  A zero pivot means the walker is not in generic position for that
    algorithm (0/0 in floating point) and the instance is skipped (counted)."""
    k = tr["kind"]
    out = []
    if k == "rhf":
        out += [exact_det(tr["C"].conj().T @ wup), exact_det(tr["C"].conj().T @ wdn)]
    elif k == "uhf":
        out += [exact_det(tr["Cu"].conj().T @ wup), exact_det(tr["Cd"].conj().T @ wdn)]
    elif k == "ghf":
        C = tr["C"]
        out += [exact_det(np.hstack([C[:norb].T @ wup, C[norb:].T @ wdn]))]
    elif k == "noci":
        for a, b in zip(tr["du"], tr["dd"]):
            out += [exact_det(a.T @ wup), exact_det(b.T @ wdn)]
    elif k == "multislater":
        a, b = tr["dets"][0]
        out += [exact_det(wup[list(a), :]), exact_det(wdn[list(b), :])]
    elif k in ("CISD", "cisd", "cisd_faster", "CISD_THC"):
        out += [exact_det(wup[:nu, :])]
    elif k in ("UCISD", "ucisd"):
        out += [exact_det(wup[:nu, :]), exact_det((tr["moB"].T @ wdn)[:nd, :])]
    elif k == "GCISD":
        W = np.block([[wup, np.zeros((norb, nd))], [np.zeros((norb, nu)), wdn]])
        out += [exact_det((tr["C"].T @ W)[: nu + nd, :])]
    return out


def gen_walkers(rng, tr, norb, nu, nd, nw, restricted, tries=400):
    """nw pairwise different walkers in generic position for the trial's algorithm"""
    ws, seen = [], set()
    for _ in range(tries):
        if len(ws) == nw:
            break
        wup = rand_cplx(rng, (norb, nu))
        wdn = wup[:, :nd].copy() if restricted else rand_cplx(rng, (norb, nd))
        key = (wup.tobytes(), wdn.tobytes())
        if key in seen:
            continue
        if any(p.iszero() if isinstance(p, _G) else p == 0 for p in pivots(tr, norb, nu, nd, wup, wdn)):
            continue
        seen.add(key)
        ws.append((wup, wdn))
    if len(ws) < nw:
        raise MachineryError(f"could not draw {nw} generic walkers for {tr['kind']} {norb},{nu},{nd}")
    return ws


def make_instance(iid, rng, kind, norb, nu, nd, nchol, nw, restricted, spin_dep=False, topts=None,
                  want=("e", "fb"), rdm=False):
    ham = gen_ham(rng, norb, nchol, spin_dep)
    for attempt in range(30):
        tr = gen_trial(rng, kind, norb, nu, nd, topts)
        try:
            ws = gen_walkers(rng, tr, norb, nu, nd, nw, restricted)
            break
        except MachineryError:
            if attempt == 29:
                raise
    js = {"id": iid, "norb": norb, "nup": nu, "ndn": nd, "trial": tr["json"],
          "h1u": enc_i(ham["h1u"]), "h1d": enc_i(ham["h1d"]), "chol": [enc_i(c) for c in ham["chol"]],
          "walkers": [{"wup": enc_c(a), "wdn": enc_c(b)} for a, b in ws],
          "want_e": "e" in want, "want_fb": "fb" in want, "want_rdm": bool(rdm)}
    return {"id": iid, "kind": kind, "norb": norb, "nu": nu, "nd": nd, "nchol": nchol, "restricted": restricted,
            "spin_dep": spin_dep, "trial": tr, "ham": ham, "walkers": ws, "json": js}


# ----------------------------------------------------------------------------- TLC evaluation
def tlc_eval(chk: Check, insts, name="wf", timeout=3000):
    """evaluate all instances exactly; returns {id: result}"""
    wd = chk.scratch(f"wf-{name}")
    inp = wd / "inst.ndjson"
    out = wd / "out"
    out.mkdir(exist_ok=True)
    with inp.open("w") as f:
        for I in insts:
            f.write(json.dumps(I["json"]) + "\n")
    cfg = "SPECIFICATION Spec\nCHECK_DEADLOCK FALSE\n"
    r = chk.tlc("WfOracle", cfg, env={"ORACLE_INST": str(inp), "ORACLE_OUT": str(out)}, name=f"WfOracle-{name}",
                timeout=timeout)
    res = {}
    for I in insts:
        p = out / f"{I['id']}.json"
        if not p.exists():
            raise MachineryError(f"TLC produced no result for instance {I['id']}:\n" + r.stdout[-2000:])
        res[I["id"]] = json.loads(p.read_text().splitlines()[0])
    return res


def cfrac(pair, scale=1):
    return complex(Fraction(pair[0], scale), Fraction(pair[1], scale))


def exact_values(I, R):
    """per walker: ov (complex), energy (complex or None if ov==0), fb (list)"""
    s = R["scale"]
    outs = []
    for w in R["walkers"]:
        ov = w["ov"]
        ovc = complex(ov[0], ov[1]) / s
        if ov[0] == 0 and ov[1] == 0:
            outs.append({"ov": 0j, "e": None, "fb": None, "zero": True})
            continue
        den = complex(ov[0], ov[1])
        e = None
        if I["json"]["want_e"]:
            e = I["ham"]["h0"] + complex(w["e2"][0], w["e2"][1]) / (2 * den)
        fb = None
        if I["json"]["want_fb"]:
            fb = [complex(x[0], x[1]) / den for x in w["fb"]]
        outs.append({"ov": ovc, "e": e, "fb": fb, "zero": False})
    return outs


# ----------------------------------------------------------------------------- library side
def build_lib(I, n_batch=1, eps=None):
    """construct (trial, wave_data, ham_data, ham) exactly as a user of the library would"""
    import jax.numpy as jnp
    from ad_afqmc import hamiltonian, wavefunctions, pyscf_interface
    tr, kind, norb, nu, nd = I["trial"], I["kind"], I["norb"], I["nu"], I["nd"]
    nelec = (nu, nd)
    wd = {}
    kw = {"n_batch": n_batch}
    if kind == "rhf":
        trial = wavefunctions.rhf(norb, nelec, **kw)
        wd["mo_coeff"] = jnp.array(tr["C"])
    elif kind == "uhf":
        trial = wavefunctions.uhf(norb, nelec, **kw)
        wd["mo_coeff"] = [jnp.array(tr["Cu"]), jnp.array(tr["Cd"])]
    elif kind == "ghf":
        trial = wavefunctions.ghf(norb, nelec, **kw)
        wd["mo_coeff"] = jnp.array(tr["C"] * 1.0)
    elif kind == "noci":
        trial = wavefunctions.noci(norb, nelec, len(tr["cs"]), **kw)
        wd["ci_coeffs_dets"] = [jnp.array(tr["cs"] * 1.0), [jnp.array(tr["du"] * 1.0), jnp.array(tr["dd"] * 1.0)]]
    elif kind == "multislater":
        state = {}
        for (a, b), c in zip(tr["dets"], tr["cs"]):
            da = tuple(1 if p in a else 0 for p in range(norb))
            db = tuple(1 if p in b else 0 for p in range(norb))
            state[(da, db)] = float(c)
        ranks = [len(set(a) - set(tr["dets"][0][0])) + len(set(b) - set(tr["dets"][0][1])) for a, b in tr["dets"]]
        mx = tr.get("max_excitation") or max(max(ranks), 1)
        Acre, Ades, Bcre, Bdes, coeff, ref_det = pyscf_interface.get_excitations(state=state, max_excitation=mx)
        trial = wavefunctions.multislater(norb, nelec, max_excitation=mx, **({"eps": eps} if eps else {}), **kw)
        wd.update({"Acre": Acre, "Ades": Ades, "Bcre": Bcre, "Bdes": Bdes, "coeff": coeff, "ref_det": ref_det})
    elif kind in ("CISD", "cisd", "cisd_faster"):
        cls = getattr(wavefunctions, kind)
        trial = cls(norb, nelec, **({"eps": eps} if (eps and kind == "CISD") else {}), **kw)
        wd["ci1"], wd["ci2"] = jnp.array(tr["c1"] * 1.0), jnp.array(tr["c2"] * 1.0)
    elif kind == "CISD_THC":
        trial = wavefunctions.CISD_THC(norb, nelec, **({"eps": eps} if eps else {}), **kw)
        wd["ci1"] = jnp.array(tr["c1"] * 1.0)
        wd["Xocc"], wd["Xvirt"], wd["VKL"] = (jnp.array(tr[k] * 1.0) for k in ("Xo", "Xv", "V"))
    elif kind in ("UCISD", "ucisd"):
        cls = getattr(wavefunctions, kind)
        trial = cls(norb, nelec, **({"eps": eps} if (eps and kind == "UCISD") else {}), **kw)
        for k in ("c1A", "c1B", "c2AA", "c2BB", "c2AB"):
            wd["ci" + k[1:]] = jnp.array(tr[k] * 1.0)
        wd["mo_coeff"] = [jnp.eye(norb), jnp.array(tr["moB"] / tr["d"])]
    elif kind == "GCISD":
        trial = wavefunctions.GCISD(norb, nelec, **({"eps": eps} if eps else {}), **kw)
        wd["ci1"], wd["ci2"] = jnp.array(tr["c1"] * 1.0), jnp.array(tr["c2"] * 1.0)
        wd["mo_coeff"] = jnp.array(tr["C"] / tr["d"])
    else:
        raise ValueError(kind)
    ham = hamiltonian.hamiltonian(norb)
    H = I["ham"]
    hd = {"h0": H["h0"], "h1": jnp.array(np.array([H["h1u"], H["h1d"]]) * 1.0),
          "chol": jnp.array(H["chol"].reshape(len(H["chol"]), -1) * 1.0), "ene0": 0.0}
    return trial, wd, hd, ham


def close(a, b, tol):
    if a is None or b is None:
        return False
    a = complex(a)
    if not np.isfinite(a.real) or not np.isfinite(a.imag):
        return False
    return abs(a - b) <= tol * max(1.0, abs(b))


# ----------------------------------------------------------------------------- orthonormal exact orbitals
def orth_int(rng, n, rotate=True):
    """integer matrix M with M^T M = 25 I (a signed permutation times 5, optionally mixed by one
    (3,4,5) Pythagorean Givens rotation); M/5 is exactly orthogonal"""
    P = signed_perm(rng, n)
    if rotate and n >= 2:
        i, j = rng.choice(n, size=2, replace=False)
        G = 5 * np.eye(n, dtype=int)
        G[i, i], G[j, j], G[i, j], G[j, i] = 3, 3, -4, 4
        return G @ P, 5
    return 5 * P, 5


def gen_rdm_instance(iid, rng, kind, norb, nu, nd):
    """trial with orthonormal orbitals (given to TLC as integers scaled by 5) for the 1-RDM clause"""
    N = nu + nd
    if kind == "rhf":
        M, d = orth_int(rng, norb)
        C = M[:, :nu]
        tr = {"kind": kind, "json": {"kind": "sd", "tup": enc_c(C), "tdn": enc_c(C)}, "C": C / d}
    elif kind == "uhf":
        Mu, d = orth_int(rng, norb)
        Md, _ = orth_int(rng, norb)
        tr = {"kind": kind, "json": {"kind": "sd", "tup": enc_c(Mu[:, :nu]), "tdn": enc_c(Md[:, :nd])},
              "Cu": Mu[:, :nu] / d, "Cd": Md[:, :nd] / d}
    elif kind == "ghf":
        M, d = orth_int(rng, 2 * norb)
        tr = {"kind": kind, "json": {"kind": "ghf", "C": enc_c(M[:, :N])}, "C": M[:, :N] / d}
    elif kind == "noci":
        for _ in range(200):
            nd_ = int(rng.integers(2, 4))
            Ms = [(orth_int(rng, norb)[0], orth_int(rng, norb)[0]) for _ in range(nd_)]
            ok = True
            for a in Ms:
                for b in Ms:
                    if exact_det(a[0][:, :nu].T @ b[0][:, :nu]).iszero() or \
                            exact_det(a[1][:, :nd].T @ b[1][:, :nd]).iszero():
                        ok = False
            if ok:
                break
        else:
            raise MachineryError("no generic NOCI rdm instance")
        cs = rng.integers(1, 4, size=nd_) * rng.choice([-1, 1], size=nd_)
        du = np.array([m[0][:, :nu] for m in Ms])
        dd = np.array([m[1][:, :nd] for m in Ms])
        tr = {"kind": kind, "json": {"kind": "noci", "dets": [
            {"c": int(cs[k]), "tup": enc_c(du[k]), "tdn": enc_c(dd[k])} for k in range(nd_)]},
            "cs": cs, "du": du / 5, "dd": dd / 5}
    else:
        raise ValueError(kind)
    js = {"id": iid, "norb": norb, "nup": nu, "ndn": nd, "trial": tr["json"], "h1u": [], "h1d": [], "chol": [],
          "walkers": [], "want_e": False, "want_fb": False, "want_rdm": True}
    return {"id": iid, "kind": kind, "norb": norb, "nu": nu, "nd": nd, "trial": tr, "json": js,
            "ham": gen_ham(rng, norb, 1, False), "walkers": [], "restricted": False, "spin_dep": False}


# ----------------------------------------------------------------------------- Hamiltonian-level oracle
def ham_oracle(chk: Check, reqs, name="ham"):
    """reqs: list of dicts for spec/HamOracle.tla; returns {id: answer}"""
    wd = chk.scratch(f"ham-{name}")
    out = wd / "out"
    out.mkdir(exist_ok=True)
    (wd / "req.ndjson").write_text("".join(json.dumps(r) + "\n" for r in reqs))
    chk.tlc("HamOracle", "SPECIFICATION Spec\nCHECK_DEADLOCK FALSE\n",
            env={"HAM_REQ": str(wd / "req.ndjson"), "HAM_OUT": str(out)}, name=f"HamOracle-{name}", timeout=3000)
    res = {}
    for r in reqs:
        p = out / f"{r['id']}.json"
        if not p.exists():
            raise MachineryError(f"HamOracle produced no answer for request {r['id']}")
        res[r["id"]] = json.loads(p.read_text().splitlines()[0])
    return res


def hmatrix(chk: Check, ham, norb, nu, nd, rid=1, name="hmat"):
    """exact matrix of H in the (nu, nd) sector: returns (configs as (alpha tuple, beta tuple) 0-based, H as float array)"""
    req = {"id": rid, "kind": "hmat", "norb": norb, "nup": nu, "ndn": nd, "h1u": enc_i(ham["h1u"]), "h1d": enc_i(ham["h1d"]),
           "chol": [enc_i(c) for c in ham["chol"]]}
    a = ham_oracle(chk, [req], name)[rid]
    cfgs = [(tuple(p - 1 for p in c if p <= norb), tuple(p - 1 - norb for p in c if p > norb)) for c in a["configs"]]
    H = np.array(a["rows"], dtype=float) / 2.0 + ham["h0"] * np.eye(len(cfgs))
    return cfgs, H
