"""Run-level harness: build small AFQMC problems, run the real driver / sampler entry points with
observation proxies, and validate the recorded traces against spec/AfqmcTrace.tla."""
from __future__ import annotations

import contextlib
import io
import json
import os

import numpy as np

from . import proxies
from .core import Check, MachineryError


def make_system(rng, norb=4, nelec=(2, 1), nchol=3, trial_kind="uhf", walker_type="uhf", n_walkers=4,
                dt=0.01, vscale=0.25, n_batch=1, proxied=True, spin_h1=False):
    """a small random ab-initio-like problem with a mean-field trial (orthonormal orbitals)"""
    import jax.numpy as jnp
    from ad_afqmc import hamiltonian, propagation, wavefunctions
    a = rng.normal(size=(norb, norb))
    h1 = (a + a.T) / 2
    h1b = h1 + (0.1 * (lambda b: (b + b.T) / 2)(rng.normal(size=(norb, norb))) if spin_h1 else 0)
    chol = np.array([(lambda b: (b + b.T) / 2)(rng.normal(size=(norb, norb))) for _ in range(nchol)]) * vscale
    ham = hamiltonian.hamiltonian(norb)
    ham_data = {"h0": float(rng.normal()), "h1": jnp.array([h1, h1b]), "chol": jnp.array(chol.reshape(nchol, -1)),
                "ene0": 0.0}
    _, v = np.linalg.eigh(h1)
    _, vb = np.linalg.eigh(h1b)
    T = {"rhf": wavefunctions.rhf, "uhf": wavefunctions.uhf}[trial_kind]
    P = {"rhf": propagation.propagator_restricted, "uhf": propagation.propagator_unrestricted}[walker_type]
    if proxied:
        T, P = proxies.trial_proxy(T), proxies.prop_proxy(P)
    wave_data = {}
    if trial_kind == "rhf":
        assert nelec[0] == nelec[1]
        trial = T(norb, nelec, n_batch=n_batch)
        wave_data["mo_coeff"] = jnp.array(v[:, : nelec[0]])
        wave_data["rdm1"] = jnp.array([v[:, : nelec[0]] @ v[:, : nelec[0]].T] * 2)
    else:
        trial = T(norb, nelec, n_batch=n_batch)
        wave_data["mo_coeff"] = [jnp.array(v[:, : nelec[0]]), jnp.array(vb[:, : nelec[1]])]
        wave_data["rdm1"] = jnp.array([v[:, : nelec[0]] @ v[:, : nelec[0]].T, vb[:, : nelec[1]] @ vb[:, : nelec[1]].T])
    prop = P(dt=dt, n_walkers=n_walkers, n_batch=n_batch)
    return {"ham": ham, "ham_data": ham_data, "trial": trial, "wave_data": wave_data, "prop": prop,
            "norb": norb, "nelec": nelec, "h1": h1, "chol": chol}


def default_options(**kw):
    o = {"seed": 7, "ad_mode": None, "n_eql": 1, "n_ene_blocks_eql": 1, "n_sr_blocks_eql": 1,
         "orbital_rotation": True, "do_sr": True, "save_walkers": False}
    o.update(kw)
    return o


@contextlib.contextmanager
def in_scratch(chk: Check, name):
    d = chk.scratch(name)
    old = os.getcwd()
    os.chdir(d)
    try:
        yield d
    finally:
        os.chdir(old)


def run_driver(chk: Check, sysd, options, block, n_blocks, mpi=None, name="drv", observable=None, init_walkers=None):
    """driver.afqmc with proxies; returns (events, result, captured stdout)"""
    from ad_afqmc import config, driver
    S = proxies.sampler_proxy()
    sampler = S(n_prop_steps=block[0], n_ene_blocks=block[1], n_sr_blocks=block[2], n_blocks=n_blocks)
    proxies.reset()
    buf = io.StringIO()
    mpi = mpi or config.not_MPI()
    hd = dict(sysd["ham_data"])
    wd = dict(sysd["wave_data"])
    with in_scratch(chk, name) as d, contextlib.redirect_stdout(buf):
        res = driver.afqmc(hd, sysd["ham"], sysd["prop"], sysd["trial"], wd, sampler, observable, options, mpi,
                           init_walkers=init_walkers)
        files = {f: (d / f).read_text() for f in ("samples_raw.dat",) if (d / f).exists()}
        if (d / "prop_data_0.bin").exists():       # options["save_walkers"]: one pickled prop_data per sampling block
            import pickle
            saved = []
            with open(d / "prop_data_0.bin", "rb") as fh:
                while True:
                    try:
                        saved.append(pickle.load(fh))
                    except EOFError:
                        break
            files["saved_prop_data"] = saved
    return proxies.snapshot(), res, buf.getvalue(), files


TRACE_CFG = """SPECIFICATION TSpec
CONSTRAINT Track
POSTCONDITION WriteVerdicts
CHECK_DEADLOCK FALSE
CONSTANTS
  Walkers = {{{walkers}}}
  NEql = {neql}
  NBlocks = {nblocks}
  NSteps = {steps}
  NEne = {ene}
  NSr = {sr}
  NStepsEql = {steps_eql}
  NEneEql = {ene_eql}
  NSrEql = {sr_eql}
  AdModes = {{"none", "forward", "reverse", "2rdm"}}
  OrbRots = {{TRUE, FALSE}}
  DoSrs = {{TRUE, FALSE}}
  SaveWalkers = {save}
  Mutation = "none"
"""


def validate_traces(chk: Check, traces, cfgkw, name="trace"):
    """traces: list of event lists (already projected with proxies.to_trace, distinct tid).
    returns list of verdict dicts (one per trace, in tid order) with 'accepted' and diagnostics"""
    wd = chk.scratch(f"aftrace-{name}")
    tp = wd / "traces.ndjson"
    vp = wd / "verdicts.ndjson"
    with tp.open("w") as f:
        for tr in traces:
            for e in tr:
                f.write(json.dumps(e) + "\n")
    nw = cfgkw.pop("n_walkers")
    cfg = TRACE_CFG.format(walkers=", ".join(f"w{i+1}" for i in range(nw)),
                           save="TRUE" if cfgkw.pop("save", False) else "FALSE", **cfgkw)
    r = chk.tlc("AfqmcTrace", cfg, env={"AFQMC_TRACES": str(tp), "AFQMC_VERDICTS": str(vp)}, workers=1,
                name=f"AfqmcTrace-{name}", timeout=1200)
    if not vp.exists():
        raise MachineryError("AfqmcTrace produced no verdicts:\n" + r.stdout[-1500:])
    out = []
    bytid = {tr[0]["tid"]: tr for tr in traces}
    for line in vp.read_text().splitlines():
        v = json.loads(line)
        tr = bytid[v["tid"]]
        v["accepted"] = v["reached"] == v["len"]
        v["first_unexplained"] = None if v["accepted"] else tr[v["reached"]]
        v["property_violation"] = None if v["bad"][0] == 0 else {"line": v["bad"][0], "name": v["bad"][1],
                                                                "event": tr[v["bad"][0] - 1]}
        out.append(v)
    return out


# ------------------------------------------------------------------------------------------ schedules (spec -> code)
def schedules(chk: Check, reqs, name="sched"):
    """ask AfqmcSchedules.tla for the canonical action schedule of each request"""
    wd = chk.scratch(f"sched-{name}")
    out = wd / "out"
    out.mkdir(exist_ok=True)
    with (wd / "req.ndjson").open("w") as f:
        for r in reqs:
            f.write(json.dumps(r) + "\n")
    chk.tlc("AfqmcSchedules", "SPECIFICATION SSpec\nCHECK_DEADLOCK FALSE\n",
            env={"SCHED_REQ": str(wd / "req.ndjson"), "SCHED_OUT": str(out)}, workers=2, name=f"AfqmcSchedules-{name}")
    return {r["id"]: json.loads((out / f"{r['id']}.json").read_text().splitlines()[0]) for r in reqs}


def copy_prop_data(pd):
    import jax.numpy as jnp
    out = {}
    for k, v in pd.items():
        out[k] = [jnp.array(x) for x in v] if isinstance(v, (list, tuple)) else jnp.array(v)
    return out


def replay_schedule(sysd, sched, prop_data, n_steps, coupling_op=None):
    """step the PUBLIC single-step API along a TLC schedule with an explicit overlap refresh after every
    walker modification.  Returns (energy, prop_data, block energies, block weights)."""
    import jax.numpy as jnp
    from jax import random
    trial, prop, ham, wd = sysd["trial"], sysd["prop"], sysd["ham"], dict(sysd["wave_data"])
    hd = dict(sysd["ham_data"])
    if sched["optimize"]:
        wd = trial.optimize(hd, wd)
    hd = ham.build_measurement_intermediates(hd, trial, wd)
    hd = ham.build_propagation_intermediates(hd, prop, trial, wd)
    pd = copy_prop_data(prop_data)

    def refresh():
        pd["overlaps"] = trial.calc_overlap(pd["walkers"], wd)

    refresh()
    pd["n_killed_walkers"] = 0
    pd["pop_control_ene_shift"] = pd["e_estimate"]
    bes, bws = [], []
    fields, fi = None, 0
    be = None
    for a in sched["sched"]:
        if a == "key":
            pd["key"], sub = random.split(pd["key"])
            fields = random.normal(sub, shape=(n_steps, prop.n_walkers, hd["chol"].shape[0]))
            fi = 0
        elif a == "step":
            pd.update(prop.propagate(trial, hd, pd, fields[fi], wd))
            fi += 1
            refresh()
        elif a == "kill":
            pd["n_killed_walkers"] += pd["weights"].size - jnp.count_nonzero(pd["weights"])
        elif a == "qr":
            pd.update(prop.orthonormalize_walkers(pd))
            refresh()
        elif a in ("refresh", "sr_refresh"):
            refresh()
        elif a == "measure":
            e = jnp.real(trial.calc_energy(pd["walkers"], hd, wd))
            e = jnp.where(jnp.abs(e - pd["e_estimate"]) > jnp.sqrt(2.0 / prop.dt), pd["e_estimate"], e)
            bw = jnp.sum(pd["weights"])
            be = jnp.sum(e * pd["weights"]) / bw
            bes.append(be)
            bws.append(bw)
        elif a == "shift":
            pd["pop_control_ene_shift"] = 0.9 * pd["pop_control_ene_shift"] + 0.1 * be
        elif a == "sr":
            pd.update(prop.stochastic_reconfiguration_local(pd))
            refresh()
        else:
            raise MachineryError(f"unknown schedule action {a}")
    bes, bws = jnp.array(bes), jnp.array(bws)
    return float(jnp.sum(bes * bws) / jnp.sum(bws)), pd, np.asarray(bes), np.asarray(bws)


def call_entry(sysd, sampler, opts, prop_data, observable_op=None):
    """call a sampler entry point exactly as driver.afqmc does for these options.
    returns dict(energy=, prop_data=, deriv=(forward), rdm=(reverse))"""
    import jax.numpy as jnp
    from jax import jvp, vjp, dtypes
    trial, prop, ham = sysd["trial"], sysd["prop"], sysd["ham"]
    hd, wd = dict(sysd.get("ham_data_built", sysd["ham_data"])), dict(sysd["wave_data"])   # the driver passes built data
    pd = copy_prop_data(prop_data)
    mode = opts["ad_mode"]
    if mode is None:
        e, pdo = sampler.propagate_phaseless(ham, hd, prop, pd, trial, wd)
        return {"energy": float(e), "prop_data": pdo}
    op = jnp.array(hd["h1"]) if observable_op is None else jnp.array(observable_op)
    if mode == "2rdm":
        f = lambda x, y, z: sampler.propagate_phaseless_ad_1(ham, hd, x, y, prop, z, trial, wd)
    elif not opts["orbital_rotation"] and not opts["do_sr"]:
        f = lambda x, y, z: sampler.propagate_phaseless_ad_nosr_norot(ham, hd, x, y, prop, z, trial, wd)
    elif not opts["orbital_rotation"]:
        f = lambda x, y, z: sampler.propagate_phaseless_ad_norot(ham, hd, x, y, prop, z, trial, wd)
    elif not opts["do_sr"]:
        f = lambda x, y, z: sampler.propagate_phaseless_ad_nosr(ham, hd, x, y, prop, z, trial, wd)
    else:
        f = lambda x, y, z: sampler.propagate_phaseless_ad(ham, hd, x, y, prop, z, trial, wd)
    if mode == "forward":
        tang = {}
        for k in pd:
            if isinstance(pd[k], list):
                tang[k] = [np.zeros_like(y) for y in pd[k]]
            elif pd[k].dtype == "uint32":
                tang[k] = np.zeros(pd[k].shape, dtype=dtypes.float0)
            else:
                tang[k] = np.zeros_like(pd[k])
        e, d, pdo = jvp(f, (0.0, op, pd), (1.0, 0.0 * op, tang), has_aux=True)
        return {"energy": float(e), "deriv": float(d), "prop_data": pdo}
    if mode == "reverse":
        rdm_op = 0.0 * jnp.array(hd["h1"])
        e, vf, pdo = vjp(f, 1.0, rdm_op, pd, has_aux=True)
        proxies.emit("Backward")
        rdm = vf(1.0)[1]
        return {"energy": float(e), "rdm": np.asarray(rdm), "prop_data": pdo}
    if mode == "2rdm":
        nchol = hd["chol"].shape[0]
        norb = ham.norb
        eri = np.einsum("gj,gl->jl", np.asarray(hd["chol"]).reshape(nchol, -1), np.asarray(hd["chol"]).reshape(nchol, -1))
        op2 = jnp.array(eri).reshape(norb, norb, norb, norb)
        e, vf, pdo = vjp(f, 1.0, op2, pd, has_aux=True)
        proxies.emit("Backward")
        rdm2 = vf(1.0)[1]
        return {"energy": float(e), "rdm2": np.asarray(rdm2), "prop_data": pdo}
    raise ValueError(mode)


def init_prop_data(sysd, seed):
    """what driver.afqmc does before the first block"""
    from jax import random
    trial, prop, ham = sysd["trial"], sysd["prop"], sysd["ham"]
    hd, wd = dict(sysd["ham_data"]), dict(sysd["wave_data"])
    with proxies.suppress():
        hd = ham.build_measurement_intermediates(hd, trial, wd)
        hd = ham.build_propagation_intermediates(hd, prop, trial, wd)
        pd = prop.init_prop_data(trial, wd, hd, None)
    pd["key"] = random.PRNGKey(seed)
    sysd["ham_data_built"] = hd
    return pd


# ------------------------------------------------------------------------------------------ Hubbard / CPMC systems
def make_hubbard(rng, lattice, nelec, u, dt, prop_kind="cpmc", trial_kind="uhf", n_walkers=6, u_1=0.0,
                 poor_trial=False, proxied=True, twist=0.0):
    """lattice Hamiltonian set up as examples/hubbard.ipynb does: h1 = -adjacency, the on-site U as
    Cholesky vectors in ham_data['chol'], ham_data['u'] = U; propagator/trial of the requested kind"""
    import jax.numpy as jnp
    from ad_afqmc import hamiltonian, propagation, wavefunctions
    n = lattice.n_sites
    adj = np.asarray(lattice.create_adjacency_matrix(), dtype=float)
    h1 = -adj
    if twist:      # twisted boundary condition: complex Hermitian hopping, hence complex trial orbitals and overlap ratios
        sgn = np.sign(np.subtract.outer(np.arange(n), np.arange(n))).T
        h1 = h1 * np.exp(1j * twist * sgn)
    chol = np.zeros((n, n, n))
    for i in range(n):
        chol[i, i, i] = np.sqrt(u)
    ham = hamiltonian.hamiltonian(n)
    hd = {"h0": 0.0, "h1": jnp.array([h1, h1]), "chol": jnp.array(chol.reshape(n, -1)), "ene0": 0.0, "u": u,
          "u_1": u_1}
    # mean-field-like trial: eigenvectors of h1 plus a staggered field (non-uniform density), or random
    stag = np.diag([0.5 * (-1) ** i for i in range(n)])
    if poor_trial:
        qa, _ = np.linalg.qr(rng.normal(size=(n, n)))
        qb, _ = np.linalg.qr(rng.normal(size=(n, n)))
    else:
        _, qa = np.linalg.eigh(h1 + stag)
        _, qb = np.linalg.eigh(h1 - stag)
    wd = {}
    if trial_kind == "uhf":
        T = wavefunctions.uhf_cpmc if prop_kind != "phaseless" else wavefunctions.uhf
        wd["mo_coeff"] = [jnp.array(qa[:, : nelec[0]]), jnp.array(qb[:, : nelec[1]])]
        wd["rdm1"] = jnp.array([qa[:, : nelec[0]] @ qa[:, : nelec[0]].conj().T, qb[:, : nelec[1]] @ qb[:, : nelec[1]].conj().T])
    else:
        T = wavefunctions.ghf_cpmc
        C = np.zeros((2 * n, nelec[0] + nelec[1]))
        th = np.pi / 5
        C[:n, : nelec[0]] = np.cos(th) * qa[:, : nelec[0]]
        C[n:, : nelec[0]] = np.sin(th) * qa[:, : nelec[0]]
        C[:n, nelec[0]:] = -np.sin(th) * qb[:, : nelec[1]]
        C[n:, nelec[0]:] = np.cos(th) * qb[:, : nelec[1]]
        wd["mo_coeff"] = jnp.array(C)
        dm = C @ C.T
        wd["rdm1"] = jnp.array([dm[:n, :n], dm[n:, n:]])
    nbrs = tuple((i, j) for i in range(n) for j in range(i + 1, n) if adj[i, j] != 0)
    P = {"cpmc": propagation.propagator_cpmc, "cpmc_slow": propagation.propagator_cpmc_slow,
         "cpmc_nn": propagation.propagator_cpmc_nn, "cpmc_nn_slow": propagation.propagator_cpmc_nn_slow,
         "cpmc_continuous": propagation.propagator_cpmc_continuous,
         "phaseless": propagation.propagator_unrestricted}[prop_kind]
    if proxied:
        P, T = proxies.prop_proxy(P), proxies.trial_proxy(T)
    kw = {"neighbors": nbrs} if "nn" in prop_kind else {}
    prop = P(dt=dt, n_walkers=n_walkers, **kw)
    trial = T(n, nelec)
    if prop_kind == "cpmc_continuous":
        hd["hs_constant"] = float(np.arccosh(np.exp(dt * u / 2)))
    return {"ham": ham, "ham_data": hd, "trial": trial, "wave_data": wd, "prop": prop, "norb": n, "nelec": nelec,
            "kind": prop_kind}
