"""Helpers for C17 (spec/Cholesky.tla): instance generation with a 32-bit overflow guard, conversion of
floats to the decimal-float format judged by TLC, batching of oracle / judge runs.

Python never decides a predicate here: it builds seeded inputs, mirrors the spec's arithmetic ONLY to bound
the size of the integers TLC will meet (an instance that could overflow is dropped before TLC sees it),
calls the library and converts numbers.
"""
import itertools
import json
import math
from fractions import Fraction as F

import numpy as np

from .core import Check, MachineryError

LIM = 1 << 14      # every rational TLC combines has |num|, den <= LIM  =>  all products < 2^31


class _Overflow(Exception):
    pass


def _t(x):
    if abs(x.numerator) > LIM or x.denominator > LIM:
        raise _Overflow()
    return x


def mat_of(A, D):
    n = len(A)
    return [[_t(_t(D[i] * D[j]) * sum(A[i][k] * A[j][k] for k in range(len(A[0])))) for j in range(n)] for i in range(n)]


def _step(R, p, n):
    d = R[p][p]
    l = [_t(R[j][p] / d) for j in range(n)]
    return [[_t(R[i][j] - _t(R[i][p] * l[j])) for j in range(n)] for i in range(n)], l


def _guard_all_ties(R, n, depth=0):
    """size guard along EVERY tie-break of the pivot choice (what SpecModel explores)"""
    dm = max(abs(R[i][i]) for i in range(n))
    if dm == 0 or depth == n:
        return
    for p in [i for i in range(n) if abs(R[i][i]) == dm]:
        R2, _ = _step(R, p, n)
        _guard_all_ties(R2, n, depth + 1)


def _guard_tangent(M, S, n):
    """size guard of the oracle's tangent recursion (first-index tie-break)"""
    R = M
    dR = [[F(S[i][j]) for j in range(n)] for i in range(n)]
    for _ in range(n):
        dm = max(abs(R[i][i]) for i in range(n))
        if dm == 0:
            break
        p = [i for i in range(n) if abs(R[i][i]) == dm][0]
        s = max(abs(dR[i][i]) for i in range(n))
        if s != 0:
            second = max([abs(R[i][i]) for i in range(n) if abs(R[i][i]) != dm] + [F(0)])
            _t(_t(dm - second) / _t(2 * s))
        R2, l = _step(R, p, n)
        dd = dR[p][p]
        dR = [[_t(_t(_t(dR[i][j] - _t(dR[i][p] * l[j])) - _t(l[i] * dR[j][p])) + _t(_t(l[i] * l[j]) * dd))
               for j in range(n)] for i in range(n)]
        R = R2


def make_instance(A, D=None, S=None, cls="", extra_thr=()):
    """returns an instance dict (or None if TLC could overflow on it / M is zero)"""
    n = len(A)
    D = [F(1)] * n if D is None else [F(x) for x in D]
    try:
        M = mat_of(A, D)
        md = max(M[i][i] for i in range(n))
        if md == 0:
            return None
        _guard_all_ties(M, n)
    except _Overflow:
        return None
    if all(x == 1 for x in D):
        thrs = [F(0), F(1, 2), F(2), md]
    else:
        thrs = [F(0), md / 256, md / 8, md]
    thrs = sorted(set(thrs) | {F(x) for x in extra_thr})
    try:
        for t in thrs:
            _t(t)
    except _Overflow:
        thrs = [F(0), md]
    if S is not None:
        try:
            _guard_tangent(M, S, n)
        except _Overflow:
            S = None
    return {"n": n, "A": [list(map(int, r)) for r in A], "D": [[x.numerator, x.denominator] for x in D],
            "thrs": [[t.numerator, t.denominator] for t in thrs], "S": [] if S is None else [list(map(int, r)) for r in S],
            "cls": cls, "_key": tuple(x for r in M for x in r)}


def sym_dir(rng, n, lo=-2, hi=2):
    X = rng.integers(lo, hi + 1, size=(n, n))
    S = np.triu(X) + np.triu(X, 1).T
    if not S.any():
        S[0, 0] = 1
    return S.tolist()


def exhaustive(n, r, entries):
    for flat in itertools.product(entries, repeat=n * r):
        yield [list(flat[i * r:(i + 1) * r]) for i in range(n)]


# ----------------------------------------------------------------------------- decimal floats for the judge
def dec(x, up=False):
    """|x| as <<m, e>> with 10^7 <= m < 10^8 (or [0,0]); non-finite -> huge"""
    x = abs(float(x))
    if not math.isfinite(x):
        return [99999999, 300]
    if x == 0.0 or x < 1e-300:
        return [0, 0]
    e = math.floor(math.log10(x)) - 7
    mm = x / 10.0 ** e
    mi = math.ceil(mm) if up else round(mm)
    if mi >= 10 ** 8:
        mi = (mi + 9) // 10 if up else round(mi / 10)
        e += 1
    if mi < 10 ** 7:
        mi *= 10
        e -= 1
    return [int(mi), int(e)]


def judge(chk: Check, recs, name="judge", batch=400):
    """recs: dicts id, errs(list of floats), thr, scale (floats), tolexp(int), finite(bool), nvec, nmax.
    Returns {id: verdict}."""
    if not recs:
        return {}
    wd = chk.scratch(f"chol-{name}")
    out = wd / "verdicts"
    out.mkdir(exist_ok=True)
    nb = 0
    with (wd / "judge.ndjson").open("w") as f:
        for k in range(0, len(recs), batch):
            nb += 1
            rs = [{"id": r["id"], "errs": [dec(e) for e in r["errs"]], "thr": dec(r["thr"]), "scale": dec(r["scale"]),
                   "tolexp": int(r["tolexp"]), "finite": bool(r["finite"]), "nvec": int(r["nvec"]), "nmax": int(r["nmax"])}
                  for r in recs[k:k + batch]]
            f.write(json.dumps({"id": nb, "recs": rs}) + "\n")
    chk.tlc("Cholesky", 'SPECIFICATION SpecJudge\nCONSTANT LOOPS = {}\n',
            env={"CHOL_JUDGE": str(wd / "judge.ndjson"), "CHOL_VERDICTS": str(out)}, name=f"Cholesky-{name}")
    res = {}
    for b in range(1, nb + 1):
        pth = out / f"{b}.json"
        if not pth.exists():
            raise MachineryError(f"no verdict file for judge batch {b} ({name})")
        for line in pth.read_text().splitlines():
            v = json.loads(line)
            res[v["id"]] = v
    missing = [r["id"] for r in recs if r["id"] not in res]
    if missing:
        raise MachineryError(f"no verdict for records {missing[:5]} ({name})")
    return res


def write_insts(path, insts):
    with open(path, "w") as f:
        for I in insts:
            f.write(json.dumps({k: v for k, v in I.items() if not k.startswith("_")}) + "\n")


def oracle(chk: Check, insts, name="oracle"):
    """runs SpecOracle, returns {id: record} with rationals converted to Fractions where useful"""
    wd = chk.scratch(f"chol-{name}")
    out = wd / "out"
    out.mkdir(exist_ok=True)
    write_insts(wd / "insts.ndjson", insts)
    chk.tlc("Cholesky", 'SPECIFICATION SpecOracle\nCONSTANT LOOPS = {}\n',
            env={"CHOL_INSTS": str(wd / "insts.ndjson"), "CHOL_OUT": str(out)}, name=f"Cholesky-{name}")
    res = {}
    for pth in out.glob("*.json"):
        for line in pth.read_text().splitlines():
            r = json.loads(line)
            res[r["id"]] = r
    missing = [I["id"] for I in insts if I["id"] not in res]
    if missing:
        raise MachineryError(f"oracle produced no record for instances {missing[:5]}")
    return res


def qf(x):
    return F(x[0], x[1])


def qmat(m):
    return np.array([[float(qf(x)) for x in row] for row in m], dtype=float)
