"""Binding of spec/Launch.tla (run_afqmc.run_afqmc / run_afqmc_fp <-> shell <-> child protocol) to the real launcher.

TLC explores every call (function, options given or None, default or custom script, launcher prefix None / "fakempi " /
"", nproc None / 2, use_gpu, an earlier ene_err.txt lying around, child completes or dies) and writes the expected record of
every terminal state.  EVERY one of them (384) is replayed through the real functions in a scratch directory whose `bin/`
holds shim executables `python`, `mpirun`, `fakempi` (first on PATH): the launcher shims log their arguments, strip `-np N`
and exec the rest; the `python` shim logs its arguments and the thread variables, keeps a copy of the options.bin it found
and plays the child (writes ene_err.txt and exits 0, or exits 1 without writing).  What the shims saw and what the function
returned / printed is projected onto the spec's variables and compared field by field.  Everything here is outside the
listed properties: a mismatch is a SPEC-DIVERGENCE (never an alarm); the named deviations of Launch.tla
(NprocWithoutLauncher, StaleResultReturned, FpIgnoresGpu) are reported as observations in the evidence.
"""
import contextlib
import io
import json
import os
import pickle
import stat

from .core import Check, MachineryError

THEOREMS = ["TypeOK", "HandOver", "FreshIffCompleted", "FailureReported", "RunsUnlessBroken", "LauncherAsConfigured"]
WITNESSES = ["NeverStaleReturned", "NeverBroken"]
GIVEN = {"dt": 0.02, "n_walkers": 7, "trial": "uhf", "walker_type": "uhf"}
FRESH, STALE = (-1.25, 0.003), (-9.5, 0.125)

PY_SHIM = """#!/bin/sh
echo "python|$OMP_NUM_THREADS|$MKL_NUM_THREADS|$*" >> "$LAUNCH_LOG"
if [ -f options.bin ]; then cp options.bin options.seen; fi
if [ "$(cat behaviour)" = "ok" ]; then printf '%s\\n%s\\n' "-1.25" "0.003" > ene_err.txt; exit 0; fi
exit 1
"""
MPI_SHIM = """#!/bin/sh
echo "%s|$*" >> "$LAUNCH_LOG"
if [ "$1" = "-np" ]; then shift 2; fi
exec "$@"
"""


def design(chk: Check, out):
    cfg = ("SPECIFICATION Spec\nCHECK_DEADLOCK FALSE\nCONSTANTS Emit = TRUE\n" + "".join(f"INVARIANT {i}\n" for i in THEOREMS))
    res = chk.tlc("Launch", cfg, env={"LAUNCH_OUT": str(out)}, name="Launch-design", workers=4)
    if res.violated:
        raise MachineryError(f"Launch.tla: the protocol model violates its own theorem {res.violated_name}")
    for w in WITNESSES:                                       # the named deviations must be reachable in the model
        r = chk.tlc("Launch", f"SPECIFICATION Spec\nCHECK_DEADLOCK FALSE\nCONSTANTS Emit = FALSE\nINVARIANT {w}\n",
                    name=f"Launch-{w}", workers=2)
        if not r.violated:
            raise MachineryError(f"Launch.tla: witness {w} is not violated - a named deviation is unreachable in the model")
    recs = [json.loads(p.read_text().splitlines()[0]) for p in sorted(out.glob("*.json"), key=lambda q: int(q.stem))]
    if len(recs) != 384:
        raise MachineryError(f"Launch.tla: {len(recs)} terminal states instead of 384")
    chk.note("launch_design", {"states": res.states, "terminal_states": len(recs), "theorems": THEOREMS,
                               "deviation_witnesses_reachable": WITNESSES})
    return recs


def replay_one(d, bind, e, run_mod, cfg):
    c = e["call"]
    for f in d.iterdir():
        if f.is_file():
            f.unlink()
    (d / "behaviour").write_text("ok" if e["childok"] else "die")
    if c["stale"]:
        (d / "ene_err.txt").write_text(f"{STALE[0]}\n{STALE[1]}\n")
    log = d / "launch.log"
    custom = d / "my_script.py"
    custom.write_text("# never interpreted: the python shim plays the child\n")
    kw = {"options": dict(GIVEN) if c["given"] else None, "script": str(custom) if c["script"] == "custom" else None,
          "mpi_prefix": {"default": None, "fakempi": "fakempi ", "empty": ""}[c["prefix"]],
          "nproc": None if c["nproc"] == 0 else c["nproc"]}
    old_env = {k: os.environ.get(k) for k in ("PATH", "LAUNCH_LOG", "OMP_NUM_THREADS", "MKL_NUM_THREADS")}
    old_gpu = cfg.afqmc_config.get("use_gpu", False)
    os.environ["PATH"] = f"{bind}:/usr/bin:/bin"
    os.environ["LAUNCH_LOG"] = str(log)
    os.environ.pop("OMP_NUM_THREADS", None)
    os.environ.pop("MKL_NUM_THREADS", None)
    cfg.afqmc_config["use_gpu"] = bool(c["gpu"])
    buf = io.StringIO()
    run_mod.print, old_print = (lambda *a, **k: buf.write(" ".join(str(x) for x in a) + "\n")), run_mod.print
    cwd = os.getcwd()
    os.chdir(d)
    saved2 = os.dup(2)                                         # the shell's "-np: not found" belongs to the scenario
    devnull = os.open(os.devnull, os.O_WRONLY)
    os.dup2(devnull, 2)
    try:
        with contextlib.redirect_stdout(io.StringIO()):
            ret = getattr(run_mod, c["fn"])(**kw)
    except Exception as ex:                                    # noqa: BLE001
        ret = ("raised", f"{type(ex).__name__}: {ex}")
    finally:
        os.dup2(saved2, 2)
        os.close(saved2)
        os.close(devnull)
        os.chdir(cwd)
        run_mod.print = old_print
        cfg.afqmc_config["use_gpu"] = old_gpu
        for k, v in old_env.items():
            if v is None:
                os.environ.pop(k, None)
            else:
                os.environ[k] = v
    got = {"optbin": "absent", "ran": False, "seen": {"optbin": "absent", "script": "none", "launcher": "none", "np": 0,
                                                       "flag": False, "threads": False}, "ret": None, "errfile": "absent"}
    if (d / "options.bin").exists():
        try:
            o = pickle.loads((d / "options.bin").read_bytes())
            got["optbin"] = "given" if o == GIVEN else ("empty" if o == {} else "other")
        except Exception:
            got["optbin"] = "unreadable"
    lines = log.read_text().splitlines() if log.exists() else []
    for ln in lines:
        parts = ln.split("|")
        if parts[0] in ("mpirun", "fakempi"):
            got["seen"]["launcher"] = parts[0]
            a = parts[1].split()
            if a[:1] == ["-np"]:
                got["seen"]["np"] = int(a[1])
        elif parts[0] == "python":
            got["ran"] = True
            got["seen"]["threads"] = parts[1] == "1" and parts[2] == "1"
            a = parts[3].split()
            default_script = os.path.join(os.path.dirname(os.path.abspath(run_mod.__file__)), "mpi_jax.py")
            got["seen"]["script"] = "custom" if a[:1] == [str(custom)] else ("default" if a[:1] == [default_script] else "other")
            got["seen"]["flag"] = "--use_gpu" in a[1:]
            if (d / "options.seen").exists():
                try:
                    o = pickle.loads((d / "options.seen").read_bytes())
                    got["seen"]["optbin"] = "given" if o == GIVEN else ("empty" if o == {} else "other")
                except Exception:
                    got["seen"]["optbin"] = "unreadable"
    if not got["ran"]:
        got["seen"] = {"optbin": "absent", "script": "none", "launcher": "none", "np": 0, "flag": False, "threads": False}
    if (d / "ene_err.txt").exists():
        t = tuple(float(x) for x in (d / "ene_err.txt").read_text().split())
        got["errfile"] = "fresh" if t == FRESH else ("stale" if t == STALE else "other")
    msg = "AFQMC did not execute correctly." in buf.getvalue()
    if ret is None:
        got["ret"] = "nothing"
    elif isinstance(ret, tuple) and len(ret) == 2 and ret[0] != "raised":
        t = (float(ret[0]), float(ret[1]))
        got["ret"] = "fresh" if t == FRESH else "stale" if t == STALE else ("zero" if t == (0.0, 0.0) else f"other{t}")
        got["ret"] += "+message" if msg else ""
    else:
        got["ret"] = f"{ret}"
    return got


REAL_PY_SHIM = """#!/bin/sh
# the real interpreter; this sandbox has no libmpi, so the child is started with the library's own non-MPI communicator
script="$1"; shift
exec /venv/bin/python -c "
import sys, runpy
from ad_afqmc import config
config.afqmc_config['use_mpi'] = False
sys.argv = [sys.argv[1]] + sys.argv[2:]
runpy.run_path(sys.argv[0], run_name='__main__')
" "$script" "$@"
"""
REAL_OPTS = {"n_walkers": 4, "n_prop_steps": 2, "n_ene_blocks": 1, "n_sr_blocks": 1, "n_blocks": 4, "n_eql": 1,
             "n_ene_blocks_eql": 1, "n_sr_blocks_eql": 1, "trial": "uhf", "walker_type": "uhf", "seed": 5, "dt": 0.01}


def real_child(chk: Check, run_mod):
    """ONE behaviour of Launch.tla end to end with the REAL child: run_afqmc(options, mpi_prefix="timeout 300 ") starts the
    library's own mpi_jax.py in a directory holding a 3-orbital problem; the child must echo the options it was handed
    (HandOver), write ene_err.txt at the very end, and the caller must return exactly those numbers (FreshIffCompleted),
    which must be the numbers driver.afqmc computes in-process for the same directory, options and seed.  Divergences only;
    if the child cannot be started here the reason is noted."""
    import subprocess
    import numpy as np
    from . import setupopt
    d = chk.scratch("c16-launch-real")
    bind = chk.scratch("c16-launch-realbin")
    p = bind / "python"
    p.write_text(REAL_PY_SHIM)
    p.chmod(p.stat().st_mode | stat.S_IXUSR | stat.S_IXGRP | stat.S_IXOTH)
    x = {"id": 1, "src": "nofile", "decoy": False, "g": {"trial": "absent", "wt": "absent", "fp": "absent", "sym": "absent", "nb": 0,
                                                         "adm": "absent", "nums": False},
         "d": {"amp": "none", "tpkl": "none", "obsf": "none", "dets": "none", "shell": "open"}}
    setupopt.build_dir(d, x)
    repo = os.path.dirname(os.path.dirname(os.path.abspath(run_mod.__file__)))
    code = (f"import os, sys; sys.path.insert(0, {repo!r}); os.chdir({str(d)!r}); "
            f"from ad_afqmc import run_afqmc; r = run_afqmc.run_afqmc(options={REAL_OPTS!r}, mpi_prefix='timeout 300 '); "
            "print('RETURNED', repr(float(r[0])), repr(float(r[1])))")
    env = dict(os.environ, PATH=f"{bind}:/usr/bin:/bin", PYTHONPATH=repo, JAX_PLATFORMS="cpu")
    try:
        out = subprocess.run(["/venv/bin/python", "-c", code], env=env, capture_output=True, text=True, timeout=600).stdout
    except Exception as ex:                                    # noqa: BLE001
        chk.note("launch_real_child", f"not run: {type(ex).__name__}: {ex}"[:200])
        return
    ret = [ln for ln in out.splitlines() if ln.startswith("RETURNED")]
    if not ret or not (d / "ene_err.txt").exists():
        chk.note("launch_real_child", "the real child did not complete in this sandbox: " + out[-300:])
        return
    r = tuple(float(v) for v in ret[0].split()[1:])
    f = tuple(float(v) for v in (d / "ene_err.txt").read_text().split())
    chk.case(("launch", "real-child"))
    chk.traces += 1
    echoed = {}
    for ln in out.splitlines():
        if ln.startswith("# ") and ": " in ln:
            k, v = ln[2:].split(": ", 1)
            echoed[k.strip()] = v.strip()
    for k, v in REAL_OPTS.items():
        if echoed.get(k) != str(v):
            chk.divergence("launch:real-child:HandOver", f"the child echoed option {k} = {echoed.get(k)!r}, the caller passed {v!r}")
    if r != f or not all(np.isfinite(r)):
        chk.divergence("launch:real-child:FreshIffCompleted", f"run_afqmc returned {r}, the child wrote {f}")
    # the same directory, options and seed in-process
    try:
        from ad_afqmc import driver, mpi_jax
        cwd = os.getcwd()
        os.chdir(d)
        try:
            with contextlib.redirect_stdout(io.StringIO()):
                a = mpi_jax._prep_afqmc(dict(REAL_OPTS))
                e, err = driver.afqmc(*a)
        finally:
            os.chdir(cwd)
        same = abs(float(e) - r[0]) <= 1e-9 * max(1.0, abs(r[0])) and abs(float(err) - r[1]) <= 1e-9
        if not same:
            chk.divergence("launch:real-child:driver", f"run_afqmc returned {r}, driver.afqmc in-process gives {(float(e), float(err))}")
        chk.note("launch_real_child", {"returned": list(r), "file": list(f), "in_process": [float(e), float(err)],
                                       "options_echoed_by_child": len([k for k in REAL_OPTS if echoed.get(k) == str(REAL_OPTS[k])])})
    except Exception as ex:                                    # noqa: BLE001
        chk.note("launch_real_child", {"returned": list(r), "file": list(f), "in_process": f"not run: {type(ex).__name__}: {ex}"[:200]})


def run(chk: Check):
    from ad_afqmc import config as cfg
    from ad_afqmc import run_afqmc as run_mod
    out = chk.scratch("c16-launch-out")
    recs = design(chk, out)
    d = chk.scratch("c16-launch-dir")
    bind = chk.scratch("c16-launch-bin")
    for name, text in (("python", PY_SHIM), ("mpirun", MPI_SHIM % "mpirun"), ("fakempi", MPI_SHIM % "fakempi")):
        p = bind / name
        p.write_text(text)
        p.chmod(p.stat().st_mode | stat.S_IXUSR | stat.S_IXGRP | stat.S_IXOTH)
    ndiv = 0
    dev = {"NprocWithoutLauncher": 0, "StaleResultReturned": 0}
    for e in recs:
        got = replay_one(d, bind, e, run_mod, cfg)
        chk.case(("launch", e["id"]))
        chk.traces += 1
        exp = {"optbin": e["optbin"], "ran": e["ran"], "seen": e["seen"], "ret": e["ret"], "errfile": e["errfile"]}
        for k in exp:
            if exp[k] != got[k]:
                ndiv += 1
                chk.divergence(f"launch:{k}", f"{e['call']['fn']}{ {x: y for x, y in e['call'].items() if x != 'fn'} } child "
                               f"{'completes' if e['childok'] else 'dies'}: {k}: Launch.tla expects {exp[k]!r}, observed {got[k]!r}")
        if got["ret"] == "stale" and e["ret"] == "stale":
            dev["StaleResultReturned"] += 1
        if not got["ran"] and not e["ran"]:
            dev["NprocWithoutLauncher"] += 1
    chk.note("launch_replay", {"behaviours_replayed": len(recs), "fields_diverging": ndiv,
                               "named_deviations_observed_in_the_real_launcher": dev})
    real_child(chk, run_mod)
