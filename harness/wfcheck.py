"""Spec -> code replay for the measurement kernels: one TLC state (exact instance) = one
implementation test.  Used by C01 (overlap), C02 (energy), C03 (force bias)."""
from __future__ import annotations

import numpy as np

from . import wf
from .core import Check, MachineryError

TOL64 = 1e-9
TOL32 = 5e-5      # cisd / cisd_faster / ucisd energies: the library down-casts blocks to complex64 on purpose


def shapes_for(kind, tier):
    """(norb, nu, nd) per kind.  n_dn = 0 is admissible for single-determinant, NOCI, hand-coded ucisd."""
    if kind in wf.RESTRICTED_ONLY or kind == "rhf":
        q = [(3, 1, 1), (4, 2, 2)]
        t = [(2, 1, 1), (3, 2, 2), (4, 1, 1), (4, 3, 3)]
    elif kind in ("uhf", "ghf", "noci", "ucisd"):
        q = [(3, 2, 1), (4, 2, 2), (3, 2, 0)]
        t = [(2, 1, 1), (2, 1, 0), (3, 1, 1), (3, 2, 2), (4, 3, 1), (4, 2, 1), (4, 3, 0), (3, 3, 1)]
    else:  # multislater, UCISD, GCISD: n_dn >= 1
        q = [(3, 2, 1), (4, 2, 2)]
        t = [(2, 1, 1), (3, 1, 1), (3, 2, 2), (4, 3, 1), (4, 2, 1)]
    if kind == "GCISD":
        q = [(3, 2, 1), (3, 1, 1)]
        t = [(2, 1, 1), (3, 2, 2), (4, 1, 1)]
    return q + (t if tier == "thorough" else [])


def plan(chk: Check, kinds, tier, seed, want, per_shape=None, nw=4):
    rng = np.random.default_rng(1000 + seed)
    per_shape = per_shape or (2 if tier == "quick" else 8)
    insts, iid = [], 0
    for kind in kinds:
        for (norb, nu, nd) in shapes_for(kind, tier):
            for rep in range(per_shape):
                for restricted in ((True,) if kind in wf.RESTRICTED_ONLY else (False, True)):
                    if restricted and rep >= max(1, per_shape // 2) and kind not in wf.RESTRICTED_ONLY:
                        continue
                    iid += 1
                    spin_dep = (kind in wf.SPIN_H1_KINDS) and not restricted and rep % 2 == 0
                    nchol = 1 + (iid % 3)
                    topts = {}
                    if kind == "multislater" and rep % 2 == 1:
                        topts["aufbau_first"] = True
                    try:
                        I = wf.make_instance(iid, rng, kind, norb, nu, nd, nchol, nw, restricted,
                                             spin_dep=spin_dep, topts=topts, want=want)
                    except MachineryError:
                        continue
                    insts.append(I)
    return insts


def tlc_eval_robust(chk: Check, insts, name):
    """evaluate; if an instance overflows TLC's 32-bit integers, bisect and drop it (counted)."""
    try:
        return wf.tlc_eval(chk, insts, name=name), []
    except MachineryError as e:
        if "verflow" not in str(e):
            raise
        if len(insts) == 1:
            return {}, [insts[0]["id"]]
        h = len(insts) // 2
        r1, s1 = tlc_eval_robust(chk, insts[:h], name + "a")
        r2, s2 = tlc_eval_robust(chk, insts[h:], name + "b")
        r1.update(r2)
        return r1, s1 + s2


_N_EVAL = 0


def previous_like(insts, I):
    """the previous instance with the same trial kind and shape (for lib_eval(reprepare_from=...))"""
    key = lambda X: (X["kind"], X["norb"], X["nu"], X["nd"])
    prev = [J for J in insts if J["id"] < I["id"] and key(J) == key(I)]
    return prev[-1] if prev else None


def lib_eval(I, what, n_batch=1, eps=None, reprepare_from=None):
    """call the library on instance I.  what in {"ov","e","fb"}.  returns dict container -> array(nw[,nchol])
    or {"raises": repr}.
    reprepare_from=J: the ham_data / wave_data DICTIONARIES were first prepared and used for another problem J of the
    same shape, then their input fields were overwritten with I's and they were prepared again (the sampler re-prepares
    the same dictionary after trial.optimize, users after rotating orbitals or changing integrals): nothing prepared
    for J may survive into the results for I"""
    import jax
    import jax.numpy as jnp
    # every instance is a new trial object, hence new XLA executables: thousands of them exhaust the process's memory
    # maps ("LLVM compilation error: Cannot allocate memory", then a crash) in the thorough tier
    global _N_EVAL
    _N_EVAL += 1
    if _N_EVAL % 100 == 0:
        import gc
        jax.clear_caches()
        gc.collect()
    trial, wd, hd, ham = wf.build_lib(I, n_batch=n_batch, eps=eps)
    if reprepare_from is not None:
        J = reprepare_from
        trialJ, wdJ, hdJ, hamJ = wf.build_lib(J, n_batch=n_batch, eps=eps)
        hdJ = hamJ.build_measurement_intermediates(hdJ, trialJ, wdJ)
        try:
            trialJ.get_rdm1(wdJ)
        except Exception:      # not every kind has a 1-RDM
            pass
        hdJ.update(hd)          # the input fields (h0, h1, chol, ...) of I; whatever was derived for J is still in there
        wdJ.update(wd)
        hd, wd = hdJ, wdJ
    ups = jnp.array(np.array([w[0] for w in I["walkers"]]))
    dns = jnp.array(np.array([w[1] for w in I["walkers"]]))
    out = {}
    if what != "ov":
        hd = ham.build_measurement_intermediates(hd, trial, wd)
    fn = {"ov": lambda w: trial.calc_overlap(w, wd),
          "e": lambda w: trial.calc_energy(w, hd, wd),
          "fb": lambda w: trial.calc_force_bias(w, hd, wd)}[what]
    conts = []
    if I["kind"] not in wf.RESTRICTED_ONLY:
        conts.append(("list", [ups, dns]))
    if I["restricted"]:
        conts.append(("array", ups))
    for cname, w in conts:
        try:
            out[cname] = np.asarray(fn(w))
        except Exception as ex:  # a legal outcome only where the property says the kind refuses
            out[cname] = {"raises": f"{type(ex).__name__}: {str(ex)[:200]}"}
    return out


def compare(chk: Check, I, exact, got, what, tol, site_prefix, tag=""):
    """compare library output with exact values; report violations"""
    nbad = 0
    for cname, arr in got.items():
        site = f"{site_prefix}:{I['kind']}:{cname}" + (":spin_h1" if I["spin_dep"] and what == "e" else "")
        if isinstance(arr, dict):
            chk.violation(site + ":raises", f"{I['kind']} {what} ({cname} walkers) raised {arr['raises']}",
                          {"instance": I["json"], "container": cname})
            nbad += 1
            continue
        for k, ex in enumerate(exact):
            if ex["zero"] and what != "ov":
                continue
            ref = ex[what]
            if what == "fb":
                ok = all(wf.close(arr[k][g], ref[g], tol) for g in range(len(ref)))
                val = [complex(x) for x in arr[k]]
            else:
                ok = wf.close(arr[k], ref, tol)
                val = complex(arr[k])
            chk.case((I["id"], cname, k, what, tag), nontrivial=not ex["zero"])
            if not ok:
                nbad += 1
                chk.violation(site, f"{I['kind']} {what}{tag} walker {k} ({cname} container, norb={I['norb']}, "
                                    f"nelec=({I['nu']},{I['nd']})): library {val} vs exact {ref}",
                              {"instance": I["json"], "container": cname, "walker": k, "library": val,
                               "exact": ref, "what": what, "tag": tag})
                break
    return nbad
