"""MPI without MPI: R Python threads in one process, one communicator object per rank.

`ThreadWorld(size, schedule=None, eager=False, timeout=20.0)` owns the shared state; `world.comm(r)` is rank r's
communicator and exposes exactly what ad_afqmc uses:

    Get_size, Get_rank, Barrier, Gather, Scatter, Reduce, Bcast, bcast

with MPI semantics: the root receives the rank-ordered concatenation, Scatter hands chunk r to rank r,
collectives are matched by per-rank call order (the c-th collective call of every rank is the same collective;
a mismatch of operation or root raises `CollectiveMismatch` in every participating rank).

Completion rule (mirrors spec/CombMPI.tla):
    eager=False  every collective is synchronising (completes when all ranks have arrived);
    eager=True   weakest MPI rule: a non-root Gather/Reduce returns once its data is deposited, the root waits
                 for all; the root's Scatter/Bcast/bcast returns at once, a non-root waits only for the root.
                 Barrier is always synchronising.

Scheduling: `schedule` is a list of rank ids, the order in which ranks ARRIVE at collectives (the `hist`
variable of a TLC behaviour of CombMPI.tla, or any other feasible arrival order).  The k-th arrival in the
whole run is granted only to rank schedule[k]; other ranks wait for their turn.  When the schedule is exhausted
(or None) arrivals are uncontrolled.  The send buffer is copied at arrival, the receive buffer is written at
completion (the linearisation points of the model's Arrive / Complete steps); every event is logged in
`world.log` as (event, rank, seq, op) under the world's lock.

The communicator never hangs its caller: every wait has a deadline, and a collective that can no longer
complete because a needed rank has already left its function (returned or raised) raises `CommDeadlock`
immediately.  `run_ranks(world, fn)` starts the threads, joins them with a deadline and returns a `RunResult`
with per-rank results, per-rank exceptions and a `hung` flag - the caller decides whether that is a violation
(the code's ranks disagree about the collectives) or a machinery failure (infeasible schedule).

`FakeMPI(comm)` is what `driver.afqmc` expects as its `MPI` argument (COMM_WORLD, FLOAT, INT, SUM).
"""
from __future__ import annotations

import copy
import threading
import time
import traceback

import numpy as np


class CommError(Exception):
    pass


class CollectiveMismatch(CommError):
    """ranks issued different collectives (or roots) at the same position of their call sequences"""


class CommDeadlock(CommError):
    """a collective cannot complete: a rank it needs has finished without calling it"""


class CommTimeout(CommError):
    """deadline exceeded while waiting (for the turn in the schedule or for the collective to complete)"""


class CommAborted(CommError):
    """another rank raised; this rank was released from its wait"""


SUM = "SUM"


def _buf(x):
    """mpi4py buffer spec: an array, or [array, datatype] / (array, datatype)"""
    if isinstance(x, (list, tuple)) and len(x) >= 1 and isinstance(x[0], np.ndarray):
        return x[0]
    return x


def _as_array(x):
    a = _buf(x)
    if not isinstance(a, np.ndarray):
        a = np.asarray(a)
    return a


def _write(recv, flat):
    """write the flat data into the receive buffer in place (C order), like MPI does"""
    recv = _buf(recv)
    if not isinstance(recv, np.ndarray):
        raise TypeError("receive buffer must be a numpy array")
    if recv.size != flat.size:
        raise ValueError(f"receive buffer has {recv.size} elements, message has {flat.size}")
    if not recv.flags.c_contiguous:
        raise ValueError("receive buffer must be C-contiguous")
    recv.reshape(-1)[...] = flat.astype(recv.dtype, copy=False)


class ThreadWorld:
    def __init__(self, size, schedule=None, eager=False, timeout=20.0):
        self.size = int(size)
        self.schedule = list(schedule) if schedule is not None else None
        self.eager = bool(eager)
        self.timeout = float(timeout)
        self.cv = threading.Condition()
        self.pos = 0                      # next position in the schedule
        self.calls = [0] * self.size      # per-rank number of collective calls started (arrived)
        self.coll = {}                    # seq -> dict(op, root, data{rank: payload}, arrived set, left set)
        self.finished = [False] * self.size
        self.blocked = set()              # ranks whose wait condition is false since the last state change
        self.failed = None                # first exception raised by any rank
        self.log = []                     # (event, rank, seq, op)
        self.ops = [[] for _ in range(self.size)]   # per-rank list of (op, root, nelem sent)
        self._comms = [ThreadComm(self, r) for r in range(self.size)]

    def comm(self, rank):
        return self._comms[rank]

    # ------------------------------------------------------------------ internals (call with self.cv held)
    def _deadline(self):
        return time.monotonic() + self.timeout

    def _check_abort(self):
        if self.failed is not None:
            raise CommAborted(f"released because another rank failed: {self.failed!r}")

    def _changed(self):
        """the shared state changed: every blocked rank must re-evaluate its wait condition"""
        self.blocked.clear()
        self.cv.notify_all()

    def _wait(self, rank, pred, deadline, what, needs=None):
        """wait until pred(); `needs()` returns the ranks whose future arrival is still required.
        Deadlock detection: `blocked` holds the ranks whose condition was false when evaluated after the last
        state change; if it comes to hold every unfinished rank, nobody can ever make the state change again."""
        try:
            while not pred():
                self._check_abort()
                if needs is not None:
                    gone = [q for q in needs() if self.finished[q]]
                    if gone:
                        raise CommDeadlock(f"{what}: rank(s) {gone} finished without taking part")
                self.blocked.add(rank)
                if len(self.blocked) == self.finished.count(False):
                    err = CommDeadlock(f"{what}: every unfinished rank {sorted(self.blocked)} is blocked "
                                       f"(circular wait)")
                    self.failed = self.failed or err
                    self.cv.notify_all()
                    raise err
                left = deadline - time.monotonic()
                if left <= 0:
                    raise CommTimeout(f"{what}: no progress within {self.timeout}s")
                self.cv.wait(min(left, 0.25))
        finally:
            self.blocked.discard(rank)

    def _arrive(self, rank, op, root, payload, nelem):
        seq = self.calls[rank]
        deadline = self._deadline()
        if self.schedule is not None:
            self._wait(rank, lambda: self.pos >= len(self.schedule) or self.schedule[self.pos] == rank, deadline,
                       f"rank {rank} waiting for its turn to arrive at collective #{seq} ({op})",
                       needs=lambda: [self.schedule[self.pos]] if self.pos < len(self.schedule) else [])
        self._check_abort()
        c = self.coll.get(seq)
        if c is None:
            c = self.coll[seq] = {"op": op, "root": root, "data": {}, "arrived": set(), "left": set()}
        elif c["op"] != op or c["root"] != root:
            err = CollectiveMismatch(f"collective #{seq}: rank {rank} calls {op}(root={root}) but another rank "
                                     f"called {c['op']}(root={c['root']})")
            self.failed = self.failed or err
            self._changed()
            raise err
        c["arrived"].add(rank)
        if payload is not None:
            c["data"][rank] = payload
        self.calls[rank] = seq + 1
        self.ops[rank].append((op, root, nelem))
        self.pos += 1
        self.log.append(("arrive", rank, seq, op))
        self._changed()
        return seq, c, deadline

    def _all_arrived(self, c):
        return len(c["arrived"]) == self.size

    def _missing(self, c):
        return [q for q in range(self.size) if q not in c["arrived"]]

    def _leave(self, rank, seq, c):
        c["left"].add(rank)
        self.log.append(("complete", rank, seq, c["op"]))
        if len(c["left"]) == self.size:
            del self.coll[seq]
        self._changed()

    def _finish(self, rank, exc=None):
        with self.cv:
            self.finished[rank] = True
            if exc is not None and self.failed is None:
                self.failed = exc
            self._changed()


class ThreadComm:
    """rank-local handle; all state lives in the ThreadWorld"""

    def __init__(self, world, rank):
        self.world = world
        self.rank = rank

    def Get_size(self):
        return self.world.size

    def Get_rank(self):
        return self.rank

    # ---- synchronising ------------------------------------------------------------------------------
    def Barrier(self):
        w = self.world
        with w.cv:
            seq, c, dl = w._arrive(self.rank, "Barrier", None, None, 0)
            w._wait(self.rank, lambda: w._all_arrived(c), dl, f"rank {self.rank} in Barrier #{seq}", lambda: w._missing(c))
            w._leave(self.rank, seq, c)

    # ---- many -> root --------------------------------------------------------------------------------
    def _to_root(self, op, send, recv, root, combine):
        w = self.world
        a = _as_array(send)
        payload = np.array(a, copy=True).reshape(-1)
        with w.cv:
            seq, c, dl = w._arrive(self.rank, op, root, payload, payload.size)
            if self.rank == root or not w.eager:
                w._wait(self.rank, lambda: w._all_arrived(c), dl, f"rank {self.rank} in {op} #{seq}", lambda: w._missing(c))
            if self.rank == root:
                _write(recv, combine([c["data"][q] for q in range(w.size)]))
            w._leave(self.rank, seq, c)

    def Gather(self, sendbuf, recvbuf, root=0):
        self._to_root("Gather", sendbuf, recvbuf, root, np.concatenate)

    def Reduce(self, sendbuf, recvbuf, op=SUM, root=0):
        if op not in (SUM, None):
            raise NotImplementedError(f"Reduce op {op!r}")

        def total(parts):
            acc = np.array(parts[0], copy=True)
            for p in parts[1:]:
                acc = acc + p
            return acc
        self._to_root("Reduce", sendbuf, recvbuf, root, total)

    # ---- root -> many --------------------------------------------------------------------------------
    def _from_root(self, op, payload_fn, nelem_fn, root, deliver):
        w = self.world
        payload = payload_fn() if self.rank == root else None
        with w.cv:
            seq, c, dl = w._arrive(self.rank, op, root, payload, nelem_fn() if self.rank == root else 0)
            if w.eager:
                if self.rank != root:
                    w._wait(self.rank, lambda: root in c["arrived"], dl, f"rank {self.rank} in {op} #{seq}",
                            lambda: [] if root in c["arrived"] else [root])
            else:
                w._wait(self.rank, lambda: w._all_arrived(c), dl, f"rank {self.rank} in {op} #{seq}", lambda: w._missing(c))
            out = deliver(c["data"][root])
            w._leave(self.rank, seq, c)
        return out

    def Scatter(self, sendbuf, recvbuf, root=0):
        size, rank = self.world.size, self.rank

        def payload():
            a = _as_array(sendbuf)
            if a.size % size:
                raise ValueError(f"Scatter: send buffer of {a.size} elements is not divisible by {size} ranks")
            return np.array(a, copy=True).reshape(size, -1)

        def deliver(chunks):
            _write(recvbuf, chunks[rank])
        self._from_root("Scatter", payload, lambda: _as_array(sendbuf).size, root, deliver)

    def Bcast(self, buf, root=0):
        def deliver(data):
            if self.rank != root:
                _write(buf, data)
        self._from_root("Bcast", lambda: np.array(_as_array(buf), copy=True).reshape(-1),
                        lambda: _as_array(buf).size, root, deliver)

    def bcast(self, obj, root=0):
        return self._from_root("bcast", lambda: copy.deepcopy(obj), lambda: 1, root,
                               lambda data: obj if self.rank == root else copy.deepcopy(data))


class FakeMPI:
    """the `MPI` object driver.afqmc / run_afqmc take: one per rank (COMM_WORLD is rank-local)"""
    FLOAT = "FLOAT"
    DOUBLE = "DOUBLE"
    INT = "INT"
    SUM = SUM

    def __init__(self, comm):
        self.COMM_WORLD = comm


class RunResult:
    def __init__(self, size):
        self.results = [None] * size
        self.errors = [None] * size          # exception per rank (or None)
        self.tracebacks = [None] * size
        self.hung = False                    # some rank thread did not come back before the deadline
        self.log = []
        self.ops = []

    @property
    def ok(self):
        return not self.hung and all(e is None for e in self.errors)

    def comm_errors(self):
        return [e for e in self.errors if isinstance(e, CommError)]

    def describe(self):
        parts = []
        if self.hung:
            parts.append("hung")
        for r, e in enumerate(self.errors):
            if e is not None:
                parts.append(f"rank {r}: {type(e).__name__}: {e}")
        return "; ".join(parts) or "ok"


def run_ranks(world: ThreadWorld, fn, join_timeout=None) -> RunResult:
    """run fn(comm_r) (or fn(comm_r, r) if it takes two arguments) on one thread per rank"""
    import inspect
    two = len(inspect.signature(fn).parameters) >= 2
    rr = RunResult(world.size)

    def body(r):
        exc = None
        try:
            c = world.comm(r)
            rr.results[r] = fn(c, r) if two else fn(c)
        except BaseException as e:       # noqa: BLE001 - reported to the caller
            exc = e
            rr.errors[r] = e
            rr.tracebacks[r] = traceback.format_exc()
        finally:
            world._finish(r, exc)

    threads = [threading.Thread(target=body, args=(r,), daemon=True, name=f"rank{r}") for r in range(world.size)]
    for t in threads:
        t.start()
    deadline = time.monotonic() + (join_timeout if join_timeout is not None else 3 * world.timeout + 5)
    for t in threads:
        t.join(max(0.0, deadline - time.monotonic()))
    rr.hung = any(t.is_alive() for t in threads)
    if rr.hung:
        with world.cv:                      # release whoever is still inside a wait
            world.failed = world.failed or CommTimeout("run_ranks: join deadline exceeded")
            world.cv.notify_all()
        for t in threads:
            t.join(1.0)
    rr.log = list(world.log)
    rr.ops = [list(o) for o in world.ops]
    return rr
