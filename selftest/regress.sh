#!/bin/sh
# Demonstration (not a MANIFEST check): a seeded change (or the revert of a repaired defect) must make the quick
# check of its property exit 1.   usage: selftest/regress.sh <patch> <PROPERTY-ID> [...]
# The patch is applied to a scratch worktree of /repo's HEAD (removed afterwards); the checks are pointed at it
# with VERIF_REPO, so /repo itself and anything else running against it are not disturbed.
set -u
P="$1"; shift
WT=$(mktemp -d /tmp/regress-XXXXXX); rmdir "$WT"
git -C /repo worktree add -q "$WT" HEAD || exit 2
trap 'git -C /repo worktree remove --force "$WT" 2>/dev/null; rm -rf "$WT"' EXIT INT TERM
git -C "$WT" apply "$P" || { echo "patch does not apply: $P"; exit 2; }
rc_all=0
for ID in "$@"; do
  out=$(cd /verif && VERIF_REPO="$WT" ./check "$ID" 2>&1); rc=$?
  echo "== $(basename $(dirname "$P"))/$(basename "$P") on $ID: exit $rc"
  echo "$out" | grep -E "VIOLATION|site=|KNOWN|MACHINERY" | cut -c1-300 | head -6
  [ $rc -eq 1 ] || rc_all=1
done
exit $rc_all
