#!/bin/sh
# Demonstration (not a MANIFEST check): every patch under /verif/seeded/*/patch.diff and every
# revert-of-a-fix under /verif/seeded/_fixed_defects must make the quick check of its property exit 1,
# and the unchanged tree must exit 0.   usage: selftest/regress.sh <patch> <PROPERTY-ID> [...]
# The patch is applied to /repo's working tree and undone straight afterwards.
set -u
P="$1"; shift
cd /repo || exit 2
git diff --quiet || { echo "repo working tree not clean"; exit 2; }
git apply "$P" || { echo "patch does not apply: $P"; exit 2; }
trap 'git -C /repo checkout -- . ; git -C /repo clean -fdq' EXIT INT TERM
rc_all=0
for ID in "$@"; do
  out=$(cd /verif && ./check "$ID" 2>&1); rc=$?
  echo "== $P on $ID: exit $rc"
  echo "$out" | grep -E "VIOLATION|site=|KNOWN|MACHINERY" | head -6
  [ $rc -eq 1 ] || rc_all=1
done
exit $rc_all
