#!/bin/sh
# every kept seeded change (and every revert of a repaired defect) against the CURRENT quick check of its property:
# each must exit 1.  usage: selftest/regress_all.sh [jobs]   (results: one line per change on stdout)
cd "$(dirname "$0")/.." || exit 2
J=${1:-3}
ls -d seeded/C??-? | while read d; do
  id=$(basename "$d" | cut -c1-3)
  echo "$PWD/$d/patch.diff $id"
done | xargs -P "$J" -L 1 sh -c 'out=$(selftest/regress.sh "$0" "$1" 2>&1 | grep "^=="); echo "$out"'
