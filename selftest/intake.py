#!/usr/bin/env python3
"""Intake of one seeded change produced by an independent sub-agent.

usage: selftest/intake.py <dir with patch.diff demo.py meta.json> <PROPERTY-ID> <label> [extra check ids...]

Confirms in a scratch worktree of /repo's HEAD (never in /repo itself):
  1. the demonstration passes on the unchanged code,
  2. the patch applies, the demonstration fails with it,
  3. the repository's test suite still passes with it,
then runs the quick check(s) against the changed worktree (VERIF_REPO) and records everything in
/verif/seeded/<ID>-<label>/meta.json.  Exit 0 iff confirmed AND caught by the property's own check.
"""
import json
import os
import shutil
import subprocess
import sys
import tempfile
import time

src, pid, label, *extra = sys.argv[1:]
dst = f"/verif/seeded/{pid}-{label}"
os.makedirs(dst, exist_ok=True)
for f in ("patch.diff", "demo.py", "meta.json"):
    shutil.copy(os.path.join(src, f), os.path.join(dst, f))
meta = json.load(open(os.path.join(dst, "meta.json")))
wt = tempfile.mkdtemp(prefix="intake-")
os.rmdir(wt)
subprocess.run(["git", "-C", "/repo", "worktree", "add", "-q", wt, "HEAD"], check=True)
res = {}
env = dict(os.environ, PYTHONPATH=wt, JAX_PLATFORMS="cpu")
env.pop("ANKIT76_AD_AFQMC_VERIF", None)


def demo():
    p = subprocess.run(["/venv/bin/python", os.path.join(dst, "demo.py")], cwd=wt, env=env, capture_output=True, text=True, timeout=1800)
    return p.returncode, (p.stdout + p.stderr)[-600:]


try:
    rc0, out0 = demo()
    res["demo_unchanged_rc"] = rc0
    ap = subprocess.run(["git", "-C", wt, "apply", os.path.join(dst, "patch.diff")], capture_output=True, text=True)
    res["patch_applies"] = ap.returncode == 0
    if ap.returncode == 0:
        rc1, out1 = demo()
        res["demo_changed_rc"] = rc1
        res["demo_changed_tail"] = out1[-300:]
        t = time.time()
        pt = subprocess.run(["/venv/bin/python", "-m", "pytest", "-q", "-p", "no:cacheprovider", "--timeout=900", "tests"], cwd=wt,
                            env=env, capture_output=True, text=True, timeout=3000)
        res["tests_tail"] = pt.stdout.strip().splitlines()[-1] if pt.stdout.strip() else pt.stderr[-200:]
        res["tests_pass"] = pt.returncode == 0
        res["checks"] = {}
        for cid in [pid] + extra:
            c = subprocess.run(["./check", cid], cwd="/verif", env=dict(os.environ, VERIF_REPO=wt), capture_output=True, text=True,
                               timeout=3600)
            sites = [l.strip() for l in c.stdout.splitlines() if l.strip().startswith("site=")]
            res["checks"][cid] = {"exit": c.returncode, "sites": [s[:240] for s in sites[:4]],
                                  "machinery": [l for l in (c.stdout + c.stderr).splitlines() if "MACHINERY" in l][:2]}
finally:
    subprocess.run(["git", "-C", "/repo", "worktree", "remove", "--force", wt])
    shutil.rmtree(wt, ignore_errors=True)
res["confirmed"] = bool(res.get("demo_unchanged_rc") == 0 and res.get("patch_applies") and res.get("demo_changed_rc", 0) != 0
                        and res.get("tests_pass"))
res["caught_by"] = [c for c, v in res.get("checks", {}).items() if v["exit"] == 1]
meta["verified_by_main_session"] = res
json.dump(meta, open(os.path.join(dst, "meta.json"), "w"), indent=1)
print(json.dumps({"id": f"{pid}-{label}", "confirmed": res["confirmed"], "caught_by": res["caught_by"],
                  "checks": {c: v["exit"] for c, v in res.get("checks", {}).items()}, "tests": res.get("tests_tail")}))
sys.exit(0 if res["confirmed"] and pid in res["caught_by"] else 1)
