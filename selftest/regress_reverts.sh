#!/bin/sh
# every revert of a repaired defect against the CURRENT quick check of its property: each must exit 1
cd "$(dirname "$0")/.." || exit 2
python3 - <<'PY' | xargs -P ${1:-2} -L 1 sh -c 'selftest/regress.sh "$0" "$1" 2>&1 | grep "^=="'
import json, re, os
k = json.load(open("known_findings.json"))
for f in k["fixed"]:
    m = re.match(r"fixed: property=(C\d\d) ([0-9a-f]{7})", f)
    p = f"{os.getcwd()}/seeded/_fixed_defects/revert-{m.group(2)}.diff"
    if os.path.exists(p):
        print(p, m.group(1))
PY
