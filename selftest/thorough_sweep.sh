#!/bin/sh
# every registered thorough check on the unchanged tree must exit 0
cd "$(dirname "$0")/.." || exit 2
IDS=${IDS:-$(python3 -c "import json; print(' '.join(c['property_id'] for c in json.load(open('MANIFEST.json'))['checks']))")}
for p in $IDS; do
  t0=$(date +%s)
  out=$(VERIF_SEED=${SEED:-0} nice -n 5 ./check "$p" --tier thorough 2>&1); rc=$?
  echo "thorough $p rc=$rc $(( $(date +%s) - t0 ))s $(echo "$out" | grep -E '^\[C' | tail -1)"
  [ $rc -ne 0 ] && echo "$out" | grep -E "VIOLATION|site=|MACHINERY|Error|Traceback" | cut -c1-400 | head -8
done
