#!/bin/sh
# robustness sweep: every registered quick check under several seeds must exit 0 on the unchanged tree
cd "$(dirname "$0")/.." || exit 2
IDS=$(python3 -c "import json; print(' '.join(c['property_id'] for c in json.load(open('MANIFEST.json'))['checks']))")
for s in ${SEEDS:-1 2 3}; do
  for p in $IDS; do
    t0=$(date +%s)
    out=$(VERIF_SEED=$s nice -n 5 ./check "$p" 2>&1); rc=$?
    echo "seed=$s $p rc=$rc $(( $(date +%s) - t0 ))s $(echo "$out" | grep -E '^\[C' | tail -1)"
    [ $rc -ne 0 ] && echo "$out" | grep -E "VIOLATION|site=|MACHINERY|Error" | head -5
  done
done
