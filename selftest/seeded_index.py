#!/usr/bin/env python3
"""Regenerate /verif/seeded/INDEX.md from the meta.json files written by selftest/intake.py."""
import glob
import json
import os

rows = []
for d in sorted(glob.glob("/verif/seeded/C*-*")):
    m = json.load(open(os.path.join(d, "meta.json")))
    v = m.get("verified_by_main_session", {})
    rows.append((os.path.basename(d), m.get("property"), (m.get("summary") or "")[:150].replace("|", "/").replace("\n", " "),
                 (m.get("needs") or "")[:150].replace("|", "/").replace("\n", " "),
                 "yes" if v.get("confirmed") else "NO", ", ".join(v.get("caught_by", [])) or "MISSED",
                 "; ".join(s.split(":", 1)[0].replace("site=", "") + ":" + s.split(":", 1)[1][:60] if ":" in s else s
                           for c in v.get("checks", {}).values() for s in c.get("sites", [])[:1])))
with open("/verif/seeded/INDEX.md", "w") as f:
    f.write("# Seeded changes\n\nEach directory holds `patch.diff`, `demo.py` (fails with the change, passes without) and `meta.json`.\n"
            "They were written by independent sub-agents that saw only the property text and a scratch worktree of /repo, then\n"
            "confirmed by `selftest/intake.py` (demonstration on unchanged / changed code, repository test suite with the change, quick\n"
            "check of the property against the changed worktree).  `_fixed_defects/` holds the reverts of every repaired defect.\n\n"
            "| id | property | change | needs | confirmed | caught by | first reported site |\n|---|---|---|---|---|---|---|\n")
    for r in rows:
        f.write("| " + " | ".join(str(x) for x in r) + " |\n")
print(len(rows), "seeded changes;", sum(1 for r in rows if r[5] == "MISSED"), "missed")
