------------------------------ MODULE CombTrace ------------------------------
(***************************************************************************)
(* Judge (code -> spec) for C07.  Each line of the file named by env       *)
(* COMB_TRACES is one record taken from the real library:                  *)
(*                                                                         *)
(*  [id, w, s, full, cells, impls]                                         *)
(*   w     : signed integer weight vector (the library was run on          *)
(*           scale * w for a power-of-two scale; see ScaleInvariant)       *)
(*   cells : <<[lo, hi], ...>> offset cells in units of 1/(2W); the        *)
(*           library was run once per cell per implementation at an offset *)
(*           strictly inside the cell (midpoint, or the offset the         *)
(*           propagator drew from its key)                                 *)
(*   full  : TRUE iff the cells are claimed to tile (0,1) (then the exact  *)
(*           integral over the offset is judged)                           *)
(*   impls : <<[name, uhf, mpi, ranks, runs], ...>>, runs[c] for cell c:   *)
(*             up, dn : per-rank chunks of the selection vector read off   *)
(*                      the index-tagged up / down blocks (dn only if uhf) *)
(*             u      : per-rank chunks of round(N * w'_j * 2^s / scale)   *)
(*             usum   : round(N * 2^s * Sum_j w'_j / scale)                *)
(*             ops    : per rank, the collectives the code issued          *)
(*                      ("Gather"/"Scatter"), only if mpi                  *)
(*           impls[1] is the serial NumPy implementation run on the whole  *)
(*           (rank-ordered concatenated) population.                       *)
(*                                                                         *)
(* The verdict is TOTAL: every failing (implementation, clause, cell) is   *)
(* listed; the harness reports them.  Only the property-level predicates   *)
(* of Comb.tla PART 1 decide `ok` - equality with the reference model      *)
(* RefSel is reported as information (`ref_mismatch`) and never decides.   *)
(***************************************************************************)
EXTENDS Comb, Json, IOUtils

Traces == ndJsonDeserialize(IOEnv.COMB_TRACES)

SelUp(run) == Flat(run.up)
SelDn(run) == Flat(run.dn)
UOf(run)   == Flat(run.u)

(* clauses judged per implementation and cell; each maps to the sentence of the property it encodes *)
RunClauses(t, m, run) ==
  LET n   == Len(t.w)
      sel == SelUp(run)
  IN  [CopiesOnly      |-> CopiesOnly(t.w, sel) /\ (m.uhf => CopiesOnly(t.w, SelDn(run))),
       EqualWeights    |-> EqualWeights(t.w, UOf(run), t.s),
       Conserves       |-> Conserves(t.w, run.usum, t.s),
       FloorCeil       |-> Len(sel) = n /\ FloorCeil(t.w, sel),
       NoZeroSelected  |-> NoZeroSelected(t.w, sel),
       SpinPaired      |-> m.uhf => SpinPaired(sel, SelDn(run)),
       \* a run split over R ranks: equal chunks, and their rank-ordered concatenation is the serial comb
       EqualPartition  |-> /\ Len(run.up) = m.ranks /\ Len(run.u) = m.ranks
                           /\ \A r \in 1..m.ranks : Len(run.up[r]) * m.ranks = n /\ Len(run.u[r]) * m.ranks = n,
       CollectiveOrder |-> m.mpi => (Len(run.ops) = m.ranks /\ \A r \in 1..m.ranks : run.ops[r] = CollKinds(m.uhf))]

ClauseNames == {"CopiesOnly", "EqualWeights", "Conserves", "FloorCeil", "NoZeroSelected", "SpinPaired",
                "EqualPartition", "CollectiveOrder"}

(* "The jitted, NumPy and MPI-gather/scatter implementations agree, and a run split over R ranks     *)
(* performs exactly the serial comb on the rank-ordered concatenated population": compare with       *)
(* impls[1] (serial NumPy on the concatenation), cell by cell                                        *)
Agrees(t, m, c) ==
  LET a == t.impls[1].runs[c]
      b == m.runs[c]
  IN  /\ SelUp(b) = SelUp(a)
      /\ (m.uhf => SelDn(b) = SelUp(a))
      /\ UOf(b) = UOf(a)
AgreeName(m) == IF m.mpi THEN "MPIEqualsSerialOnConcat" ELSE "AllImplsAgree"

ImplFailures(t, k) ==
  LET m == t.impls[k]
      perRun == UNION {
         LET cl == RunClauses(t, m, m.runs[c])
         IN  {[impl |-> m.name, clause |-> nm, cell |-> c] : nm \in {x \in ClauseNames : ~cl[x]}}
             \cup (IF Agrees(t, m, c) THEN {} ELSE {[impl |-> m.name, clause |-> AgreeName(m), cell |-> c]})
         : c \in DOMAIN m.runs}
      sels == [c \in DOMAIN m.runs |-> SelUp(m.runs[c])]
      unb  == IF t.full /\ PartitionOK(t.w, t.cells) /\ ~Unbiased(t.w, t.cells, sels)
              THEN {[impl |-> m.name, clause |-> "Unbiased", cell |-> 0]} ELSE {}
      shape == IF Len(m.runs) = Len(t.cells) THEN {} ELSE {[impl |-> m.name, clause |-> "RunsPerCell", cell |-> 0]}
  IN  IF Len(m.runs) = Len(t.cells) THEN perRun \cup unb ELSE shape

(* information only: does the implementation also coincide with the reference model at the cell midpoints? *)
RefMismatch(t) ==
  {t.impls[k].name : k \in {k \in DOMAIN t.impls :
      \E c \in DOMAIN t.cells : c \in DOMAIN t.impls[k].runs
          /\ SelUp(t.impls[k].runs[c]) # RefSel(t.w, Mid(t.cells[c]), 2 * Total(t.w))}}

Verdict(t) ==
  LET wellFormed == Total(t.w) > 0 /\ (t.full => PartitionOK(t.w, t.cells))
                    /\ \A c \in DOMAIN t.cells : 0 <= t.cells[c].lo /\ t.cells[c].lo < t.cells[c].hi
                                                   /\ t.cells[c].hi <= 2 * Total(t.w)
                                                   /\ (t.cells[c].lo + t.cells[c].hi) % 2 = 0
      fails == IF wellFormed THEN UNION {ImplFailures(t, k) : k \in DOMAIN t.impls} ELSE {}
  IN  [id           |-> t.id,
       well_formed  |-> wellFormed,          \* FALSE = the harness produced a bad record (machinery failure)
       ok           |-> wellFormed /\ fails = {},
       failures     |-> SetToSeq(fails),
       ref_mismatch |-> IF wellFormed THEN SetToSeq(RefMismatch(t)) ELSE <<>>,
       judged       |-> IF wellFormed THEN SumSeq([k \in DOMAIN t.impls |-> Len(t.impls[k].runs)], Len(t.impls)) ELSE 0]

VARIABLES idx, done
vars == <<idx, done>>
Init == idx \in DOMAIN Traces /\ done = FALSE
Judge == /\ ~done /\ done' = TRUE /\ UNCHANGED idx
         /\ ndJsonSerialize(IOEnv.COMB_OUT \o "/" \o ToString(Traces[idx].id) \o ".json",
                            <<Verdict(Traces[idx])>>)
Next == Judge
Spec == Init /\ [][Next]_vars
=============================================================================
