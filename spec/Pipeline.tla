------------------------------ MODULE Pipeline ------------------------------
(***************************************************************************)
(* C16 - the hand-over from pyscf to the AFQMC set-up, as bookkeeping.     *)
(*                                                                         *)
(*   pyscf object --prep_afqmc--> files on disk --_prep_afqmc--> set-up    *)
(*                                                                         *)
(* What is modelled (ad_afqmc/pyscf_interface.py: prep_afqmc, write_dqmc;  *)
(* ad_afqmc/mpi_jax.py: _prep_afqmc).  A snapshot x of one hand-over is a  *)
(* record with the fields                                                  *)
(*   pb     the problem handed to prep_afqmc: electron count and spin of   *)
(*          the molecule, number of basis functions, number of frozen      *)
(*          (doubly occupied) orbitals, kind of mean-field object and of   *)
(*          coupled-cluster object (if any)                                *)
(*   files  what prep_afqmc leaves on disk: FCIDUMP_chol (header =         *)
(*          <<nelec_total, nmo, ms, nchol>>, flattened hcore and chol),    *)
(*          mo_coeff.npz, and amplitudes.npz iff a CC object was given     *)
(*          (key names and array shapes per CC flavour)                    *)
(*   rb     what _prep_afqmc derives from the files: nelec_sp (the tuple   *)
(*          the trial is constructed with), norb (ham.norb), the shapes of *)
(*          ham_data["chol"] and ham_data["h1"], the electron count of     *)
(*          wave_data["rdm1"] per spin                                     *)
(*   opt    the options looked at: trial, walker_type, free_projection     *)
(*   setup  the outcome: refused (explicit exception) or (trial class,     *)
(*          propagator class, Taylor order of the propagator, dimensions   *)
(*          the trial object was constructed with)                         *)
(*   en     energy differences recorded after prop.init_prop_data etc.     *)
(*          (fixed point, see "tolerance relations")                       *)
(*                                                                         *)
(* The module has three layers, kept apart on purpose:                     *)
(*   1. the REFERENCE MODEL (Prep, ReadBack, Setup): what the code does,   *)
(*      written as functions so that it can be bound to the code;          *)
(*   2. the PROPERTY-LEVEL PREDICATES (the named clauses and Failed):      *)
(*      statements about a snapshot which never mention the model;         *)
(*   3. a small state machine (Spec) that walks every problem up to the    *)
(*      bounds through the model and is checked by TLC against the         *)
(*      predicates (design level).  PipelineTrace.tla loads what the real  *)
(*      library wrote and derived into the SAME state variables and        *)
(*      evaluates the SAME clauses (judge).                                *)
(***************************************************************************)
EXTENDS Integers, Sequences, FiniteSets, TLC

CONSTANTS MaxElec,     \* molecules with 1..MaxElec electrons
          MaxSpin,     \* 2S = n_alpha - n_beta in 0..MaxSpin
          MaxFrozen,   \* 0..MaxFrozen frozen orbitals
          MaxVirt,     \* nao in n_alpha..n_alpha+MaxVirt
          MaxChol      \* 1..MaxChol Cholesky vectors (abstract count)

MfKinds     == {"rhf", "rohf", "uhf"}
CcKinds     == {"none", "ccsd", "uccsd"}
TrialNames  == {"rhf", "uhf", "cisd", "ucisd"}
WalkerTypes == {"rhf", "uhf"}

Abs(x) == IF x < 0 THEN -x ELSE x
NAlpha(p) == (p.nelectron + p.spin) \div 2
NBeta(p)  == (p.nelectron - p.spin) \div 2

(***************************************************************************)
(* The problems the property speaks about.  RHF needs a closed shell; a    *)
(* frozen orbital is doubly occupied and at least one electron stays       *)
(* active; UHF and UCCSD only without frozen core (the alpha basis cannot  *)
(* freeze a beta core); CCSD amplitudes belong to an RHF reference, UCCSD  *)
(* amplitudes to a UHF one; a CC calculation has something to excite.      *)
(* CodeGuard is the only check prep_afqmc itself makes.                    *)
(***************************************************************************)
WellFormed(p) ==
  /\ p.nelectron >= 1 /\ p.spin >= 0 /\ p.spin <= p.nelectron
  /\ (p.nelectron + p.spin) % 2 = 0
  /\ p.nfrozen >= 0 /\ p.nao >= NAlpha(p)
CodeGuard(p) == p.nfrozen = 0 \/ 2 * p.nfrozen < p.nelectron
InScope(p) ==
  /\ WellFormed(p) /\ CodeGuard(p)
  /\ p.nfrozen <= NBeta(p)
  /\ p.nelectron - 2 * p.nfrozen >= 1
  /\ (p.mf = "rhf" => p.spin = 0)
  /\ (p.mf = "uhf" => p.nfrozen = 0)
  /\ (p.cc = "ccsd"  => p.mf = "rhf")
  /\ (p.cc = "uccsd" => p.mf = "uhf")
  /\ (p.cc # "none"  => p.nao > NAlpha(p) /\ NBeta(p) > p.nfrozen)

AllProblems ==
  {p \in [nelectron : 1..MaxElec, spin : 0..MaxSpin, nao : 1..(MaxElec + MaxVirt),
          nfrozen : 0..MaxFrozen, mf : MfKinds, cc : CcKinds] :
     WellFormed(p) /\ p.nao <= NAlpha(p) + MaxVirt}
Problems == {p \in AllProblems : InScope(p)}
Options  == [trial : TrialNames, walker_type : WalkerTypes, free_projection : BOOLEAN]

(***************************************************************************)
(* Layer 1 - reference model                                               *)
(***************************************************************************)
\* amplitudes.npz as a sequence of [key, shape]; empty iff there is no CC object
Amp(k, s) == [key |-> k, shape |-> s]
AmpOf(p) ==
  LET nmo == p.nao - p.nfrozen
      oa  == NAlpha(p) - p.nfrozen
      ob  == NBeta(p) - p.nfrozen
      va  == nmo - oa
      vb  == nmo - ob
  IN  CASE p.cc = "ccsd"  -> <<Amp("ci1", <<oa, va>>), Amp("ci2", <<oa, va, oa, va>>)>>
        [] p.cc = "uccsd" -> <<Amp("ci1a", <<oa, va>>), Amp("ci1b", <<ob, vb>>),
                               Amp("ci2aa", <<oa, va, oa, va>>), Amp("ci2ab", <<oa, va, ob, vb>>),
                               Amp("ci2bb", <<ob, vb, ob, vb>>)>>
        [] OTHER          -> <<>>

\* prep_afqmc + write_dqmc with nchol Cholesky vectors
Prep(p, nchol) ==
  LET nmo == p.nao - p.nfrozen IN
  [header    |-> <<p.nelectron - 2 * p.nfrozen, nmo, p.spin, nchol>>,
   hcore_len |-> nmo * nmo,
   chol_len  |-> nchol * nmo * nmo,
   mo_shape  |-> <<2, nmo, nmo>>,
   amp       |-> AmpOf(p)]

\* the part of _prep_afqmc that does not depend on the options
ReadBack(f) ==
  LET n     == f.header[1]
      nmo   == f.header[2]
      ms    == f.header[3]
      sp    == <<(n + Abs(ms)) \div 2, (n - Abs(ms)) \div 2>>
  IN  [nelec_sp   |-> sp,
       norb       |-> nmo,
       chol_shape |-> <<f.header[4], f.chol_len \div f.header[4]>>,   \* chol.reshape(nchol, -1)
       h1_shape   |-> <<2, nmo, nmo>>,
       rdm1_tr    |-> sp]                    \* rdm1[s] = C_s[:, :n_s] C_s[:, :n_s]^T

AmpKeys(f) == {f.amp[i].key : i \in DOMAIN f.amp}
RKeys == {"ci1", "ci2"}
UKeys == {"ci1a", "ci1b", "ci2aa", "ci2ab", "ci2bb"}

\* an option combination the set-up cannot honour: rhf needs a closed shell (assertion in
\* wavefunctions.rhf), cisd/ucisd need their amplitudes (ValueError in _prep_afqmc)
MustRefuse(o, f, sp) ==
  \/ o.trial = "rhf"   /\ sp[1] # sp[2]
  \/ o.trial = "cisd"  /\ ~(RKeys \subseteq AmpKeys(f))
  \/ o.trial = "ucisd" /\ ~(UKeys \subseteq AmpKeys(f))

PropClassOf(o) == IF o.walker_type = "rhf" THEN "propagator_restricted" ELSE "propagator_unrestricted"
ExpTermsOf(o)  == IF o.walker_type = "uhf" /\ o.free_projection THEN 10 ELSE 6

Setup(o, f, r) ==
  IF MustRefuse(o, f, r.nelec_sp)
  THEN [outcome |-> "refused", trial_class |-> "", prop_class |-> "", n_exp_terms |-> 0,
        trial_norb |-> 0, trial_nelec |-> <<0, 0>>]
  ELSE [outcome |-> "ok", trial_class |-> o.trial, prop_class |-> PropClassOf(o),
        n_exp_terms |-> ExpTermsOf(o), trial_norb |-> r.norb, trial_nelec |-> r.nelec_sp]

\* the model has no energies: a consistent hand-over reproduces them (all differences 0)
ModelEnergies(p, o) ==
  [has_mf |-> TRUE, has_fci |-> TRUE,
   has_cc |-> (p.cc = "ccsd" /\ o.trial = "cisd") \/ (p.cc = "uccsd" /\ o.trial = "ucisd"),
   d_mf |-> 0, d_fci |-> 0, d_cc |-> 0, tol |-> 200]

(***************************************************************************)
(* Layer 2 - property-level predicates: "the integrals, electron counts    *)
(* and trial coefficients written to disk and read back by the AFQMC       *)
(* set-up describe the same problem".  Each clause is named; a verdict is  *)
(* the set of names that fail.  x is a snapshot (see the header).          *)
(***************************************************************************)
AmpSet(a) == {<<a[i].key, a[i].shape>> : i \in DOMAIN a}

WrittenClauses(x) ==
  LET p == x.pb
      f == x.files
  IN
  [header_nelec    |-> f.header[1] = p.nelectron - 2 * p.nfrozen,
   header_nmo      |-> f.header[2] = p.nao - p.nfrozen,
   header_ms       |-> f.header[3] = p.spin,
   header_nchol    |-> f.header[4] >= 1 /\ f.chol_len = f.header[4] * f.header[2] * f.header[2],
   hcore_len       |-> f.hcore_len = f.header[2] * f.header[2],
   mo_coeff_file   |-> f.mo_shape = <<2, p.nao - p.nfrozen, p.nao - p.nfrozen>>,
   \* amplitudes.npz iff CC, with the keys and shapes of the flavour, no duplicate keys
   amplitude_files |-> /\ AmpSet(f.amp) = AmpSet(AmpOf(p))
                       /\ Len(f.amp) = Cardinality(AmpSet(f.amp))]

ReadClauses(x) ==
  LET p == x.pb
      f == x.files
      r == x.rb
  IN
  \* what was derived is what the header says: nmo, nelec_total, |ms|, nchol
  [rb_header  |-> /\ r.norb = f.header[2]
                  /\ r.nelec_sp[1] + r.nelec_sp[2] = f.header[1]
                  /\ r.nelec_sp[1] - r.nelec_sp[2] = Abs(f.header[3])
                  /\ r.chol_shape[1] = f.header[4],
   nelec_sp   |-> r.nelec_sp = <<NAlpha(p) - p.nfrozen, NBeta(p) - p.nfrozen>>,
   norb       |-> r.norb = p.nao - p.nfrozen,
   chol_shape |-> r.chol_shape = <<f.header[4], r.norb * r.norb>>,
   h1_shape   |-> r.h1_shape = <<2, r.norb, r.norb>>,
   rdm1_trace |-> r.rdm1_tr = r.nelec_sp]

SetupClauses(x) ==
  LET o == x.opt
      s == x.setup
      r == x.rb
  IN
  \* the option -> (trial class, propagator class) table is total, or refuses explicitly
  \* and only when it has to
  [option_table |-> /\ s.outcome \in {"ok", "refused"}
                    /\ (s.outcome = "refused") <=> MustRefuse(o, x.files, r.nelec_sp)
                    /\ s.outcome = "ok" => /\ s.trial_class = o.trial
                                           /\ s.prop_class = PropClassOf(o)
                                           /\ s.n_exp_terms = ExpTermsOf(o),
   trial_dims   |-> s.outcome = "ok" => s.trial_norb = r.norb /\ s.trial_nelec = r.nelec_sp]

(***************************************************************************)
(* Tolerance relations on the recorded energies.  All numbers are          *)
(* non-negative fixed-point integers in units of 1e-9 Hartree, capped at   *)
(* 10^9 (differences, never absolute energies: TLC integers are 32 bit).   *)
(*   d_mf  = |e_estimate - E_mf|           (prop.init_prop_data vs pyscf)  *)
(*   d_fci = |E0(written H) - E_FCI|                                       *)
(*   d_cc  = |E_mixed(reference det) - E_CC|                               *)
(* tol = 20 * chol_cut for molecules (en.tol carries it in the same        *)
(* units), 1e-8 for the exact lattice slice where TLC computed the         *)
(* reference from the second-quantised Hamiltonian (PipelineLattice.tla).  *)
(***************************************************************************)
Within(d, tol) == d >= 0 /\ d <= tol
EnergyClauses(x) ==
  LET e == x.en IN
  [e_mf  |-> e.has_mf  => Within(e.d_mf, e.tol),
   e_fci |-> e.has_fci => Within(e.d_fci, e.tol),
   e_cc  |-> e.has_cc  => Within(e.d_cc, e.tol),
   \* a CC energy is only meaningful for a CC problem
   cc_recorded |-> e.has_cc => x.pb.cc # "none"]

Failing(cl) == {k \in DOMAIN cl : ~cl[k]}
StageNo(s) == CASE s = "scf" -> 0 [] s = "written" -> 1 [] s = "read" -> 2
                [] s = "set" -> 3 [] s = "measured" -> 4
\* clauses are evaluated once the corresponding stage of the hand-over has been reached
Failed(x, s) ==
  (IF StageNo(s) >= 1 THEN Failing(WrittenClauses(x)) ELSE {}) \cup
  (IF StageNo(s) >= 2 THEN Failing(ReadClauses(x))    ELSE {}) \cup
  (IF StageNo(s) >= 3 THEN Failing(SetupClauses(x))   ELSE {}) \cup
  (IF StageNo(s) >= 4 THEN Failing(EnergyClauses(x))  ELSE {})

(***************************************************************************)
(* Layer 3 - design-level state machine: every in-scope problem, every     *)
(* Cholesky count, every option combination, through the reference model.  *)
(***************************************************************************)
VARIABLES pb, files, rb, opt, setup, en, stage
vars == <<pb, files, rb, opt, setup, en, stage>>
Snap == [pb |-> pb, files |-> files, rb |-> rb, opt |-> opt, setup |-> setup, en |-> en]
FailedClauses == Failed(Snap, stage)

None == [none |-> TRUE]
NoEnergies == [has_mf |-> FALSE, has_fci |-> FALSE, has_cc |-> FALSE,
               d_mf |-> 0, d_fci |-> 0, d_cc |-> 0, tol |-> 0]

Init == /\ pb \in Problems
        /\ files = None /\ rb = None /\ opt = None /\ setup = None /\ en = NoEnergies
        /\ stage = "scf"

PrepA == /\ stage = "scf"
         /\ \E k \in 1..MaxChol : files' = Prep(pb, k)
         /\ stage' = "written"
         /\ UNCHANGED <<pb, rb, opt, setup, en>>

ReadBackA == /\ stage = "written"
             /\ rb' = ReadBack(files)
             /\ stage' = "read"
             /\ UNCHANGED <<pb, files, opt, setup, en>>

SetupA == /\ stage = "read"
          /\ \E o \in Options : opt' = o /\ setup' = Setup(o, files, rb)
          /\ stage' = "set"
          /\ UNCHANGED <<pb, files, rb, en>>

MeasureA == /\ stage = "set" /\ setup.outcome = "ok"
            /\ en' = ModelEnergies(pb, opt)
            /\ stage' = "measured"
            /\ UNCHANGED <<pb, files, rb, opt, setup>>

Next == PrepA \/ ReadBackA \/ SetupA \/ MeasureA
Spec == Init /\ [][Next]_vars

(***************************************************************************)
(* What TLC checks on the model (INVARIANTs of the design run).            *)
(***************************************************************************)
\* the reference model satisfies every property-level clause
ModelClean == FailedClauses = {}

\* the model's read-back electron counts are non-negative and fit into the orbitals
ModelCountsSane ==
  StageNo(stage) >= 2 =>
     /\ rb.nelec_sp[2] >= 0 /\ rb.nelec_sp[1] >= rb.nelec_sp[2]
     /\ rb.nelec_sp[1] <= rb.norb /\ rb.nelec_sp[1] + rb.nelec_sp[2] = files.header[1]

\* every in-scope problem has a trial it can be run with; a CC problem can be run with
\* its own CC trial under both walker types; a closed shell can be run with the rhf trial
O(t, w, fp) == [trial |-> t, walker_type |-> w, free_projection |-> fp]
ModelTableUseful ==
  StageNo(stage) >= 2 =>
    /\ \A w \in WalkerTypes, fp \in BOOLEAN : ~MustRefuse(O("uhf", w, fp), files, rb.nelec_sp)
    /\ pb.cc = "ccsd"  => \A w \in WalkerTypes, fp \in BOOLEAN : ~MustRefuse(O("cisd", w, fp), files, rb.nelec_sp)
    /\ pb.cc = "uccsd" => \A w \in WalkerTypes, fp \in BOOLEAN : ~MustRefuse(O("ucisd", w, fp), files, rb.nelec_sp)
    /\ pb.spin = 0     => \A w \in WalkerTypes, fp \in BOOLEAN : ~MustRefuse(O("rhf", w, fp), files, rb.nelec_sp)
    /\ pb.cc = "none"  => \A w \in WalkerTypes, fp \in BOOLEAN :
                              MustRefuse(O("cisd", w, fp), files, rb.nelec_sp) /\ MustRefuse(O("ucisd", w, fp), files, rb.nelec_sp)

(***************************************************************************)
(* Single-fault mutants of what could be written / derived / set up /      *)
(* measured.  The clauses must reject each mutant whenever it differs from *)
(* the original (the predicates have teeth), and every mutant differs from *)
(* the original somewhere (no dead mutants).  A mutated file is read back  *)
(* by the unmutated model.                                                 *)
(***************************************************************************)
MutantNames == {"nelec_not_reduced", "nmo_not_reduced", "ms_dropped", "nchol_off_by_one",
                "amp_missing", "amp_extra", "amp_unsliced",
                "sp_swapped", "sp_no_spin", "norb_is_nao", "chol_transposed", "rdm_alpha_both",
                "trial_ignores_option", "prop_ignores_walker", "never_refuses", "always_refuses",
                "trial_dims_unfrozen", "e_mf_off", "e_fci_off", "e_cc_off"}

MutFiles(m, x) ==
  LET p == x.pb
      f == x.files
  IN
  CASE m = "nelec_not_reduced" -> [f EXCEPT !.header[1] = p.nelectron]
    [] m = "nmo_not_reduced"   -> [f EXCEPT !.header[2] = p.nao, !.hcore_len = p.nao * p.nao,
                                            !.chol_len = f.header[4] * p.nao * p.nao,
                                            !.mo_shape = <<2, p.nao, p.nao>>]
    [] m = "ms_dropped"        -> [f EXCEPT !.header[3] = 0]
    [] m = "nchol_off_by_one"  -> [f EXCEPT !.header[4] = f.header[4] + 1]
    [] m = "amp_missing"       -> [f EXCEPT !.amp = IF Len(f.amp) = 0 THEN <<>> ELSE Tail(f.amp)]
    [] m = "amp_extra"         -> [f EXCEPT !.amp = Append(f.amp, Amp("ci3", <<1>>))]
    [] m = "amp_unsliced"      -> [f EXCEPT !.amp = AmpOf([p EXCEPT !.nfrozen = 0])]
    [] OTHER                   -> f
MutRb(m, x) ==
  LET r == x.rb IN
  CASE m = "sp_swapped"      -> [r EXCEPT !.nelec_sp = <<r.nelec_sp[2], r.nelec_sp[1]>>,
                                          !.rdm1_tr = <<r.nelec_sp[2], r.nelec_sp[1]>>]
    [] m = "sp_no_spin"      -> [r EXCEPT !.nelec_sp = <<(x.files.header[1] + 1) \div 2, x.files.header[1] \div 2>>,
                                          !.rdm1_tr = <<(x.files.header[1] + 1) \div 2, x.files.header[1] \div 2>>]
    [] m = "norb_is_nao"     -> [r EXCEPT !.norb = x.pb.nao]
    [] m = "chol_transposed" -> [r EXCEPT !.chol_shape = <<r.chol_shape[2], r.chol_shape[1]>>]
    [] m = "rdm_alpha_both"  -> [r EXCEPT !.rdm1_tr = <<r.nelec_sp[1], r.nelec_sp[1]>>]
    [] OTHER                 -> r
MutSetup(m, x) ==
  LET s == x.setup
      okS(o) == [outcome |-> "ok", trial_class |-> o.trial, prop_class |-> PropClassOf(o),
                 n_exp_terms |-> ExpTermsOf(o), trial_norb |-> x.rb.norb, trial_nelec |-> x.rb.nelec_sp]
  IN
  CASE m = "trial_ignores_option" -> IF s.outcome = "ok" THEN [s EXCEPT !.trial_class = "rhf"] ELSE s
    [] m = "prop_ignores_walker"  -> IF s.outcome = "ok" THEN [s EXCEPT !.prop_class = "propagator_restricted"] ELSE s
    [] m = "never_refuses"        -> okS(x.opt)
    [] m = "always_refuses"       -> [outcome |-> "refused", trial_class |-> "", prop_class |-> "",
                                      n_exp_terms |-> 0, trial_norb |-> 0, trial_nelec |-> <<0, 0>>]
    [] m = "trial_dims_unfrozen"  -> IF s.outcome = "ok" THEN [s EXCEPT !.trial_norb = x.pb.nao] ELSE s
    [] OTHER                      -> s
MutEn(m, x) ==
  LET e == x.en IN
  CASE m = "e_mf_off"  -> [e EXCEPT !.d_mf = e.tol + 1]
    [] m = "e_fci_off" -> [e EXCEPT !.d_fci = e.tol + 1]
    [] m = "e_cc_off"  -> IF e.has_cc THEN [e EXCEPT !.d_cc = e.tol + 1] ELSE e
    [] OTHER           -> e

Mutate(m, x) ==
  LET f == MutFiles(m, x)
      r == IF f # x.files THEN ReadBack(f) ELSE MutRb(m, x)
  IN  [pb |-> x.pb, files |-> f, rb |-> r, opt |-> x.opt, setup |-> MutSetup(m, x), en |-> MutEn(m, x)]

EnergyMutants == {"e_mf_off", "e_fci_off", "e_cc_off"}
MutantsRejected ==
  StageNo(stage) >= 3 =>
    \A m \in (IF stage = "measured" THEN MutantNames ELSE MutantNames \ EnergyMutants) :
       LET y == Mutate(m, Snap) IN (y # Snap) => Failed(y, stage) # {}

(***************************************************************************)
(* Constant-level design facts, evaluated once (ASSUME in PipelineDesign.tla, *)
(* the root module of the design run).                                     *)
(***************************************************************************)
ModelSnap(p, k, o) ==
  LET f == Prep(p, k)
      r == ReadBack(f)
  IN  [pb |-> p, files |-> f, rb |-> r, opt |-> o, setup |-> Setup(o, f, r), en |-> ModelEnergies(p, o)]

\* no dead mutants
MutantsLive ==
  \A m \in MutantNames :
    \E p \in Problems, k \in 1..MaxChol, o \in Options :
      LET x == ModelSnap(p, k, o)
      IN  Mutate(m, x) # x /\ (m \in EnergyMutants => x.setup.outcome = "ok")

\* The scoping of the property is not cosmetic: with only the check the code makes itself
\* (CodeGuard) there are well-formed problems that are read back with a negative number of
\* beta electrons (a frozen orbital that is not doubly occupied) ...
ScopeIsNeeded ==
  \E p \in AllProblems :
    /\ CodeGuard(p) /\ ~InScope(p) /\ p.mf = "rohf" /\ p.cc = "none"
    /\ ReadBack(Prep(p, 1)).nelec_sp[2] < 0
\* ... and inside the scope the spin bookkeeping (n +- |ms|)/2 is exact and sane
ScopeSuffices ==
  \A p \in Problems :
    LET sp == ReadBack(Prep(p, 1)).nelec_sp
    IN  sp = <<NAlpha(p) - p.nfrozen, NBeta(p) - p.nfrozen>> /\ sp[2] >= 0 /\ sp[1] >= 1

\* the tolerance relation is the closed interval [0, tol]
ToleranceFacts == Within(0, 0) /\ Within(200, 200) /\ ~Within(201, 200) /\ ~Within(-1, 200)

DesignFacts == MutantsLive /\ ScopeIsNeeded /\ ScopeSuffices /\ ToleranceFacts
=============================================================================
