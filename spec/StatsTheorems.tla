---------------------------- MODULE StatsTheorems ----------------------------
(***************************************************************************)
(* Design-level model checking for C19: TLC enumerates EVERY series        *)
(* (w, e) with weights in WV, samples in EV and length <= MaxN (built by   *)
(* appending one sample per step, so the invariants are evaluated by all   *)
(* workers) and checks that the reference model of Stats.tla satisfies the *)
(* property-level predicates, and that the big-number evaluation used to   *)
(* judge the real code (StatsBig.tla) is the same function.                *)
(*                                                                         *)
(*  T_Mean      the mean is the weight-averaged mean (SUM w (e - mu) = 0)  *)
(*  T_B1        block size 1: error^2 = unbiased weighted variance /(n-1)  *)
(*  T_Scale     invariance under a common rescaling of the weights         *)
(*  T_Shift     mean shifts with / errors ignore an added constant         *)
(*  T_Const     constant data: every error 0, plateau None (or 0)          *)
(*  T_Loop      the closed form PlateauOf = the code's loop, run literally *)
(*  T_Outlier   median = sorted-middle definition; row classes = the       *)
(*              property's rule; integer formulation (StatsBig) agrees     *)
(*  T_Jack      shortcut leave-one-out = brute-force leave-one-out;        *)
(*              big-number jackknife agrees                                *)
(*  T_Big       big-number blocked errors / plateau = the definitions      *)
(* A violation of any of these is an error of the specification, never a   *)
(* finding about the code.                                                 *)
(***************************************************************************)
EXTENDS StatsBig

CONSTANTS WV, EV, MaxN, MinN, Full
EVneg == {-2, 0, 1}
EVwide == {-3, 0, 1, 4}
EV01 == {0, 1}
EV013 == {0, 1, 3}
EV03 == {0, 1, 2, 3}
Ms == {<<1, 1>>, <<5, 2>>, <<10, 1>>}
Scales == IF Full THEN {2, 3} ELSE {3}
Shifts == IF Full THEN {-2, 1} ELSE {-2}

\* errs caches Errs2(w, e): it is computed once per state by the action (in parallel) and shared
\* by the invariants.
VARIABLES w, e, errs
vars == <<w, e, errs>>
Init == w = << >> /\ e = << >> /\ errs = << >>
Extend == /\ Len(w) < MaxN
          /\ \E a \in WV, x \in EV : w' = Append(w, a) /\ e' = Append(e, x)
          /\ errs' = TLCEval(Errs2(w', e'))
Next == Extend
Spec == Init /\ [][Next]_vars

On == Len(w) >= MinN
n == Len(w)

T_Mean == On => /\ IsWeightedMean(WMean(w, e), w, e)
                /\ \A k \in DOMAIN errs : errs[k][1] >= 0 /\ errs[k][2] > 0
T_B1 == On => B1Formula(w, e)
T_Scale == On => \A c \in Scales : ScaleInvariant(w, e, c, errs)
T_Shift == On => \A c \in Shifts : ShiftCovariant(w, e, c, errs)
T_Const == On => ConstNoError(w, e, errs)

\* the loop of blocking_analysis, literally: state <<prevError^2, plateau>>
RECURSIVE Loop(_, _, _, _)
Loop(er, k, prev, plateau) ==
  IF k > Len(er) THEN plateau
  ELSE LET trig == 400 * er[k][1] * prev[2] < 441 * prev[1] * er[k][2] /\ plateau = None
       IN  Loop(er, k + 1, er[k], IF trig THEN RMax(er[k], prev) ELSE plateau)
T_Loop == On => PlateauOf(errs) = Loop(errs, 1, <<0, 1>>, None)

T_Outlier == On =>
  LET xs == [i \in 1..n |-> R(e[i])] IN
  /\ MedianR(xs) = SortedMedian(xs)
  /\ MAD(e) = SortedMedian(Devs(e))
  /\ \A m \in Ms : LET rc == TLCEval(RowClass(e, m)) IN
                   /\ rc = OutlierRule(e, m)
                   /\ IRowClass(e, m) = rc

T_Jack == On =>
  LET jb == JackBig(e, w)
      mu == JackMean(e, w)
      s2 == JackSigma2(e, w)
  IN  /\ \A i \in 1..n : Loo(e, w, i) = LooBrute(e, w, i)
      /\ BCloseSigned(jb.mean, BSignedOfR(mu), << >>)          \* tolerance 0: exact equality
      /\ jb.mean.s = (IF mu[1] > 0 THEN 1 ELSE IF mu[1] < 0 THEN -1 ELSE 0)
      /\ BREq(jb.sigma2, BROfR(s2))

T_Big == On =>
  LET sts   == BStats(w, e)
      berrs == TLCEval([k \in 1..Len(sts) |-> BigErr2(sts[k])])
      cls   == TLCEval([k \in 1..Len(sts) |-> BClass(berrs, k)])
      acc   == BAccept(cls)
      T     == {k \in 1..Len(errs) : Triggers(errs, k)}
      first == IF T = {} THEN 0 ELSE CHOOSE x \in T : \A y \in T : x <= y
  IN  /\ Len(errs) = Len(sts)
      /\ \A k \in 1..Len(errs) : BREq(berrs[k], BROfR(errs[k]))
      /\ first \in acc
      /\ ((\A k \in 1..Len(cls) : cls[k] # "tie") => acc = {first})
      /\ (first # 0 => BREq(BOutcome(berrs, first), BROfR(PlateauOf(errs))))
=============================================================================
