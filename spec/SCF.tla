-------------------------------- MODULE SCF --------------------------------
(***************************************************************************)
(* C18 - trial optimisation is a self-consistent-field (Roothaan) iteration.*)
(*                                                                         *)
(* The code (wavefunctions.rhf.optimize / uhf.optimize) repeats n_opt_iter  *)
(* = 30 times                                                              *)
(*      F   = h + J[D] - K[D]          (Fock matrix from the density)      *)
(*      C   = eigenvectors of F, ascending eigenvalues  (linalg_utils._eigh)*)
(*      D'  = C_occ C_occ^T, C_occ = the n_sigma lowest eigenvectors       *)
(* with, for two-body integrals (pq|rs) = sum_g L^g_pq L^g_rs,             *)
(*      J[D]_pq = sum_g tr(L^g D) L^g_pq ,  K[D] = sum_g L^g D L^g .       *)
(*   RHF:  D = 2 C_occ C_occ^T,  F = h + J[D] - 1/2 K[D]                    *)
(*   UHF:  F_s = h_s + J[D_up + D_dn] - K[D_s],  D_s = C_occ,s C_occ,s^T    *)
(* and returns the first n_sigma columns of the last C.                    *)
(*                                                                         *)
(* Eigenvectors are irrational in general, so the iteration itself is not  *)
(* computable exactly.  What IS exact - and what the property is about -   *)
(* is the fixed-point condition of that map and everything it is built     *)
(* from.  This module therefore works on exact integer data:               *)
(*                                                                         *)
(*   orbitals   C = M / sqrt(s),  M integer with M^T M = s I  (s = 1: a     *)
(*              signed permutation; s = 4: Hadamard; s = 9: [[1,2,2],..])  *)
(*   one-body   h = hn / s,  hn integer symmetric (per spin)               *)
(*   two-body   L^g integer symmetric                                      *)
(*   density    D = Dn / s,  Dn = M_occ M_occ^T   (first n_sigma columns)   *)
(*   Fock       F = Fn / s,  Fn = hn + J[Dn] - K[Dn]                        *)
(*   MO basis   C^T F C = Fm / s^2,  Fm = M^T Fn M                          *)
(*                                                                         *)
(* Property-level predicates (what "a converged Hartree-Fock solution" and *)
(* "well-conditioned" mean):                                               *)
(*   IsFixedPoint(I, g)   occupied-virtual block of F is zero for each     *)
(*        spin and every eigenvalue of the occupied block lies at least g  *)
(*        below every eigenvalue of the virtual block (certified with      *)
(*        Gershgorin discs, so it needs no eigenvalues): the aufbau choice *)
(*        of the code re-selects exactly span(C_occ) - a fixed point of    *)
(*        the Roothaan map with a gap.                                     *)
(*   WellConditioned(I,c) additionally F is diagonal in the MO basis and   *)
(*        c * RespNorm <= gap, where RespNorm bounds the linear response   *)
(*        dF_ov / d kappa of the Fock matrix to an orbital rotation: the   *)
(*        linearised Roothaan map kappa -> -dF_ai / (e_a - e_i) is then a  *)
(*        contraction with factor <= 1/c in the max norm (round-off and    *)
(*        small rotations are damped, not amplified).                      *)
(*   HFEnergy              <D|H|D> = tr(hD) + 1/2 tr((J-K)[D] D), exact.    *)
(*                                                                         *)
(* The J/K formulae are not trusted: CertEnergy and CertBrillouin tie them *)
(* to the second-quantised Hamiltonian of Fock.tla (energy = <Phi|H|Phi>,  *)
(* F_ai = <Phi_i^a|H|Phi>); TLC checks both on every small instance        *)
(* (SpecTheorems, exhaustive) and on the generated instances (SpecOracle). *)
(*                                                                         *)
(* Entry points (cfg SPECIFICATION):                                       *)
(*   SpecTheorems  exhaustive design-level check over small constants      *)
(*   SpecOracle    per generated instance: certification + exact data      *)
(*   SpecJudge     judges tolerance clauses on numbers recorded from the   *)
(*                 real code                                               *)
(***************************************************************************)
EXTENDS Fock, Json, IOUtils

Abs(x) == IF x < 0 THEN -x ELSE x
IMaxSet(f(_), S, z) == FoldSet(LAMBDA x, acc : IF f(x) > acc THEN f(x) ELSE acc, z, S)
IMinSet(f(_), S, z) == FoldSet(LAMBDA x, acc : IF f(x) < acc THEN f(x) ELSE acc, z, S)
RECURSIVE IPow(_, _)
IPow(b, k) == IF k = 0 THEN 1 ELSE b * IPow(b, k - 1)

(***************************************************************************)
(* Integer matrices (sequences of rows).                                   *)
(***************************************************************************)
ZeroM(n)     == [p \in 1..n |-> [q \in 1..n |-> 0]]
MAdd(A, B)   == [p \in DOMAIN A |-> [q \in DOMAIN A[p] |-> A[p][q] + B[p][q]]]
MSub(A, B)   == [p \in DOMAIN A |-> [q \in DOMAIN A[p] |-> A[p][q] - B[p][q]]]
MScale(k, A) == [p \in DOMAIN A |-> [q \in DOMAIN A[p] |-> k * A[p][q]]]
MHalf(A)     == [p \in DOMAIN A |-> [q \in DOMAIN A[p] |-> A[p][q] \div 2]]      \* entries even
TrProd(A, B) == ISum(LAMBDA p : ISum(LAMBDA q : A[p][q] * B[p][q], DOMAIN A[p]), DOMAIN A)
IsSym(A)     == \A p \in DOMAIN A : \A q \in DOMAIN A : A[p][q] = A[q][p]
MSumSeq(F(_), I, n) == FoldSet(LAMBDA g, acc : MAdd(F(g), acc), ZeroM(n), I)
IsScaledOrth(M, s) == MatMul(Transpose(M), M) = [p \in DOMAIN M |-> [q \in DOMAIN M |-> IF p = q THEN s ELSE 0]]

\* Dn = M_occ M_occ^T, the occupied orbitals being the first k columns of M
DensN(M, k) == TLCEval([p \in DOMAIN M |-> [q \in DOMAIN M |->
                  ISum(LAMBDA j : M[p][j] * M[q][j], 1..k)]])

(***************************************************************************)
(* The Roothaan map's ingredients (exactly the contractions of the code:   *)
(* f = L^g D; vj = sum_g tr(f) L^g; vk = sum_g f^T ... = sum_g L^g D L^g).  *)
(***************************************************************************)
Coulomb(L, D)  == TLCEval(MSumSeq(LAMBDA g : MScale(TrProd(L[g], D), L[g]), DOMAIN L, Len(D)))
Exchange(L, D) == TLCEval(MSumSeq(LAMBDA g : MatMul(L[g], MatMul(D, L[g])), DOMAIN L, Len(D)))

\* rhf.optimize: dm = 2 C_occ C_occ^T;  fock = h1 + vj - 0.5 vk
FockRHF(hn, L, Dn) ==
  LET dm == MScale(2, Dn)
  IN  TLCEval(MAdd(hn, MSub(Coulomb(L, dm), MHalf(Exchange(L, dm)))))
\* uhf.optimize: fock_s = h1[s] + vj_up + vj_dn - vk_s
FockUHF(hns, L, Dns, Dnu, Dnd) ==
  TLCEval(MAdd(hns, MSub(MAdd(Coulomb(L, Dnu), Coulomb(L, Dnd)), Exchange(L, Dns))))

\* 2 s^2 <D|H|D>:  E = tr(h_u D_u) + tr(h_d D_d) + 1/2 [ tr(J[Dt] Dt) - tr(K[D_u] D_u) - tr(K[D_d] D_d) ]
TwoEnUHF(hnu, hnd, L, Dnu, Dnd) ==
  LET Dt == MAdd(Dnu, Dnd)
  IN  2 * TrProd(hnu, Dnu) + 2 * TrProd(hnd, Dnd)
      + TrProd(Coulomb(L, Dt), Dt) - TrProd(Exchange(L, Dnu), Dnu) - TrProd(Exchange(L, Dnd), Dnd)
\* closed shell, written with the RHF Fock matrix: E = 1/2 tr((h + F) D_tot), D_tot = 2 D
TwoEnRHF(hn, L, Dn) == 2 * TrProd(MAdd(hn, FockRHF(hn, L, Dn)), Dn)

(***************************************************************************)
(* An instance.  kind = "rhf": Mu = Md, hnu = hnd, nup = ndn (the code     *)
(* uses one set of orbitals and the spin-averaged h1).                     *)
(***************************************************************************)
Nocc(I, sp) == IF sp = 1 THEN I.nup ELSE I.ndn
MOf(I, sp)  == IF sp = 1 THEN I.Mu ELSE I.Md
HOf(I, sp)  == IF sp = 1 THEN I.hnu ELSE I.hnd
DOf(I, sp)  == DensN(MOf(I, sp), Nocc(I, sp))
Occ(I, sp)  == 1..Nocc(I, sp)
Virt(I, sp) == (Nocc(I, sp) + 1)..I.norb

FockN(I, sp) ==
  IF I.kind = "rhf" THEN FockRHF(I.hnu, I.chol, DOf(I, 1))
  ELSE FockUHF(HOf(I, sp), I.chol, DOf(I, sp), DOf(I, 1), DOf(I, 2))
\* Fm = M^T Fn M = s^2 C^T F C
FockMO(I, sp) == TLCEval(Congruence(MOf(I, sp), FockN(I, sp)))
TwoEn(I) == IF I.kind = "rhf" THEN TwoEnRHF(I.hnu, I.chol, DOf(I, 1))
            ELSE TwoEnUHF(I.hnu, I.hnd, I.chol, DOf(I, 1), DOf(I, 2))

WellFormed(I) ==
  /\ IsScaledOrth(I.Mu, I.s) /\ IsScaledOrth(I.Md, I.s)
  /\ IsSym(I.hnu) /\ IsSym(I.hnd) /\ \A g \in DOMAIN I.chol : IsSym(I.chol[g])
  /\ (I.kind = "rhf" => I.Mu = I.Md /\ I.hnu = I.hnd /\ I.nup = I.ndn)

(***************************************************************************)
(* Property-level predicates.                                              *)
(***************************************************************************)
OVZero(Fm, I, sp) == \A i \in Occ(I, sp), a \in Virt(I, sp) : Fm[a][i] = 0 /\ Fm[i][a] = 0
Stationary(I) == \A sp \in 1..2 : OVZero(FockMO(I, sp), I, sp)

\* Gershgorin: every eigenvalue of the occupied block <= HiOcc, of the virtual block >= LoVirt
HiOcc(Fm, I, sp)  == IMaxSet(LAMBDA i : Fm[i][i] + ISum(LAMBDA j : Abs(Fm[i][j]), Occ(I, sp) \ {i}),
                             Occ(I, sp), -1000000000)
LoVirt(Fm, I, sp) == IMinSet(LAMBDA a : Fm[a][a] - ISum(LAMBDA b : Abs(Fm[a][b]), Virt(I, sp) \ {a}),
                             Virt(I, sp), 1000000000)
Open(I, sp) == Occ(I, sp) # {} /\ Virt(I, sp) # {}        \* spin channel with something to optimise
\* certified gap (in units of 1/s^2) of one spin channel, and of the instance
GapN(I, sp)  == LET Fm == FockMO(I, sp) IN LoVirt(Fm, I, sp) - HiOcc(Fm, I, sp)
GapMin(I)    == IMinSet(LAMBDA sp : GapN(I, sp), {sp \in 1..2 : Open(I, sp)}, 1000000000)
HasGap(I, g) == \A sp \in 1..2 : Open(I, sp) => GapN(I, sp) >= g * I.s * I.s

IsFixedPoint(I, g) == Stationary(I) /\ HasGap(I, g)

\* F diagonal in the MO basis (then the e_p = Fm[p][p]/s^2 are the orbital energies)
DiagonalMO(I) == \A sp \in 1..2 : LET Fm == FockMO(I, sp) IN
                   \A p \in 1..I.norb, q \in 1..I.norb : p # q => Fm[p][q] = 0

\* two-electron integrals in the MO bases, (pq|rs) s^2, p,q of spin sp and r,s of spin tp
LmoOf(I, sp) == TLCEval([g \in DOMAIN I.chol |-> Congruence(MOf(I, sp), I.chol[g])])
\* d F^sp_ck / d kappa^tp_ai  =  2 (ck|ai) - [sp = tp] ( (ca|ik) + (ci|ak) )      (times s^2)
RespNorm(I) ==
  LET Lm == TLCEval([sp \in 1..2 |-> LmoOf(I, sp)])
      eri(sp, p, q, tp, r, t) == ISum(LAMBDA g : Lm[sp][g][p][q] * Lm[tp][g][r][t], DOMAIN I.chol)
      resp(sp, c, k, tp, a, i) ==
         2 * eri(sp, c, k, tp, a, i)
         - (IF sp = tp THEN eri(sp, c, a, sp, i, k) + eri(sp, c, i, sp, a, k) ELSE 0)
      row(sp, c, k) == ISum(LAMBDA tp : ISum(LAMBDA a : ISum(LAMBDA i :
                           Abs(resp(sp, c, k, tp, a, i)), Occ(I, tp)), Virt(I, tp)), 1..2)
  IN  IMaxSet(LAMBDA sck : row(sck[1], sck[2], sck[3]),
              {<<sp, c, k>> \in (1..2) \X (1..I.norb) \X (1..I.norb) : c \in Virt(I, sp) /\ k \in Occ(I, sp)}, 0)

WellConditioned(I, c) == IsFixedPoint(I, 1) /\ DiagonalMO(I) /\ c * RespNorm(I) <= GapMin(I)

\* one Roothaan step when F is diagonal in the MO basis: eigenvectors = columns of M, the code occupies
\* the n lowest (argsort); defined when there is no tie at the Fermi level
AufbauSet(I, sp) ==
  LET Fm == FockMO(I, sp)
      below(p) == Cardinality({q \in 1..I.norb : Fm[q][q] < Fm[p][p]})
  IN  {p \in 1..I.norb : below(p) < Nocc(I, sp)}
StepKeepsOccupied(I) == \A sp \in 1..2 : AufbauSet(I, sp) = Occ(I, sp)

(***************************************************************************)
(* Certification against the second-quantised Hamiltonian (Fock.tla).      *)
(* |Phi~> = Slater determinant of the unnormalised columns of M,           *)
(* <Phi~|Phi~> = s^N.   With h = hn/s :                                    *)
(*   2 s (H - h0) = TwoH(hn, no two-body) + s TwoH(0, L)                   *)
(*   <Phi~| 2s(H-h0) |Phi~>      = 2 s E s^N          = TwoEn s^(N-1)      *)
(*   <Phi~_i^a| 2s(H-h0) |Phi~>  = 2 s F_ai s^N        = 2 Fm[a][i] s^(N-1) *)
(* (Phi~_i^a: occupied column i replaced by virtual column a of M; N >= 1). *)
(***************************************************************************)
CplxM(A, k) == [p \in DOMAIN A |-> [j \in 1..k |-> CRe(A[p][j])]]
TwoSH(I, v) ==
  LET n == I.norb
  IN  VAdd(TwoH(n, I.hnu, I.hnd, <<>>, v), VScale(I.s, TwoH(n, ZeroM(n), ZeroM(n), I.chol, v)))
PhiOf(I) == SDVec(I.norb, I.nup, I.ndn, CplxM(I.Mu, I.nup), CplxM(I.Md, I.ndn))
NElec(I) == I.nup + I.ndn
Replaced(M, i, a) == [p \in DOMAIN M |-> [j \in DOMAIN M[p] |-> IF j = i THEN M[p][a] ELSE M[p][j]]]
SingleOf(I, sp, i, a) ==
  IF sp = 1 THEN SDVec(I.norb, I.nup, I.ndn, CplxM(Replaced(I.Mu, i, a), I.nup), CplxM(I.Md, I.ndn))
  ELSE SDVec(I.norb, I.nup, I.ndn, CplxM(I.Mu, I.nup), CplxM(Replaced(I.Md, i, a), I.ndn))

CertEnergy(I) ==
  LET phi == PhiOf(I)
      lhs == Inner(phi, TwoSH(I, phi))
  IN  lhs[2] = 0 /\ lhs[1] = TwoEn(I) * IPow(I.s, NElec(I) - 1)
CertBrillouin(I) ==
  LET phi == PhiOf(I)
      hphi == TwoSH(I, phi)
      sN == IPow(I.s, NElec(I) - 1)
  IN  \A sp \in 1..2 : LET Fm == FockMO(I, sp) IN
        \A i \in Occ(I, sp), a \in Virt(I, sp) :
           LET me == Inner(SingleOf(I, sp, i, a), hphi)
           IN  me[2] = 0 /\ me[1] = 2 * Fm[a][i] * sN

(***************************************************************************)
(*                  SpecOracle: certify generated instances                *)
(***************************************************************************)
VARIABLES idx, done, inst
vars == <<idx, done, inst>>

Insts == ndJsonDeserialize(IOEnv.SCF_INST)

OracleOf(I) ==
  LET wf == WellFormed(I)
      fp == wf /\ IsFixedPoint(I, 1)
  IN  [id |-> I.id, wellformed |-> wf,
       stationary |-> wf /\ Stationary(I),
       fixed_point |-> fp,
       gap_n |-> GapMin(I), s |-> I.s,
       diagonal |-> DiagonalMO(I),
       step_keeps |-> DiagonalMO(I) /\ StepKeepsOccupied(I),
       resp_n |-> RespNorm(I),
       wellcond |-> fp /\ WellConditioned(I, I.cfac),
       two_en |-> TwoEn(I),
       dnu |-> DOf(I, 1), dnd |-> DOf(I, 2),
       fmo |-> <<FockMO(I, 1), FockMO(I, 2)>>,
       fock_checked |-> I.fockcert,
       cert_energy |-> (IF I.fockcert THEN CertEnergy(I) ELSE TRUE),
       cert_brillouin |-> (IF I.fockcert THEN CertBrillouin(I) ELSE TRUE)]

InitOracle == idx \in DOMAIN Insts /\ done = FALSE /\ inst = <<>>
EvalOracle == /\ ~done /\ done' = TRUE /\ UNCHANGED <<idx, inst>>
              /\ ndJsonSerialize(IOEnv.SCF_OUT \o "/" \o ToString(Insts[idx].id) \o ".json",
                                 <<OracleOf(Insts[idx])>>)
SpecOracle == InitOracle /\ [][EvalOracle]_vars

(***************************************************************************)
(*        SpecTheorems: exhaustive design-level check, small constants     *)
(***************************************************************************)
CONSTANTS TNORB, TNELECS, TLSET
V3 == {-1, 0, 1}
SymMats == IF TNORB = 2
           THEN {<< <<a, b>>, <<b, c>> >> : a \in V3, b \in V3, c \in V3}
           ELSE {<< <<a, b, 0>>, <<b, c, d>>, <<0, d, a>> >> : a \in V3, b \in V3, c \in V3, d \in {0, 1}}
\* two-body matrices: everything (TLSET = "all") or a representative handful
LMats == IF TLSET = "all" THEN SymMats
         ELSE IF TNORB = 2 THEN {<< <<1, 1>>, <<1, 0>> >>, << <<0, 1>>, <<1, -1>> >>, << <<1, 0>>, <<0, 0>> >>}
         ELSE {<< <<1, 1, 0>>, <<1, 0, 1>>, <<0, 1, 1>> >>, << <<0, -1, 0>>, <<-1, 1, 1>>, <<0, 1, 0>> >>,
               << <<1, 0, 0>>, <<0, 0, 0>>, <<0, 0, 1>> >>}
\* orbital families <<s, {M}>> with M^T M = s I
OrbFams == IF TNORB = 2
           THEN {<<1, {<< <<1, 0>>, <<0, 1>> >>, << <<0, -1>>, <<1, 0>> >>}>>,
                 <<2, {<< <<1, 1>>, <<1, -1>> >>, << <<1, -1>>, <<-1, -1>> >>}>>}
           ELSE {<<1, {<< <<1, 0, 0>>, <<0, 1, 0>>, <<0, 0, 1>> >>, << <<0, 0, -1>>, <<1, 0, 0>>, <<0, 1, 0>> >>}>>,
                 <<9, {<< <<1, 2, 2>>, <<2, 1, -2>>, <<2, -2, 1>> >>, << <<2, -2, 1>>, <<1, 2, 2>>, <<-2, -1, 2>> >>}>>}
Nel2  == {<<1, 1>>, <<1, 0>>, <<2, 1>>}
Nel3  == {<<1, 1>>, <<2, 1>>, <<2, 2>>, <<2, 0>>}
Nel3q == {<<1, 1>>, <<2, 1>>}

\* Init fixes the up-spin one-body matrix (many initial states = parallel work); Pick draws the rest
InitT == idx = 0 /\ done = FALSE /\ inst \in {[hnu |-> x] : x \in SymMats}
PickT == /\ ~done /\ done' = TRUE /\ UNCHANGED idx
         /\ \E L \in LMats, ne \in TNELECS, fam \in OrbFams, spindep \in BOOLEAN :
              \E mu \in fam[2], md \in fam[2] :
                inst' = [id |-> 0, kind |-> "uhf", norb |-> TNORB, nup |-> ne[1], ndn |-> ne[2], s |-> fam[1],
                         Mu |-> mu, Md |-> md, hnu |-> inst.hnu,
                         hnd |-> IF spindep THEN L ELSE inst.hnu, chol |-> <<L, inst.hnu>>]
SpecTheorems == InitT /\ [][PickT]_vars

T_WellFormed == done => WellFormed(inst)
\* the closed J/K energy formula is the expectation value of the second-quantised Hamiltonian
T_Energy     == done => CertEnergy(inst)
\* the occupied-virtual Fock block is the matrix element to singly excited determinants (Brillouin):
\* Stationary <=> the energy is stationary under every orbital rotation
T_Brillouin  == done => CertBrillouin(inst)
\* the restricted closed-shell formulae (rhf.optimize) are the unrestricted ones with equal spins
T_RHF == (done /\ inst.nup = inst.ndn /\ inst.Mu = inst.Md /\ inst.hnu = inst.hnd) =>
           LET R == [inst EXCEPT !.kind = "rhf"] IN
           /\ FockN(R, 1) = FockN(inst, 1) /\ FockN(R, 2) = FockN(inst, 2)
           /\ TwoEn(R) = TwoEn(inst)
\* a fixed point with diagonal Fock matrix is reproduced by the aufbau selection of one Roothaan step
T_Step == (done /\ IsFixedPoint(inst, 1) /\ DiagonalMO(inst)) => StepKeepsOccupied(inst)
\* ... and a stationary but non-aufbau point is not (the step moves to other columns)
T_StepMoves == (done /\ Stationary(inst) /\ DiagonalMO(inst) /\ ~StepKeepsOccupied(inst)) => ~HasGap(inst, 1)
\* satisfiability / non-triviality probes (each is EXPECTED to be violated)
P_NoFixedPoint  == done => ~IsFixedPoint(inst, 1)
P_AllStationary == done => Stationary(inst)
P_NoWellCond    == done => ~(WellConditioned(inst, 2) /\ RespNorm(inst) > 0)

(***************************************************************************)
(*      SpecJudge: tolerance clauses on numbers recorded from the code     *)
(*                                                                         *)
(* A record [id, finite, clauses] with clauses a sequence of               *)
(*   [name, err, scale, tolexp]   asking   err <= scale * 10^tolexp        *)
(* err and scale are decimal floats <<m, e>> = m * 10^e (magnitudes; m = 0 *)
(* or 10^7 <= m < 10^8; err rounded up, scale rounded down by the harness).*)
(* The verdict is total and names every failing clause.                    *)
(***************************************************************************)
DLeq(a, b) == \/ a[1] = 0
              \/ /\ b[1] # 0
                 /\ (a[2] < b[2] \/ (a[2] = b[2] /\ a[1] <= b[1]))
ClauseOK(c) == DLeq(c.err, IF c.scale[1] = 0 THEN c.scale ELSE <<c.scale[1], c.scale[2] + c.tolexp>>)
JudgeOne(r) ==
  LET bad == {k \in DOMAIN r.clauses : ~ClauseOK(r.clauses[k])}
  IN  [id |-> r.id, ok |-> r.finite /\ bad = {}, finite_ok |-> r.finite,
       failed |-> [k \in 1..Cardinality(bad) |-> r.clauses[SetToSortSeq(bad, <)[k]].name]]

JBatches == ndJsonDeserialize(IOEnv.SCF_JUDGE)
InitJudge == idx \in DOMAIN JBatches /\ done = FALSE /\ inst = <<>>
EvalJudge == /\ ~done /\ done' = TRUE /\ UNCHANGED <<idx, inst>>
             /\ ndJsonSerialize(IOEnv.SCF_VERDICTS \o "/" \o ToString(JBatches[idx].id) \o ".json",
                                [k \in DOMAIN JBatches[idx].recs |-> JudgeOne(JBatches[idx].recs[k])])
SpecJudge == InitJudge /\ [][EvalJudge]_vars
=============================================================================
