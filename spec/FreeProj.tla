------------------------------ MODULE FreeProj ------------------------------
(***************************************************************************)
(* Free-projection propagation (C05): norm bookkeeping as symbolic scale   *)
(* algebra.  Every re-orthonormalisation k introduces a fresh symbol r_k   *)
(* (= det R_up * det R_dn of that QR).  A quantity is tracked as the       *)
(* vector of integer exponents of r_1..r_K multiplying the "physical"      *)
(* un-normalised product of propagators applied to the initial walker:     *)
(*    walker  = P_phys * prod_k r_k^wexp[k]                                *)
(*    norms   =          prod_k r_k^nexp[k]                                *)
(*    overlaps (stored) = <psi|P_phys> * prod_k r_k^oexp[k]                *)
(* One call of propagator_unrestricted.propagate_free is the sequence      *)
(*    Apply (B(x) and the scalar constants; physical) -> QR (walker :=     *)
(*    walker R^-1, returns det R) -> NormAcc (norms *= det R) ->           *)
(*    StoreOverlap (overlaps := <psi|walker> * norms) -> QR2 + normed      *)
(*    overlaps (a second QR of already orthonormal walkers: det R = 1).    *)
(* Invariants after every completed step:                                  *)
(*    Represented : nexp + wexp = 0   (norms x walker = un-normalised P)   *)
(*    OverlapOfUnnormalised : oexp = 0                                     *)
(* Mutation \in {"none","no_norm_acc","overlap_of_normalised"} gives the   *)
(* negative configs.                                                       *)
(*                                                                         *)
(* SpinConstants: the per-spin scalar constants multiply every column, so  *)
(* the determinant picks up c_up^n_up c_dn^n_dn; with the code's exponents *)
(* 1/(2 n_s) this is exactly exp(-sqrt(dt) x.mf + dt (h0_prop + ene0)).    *)
(***************************************************************************)
EXTENDS Integers, Sequences, FiniteSets, TLC

CONSTANTS MaxSteps, Mutation

VARIABLES pc, k, wexp, nexp, oexp, done
vars == <<pc, k, wexp, nexp, oexp, done>>
Syms == 1..MaxSteps
ZeroV == [s \in Syms |-> 0]

Init == pc = "apply" /\ k = 1 /\ wexp = ZeroV /\ nexp = ZeroV /\ oexp = ZeroV /\ done = 0

Apply == /\ pc = "apply" /\ k <= MaxSteps /\ pc' = "qr"
         /\ UNCHANGED <<k, wexp, nexp, oexp, done>>
QR    == /\ pc = "qr" /\ pc' = "normacc"
         /\ wexp' = [wexp EXCEPT ![k] = @ - 1]
         /\ UNCHANGED <<k, nexp, oexp, done>>
NormAcc == /\ pc = "normacc" /\ pc' = "store"
           /\ nexp' = IF Mutation = "no_norm_acc" THEN nexp ELSE [nexp EXCEPT ![k] = @ + 1]
           /\ UNCHANGED <<k, wexp, oexp, done>>
StoreOverlap == /\ pc = "store" /\ pc' = "qr2"
                /\ oexp' = IF Mutation = "overlap_of_normalised" THEN wexp
                           ELSE [s \in Syms |-> wexp[s] + nexp[s]]
                /\ UNCHANGED <<k, wexp, nexp, done>>
QR2 == /\ pc = "qr2" /\ pc' = "apply"            \* walkers already orthonormal: det R = 1, nothing changes
       /\ k' = k + 1 /\ done' = done + 1
       /\ UNCHANGED <<wexp, nexp, oexp>>
Next == Apply \/ QR \/ NormAcc \/ StoreOverlap \/ QR2
Spec == Init /\ [][Next]_vars

Represented == pc = "apply" => \A s \in Syms : nexp[s] + wexp[s] = 0
OverlapOfUnnormalised == pc = "apply" => oexp = ZeroV
NormsAreProductOfFactors == pc = "apply" => \A s \in Syms : nexp[s] = (IF s < k THEN 1 ELSE 0)

(***************************************************************************)
(* RunningMean: driver.fp_afqmc accumulates, per block index, the running   *)
(* weighted mean over trajectories with                                    *)
(*      W' = W + w ;  m' = m + w (e - m) / W'                              *)
(* Theorem (checked for all short integer sequences): after any sequence   *)
(* the accumulator equals sum w e / sum w.  Rationals as <<num, den>>.     *)
(***************************************************************************)
RECURSIVE Gcd(_, _)
Gcd(a, b) == IF b = 0 THEN a ELSE Gcd(b, a % b)
AbsI(x) == IF x < 0 THEN -x ELSE x
Norm(n, d) == IF n = 0 THEN <<0, 1>> ELSE LET g == Gcd(AbsI(n), d) IN <<n \div g, d \div g>>
\* one accumulation step on (W, m = <<mn, md>>)
Accumulate(W, m, w, e) == LET W2 == W + w IN <<W2, Norm(m[1] * W2 + w * (e * m[2] - m[1]), m[2] * W2)>>
RECURSIVE RunAcc(_, _, _)
RunAcc(ws, es, j) == IF j = 0 THEN <<0, <<0, 1>>>> ELSE LET p == RunAcc(ws, es, j - 1) IN Accumulate(p[1], p[2], ws[j], es[j])
RECURSIVE SumWE(_, _, _)
SumWE(ws, es, j) == IF j = 0 THEN 0 ELSE SumWE(ws, es, j - 1) + ws[j] * es[j]
RECURSIVE SumW(_, _)
SumW(ws, j) == IF j = 0 THEN 0 ELSE SumW(ws, j - 1) + ws[j]
RunningMeanIsWeightedMean ==
  \A n \in 1..3 : \A ws \in [1..n -> 1..3], es \in [1..n -> -2..2] :
     RunAcc(ws, es, n)[2] = Norm(SumWE(ws, es, n), SumW(ws, n))

\* exponents as rationals <<num, den>>: n_up * 1/(2 n_up) + n_dn * 1/(2 n_dn) = 1 for all electron counts
SpinConstants == \A nu \in 1..4, nd \in 1..4 : nu * 2 * nd + nd * 2 * nu = 2 * nu * 2 * nd
=============================================================================
