---------------------------- MODULE WeightsTrace ----------------------------
(***************************************************************************)
(* Judge for weight histories recorded from the real propagators (C09).    *)
(* One record per history:                                                 *)
(*   [id, steps]   steps[i] = [kind, c0, c1, fac, shift_fin]               *)
(*   kind      "step" (one propagation step) or "sr" (reconfiguration)     *)
(*   c0, c1    class of every walker's weight before / after:              *)
(*             "zero" | "pos" | "neg" | "nan" | "inf" | "cplx"             *)
(*   fac       class of the factor applied to a living walker in a step:   *)
(*             "zero" | "window" | "below" | "above" | "undef"             *)
(*             (the harness classifies floats against the code's own       *)
(*             thresholds; see harness/props/c09.py)                       *)
(*   shift_fin the population-control shift after the event is finite      *)
(* The predicates are the property's own clauses; the verdict is total and *)
(* names the first failing clause and step.                                *)
(***************************************************************************)
EXTENDS Integers, Sequences, FiniteSets, Json, IOUtils, TLC

Hist == ndJsonDeserialize(IOEnv.WEIGHT_TRACES)

Good(c)   == c \in {"zero", "pos"}
Domain(s) == \A x \in DOMAIN s.c1 : Good(s.c1[x])
Factor(s) == s.kind = "step" => \A x \in DOMAIN s.c1 : s.c0[x] = "pos" => s.fac[x] \in {"zero", "window"}
Dead(s)   == s.kind = "step" => \A x \in DOMAIN s.c1 : s.c0[x] = "zero" => s.c1[x] = "zero"
Shift(s)  == (\E x \in DOMAIN s.c1 : s.c1[x] = "pos") => s.shift_fin
Revive(s) == s.kind = "sr" => ((\E x \in DOMAIN s.c0 : s.c0[x] = "pos") => \A x \in DOMAIN s.c1 : s.c1[x] = "pos")
Cont(h, i) == i = 1 \/ h.steps[i].c0 = h.steps[i - 1].c1

Clause(h, i) ==
  LET s == h.steps[i] IN
  IF ~Cont(h, i) THEN "Continuity"
  ELSE IF ~Domain(s) THEN "WeightDomain"
  ELSE IF ~Dead(s) THEN "DeadStaysDead"
  ELSE IF ~Factor(s) THEN "StepFactor"
  ELSE IF ~Shift(s) THEN "ShiftFiniteWhileAlive"
  ELSE IF ~Revive(s) THEN "Reconfiguration"
  ELSE ""

Bad(h) == {i \in DOMAIN h.steps : Clause(h, i) # ""}
Verdict(h) ==
  LET b == Bad(h)
      i == IF b = {} THEN 0 ELSE CHOOSE k \in b : \A j \in b : k <= j
  IN [id |-> h.id, ok |-> b = {}, at |-> i, clause |-> IF i = 0 THEN "" ELSE Clause(h, i),
      nsteps |-> Len(h.steps),
      deaths |-> Cardinality({k \in DOMAIN h.steps : h.steps[k].kind = "step" /\
                                \E x \in DOMAIN h.steps[k].c1 : h.steps[k].c0[x] = "pos" /\ h.steps[k].c1[x] = "zero"})]

VARIABLES idx, done
vars == <<idx, done>>
Init == idx \in DOMAIN Hist /\ done = FALSE
Judge == /\ ~done /\ done' = TRUE /\ UNCHANGED idx
         /\ ndJsonSerialize(IOEnv.WEIGHT_OUT \o "/" \o ToString(Hist[idx].id) \o ".json", <<Verdict(Hist[idx])>>)
Spec == Init /\ [][Judge]_vars
=============================================================================
