------------------------------- MODULE Report -------------------------------
(***************************************************************************)
(* What driver.afqmc REPORTS: the bookkeeping of rank 0 between the        *)
(* sampler's block results and the numbers / files a user reads            *)
(* (ad_afqmc/driver.py, sampling loop and post-processing).                *)
(*                                                                         *)
(* One block of the sampling loop is, in the code and here, the sequence   *)
(*   Sample   every rank runs one sampler entry point and obtains          *)
(*            (block energy, block observable, rdm sample, total weight);  *)
(*            a non-finite observable (forward / reverse) or rdm norm      *)
(*            (2rdm) is replaced by the trial's value and counted as a     *)
(*            "large deviation"; without AD the observable column is 0;    *)
(*            in 2rdm mode the observable column is ALWAYS the trial's     *)
(*   Gather   three (four) root gathers write the ranks' values into rows  *)
(*            n*R+1 .. (n+1)*R of the global table, in rank order; the     *)
(*            block energy is the weight-average of the gathered energies  *)
(*   Update   (QR, optional snapshot, global reconfiguration)              *)
(*            e_estimate <- 0.9 e_estimate + 0.1 block energy              *)
(*   Dump     iff n % max(NBlk div 10, 1) = 0: the filled prefix of the    *)
(*            table is written to samples_raw.dat                          *)
(* and the post-processing is                                              *)
(*   Reduce   large deviations summed over the ranks                       *)
(*   PostRaw  the whole table -> samples_raw.dat                           *)
(*   Clean    reject_outliers(table, column, m = 10) with column = the     *)
(*            observable for forward / reverse, the energy otherwise;      *)
(*            kept rows -> samples.dat, and they replace the table         *)
(*   Energy   blocking_analysis(weights, energies) of the kept rows is     *)
(*            what the function returns (error None -> 0.0)                *)
(*   Obs      (AD modes) blocking_analysis(weights, observables)           *)
(*   Rdm      (reverse / 2rdm) a second reject_outliers on (weight, norm   *)
(*            of the rdm sample) of the kept rows, then the weight-        *)
(*            averaged rdm of the rows that survive both                   *)
(*                                                                         *)
(* Values are small integers; arithmetic is Stats.tla's exact rationals    *)
(* (WMean, RowClass, BlockingMean, BlockingErr2 are the reference model    *)
(* of stat_utils that C19 binds to the code function by function).  This   *)
(* module says WHICH function is applied to WHICH rows WHEN;               *)
(* ReportTrace.tla replays the calls rank 0 really made.                   *)
(***************************************************************************)
EXTENDS Stats, Sequences, SequencesExt

CONSTANTS NRanks,      \* R
          NBlk,        \* sampler.n_blocks
          AdMode,      \* "none" | "forward" | "reverse" | "2rdm"
          WVals, EVals, OVals, NormVals,   \* what a rank can obtain in one block
          TrialObs, TrialNorm,             \* the trial's own observable / rdm norm
          NoObsVal,                        \* the observable column without AD (0 + the observable's constant)
          Mutation     \* "none" or a named wrong bookkeeping (must violate a property below)

NaN     == -999        \* stands for any non-finite value (TLC cannot mix strings and integers in one set)
ASSUME NaN \notin (OVals \cup NormVals \cup {TrialObs, TrialNorm})
Ranks   == 1..NRanks
HasObs  == AdMode # "none"
HasRdm  == AdMode \in {"reverse", "2rdm"}
OutCol  == IF AdMode \in {"forward", "reverse"} THEN "o" ELSE "e"
M10     == <<10, 1>>
DumpEvery     == IF NBlk \div 10 > 1 THEN NBlk \div 10 ELSE 1
IsDumpBlock(k) == k % DumpEvery = 0          \* k: 0-based block index, as in the code
NoFile  == <<>>            \* no file yet (a dump always holds at least one block)

VARIABLES pc, n, pending, rawHist, table, blockE, beHist, eEst, rawFile, dumps, largeLocal, largeTotal,
          cleanRows, cleanMask, rdmKept, result
vars == <<pc, n, pending, rawHist, table, blockE, beHist, eEst, rawFile, dumps, largeLocal, largeTotal,
          cleanRows, cleanMask, rdmKept, result>>

\* what a rank obtains before the driver looks at it
\* (reverse mode: the observable is SUM rdm * op, so a non-finite entry of the density-matrix sample makes the
\* observable non-finite as well - also where op is zero, 0 * nan = nan)
RawOutcomes == {x \in [w : WVals, e : EVals,
                       o : IF AdMode \in {"forward", "reverse"} THEN OVals \cup {NaN} ELSE {NoObsVal},
                       nrm : IF HasRdm THEN NormVals \cup {NaN} ELSE {0}] :
                  (AdMode = "reverse" /\ x.nrm = NaN) => x.o = NaN}

\* the driver's substitution rule, per ad_mode
Deviates(x) == CASE AdMode = "forward" -> x.o = NaN
                 [] AdMode = "reverse" -> x.o = NaN
                 [] AdMode = "2rdm"    -> x.nrm = NaN
                 [] OTHER              -> FALSE
RowOf(x, b, r) ==
  [w |-> x.w, e |-> x.e,
   o |-> CASE AdMode = "none" -> NoObsVal
           [] AdMode = "2rdm" -> TrialObs
           [] OTHER -> IF Deviates(x) THEN TrialObs ELSE x.o,
   nrm |-> IF ~HasRdm THEN 0 ELSE IF Deviates(x) THEN TrialNorm ELSE x.nrm,
   id |-> <<b, r>>]

Col(rows, f) == [i \in 1..Len(rows) |-> rows[i][f]]

Init == /\ pc = "sample" /\ n = 0 /\ pending = <<>> /\ rawHist = <<>> /\ table = <<>>
        /\ blockE = <<0, 1>> /\ beHist = <<>> /\ eEst = <<0, 1>> /\ rawFile = NoFile /\ dumps = {}
        /\ largeLocal = [r \in Ranks |-> 0] /\ largeTotal = -1
        /\ cleanRows = <<>> /\ cleanMask = <<>> /\ rdmKept = {} /\ result = <<>>

SampleWith(xs) ==
  /\ pc = "sample" /\ n < NBlk
  /\ pending' = [r \in Ranks |-> RowOf(xs[r], n + 1, r)]
  /\ rawHist' = Append(rawHist, xs)
  /\ largeLocal' = [r \in Ranks |-> largeLocal[r] + IF Deviates(xs[r]) THEN 1 ELSE 0]
  /\ pc' = "gather"
  /\ UNCHANGED <<n, table, blockE, beHist, eEst, rawFile, dumps, largeTotal, cleanRows, cleanMask, rdmKept, result>>
Sample == \E xs \in [Ranks -> RawOutcomes] : SampleWith(xs)

RankOrder == IF Mutation = "reversed_rank_order" THEN [r \in Ranks |-> pending[NRanks + 1 - r]] ELSE pending
GatherWith(be) ==      \* be: the block energy rank 0 computes from what it gathered and broadcasts
  /\ pc = "gather"
  /\ table' = table \o [r \in Ranks |-> RankOrder[r]]
  /\ blockE' = be /\ beHist' = Append(beHist, be)
  /\ pc' = "update"
  /\ UNCHANGED <<n, pending, rawHist, eEst, rawFile, dumps, largeLocal, largeTotal, cleanRows, cleanMask, rdmKept, result>>
Gather == GatherWith(WMean(Col(pending, "w"), Col(pending, "e")))

UpdateWith(est) ==
  /\ pc = "update"
  /\ eEst' = est
  /\ pc' = IF IsDumpBlock(n) THEN "dump" ELSE "sample"
  /\ n' = IF IsDumpBlock(n) THEN n ELSE n + 1
  /\ UNCHANGED <<pending, rawHist, table, blockE, beHist, rawFile, dumps, largeLocal, largeTotal, cleanRows, cleanMask, rdmKept, result>>
\* (followed exactly only for short runs: the denominators 10^k leave TLC's 32-bit integers)
Update == UpdateWith(IF NBlk <= 6 THEN RAdd(RMul(<<9, 10>>, eEst), RMul(<<1, 10>>, blockE)) ELSE <<0, 1>>)

Dump ==
  /\ pc = "dump"
  /\ rawFile' = IF Mutation = "dump_one_block_short" THEN SubSeq(table, 1, n * NRanks) ELSE SubSeq(table, 1, (n + 1) * NRanks)
  /\ dumps' = dumps \cup {n}
  /\ n' = n + 1 /\ pc' = "sample"
  /\ UNCHANGED <<pending, rawHist, table, blockE, beHist, eEst, largeLocal, largeTotal, cleanRows, cleanMask, rdmKept, result>>

Reduce ==
  /\ pc = "sample" /\ n = NBlk
  /\ largeTotal' = ISum(LAMBDA r : largeLocal[r], Ranks)
  /\ pc' = "postraw"
  /\ UNCHANGED <<n, pending, rawHist, table, blockE, beHist, eEst, rawFile, dumps, largeLocal, cleanRows, cleanMask, rdmKept, result>>

PostRaw ==
  /\ pc = "postraw"
  /\ rawFile' = table
  /\ pc' = "clean"
  /\ UNCHANGED <<n, pending, rawHist, table, blockE, beHist, eEst, dumps, largeLocal, largeTotal, cleanRows, cleanMask, rdmKept, result>>

\* reject_outliers: rows strictly inside m MAD are kept, rows strictly outside dropped; a row exactly on the
\* edge d = m MAD > 0 is decided by the routine's 1e-10 regulariser and round-off - either outcome is a behaviour;
\* a row AT the median (d = 0) is always kept, also when MAD = 0 (0 / 1e-10 < m)
Refine(cls, col) == [i \in 1..Len(cls) |-> IF cls[i] = "edge" /\ Devs(col)[i] = <<0, 1>> THEN "in" ELSE cls[i]]
MaskChoices(cls) == {[i \in 1..Len(cls) |-> cls[i] = "in" \/ i \in S] : S \in SUBSET {i \in 1..Len(cls) : cls[i] = "edge"}}
Keep(rows, mk) == LET idx == SetToSortSeq({i \in 1..Len(rows) : mk[i]}, <) IN [k \in 1..Len(idx) |-> rows[idx[k]]]

CleanWith(mk) ==
  /\ pc = "clean"
  /\ cleanMask' = mk
  /\ cleanRows' = Keep(table, mk)
  /\ pc' = "energy"
  /\ UNCHANGED <<n, pending, rawHist, table, blockE, beHist, eEst, rawFile, dumps, largeLocal, largeTotal, rdmKept, result>>
CleanCol == IF Mutation = "always_energy_column" THEN "e" ELSE OutCol
Clean == \E mk \in MaskChoices(Refine(RowClass(Col(table, CleanCol), M10), Col(table, CleanCol))) : CleanWith(mk)

ErrOrZero(e2) == IF e2 = None THEN <<0, 1>> ELSE e2        \* the driver returns 0.0 where the analysis has no error bar
EnergySrc == IF Mutation = "report_unfiltered" THEN table ELSE cleanRows
EnergyWith(res) ==
  /\ pc = "energy"
  /\ result' = res
  /\ pc' = IF HasObs THEN "obs" ELSE "done"
  /\ UNCHANGED <<n, pending, rawHist, table, blockE, beHist, eEst, rawFile, dumps, largeLocal, largeTotal, cleanRows, cleanMask, rdmKept>>
Energy == EnergyWith([e |-> BlockingMean(Col(EnergySrc, "w"), Col(EnergySrc, "e"), 0),
                      err2 |-> ErrOrZero(BlockingErr2(Col(EnergySrc, "w"), Col(EnergySrc, "e"), 0))])

ObsWith(o) ==
  /\ pc = "obs"
  /\ result' = result @@ [obs |-> o]
  /\ pc' = IF HasRdm THEN "rdm" ELSE "done"
  /\ UNCHANGED <<n, pending, rawHist, table, blockE, beHist, eEst, rawFile, dumps, largeLocal, largeTotal, cleanRows, cleanMask, rdmKept>>
Obs == ObsWith(BlockingMean(Col(cleanRows, "w"), Col(cleanRows, "o"), 0))

RdmWith(mk) ==
  /\ pc = "rdm"
  /\ rdmKept' = {cleanRows[i].id : i \in {j \in 1..Len(cleanRows) : mk[j]}}
  /\ pc' = "done"
  /\ UNCHANGED <<n, pending, rawHist, table, blockE, beHist, eEst, rawFile, dumps, largeLocal, largeTotal, cleanRows, cleanMask, result>>
Rdm == \E mk \in MaskChoices(Refine(RowClass(Col(cleanRows, "nrm"), M10), Col(cleanRows, "nrm"))) : RdmWith(mk)

Finished == pc = "done" /\ UNCHANGED vars
Next == Sample \/ Gather \/ Update \/ Dump \/ Reduce \/ PostRaw \/ Clean \/ Energy \/ Obs \/ Rdm \/ Finished
Spec == Init /\ [][Next]_vars /\ WF_vars(Next)

-----------------------------------------------------------------------------
(* Properties - formulated on the state, not on the actions                 *)

\* rows are only ever appended (until the clean-up replaces the table at the very end)
AppendOnly == [][IsPrefix(table, table')]_vars

\* row (b-1) R + r of the table is what rank r obtained in block b - never another rank's, never another block's -
\* with the substitution rule applied: a non-finite sample never reaches the table, the trial's value stands in
RankOrdered == \A i \in 1..Len(table) :
                  LET b == ((i - 1) \div NRanks) + 1
                      r == ((i - 1) % NRanks) + 1
                      x == rawHist[b][r]
                  IN  /\ table[i].id = <<b, r>> /\ table[i].w = x.w /\ table[i].e = x.e
                      /\ AdMode \in {"forward", "reverse"} => table[i].o = (IF x.o = NaN THEN TrialObs ELSE x.o)
                      /\ AdMode = "none" => table[i].o = NoObsVal
NoNaNReported == \A i \in 1..Len(table) : table[i].o # NaN /\ table[i].nrm # NaN
TwoRdmObservableIsTrial == AdMode = "2rdm" => \A i \in 1..Len(table) : table[i].o = TrialObs

\* samples_raw.dat always holds whole blocks, is a prefix of the table, and at the end is the whole table
RawIsWholeBlocks == rawFile # NoFile => IsPrefix(rawFile, table) /\ Len(rawFile) % NRanks = 0
RawComplete == pc \in {"clean", "energy", "obs", "rdm", "done"} => rawFile = table /\ Len(table) = NRanks * NBlk
\* the file on disk is never more than DumpEvery blocks behind the table
RawFresh == (rawFile # NoFile /\ pc = "sample") => Len(table) - Len(rawFile) < DumpEvery * NRanks
\* a dump after block k (0-based) exactly when k is a multiple of max(NBlk div 10, 1)
DumpSchedule == dumps = {k \in 0..(n - 1) : k % DumpEvery = 0}

\* kept rows: an order-preserving selection of the table that contains every row strictly inside and none strictly
\* outside 10 MAD of the median of the column the mode prescribes
CleanIsSelection ==
  pc \in {"energy", "obs", "rdm", "done"} =>
    LET col == Col(table, OutCol)
        cls == OutlierRule(col, M10)
        med == SortedMedian([i \in 1..Len(col) |-> R(col[i])]) IN
      /\ Len(cleanMask) = Len(table)
      /\ \A i \in 1..Len(table) : /\ ((cls[i] = "in" \/ R(col[i]) = med) => cleanMask[i])
                                   /\ (cls[i] = "out" => ~cleanMask[i])
      /\ cleanRows = Keep(table, cleanMask)

\* the reported energy is the weighted mean of the kept rows; no error bar is reported as 0
ReportedMean ==
  pc \in {"obs", "rdm", "done"} =>
    /\ result.e = WMean(Col(cleanRows, "w"), Col(cleanRows, "e"))
    /\ result.err2 # None
\* every substitution is counted, on whichever rank it happened
LargeDeviationsCounted ==
  largeTotal # -1 => largeTotal = Cardinality({br \in (1..Len(rawHist)) \X Ranks : Deviates(rawHist[br[1]][br[2]])})
RdmFromKeptRowsOnly == pc = "done" /\ HasRdm => rdmKept \subseteq {cleanRows[i].id : i \in 1..Len(cleanRows)}
\* the running estimate: e_k = 0.9 e_(k-1) + 0.1 (weight-average of block k's energies over the ranks), e_0 = 0 here
RECURSIVE EstAfter(_)
EstAfter(k) == IF k = 0 THEN <<0, 1>>
               ELSE LET xs == rawHist[k] IN
                    RAdd(RMul(<<9, 10>>, EstAfter(k - 1)),
                         RMul(<<1, 10>>, RNorm(ISum(LAMBDA r : xs[r].w * xs[r].e, Ranks), ISum(LAMBDA r : xs[r].w, Ranks))))
EstimateTracksBlocks == pc = "sample" => eEst = EstAfter(n)
Terminates == <>(pc = "done")
=============================================================================
