-------------------------------- MODULE CPMC --------------------------------
(***************************************************************************)
(* C10 - one constrained-path Monte Carlo step samples the discrete        *)
(* Hubbard-Stratonovich propagator without bias.                           *)
(* Code under test: ad_afqmc/propagation.py  propagator_cpmc(_slow)        *)
(*                  ad_afqmc/wavefunctions.py uhf_cpmc, ghf_cpmc           *)
(* Derivation being checked: notes/cpmc.ipynb.                             *)
(*                                                                         *)
(* EVERYTHING HERE IS EXACT.  Numbers are rationals <<num, den>> (den > 0, *)
(* gcd-reduced, hence canonical: equality of values is equality of pairs). *)
(* TLC integers are 32 bit; every product/sum is guarded (MulFits/AddFits) *)
(* and an operation that would not fit returns the sentinel NaR = <<0,0>>, *)
(* which propagates.  A state or result that contains NaR is flagged `ovf` *)
(* and the harness drops (and counts) that instance: TLC never overflows   *)
(* and no theorem is ever "proved" on a wrapped number.                    *)
(* What 32 bits reach: weights are products of n+2 unrelated ratios of     *)
(* determinants, so they are the first thing to overflow.  n <= 3: any     *)
(* small integer data.  n = 4 with <= 3 electrons: fine.  n = 4 with four  *)
(* electrons: only with determinant-1 half-step matrices with eigenvalues  *)
(* near 1, trial entries in -1..1, HS pair (3/2, 1/2) and initial weight 1 *)
(* (the generator scouts candidates with Python Fractions; TLC has the     *)
(* last word through `ovf`).  Even n = 2 with entries +-2 can overflow     *)
(* (weight 1554359985/21106928), hence NoOverflow is claimed only for the  *)
(* small design set.                                                       *)
(*                                                                         *)
(* The module has four layers:                                             *)
(*  1. rationals and small dense linear algebra;                           *)
(*  2. THE TRIAL-SIDE FORMULAS of the notes: overlap = det(C^T W), Green's *)
(*     function from scratch, overlap ratio as a determinant quotient and  *)
(*     by Wick's theorem, Green's function of the updated walker from      *)
(*     scratch and by the O(N^2) rank-2 update;                            *)
(*  3. THE STEP MODEL: what propagator_cpmc.propagate does to one walker   *)
(*     (half step M, n site updates with a field x in {0,1} each, half     *)
(*     step M, energy-shift factor, weight cap), as pure operators         *)
(*     (HalfStep, SiteStep, Final) and as a state machine whose Site       *)
(*     action picks x nondeterministically;                                *)
(*  4. PROPERTY-LEVEL PREDICATES, kept apart from the model:               *)
(*       InvOverlap  tracked overlap (ratio products) = determinant        *)
(*       InvGreen    rank-2-updated Green's function = from scratch        *)
(*       InvRatio    Wick ratio = determinant quotient (both fields)       *)
(*       InvTrace    tr G = N                                              *)
(*       InvPair     the same two theorems for EVERY ordered pair of       *)
(*                   spin-orbitals and every listed pair of constants      *)
(*       InvSum      the unbiasedness theorem (LeafSum = Rhs), the HS      *)
(*                   identity on the four occupations, Cauchy-Binet        *)
(*     TLC checks them on every reachable state.  A violation means the    *)
(*     REFERENCE MODEL (or the notes) is wrong - the harness treats it as  *)
(*     a machinery failure, never as a finding about the code.             *)
(*                                                                         *)
(* Binding to the code (harness/props/c10.py): every state TLC reaches is  *)
(* written out (Emit) and replayed into the library: Load -> calc_full_-   *)
(* green / calc_green_diagonal; Pair -> calc_overlap_ratio / update_-      *)
(* greens_function for that ordered pair; each Leaf -> prop.propagate      *)
(* driven down exactly that field path; Sum -> the right-hand side that    *)
(* the code's own leaves must add up to.                                   *)
(*                                                                         *)
(* TLC evaluation notes (they matter by orders of magnitude here):         *)
(*  - [x \in S |-> e] is lazy and re-evaluates e at every application:     *)
(*    every matrix is built with TLCEval on BOTH levels (rows too);        *)
(*  - a LET at the conjunct level of an action is re-evaluated at every    *)
(*    use: actions bind their result with  \E s \in {expr} : ...  instead;  *)
(*  - a cfg substitution  Insts <- Def  is re-evaluated at every use: the  *)
(*    instance list is the constant-level definition Insts below;          *)
(*  - do not run this module with -coverage (it switches TLC's caching of  *)
(*    lazy values off; a 20 s run becomes hours).                          *)
(*                                                                         *)
(* Conventions (as in the code): sites 1..n; spin-orbital P in 1..2n is    *)
(* (up, P) for P <= n and (down, P-n) otherwise; the walker is the pair    *)
(* (wu, wd) of n x nu and n x nd matrices, Wg its 2n x N block-diagonal    *)
(* form; the trial is ANY 2n x N matrix C (GHF); a UHF trial is the block- *)
(* diagonal special case.  G[P][Q] = <T|c+_P c_Q|W>/<T|W>                  *)
(*                                 = (Wg (C^T Wg)^-1 C^T)[Q][P].           *)
(***************************************************************************)
EXTENDS Cplx, Json, IOUtils

CONSTANTS Design,    \* TRUE: the built-in exhaustive design instances; FALSE: instances from IOEnv.CPMC_INST
          DesignBig, \* design walker entries in -2..2 (7600 instances) instead of -1..1 (800 instances)
          Emit       \* TRUE: write every reached state to IOEnv.CPMC_OUT

(***************************************************************************)
(* 1. Rationals with overflow sentinel                                     *)
(***************************************************************************)
LIM  == 2147483647
NaR  == <<0, 0>>
ZERO == <<0, 1>>
ONE  == <<1, 1>>
RI(k) == <<k, 1>>
Abs(x) == IF x < 0 THEN -x ELSE x
RECURSIVE Gcd(_, _)
Gcd(a, b) == IF b = 0 THEN a ELSE Gcd(b, a % b)
IsNaR(r) == r[2] = 0
MulFits(a, b) == a = 0 \/ b = 0 \/ Abs(a) <= LIM \div Abs(b)
AddFits(a, b) == Abs(a) <= LIM - Abs(b)
Norm(n, d) == LET g == Gcd(Abs(n), d) IN <<n \div g, d \div g>>        \* d > 0

RNeg(a) == IF IsNaR(a) THEN NaR ELSE <<-a[1], a[2]>>
RMul(a, b) ==
  IF IsNaR(a) \/ IsNaR(b) THEN NaR
  ELSE IF a[1] = 0 \/ b[1] = 0 THEN ZERO
  ELSE IF a[2] = 1 /\ b[2] = 1                          \* integers: no gcd needed
       THEN IF MulFits(a[1], b[1]) THEN <<a[1] * b[1], 1>> ELSE NaR
  ELSE LET g1 == Gcd(Abs(a[1]), b[2])
           g2 == Gcd(Abs(b[1]), a[2])
           n1 == a[1] \div g1
           n2 == b[1] \div g2
           d1 == a[2] \div g2
           d2 == b[2] \div g1
       IN  IF MulFits(n1, n2) /\ MulFits(d1, d2) THEN <<n1 * n2, d1 * d2>> ELSE NaR
RAdd(a, b) ==
  IF IsNaR(a) \/ IsNaR(b) THEN NaR
  ELSE IF a[1] = 0 THEN b
  ELSE IF b[1] = 0 THEN a
  ELSE IF a[2] = b[2]                                   \* same denominator (in particular integers)
       THEN IF AddFits(a[1], b[1])
            THEN (IF a[2] = 1 THEN <<a[1] + b[1], 1>> ELSE Norm(a[1] + b[1], a[2]))
            ELSE NaR
  ELSE LET g  == Gcd(a[2], b[2])
           da == a[2] \div g
           db == b[2] \div g
       IN  IF MulFits(a[1], db) /\ MulFits(b[1], da) /\ MulFits(da, b[2])
           THEN LET x == a[1] * db
                    y == b[1] * da
                IN  IF AddFits(x, y) THEN Norm(x + y, da * b[2]) ELSE NaR
           ELSE NaR
RSub(a, b) == RAdd(a, RNeg(b))
RRecip(a) == IF IsNaR(a) \/ a[1] = 0 THEN NaR
             ELSE IF a[1] > 0 THEN <<a[2], a[1]>> ELSE <<-a[2], -a[1]>>
RDiv(a, b) == RMul(a, RRecip(b))
RPos(a)    == a[2] # 0 /\ a[1] > 0
RIsZero(a) == a[2] # 0 /\ a[1] = 0
RSum(f(_), S) == FoldSet(LAMBDA x, acc : RAdd(f(x), acc), ZERO, S)
RECURSIVE RPow(_, _)
RPow(a, k) == IF k = 0 THEN ONE ELSE RMul(a, RPow(a, k - 1))
\* 0 < a < 10^-6: too close to the code's 1e-8 threshold to be modelled by "a <= 0"
Tiny(a) == RPos(a) /\ a[2] \div a[1] >= 1000000

Idx(k) == TLCEval([i \in 1..k |-> i])
MatHasNaR(A) == \E i \in DOMAIN A : \E j \in DOMAIN A[i] : IsNaR(A[i][j])
RMatMul(A, B) ==
  TLCEval([i \in DOMAIN A |-> TLCEval([j \in DOMAIN B[1] |->
             RSum(LAMBDA k : RMul(A[i][k], B[k][j]), DOMAIN B)])])

\* determinant of the k x k minor rows[1..k] x cols[1..k] (Laplace along the last column)
RECURSIVE RDetRC(_, _, _, _)
RDetRC(M, rows, cols, k) ==
  IF k = 0 THEN ONE
  ELSE RSum(LAMBDA i :
              IF RIsZero(M[rows[i]][cols[k]]) THEN ZERO
              ELSE LET t == RMul(M[rows[i]][cols[k]], RDetRC(M, RemoveAt(rows, i), cols, k - 1))
                   IN  IF Par(i + k) = 1 THEN t ELSE RNeg(t),
            1..k)
RDet(M, k) == RDetRC(M, Idx(k), Idx(k), k)
\* inverse of a k x k matrix by the adjugate; d = its determinant (non-zero)
RInv(M, k, d) ==
  TLCEval([a \in 1..k |-> TLCEval([b \in 1..k |->
     LET c == RDetRC(M, RemoveAt(Idx(k), b), RemoveAt(Idx(k), a), k - 1)
     IN  RDiv(IF Par(a + b) = 1 THEN c ELSE RNeg(c), d)])])

(***************************************************************************)
(* 2. Trial-side formulas (notes/cpmc.ipynb)                               *)
(***************************************************************************)
NEl(I) == I.nu + I.nd
M2(I)  == 2 * I.n
\* block-diagonal 2n x N form of the walker
Wg(I, wu, wd) ==
  TLCEval([P \in 1..M2(I) |-> TLCEval([a \in 1..NEl(I) |->
     IF P <= I.n /\ a <= I.nu THEN wu[P][a]
     ELSE IF P > I.n /\ a > I.nu THEN wd[P - I.n][a - I.nu]
     ELSE ZERO])])
\* overlap matrix C^T Wg and overlap
OMat(I, wg) ==
  TLCEval([b \in 1..NEl(I) |-> TLCEval([a \in 1..NEl(I) |->
     RSum(LAMBDA P : RMul(I.c[P][b], wg[P][a]), 1..M2(I))])])
Ov(I, wu, wd) == RDet(OMat(I, Wg(I, wu, wd)), NEl(I))

\* Green's function from scratch; requires a non-zero overlap ov
GreenScratch(I, wu, wd, ov) ==
  LET wg  == Wg(I, wu, wd)
      inv == RInv(OMat(I, wg), NEl(I), ov)
      x   == RMatMul(wg, inv)                              \* 2n x N
  IN  TLCEval([P \in 1..M2(I) |-> TLCEval([Q \in 1..M2(I) |->
         RSum(LAMBDA b : RMul(x[Q][b], I.c[P][b]), 1..NEl(I))])])

\* multiply row P of the generalised walker by f (P addresses (up,P) or (down,P-n))
ScaleRow(I, wu, wd, P, f) ==
  IF P <= I.n
  THEN <<[wu EXCEPT ![P] = TLCEval([a \in DOMAIN wu[P] |-> RMul(f, wu[P][a])])], wd>>
  ELSE <<wu, [wd EXCEPT ![P - I.n] = TLCEval([a \in DOMAIN wd[P - I.n] |-> RMul(f, wd[P - I.n][a])])]>>
\* B = Diag({P, 1+cP}, {Q, 1+cQ}) applied to the walker
ApplyB(I, wu, wd, P, Q, cP, cQ) ==
  LET s1 == ScaleRow(I, wu, wd, P, RAdd(ONE, cP))
  IN  ScaleRow(I, s1[1], s1[2], Q, RAdd(ONE, cQ))

\* overlap ratio <T|B|W>/<T|W>: definition (determinant quotient) ...
RatioDet(I, wu, wd, ov, P, Q, cP, cQ) ==
  LET s == ApplyB(I, wu, wd, P, Q, cP, cQ) IN RDiv(Ov(I, s[1], s[2]), ov)
\* ... and by Wick's theorem from the Green's function (what the code evaluates)
RatioWick(g, P, Q, cP, cQ) ==
  RSub(RMul(RAdd(ONE, RMul(cP, g[P][P])), RAdd(ONE, RMul(cQ, g[Q][Q]))),
       RMul(RMul(cP, cQ), RMul(g[P][Q], g[Q][P])))

\* O(N^2) update of the Green's function (last formula of the notes), r = the overlap ratio # 0
GreenUpdate(g, r, P, Q, cP, cQ, m) ==
  LET sgP == TLCEval([b \in 1..m |-> IF b = P THEN RSub(g[P][b], ONE) ELSE g[P][b]])
      sgQ == TLCEval([b \in 1..m |-> IF b = Q THEN RSub(g[Q][b], ONE) ELSE g[Q][b]])
      aP  == RDiv(cP, r)
      aQ  == RDiv(cQ, r)
      vP  == TLCEval([b \in 1..m |->
                RSub(RMul(cQ, RSub(RMul(g[P][Q], sgQ[b]), RMul(g[Q][Q], sgP[b]))), sgP[b])])
      vQ  == TLCEval([b \in 1..m |->
                RSub(RMul(cP, RSub(RMul(g[Q][P], sgP[b]), RMul(g[P][P], sgQ[b]))), sgQ[b])])
  IN  TLCEval([a \in 1..m |-> TLCEval([b \in 1..m |->
         RAdd(g[a][b], RAdd(RMul(aP, RMul(g[a][P], vP[b])), RMul(aQ, RMul(g[a][Q], vQ[b]))))])])

Trace(g, m) == RSum(LAMBDA P : g[P][P], 1..m)

(***************************************************************************)
(* 3. The step model (propagator_cpmc.propagate, one walker)               *)
(*                                                                         *)
(* HS constants: hs = <<p, q>>, hs_constant = [[p, q], [q, p]]; field x    *)
(* multiplies row (up, site) by hs_constant[x][0] and row (down, site) by  *)
(* hs_constant[x][1].  With p + q = 2 one has p q = e^{-dt U}.             *)
(* A walker state is a record [wu, wd, wt, ov, gr, free, amb, alive, p0]:  *)
(*   wt weight, ov tracked overlap, gr tracked Green's function,           *)
(*   free   no constraint has been active so far (every candidate ratio    *)
(*          and every half-step overlap ratio positive, weight cap not hit)*)
(*   amb    a quantity came within 10^-6 of a threshold of the code (the   *)
(*          model's "<= 0" rule may not describe the float code)           *)
(*   alive  FALSE: both fields rejected (or overlap zero): the path ends   *)
(*   p0     probability of field 0 at the last site update                 *)
(***************************************************************************)
HSC(I, x) == IF x = 0 THEN <<I.hs[1], I.hs[2]>> ELSE <<I.hs[2], I.hs[1]>>
Clamp(r)  == IF IsNaR(r) THEN NaR ELSE IF RPos(r) THEN r ELSE ZERO     \* max(0, r); overflow stays overflow

Start(I) ==
  LET o == Ov(I, I.wu, I.wd)
  IN  [wu |-> I.wu, wd |-> I.wd, wt |-> I.w0, ov |-> o,
       gr |-> IF RIsZero(o) \/ IsNaR(o) THEN <<>> ELSE GreenScratch(I, I.wu, I.wd, o),
       free |-> TRUE, amb |-> FALSE, alive |-> ~RIsZero(o), p0 |-> ZERO]

\* exp_h1 applied to both spin blocks, weight *= new overlap / old overlap, weights below 1e-8 -> 0,
\* Green's function recomputed from scratch
HalfStep(I, s) ==
  LET wu2 == RMatMul(I.mu, s.wu)
      wd2 == RMatMul(I.md, s.wd)
      o2  == Ov(I, wu2, wd2)
      rat == RDiv(o2, s.ov)
      wr  == RMul(s.wt, rat)
  IN  [wu |-> wu2, wd |-> wd2, wt |-> Clamp(wr), ov |-> o2,
       gr |-> IF RIsZero(o2) \/ IsNaR(o2) THEN <<>> ELSE GreenScratch(I, wu2, wd2, o2),
       free |-> s.free /\ RPos(rat), amb |-> s.amb \/ Tiny(wr),
       alive |-> s.alive /\ ~RIsZero(o2), p0 |-> s.p0]

\* candidate ratios of the two fields at site k (Wick, from the tracked Green's function)
SiteRatios(I, g, k) ==
  TLCEval([f \in 1..2 |-> RatioWick(g, k, I.n + k, RSub(HSC(I, f - 1)[1], ONE), RSub(HSC(I, f - 1)[2], ONE))])

\* the update of site k with field x
SiteStep(I, s, k, x) ==
  LET r    == SiteRatios(I, s.gr, k)
      rc   == TLCEval([f \in 1..2 |-> Clamp(r[f])])
      tot  == RAdd(rc[1], rc[2])
      c    == HSC(I, x)
      rx   == rc[x + 1]
      w2   == ApplyB(I, s.wu, s.wd, k, I.n + k, RSub(c[1], ONE), RSub(c[2], ONE))
      nar  == IsNaR(r[1]) \/ IsNaR(r[2])   \* overflow: the successor carries NaR (wt, ov, p0) and ends the path
      ok   == RPos(rx)                    \* field x has non-zero probability
  IN  [wu |-> w2[1], wd |-> w2[2],
       wt |-> RMul(s.wt, RDiv(tot, RI(2))),
       ov |-> RMul(rx, s.ov),
       gr |-> IF ok THEN GreenUpdate(s.gr, rx, k, I.n + k, RSub(c[1], ONE), RSub(c[2], ONE), M2(I)) ELSE <<>>,
       free |-> s.free /\ RPos(r[1]) /\ RPos(r[2]),
       amb |-> s.amb \/ Tiny(r[1]) \/ Tiny(r[2]),
       alive |-> s.alive /\ (ok \/ nar),
       p0 |-> IF nar THEN NaR ELSE IF RPos(tot) THEN RDiv(rc[1], tot) ELSE ZERO]
\* both fields rejected at site k: the code's norm is 0 (weight 0, probabilities 0/0)
BothRejected(I, s, k) ==
  LET r == SiteRatios(I, s.gr, k) IN ~IsNaR(r[1]) /\ ~IsNaR(r[2]) /\ ~RPos(r[1]) /\ ~RPos(r[2])

\* energy-shift factor e^{dt E_shift} (the harness sets E_shift = 0: factor 1), cap at 100
Final(I, s) ==
  LET capped == RPos(RSub(s.wt, RI(100)))
  IN  [s EXCEPT !.wt = IF capped THEN ZERO ELSE s.wt,
                !.free = s.free /\ ~capped,
                !.amb = s.amb \/ s.wt = RI(100)]

StateHasNaR(s) ==
  \/ IsNaR(s.wt) \/ IsNaR(s.ov) \/ IsNaR(s.p0)
  \/ MatHasNaR(s.wu) \/ MatHasNaR(s.wd)
  \/ (s.gr # <<>> /\ MatHasNaR(s.gr))

(***************************************************************************)
(* Many-body vectors in the (nu, nd) sector.  A configuration is a pair    *)
(* <<A, B>> of sorted sequences of occupied up / down sites; CfgSeq lists  *)
(* them; a vector is a sequence of rationals aligned with CfgSeq.  |W> has *)
(* component det wu[A,:] * det wd[B,:]  (alpha string x beta string, as    *)
(* Fock!SDVec).                                                            *)
(***************************************************************************)
CfgSeq(I) == LET ua == SetToSeq(kSubset(I.nu, 1..I.n))
                 da == SetToSeq(kSubset(I.nd, 1..I.n))
             IN  TLCEval([t \in 1..(Len(ua) * Len(da)) |->
                    <<Sorted(ua[((t - 1) \div Len(da)) + 1]), Sorted(da[((t - 1) % Len(da)) + 1])>>])
SDVecR(I, wu, wd) ==
  LET cs == CfgSeq(I)
  IN  TLCEval([t \in DOMAIN cs |-> RMul(RDetRC(wu, cs[t][1], Idx(I.nu), I.nu),
                                        RDetRC(wd, cs[t][2], Idx(I.nd), I.nd))])
VZero(I)       == TLCEval([t \in DOMAIN CfgSeq(I) |-> ZERO])
VAddR(u, v)    == TLCEval([t \in DOMAIN u |-> RAdd(u[t], v[t])])
VScaleR(k, v)  == TLCEval([t \in DOMAIN v |-> RMul(k, v[t])])
VHasNaR(v)     == \E t \in DOMAIN v : IsNaR(v[t])
\* second-quantised one-body transformation: the orbital transformation (mu, md) lifted to the
\* sector (compound matrices); for mu = md = expm(-dt K/2) this is exp(-dt K^/2)
MHat(I, v) ==
  LET cs == CfgSeq(I)
  IN  TLCEval([t \in DOMAIN cs |->
        RSum(LAMBDA d :
           IF RIsZero(v[d]) THEN ZERO ELSE
           RMul(RMul(RDetRC(I.mu, cs[t][1], cs[d][1], I.nu),
                     RDetRC(I.md, cs[t][2], cs[d][2], I.nd)), v[d]), DOMAIN cs)])
\* prod_i exp(-dt U n_i_up n_i_dn) with e^{-dt U} = p q: diagonal, (p q)^(number of doubly occupied sites)
EDtU(I) == RMul(I.hs[1], I.hs[2])
DHat(I, v) ==
  LET cs == CfgSeq(I)
  IN  TLCEval([t \in DOMAIN cs |->
        RMul(RPow(EDtU(I), Cardinality(Range1(cs[t][1]) \cap Range1(cs[t][2]))), v[t])])

\* right-hand side of the property: M^ prod_i(1/2(B_i^0+B_i^1)) M^ |W>/o  (times the initial weight)
Rhs(I) ==
  LET s == Start(I)
  IN  VScaleR(RDiv(I.w0, s.ov), MHat(I, DHat(I, MHat(I, SDVecR(I, I.wu, I.wd)))))

\* left-hand side: sum over all field paths of  P(path) * weight * |W_leaf> / overlap_leaf,
\* computed exactly as the algorithm produces each factor (nothing is telescoped by hand).  ps is the
\* sequence of the probabilities of the branches taken so far; P(path) = product of ps.  The product is
\* multiplied into weight/overlap one factor at a time (the bare product of four probabilities alone
\* would overflow 32 bits at n = 4 although P * weight / overlap is a small rational).
RECURSIVE TimesAll(_, _, _)
TimesAll(acc, ps, k) == IF k = 0 THEN acc ELSE TimesAll(RMul(acc, ps[k]), ps, k - 1)
RECURSIVE LeafSum(_, _, _, _)
LeafSum(I, s, k, ps) ==
  IF StateHasNaR(s) THEN [t \in DOMAIN CfgSeq(I) |-> NaR]
  ELSE IF k > I.n
  THEN LET t == Final(I, HalfStep(I, s))
       IN  IF RIsZero(t.ov) \/ RIsZero(t.wt) THEN VZero(I)
           ELSE VScaleR(TimesAll(RDiv(t.wt, t.ov), ps, Len(ps)), SDVecR(I, t.wu, t.wd))
  ELSE IF BothRejected(I, s, k) THEN VZero(I)
  ELSE LET t0 == SiteStep(I, s, k, 0)
           t1 == SiteStep(I, s, k, 1)
           v0 == IF t0.alive THEN LeafSum(I, t0, k + 1, Append(ps, t0.p0)) ELSE VZero(I)
           v1 == IF t1.alive THEN LeafSum(I, t1, k + 1, Append(ps, RSub(ONE, t1.p0))) ELSE VZero(I)
       IN  VAddR(v0, v1)
\* no constraint active anywhere in the tree of field paths (and nothing ambiguous / overflowed)
RECURSIVE AllFree(_, _, _)
AllFree(I, s, k) ==
  IF ~s.alive \/ ~s.free \/ s.amb \/ StateHasNaR(s) THEN FALSE
  ELSE IF k > I.n THEN LET t == Final(I, HalfStep(I, s)) IN t.alive /\ t.free /\ ~t.amb /\ ~StateHasNaR(t)
  ELSE AllFree(I, SiteStep(I, s, k, 0), k + 1) /\ AllFree(I, SiteStep(I, s, k, 1), k + 1)

\* 1/2 (B^0 + B^1) = exp(-dt U n_up n_dn) on each of the four occupations of a site
HSIdentity(I) ==
  \A a \in 0..1 : \A b \in 0..1 :
     RDiv(RAdd(RMul(RPow(I.hs[1], a), RPow(I.hs[2], b)), RMul(RPow(I.hs[2], a), RPow(I.hs[1], b))), RI(2))
       = RPow(EDtU(I), a * b)
\* |M W> = M^ |W>  (Cauchy-Binet; what "the half step is exp(-dt K^/2)" means for determinants)
CauchyBinet(I) ==
  SDVecR(I, RMatMul(I.mu, I.wu), RMatMul(I.md, I.wd)) = MHat(I, SDVecR(I, I.wu, I.wd))
\* B acts on |W> as the diagonal operator prod p^{n_up} q^{n_dn} of that site (row scaling = operator)
BDiagonal(I) ==
  \A k \in 1..I.n : \A x \in 0..1 :
    LET c  == HSC(I, x)
        w  == ApplyB(I, I.wu, I.wd, k, I.n + k, RSub(c[1], ONE), RSub(c[2], ONE))
        v  == SDVecR(I, I.wu, I.wd)
        cs == CfgSeq(I)
    IN  SDVecR(I, w[1], w[2]) =
          [t \in DOMAIN cs |-> RMul(RMul(IF k \in Range1(cs[t][1]) THEN c[1] ELSE ONE,
                                         IF k \in Range1(cs[t][2]) THEN c[2] ELSE ONE), v[t])]

(***************************************************************************)
(* Lattices: K = -t * adjacency; the harness passes the adjacency matrix   *)
(* the library built and the model says what it has to be.                 *)
(***************************************************************************)
ChainAdj(n) ==
  [i \in 1..n |-> [j \in 1..n |->
     IF i # j /\ (j = (i % n) + 1 \/ i = (j % n) + 1) THEN 1 ELSE 0]]
GridAdj(lx, ly) ==      \* site number (0-based) = row * lx + column, periodic in both directions
  LET row(i) == (i - 1) \div lx
      col(i) == (i - 1) % lx
      nb(i, j) == \/ row(i) = row(j) /\ (col(j) = (col(i) + 1) % lx \/ col(i) = (col(j) + 1) % lx)
                  \/ col(i) = col(j) /\ (row(j) = (row(i) + 1) % ly \/ row(i) = (row(j) + 1) % ly)
  IN  [i \in 1..(lx * ly) |-> [j \in 1..(lx * ly) |-> IF i # j /\ nb(i, j) THEN 1 ELSE 0]]
LatAdj(l) == IF l.kind = "chain" THEN ChainAdj(l.lx) ELSE GridAdj(l.lx, l.ly)
AdjOK(I) == I.lat.kind = "none" \/ I.adj = LatAdj(I.lat)

(***************************************************************************)
(* Instances.  File mode: one JSON record per line,                        *)
(*   id, n, nu, nd, c (2n x N), wu, wd, w0, mu, md, hs = <<p, q>>,         *)
(*   cset = <<<<cP, cQ>>, ...>>, pairs (BOOLEAN), lat = [kind, lx, ly], adj*)
(* all numbers rationals <<num, den>> except adj (0/1).                    *)
(* Design mode: every walker with entries in DVals (n = 2, one electron    *)
(* per spin, non-zero overlap) against two UHF and two GHF trials, two     *)
(* half-step matrices (one symmetric, one not) and two HS pairs: small     *)
(* enough to be exhaustive; overflow-free for DVals = -1..1.               *)
(***************************************************************************)
FileInsts == ndJsonDeserialize(IOEnv.CPMC_INST)

RM(A) == TLCEval([i \in DOMAIN A |-> TLCEval([j \in DOMAIN A[i] |-> RI(A[i][j])])])
DVals   == IF DesignBig THEN {-2, -1, 0, 1, 2} ELSE {-1, 0, 1}
DTrials == { <<<<1, 0>>, <<1, 0>>, <<0, 1>>, <<0, 1>>>>,           \* UHF, uniform density
             <<<<2, 0>>, <<1, 0>>, <<0, 1>>, <<0, -1>>>>,          \* UHF, non-uniform density
             <<<<1, 1>>, <<0, 1>>, <<1, 0>>, <<1, -1>>>>,          \* GHF
             <<<<1, 0>>, <<1, 1>>, <<-1, 2>>, <<0, 1>>>> }         \* GHF
DMats   == { <<<<2, 1>>, <<1, 2>>>>,                               \* 2 I + adjacency of the 2-chain
             <<<<1, 1>>, <<0, 1>>>> }
DHS     == { <<<<3, 2>>, <<1, 2>>>>, <<<<5, 4>>, <<3, 4>>>> }
DCset   == << <<<<1, 2>>, <<-1, 2>>>>, <<<<-1, 2>>, <<1, 2>>>>, <<<<2, 1>>, <<-1, 3>>>>,
              <<<<-1, 1>>, <<1, 2>>>>, <<<<-3, 2>>, <<1, 1>>>> >>
DesignSet ==
  { [id |-> 0, n |-> 2, nu |-> 1, nd |-> 1, c |-> RM(T),
     wu |-> RM(<<<<x1>>, <<x2>>>>), wd |-> RM(<<<<y1>>, <<y2>>>>), w0 |-> ONE,
     mu |-> RM(M), md |-> RM(M), hs |-> h, cset |-> DCset, pairs |-> TRUE,
     lat |-> [kind |-> "chain", lx |-> 2, ly |-> 1], adj |-> ChainAdj(2)] :
       x1 \in DVals, x2 \in DVals, y1 \in DVals, y2 \in DVals, T \in DTrials, M \in DMats, h \in DHS }
DesignInsts == SetToSeq({I \in DesignSet : ~RIsZero(Ov(I, I.wu, I.wd))})
\* a constant-level definition: TLC evaluates it once (a cfg substitution would be re-evaluated at every use)
Insts == IF Design THEN DesignInsts ELSE FileInsts

(***************************************************************************)
(* The state machine.                                                      *)
(*   new --Load--> start --Half1--> sites --Site(x)-->* sites --Half2--> leaf *)
(*                   |                        `--Dead--> dead              *)
(*                   |--Pair(P,Q)--> pair        (every ordered pair)      *)
(*                   `--Sum--> sum               (the unbiasedness theorem)*)
(* Heavy evaluation happens in actions (TLC evaluates those in parallel).  *)
(***************************************************************************)
VARIABLES idx,     \* which instance
          phase,   \* "new" | "start" | "sites" | "leaf" | "dead" | "pair" | "sum"
          site,    \* next site to update (phase "sites")
          path,    \* fields chosen so far
          p0s,     \* probability of field 0 at each site visited
          st,      \* walker state record (see above), <<>> in phase "new"
          aux      \* results of Pair / Sum, <<>> otherwise
vars == <<idx, phase, site, path, p0s, st, aux>>
Inst == Insts[idx]

RECURSIVE PathCode(_)
PathCode(p) == IF Len(p) = 0 THEN 0 ELSE Head(p) + 2 * PathCode(Tail(p))
OutFile(tag) == IOEnv.CPMC_OUT \o "/" \o ToString(Inst.id) \o "_" \o tag \o ".json"
Write(tag, rec) == IF Emit THEN ndJsonSerialize(OutFile(tag), <<rec>>) ELSE TRUE
StRec(s) == [wu |-> s.wu, wd |-> s.wd, wt |-> s.wt, ov |-> s.ov, gr |-> s.gr, free |-> s.free,
             amb |-> s.amb, alive |-> s.alive, ovf |-> StateHasNaR(s)]

Init == /\ idx \in DOMAIN Insts
        /\ phase = "new" /\ site = 0 /\ path = <<>> /\ p0s = <<>> /\ st = <<>> /\ aux = <<>>

Load == /\ phase = "new"
        /\ \E s \in {Start(Inst)} :
           /\ st' = s
           /\ phase' = IF s.alive /\ ~StateHasNaR(s) THEN "start" ELSE "dead"
           /\ Write("init", [id |-> Inst.id] @@ StRec(s))
        /\ UNCHANGED <<idx, site, path, p0s, aux>>

Half1 == /\ phase = "start"
         /\ \E s \in {HalfStep(Inst, st)} :
            /\ st' = s
            /\ phase' = IF s.alive /\ ~StateHasNaR(s) THEN "sites" ELSE "dead"
            /\ Write("half1", [id |-> Inst.id] @@ StRec(s))
         /\ site' = 1
         /\ UNCHANGED <<idx, path, p0s, aux>>

Site(x) == /\ phase = "sites" /\ site <= Inst.n
           /\ ~BothRejected(Inst, st, site)
           /\ \E s \in {SiteStep(Inst, st, site, x)} :
              /\ s.alive                                    \* field x has non-zero probability
              /\ st' = s
              /\ p0s' = Append(p0s, s.p0)
              /\ phase' = IF StateHasNaR(s) THEN "dead" ELSE "sites"
           /\ path' = Append(path, x)
           /\ site' = site + 1
           /\ UNCHANGED <<idx, aux>>

Dead == /\ phase = "sites" /\ site <= Inst.n
        /\ BothRejected(Inst, st, site)
        /\ phase' = "dead"
        /\ Write("dead_" \o ToString(Len(path)) \o "_" \o ToString(PathCode(path)),
                 [id |-> Inst.id, path |-> path, p0s |-> p0s, site |-> site])
        /\ UNCHANGED <<idx, site, path, p0s, st, aux>>

Half2 == /\ phase = "sites" /\ site = Inst.n + 1
         /\ \E s \in {Final(Inst, HalfStep(Inst, st))} :
            /\ st' = s
            /\ phase' = "leaf"
            /\ Write("leaf_" \o ToString(PathCode(path)),
                     [id |-> Inst.id, path |-> path, p0s |-> p0s] @@ StRec(s))
         /\ UNCHANGED <<idx, site, path, p0s, aux>>

\* fast-update theorem data for the ordered pair (P, Q) and every listed pair of constants
PairResult(I, s, P, Q) ==
  TLCEval([k \in DOMAIN I.cset |->
     LET cP == I.cset[k][1]
         cQ == I.cset[k][2]
         rd == RatioDet(I, s.wu, s.wd, s.ov, P, Q, cP, cQ)
         rw == RatioWick(s.gr, P, Q, cP, cQ)
         w2 == ApplyB(I, s.wu, s.wd, P, Q, cP, cQ)
         o2 == RMul(rd, s.ov)
         def == RPos(rd) \/ RPos(RNeg(rd))                  \* ratio non-zero (and not NaR)
     IN  [rd |-> rd, rw |-> rw,
          gs |-> IF def THEN GreenScratch(I, w2[1], w2[2], o2) ELSE <<>>,
          gu |-> IF def THEN GreenUpdate(s.gr, rw, P, Q, cP, cQ, M2(I)) ELSE <<>>]])

Pair(P, Q) == /\ phase = "start" /\ P # Q
              /\ Inst.pairs
              /\ \E r \in {PairResult(Inst, st, P, Q)} :
                 /\ aux' = [P |-> P, Q |-> Q, res |-> r]
                 /\ Write("pair_" \o ToString(P) \o "_" \o ToString(Q),
                          [id |-> Inst.id, P |-> P, Q |-> Q, res |-> r])
              /\ phase' = "pair"
              /\ UNCHANGED <<idx, site, path, p0s, st>>

VecSeq(I, v) == LET cs == CfgSeq(I) IN [t \in DOMAIN cs |-> [a |-> cs[t][1], b |-> cs[t][2], v |-> v[t]]]
SumResult(I, s) ==
  LET h   == HalfStep(I, s)
      ok  == h.alive /\ ~StateHasNaR(h)
      lhs == IF ok THEN LeafSum(I, h, 1, <<>>) ELSE VZero(I)
      rhs == Rhs(I)
  IN  [allfree |-> ok /\ AllFree(I, h, 1), lhs |-> lhs, rhs |-> rhs,
       ovf |-> VHasNaR(lhs) \/ VHasNaR(rhs),
       hs_ok |-> HSIdentity(I), cb_ok |-> CauchyBinet(I), bdiag_ok |-> BDiagonal(I), adj_ok |-> AdjOK(I)]

Sum == /\ phase = "start"
       /\ \E r \in {SumResult(Inst, st)} :
          /\ aux' = r
          /\ Write("sum", [id |-> Inst.id, allfree |-> r.allfree, ovf |-> r.ovf, hs_ok |-> r.hs_ok,
                           cb_ok |-> r.cb_ok, bdiag_ok |-> r.bdiag_ok, adj_ok |-> r.adj_ok,
                           thm |-> r.lhs = r.rhs, lhs |-> VecSeq(Inst, r.lhs), rhs |-> VecSeq(Inst, r.rhs)])
       /\ phase' = "sum"
       /\ UNCHANGED <<idx, site, path, p0s, st>>

Next == \/ Load \/ Half1 \/ Dead \/ Half2 \/ Sum
        \/ \E x \in 0..1 : Site(x)
        \/ \E P \in 1..M2(Inst) : \E Q \in 1..M2(Inst) : Pair(P, Q)
Spec == Init /\ [][Next]_vars

(***************************************************************************)
(* 4. Property-level predicates (theorems about the model; TLC checks them *)
(* on every reachable state).  Each is conditioned on "no overflow", and   *)
(* NoOverflow (used in the design configuration, where all data are tiny)  *)
(* shows that the condition is not what makes them true.                   *)
(***************************************************************************)
Walking == phase \in {"start", "sites", "leaf"} /\ st.alive /\ ~StateHasNaR(st)

\* the overlap tracked through ratio products is the determinant of the current walker
InvOverlap == Walking => st.ov = Ov(Inst, st.wu, st.wd)
\* the Green's function tracked through rank-2 updates is the from-scratch Green's function
InvGreen   == Walking => st.gr = GreenScratch(Inst, st.wu, st.wd, st.ov)
InvTrace   == Walking => Trace(st.gr, M2(Inst)) = RI(NEl(Inst))
\* Wick ratio = determinant quotient, for both candidate fields at the site about to be updated
InvRatio ==
  (phase = "sites" /\ site <= Inst.n /\ st.alive /\ ~StateHasNaR(st)) =>
     \A x \in 0..1 :
        LET c  == HSC(Inst, x)
            rw == SiteRatios(Inst, st.gr, site)[x + 1]
            rd == RatioDet(Inst, st.wu, st.wd, st.ov, site, Inst.n + site, RSub(c[1], ONE), RSub(c[2], ONE))
        IN  IsNaR(rw) \/ IsNaR(rd) \/ rw = rd
\* probabilities are probabilities
InvProb == \A i \in DOMAIN p0s : IsNaR(p0s[i]) \/ (p0s[i][1] >= 0 /\ p0s[i][1] <= p0s[i][2])
\* the same two theorems for an arbitrary ordered pair of spin-orbitals and arbitrary constants
InvPair ==
  phase = "pair" =>
    \A k \in DOMAIN aux.res :
       LET r == aux.res[k] IN
       \/ IsNaR(r.rd) \/ IsNaR(r.rw)
       \/ /\ r.rd = r.rw
          /\ (r.gs = <<>> \/ MatHasNaR(r.gs) \/ MatHasNaR(r.gu) \/ r.gs = r.gu)
\* unbiasedness: if no constraint is active anywhere, the weighted leaves add up to the exact propagator
InvSum ==
  phase = "sum" =>
    /\ aux.hs_ok /\ aux.cb_ok /\ aux.bdiag_ok
    /\ (aux.allfree /\ ~aux.ovf) => aux.lhs = aux.rhs
\* design configuration only: nothing overflowed, so none of the above held vacuously
NoOverflow ==
  /\ (phase # "new" => ~StateHasNaR(st))
  /\ (phase = "pair" => \A k \in DOMAIN aux.res :
         ~IsNaR(aux.res[k].rd) /\ ~IsNaR(aux.res[k].rw) /\
         (aux.res[k].gs # <<>> => ~MatHasNaR(aux.res[k].gs) /\ ~MatHasNaR(aux.res[k].gu)))
  /\ (phase = "sum" => ~aux.ovf)
\* non-vacuity witnesses (expected to be VIOLATED when used as invariants: see c10.py)
NeverFreeSum     == ~(phase = "sum" /\ aux.allfree)
NeverConstrained == ~(phase = "sum" /\ ~aux.allfree)
NeverDead        == phase # "dead"

=============================================================================
