--------------------------- MODULE PipelineLattice ---------------------------
(***************************************************************************)
(* Exact oracle for the lattice slice of C16.                              *)
(*                                                                         *)
(* An instance (one JSON line of the file named by env C16_LATTICE_INST)   *)
(* is a lattice model given to prep_afqmc through the custom-integrals     *)
(* path:  h1 = -t * Adjacency (integer matrix), on-site repulsion U = 4,   *)
(* whose Cholesky vectors are L_i = 2 e_ii (integer matrices), nup/ndn     *)
(* electrons, and a list of trial determinants with integer orbital        *)
(* columns (orthogonal, not normalised).  From the second-quantised        *)
(* Hamiltonian of Fock.tla                                                 *)
(*    H - h0 = sum h1_pq a+_ps a_qs                                        *)
(*             + 1/2 sum_g L^g_pq L^g_rs a+_ps a+_rt a_st a_qs             *)
(* the Eval action computes, exactly,                                      *)
(*    mat  the integer matrix of 2(H - h0) (Fock!TwoHMatrix) restricted to *)
(*         the (nup, ndn) sector, with the configurations it is indexed by *)
(*    dets for each trial determinant D: nrm = <D|D>, e2 = <D|2(H-h0)|D>   *)
(* and the sanity facts: the matrix is real symmetric and the sector is    *)
(* closed under H.  The harness compares e_estimate after the full         *)
(* write/read round trip with h0 + e2/(2 nrm), and the lowest eigenvalue   *)
(* of mat/2 (numpy) with the ground-state energy of the integrals read     *)
(* back by the library.                                                    *)
(***************************************************************************)
EXTENDS Fock, Json, IOUtils

Insts == ndJsonDeserialize(IOEnv.C16_LATTICE_INST)

VARIABLES idx, done
vars == <<idx, done>>

Sector(n, nu, nd) == {S \in Configs(n, nu + nd) : Cardinality({P \in S : P <= n}) = nu}

Result(I) ==
  LET n    == I.norb
      nu   == I.nup
      nd   == I.ndn
      cfgs == SetToSeq(Sector(n, nu, nd))
      dim  == Len(cfgs)
      HM   == TwoHMatrix(n, nu + nd, I.h1, I.h1, I.chol)
      cols == TLCEval([j \in 1..dim |-> HM[cfgs[j]]])
      mat  == TLCEval([i \in 1..dim |-> [j \in 1..dim |-> cols[j][cfgs[i]][1]]])
      real == \A i \in 1..dim, j \in 1..dim : cols[j][cfgs[i]][2] = 0
      sym  == \A i \in 1..dim, j \in 1..dim : mat[i][j] = mat[j][i]
      closed == \A j \in 1..dim : \A S \in Configs(n, nu + nd) \ Sector(n, nu, nd) : cols[j][S] = CZ
      dets == [k \in DOMAIN I.dets |->
                 LET psi == SDVec(n, nu, nd, I.dets[k].tup, I.dets[k].tdn)
                 IN  [nrm |-> Inner(psi, psi),
                      e2  |-> Inner(psi, TwoH(n, I.h1, I.h1, I.chol, psi))]]
  IN  [id |-> I.id, dim |-> dim, cfgs |-> [j \in 1..dim |-> Sorted(cfgs[j])], mat |-> mat,
       sane |-> real /\ sym /\ closed, dets |-> dets]

Init == idx \in DOMAIN Insts /\ done = FALSE

Eval == /\ ~done
        /\ done' = TRUE
        /\ UNCHANGED idx
        /\ ndJsonSerialize(IOEnv.C16_LATTICE_OUT \o "/" \o ToString(Insts[idx].id) \o ".json",
                           <<Result(Insts[idx])>>)

Next == Eval
Spec == Init /\ [][Next]_vars
=============================================================================
