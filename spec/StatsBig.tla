------------------------------ MODULE StatsBig ------------------------------
(***************************************************************************)
(* The quantities of Stats.tla evaluated for series of any length (up to   *)
(* 10^4 samples and beyond) without ever exceeding TLC's 32-bit integers:  *)
(* the sums over samples/blocks are native integers (bounded by the        *)
(* harness's generator and re-checked by TLC's overflow detection), the    *)
(* rational combination of them is done with BigNat.tla.                   *)
(*                                                                         *)
(* Squared blocked error (Stats!Err2), with S_j = SUM_{i in block j} w e,  *)
(* W_j = SUM w, S = SUM S_j, V1 = SUM W_j, V2 = SUM W_j^2:                 *)
(*   SUM_j W_j (E_j - m)^2 = SUM_j S_j^2 / W_j  -  S^2 / V1                *)
(* and, grouping the blocks by the distinct values v of W_j                *)
(* (Q_v = SUM_{j : W_j = v} S_j^2,  P = PROD v):                           *)
(*   SUM_j S_j^2 / W_j = A / P,   A = SUM_v Q_v (P / v)                    *)
(*   error^2 = (A V1 - S^2 P) / (P (V1^2 - V2) (nb - 1)).                  *)
(* StatsTheorems.tla checks BigAgrees: on every small series this equals   *)
(* the literal definition Stats!Err2 (and likewise for the outlier filter  *)
(* and the jackknife).                                                     *)
(*                                                                         *)
(* Big rationals are records [n |-> BigNat, d |-> BigNat] (non-negative,   *)
(* not reduced); signed ones carry s \in {-1, 0, 1}.                       *)
(***************************************************************************)
EXTENDS Stats, BigNat

BR(n, d) == [n |-> n, d |-> d]
BRLess(a, b) == BLess(BMul(a.n, b.d), BMul(b.n, a.d))
BREq(a, b)   == BMul(a.n, b.d) = BMul(b.n, a.d)
BRMax(a, b)  == IF BRLess(a, b) THEN b ELSE a
\* a native reduced rational <<num, den>> (num >= 0) as a big rational
BROfR(r) == BR(BFromInt(r[1]), BFromInt(r[2]))

-----------------------------------------------------------------------------
(* blocking *)
BlockStats(w, e, b) ==
  LET nb == Len(w) \div b
      W  == TLCEval([j \in 1..nb |-> BlockW(w, b, j)])
      S  == TLCEval([j \in 1..nb |-> ISum(LAMBDA i : w[i] * e[i], BlockIdx(b, j))])
      Vs == {W[j] : j \in 1..nb}
  IN  [b  |-> b, nb |-> nb,
       V1 |-> ISum(LAMBDA j : W[j], 1..nb),
       V2 |-> ISum(LAMBDA j : W[j] * W[j], 1..nb),
       S  |-> ISum(LAMBDA j : S[j], 1..nb),
       Vs |-> Vs,
       Q  |-> [v \in Vs |-> ISum(LAMBDA j : IF W[j] = v THEN S[j] * S[j] ELSE 0, 1..nb)]]

BigErr2(st) ==
  LET P  == BProdSet(st.Vs)
      A  == FoldSet(LAMBDA v, acc : BAdd(acc, BMul(BFromInt(st.Q[v]), BDivSmall(P, v))), << >>, st.Vs)
      V1 == BFromInt(st.V1)
      aS == BFromInt(Abs(st.S))
  IN  BR(BSub(BMul(A, V1), BMul(BMul(aS, aS), P)),
         BMulSmall(BMul(P, BSub(BMul(V1, V1), BFromInt(st.V2))), st.nb - 1))

BStats(w, e) == LET bs == BlockSizes(Len(w)) IN [k \in 1..Len(bs) |-> BlockStats(w, e, bs[k])]

\* Plateau rule with a guard band: the comparison error(k) < 1.05 error(k-1) is made by the code in
\* floating point; when the exact squared ratio is within 1e-9 of 1.1025 (or both errors are zero and
\* any rounding noise would decide) the step is a "tie" and both outcomes are acceptable.
BE9   == <<0, 0, 0, 1>>
BE9m1 == <<999, 999, 999>>
BE9p1 == <<1, 0, 0, 1>>
BClass(errs, k) ==
  IF k = 1 THEN "first"
  ELSE LET L  == BMulSmall(BMul(errs[k].n, errs[k - 1].d), 400)
           Rr == BMulSmall(BMul(errs[k - 1].n, errs[k].d), 441)
       IN  IF errs[k].n = << >> /\ errs[k - 1].n = << >> THEN "tie"
           ELSE IF BLess(BMul(L, BE9), BMul(Rr, BE9m1)) THEN "lt"
           ELSE IF BLess(BMul(Rr, BE9p1), BMul(L, BE9)) THEN "ge"
           ELSE "tie"
\* acceptable outcomes: 0 = None, k = max(errs[k], errs[k-1])
RECURSIVE BAcceptFrom(_, _)
BAcceptFrom(cls, k) ==
  IF k > Len(cls) THEN {0}
  ELSE IF cls[k] = "lt" THEN {k}
  ELSE IF cls[k] = "ge" THEN BAcceptFrom(cls, k + 1)
  ELSE {k} \cup BAcceptFrom(cls, k + 1)
BAccept(cls) == BAcceptFrom(cls, 2)
BOutcome(errs, k) == BRMax(errs[k], errs[k - 1])

-----------------------------------------------------------------------------
(* tolerances: rationals over 10^21 *)
BTolDen   == BPow1000(7)
BRel2     == <<0, 0, 0, 250>>           \* 2.5e-10 on a squared error = 1e-10 relative on the error (with margin)
BRel2Prn  == <<0, 0, 0, 0, 0, 4>>       \* 4e-6: errors printed with 7 significant digits
BFloor2(sc2) == BFromInt(10 * sc2)      \* 1e-20 * scale^2 absolute floor on squared errors (exact value 0)
BTolMean  == <<0, 0, 0, 100>>           \* 1e-10
BTolMeanPrn == <<0, 0, 0, 0, 0, 10>>    \* 1e-8: means printed with 9 significant digits

\* code error c = [n, d] (NOT squared) against exact squared error x:  |c^2 - x| <= rel x + floor
BClose2(c, x, rel, floor) ==
  LET cn2 == BMul(c.n, c.n)
      cd2 == BMul(c.d, c.d)
      diff == BAbsDiff(BMul(cn2, x.d), BMul(x.n, cd2))
  IN  BLeq(BMul(diff, BTolDen), BAdd(BMul(rel, BMul(x.n, cd2)), BMul(floor, BMul(cd2, x.d))))

\* code value c = [s, n, d] against exact signed [s, n, d]:  |c - x| <= tol max(1, |x|)
BCloseSigned(c, x, tol) ==
  LET a == BMul(c.n, x.d)
      b == BMul(x.n, c.d)
      diff == IF c.s * x.s < 0 THEN BAdd(a, b) ELSE BAbsDiff(a, b)     \* s = 0 iff n = 0
      M == IF BLess(x.n, x.d) THEN x.d ELSE x.n
  IN  BLeq(BMul(diff, BTolDen), BMul(tol, BMul(c.d, M)))
BSignedOfR(r) == [s |-> IF r[1] > 0 THEN 1 ELSE IF r[1] < 0 THEN -1 ELSE 0,
                  n |-> BFromInt(Abs(r[1])), d |-> BFromInt(r[2])]

-----------------------------------------------------------------------------
(* outlier filter on integers: doubled medians avoid fractions *)
\* (TLC's built-in SortSeq; Stats!KthR is the counting definition, compared on all small series by T_Outlier)
IMedian2(x) == LET n == Len(x)
                   s == SortSeq(x, <)
               IN  IF n % 2 = 1 THEN 2 * s[(n + 1) \div 2] ELSE s[n \div 2] + s[n \div 2 + 1]
\* x integer column, m = <<p, q>>:  d_i = d2_i / 2,  MAD = mad4 / 4
IRowClass(x, m) ==
  LET med2 == IMedian2(x)
      d2   == TLCEval([i \in 1..Len(x) |-> Abs(2 * x[i] - med2)])
      mad4 == IMedian2(d2)
  IN  [i \in 1..Len(x) |-> LET l == 2 * m[2] * d2[i]
                               r == m[1] * mad4
                           IN  IF l < r THEN "in" ELSE IF l > r THEN "out" ELSE "edge"]

-----------------------------------------------------------------------------
(* jackknife: estimate_i = (N - num_i) / (D - den_i), grouped by the distinct values v of den_i *)
JackBig(num, den) ==
  LET n   == Len(num)
      N   == ISum(LAMBDA i : num[i], 1..n)
      D   == ISum(LAMBDA i : den[i], 1..n)
      Vs  == {den[i] : i \in 1..n}
      G1p == TLCEval([v \in Vs |-> ISum(LAMBDA i : IF den[i] = v /\ N - num[i] > 0 THEN N - num[i] ELSE 0, 1..n)])
      G1n == TLCEval([v \in Vs |-> ISum(LAMBDA i : IF den[i] = v /\ N - num[i] < 0 THEN num[i] - N ELSE 0, 1..n)])
      G2  == TLCEval([v \in Vs |-> ISum(LAMBDA i : IF den[i] = v THEN (N - num[i]) * (N - num[i]) ELSE 0, 1..n)])
      P   == BProdSet({D - v : v \in Vs})
      Pv  == TLCEval([v \in Vs |-> BDivSmall(P, D - v)])
      T1p == FoldSet(LAMBDA v, acc : BAdd(acc, BMul(BFromInt(G1p[v]), Pv[v])), << >>, Vs)
      T1n == FoldSet(LAMBDA v, acc : BAdd(acc, BMul(BFromInt(G1n[v]), Pv[v])), << >>, Vs)
      T2  == FoldSet(LAMBDA v, acc : BAdd(acc, BMul(BFromInt(G2[v]), BMul(Pv[v], Pv[v]))), << >>, Vs)
      T1  == BAbsDiff(T1p, T1n)
      c   == BCmp(T1p, T1n)
  IN  [mean   |-> [s |-> c, n |-> T1, d |-> BMulSmall(P, n)],
       sigma2 |-> BR(BMulSmall(BSub(BMulSmall(T2, n), BMul(T1, T1)), n - 1),
                     BMulSmall(BMulSmall(BMul(P, P), n), n))]
=============================================================================
