---------------------------- MODULE FreeProjTrace ----------------------------
(***************************************************************************)
(* Judge for recorded free-projection step sequences (C05).  A record is   *)
(*   [id, steps]  steps[i] = [rep, ovl, novl, fac]  (booleans measured by  *)
(*   the harness against an un-normalised reference product built with the *)
(*   library's own _apply_trotprop / _multiply_constant and NO QR):        *)
(*   rep  : norms_i * SDVec(Q_i) = SDVec(P_i)        (FreeProj!Represented)*)
(*   ovl  : overlaps_i = <psi|P_i>          (FreeProj!OverlapOfUnnormalised)*)
(*   novl : normed_overlaps_i = <psi|Q_i>                                  *)
(*   fac  : norms_i / norms_{i-1} = det R of step i  (NormsAreProductOf..) *)
(* FreeProj.tla proves these hold in every state after a completed step,   *)
(* so every recorded step must show all four; the verdict is total.        *)
(***************************************************************************)
EXTENDS Integers, Sequences, FiniteSets, Json, IOUtils, TLC

Recs == ndJsonDeserialize(IOEnv.FP_TRACES)

Clause(s) == IF ~s.rep THEN "Represented" ELSE IF ~s.ovl THEN "OverlapOfUnnormalised"
             ELSE IF ~s.novl THEN "NormedOverlap" ELSE IF ~s.fac THEN "NormsAreProductOfFactors" ELSE ""
Bad(r) == {i \in DOMAIN r.steps : Clause(r.steps[i]) # ""}
Verdict(r) == LET b == Bad(r)
                  i == IF b = {} THEN 0 ELSE CHOOSE k \in b : \A j \in b : k <= j
              IN [id |-> r.id, ok |-> b = {}, at |-> i, clause |-> IF i = 0 THEN "" ELSE Clause(r.steps[i]),
                  nsteps |-> Len(r.steps)]

VARIABLES idx, done
vars == <<idx, done>>
Init == idx \in DOMAIN Recs /\ done = FALSE
Judge == /\ ~done /\ done' = TRUE /\ UNCHANGED idx
         /\ ndJsonSerialize(IOEnv.FP_OUT \o "/" \o ToString(Recs[idx].id) \o ".json", <<Verdict(Recs[idx])>>)
Spec == Init /\ [][Judge]_vars
=============================================================================
