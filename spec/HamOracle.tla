------------------------------ MODULE HamOracle ------------------------------
(***************************************************************************)
(* Exact oracle for Hamiltonian-level objects:                             *)
(*  kind "hmat"  : the integer matrix of 2(H - h0) in the configuration    *)
(*                 basis of the (nup, ndn) sector (TLC is the authority on *)
(*                 WHAT H IS: C04, C05, C10, C11, C16 build on it)         *)
(*  kind "cong"  : the congruence C^T X C for integer C and each X         *)
(*                 (C15: what ham.rotate_orbs must compute)                *)
(* Requests are ndjson records (env HAM_REQ), answers are written to       *)
(* HAM_OUT/<id>.json.                                                      *)
(***************************************************************************)
EXTENDS Fock, Json, IOUtils

Reqs == ndJsonDeserialize(IOEnv.HAM_REQ)

Sector(n, nu, nd) ==
  SetToSeq({S \in Configs(n, nu + nd) : Cardinality({p \in S : p <= n}) = nu})

HMat(r) ==
  LET n == r.norb
      cs == Sector(n, r.nup, r.ndn)
      col(j) == TwoH(n, r.h1u, r.h1d, r.chol, BasisVec(n, r.nup + r.ndn, cs[j]))
      cols == TLCEval([j \in DOMAIN cs |-> col(j)])
  IN  [id |-> r.id,
       configs |-> [j \in DOMAIN cs |-> Sorted(cs[j])],
       \* rows[i][j] = <cs[i]| 2(H-h0) |cs[j]>  (real integers for real integer h1, L)
       rows |-> [i \in DOMAIN cs |-> [j \in DOMAIN cs |-> cols[j][cs[i]][1]]]]

Cong(r) == [id |-> r.id, out |-> [k \in DOMAIN r.xs |-> Congruence(r.c, r.xs[k])]]

Answer(r) == IF r.kind = "hmat" THEN HMat(r) ELSE Cong(r)

VARIABLES idx, done
vars == <<idx, done>>
Init == idx \in DOMAIN Reqs /\ done = FALSE
Eval == /\ ~done /\ done' = TRUE /\ UNCHANGED idx
        /\ ndJsonSerialize(IOEnv.HAM_OUT \o "/" \o ToString(Reqs[idx].id) \o ".json", <<Answer(Reqs[idx])>>)
Spec == Init /\ [][Eval]_vars
=============================================================================
