------------------------------ MODULE HamOracle ------------------------------
(***************************************************************************)
(* Exact oracle for Hamiltonian-level objects:                             *)
(*  kind "hmat"  : the integer matrix of 2(H - h0) in the configuration    *)
(*                 basis of the (nup, ndn) sector (TLC is the authority on *)
(*                 WHAT H IS: C04, C05, C10, C11, C16 build on it)         *)
(*  kind "cong"  : the congruence C^T X C for integer C and each X         *)
(*                 (C15: what ham.rotate_orbs must compute)                *)
(* Requests are ndjson records (env HAM_REQ), answers are written to       *)
(* HAM_OUT/<id>.json.                                                      *)
(***************************************************************************)
EXTENDS Fock, Json, IOUtils

Reqs == ndJsonDeserialize(IOEnv.HAM_REQ)

Sector(n, nu, nd) ==
  SetToSeq({S \in Configs(n, nu + nd) : Cardinality({p \in S : p <= n}) = nu})

HMat(r) ==
  LET n == r.norb
      cs == Sector(n, r.nup, r.ndn)
      col(j) == TwoH(n, r.h1u, r.h1d, r.chol, BasisVec(n, r.nup + r.ndn, cs[j]))
      cols == TLCEval([j \in DOMAIN cs |-> col(j)])
  IN  [id |-> r.id,
       configs |-> [j \in DOMAIN cs |-> Sorted(cs[j])],
       \* rows[i][j] = <cs[i]| 2(H-h0) |cs[j]>  (real integers for real integer h1, L)
       rows |-> [i \in DOMAIN cs |-> [j \in DOMAIN cs |-> cols[j][cs[i]][1]]]]

Cong(r) == [id |-> r.id, out |-> [k \in DOMAIN r.xs |-> Congruence(r.c, r.xs[k])]]

(***************************************************************************)
(* kind "onebody": the exactly solvable one-body limit (C06).  h = M D M^T / d^2 *)
(* with M integer, M^T M = d^2 I, D a sequence of distinct integers given  *)
(* per column of M (so the columns of M/d are the eigenvectors).  For      *)
(* occupations nocc (the nocc lowest eigenvalues) and an integer symmetric *)
(* observable O:  E0 = sum_occ D_i,   tr(rho O) = sum_occ m_i^T O m_i / d^2 *)
(***************************************************************************)
OneBodyLimit(r) ==
  LET n == Len(r.m)
      order == SortSeq([i \in 1..n |-> i], LAMBDA a, b : r.evals[a] < r.evals[b])
      occ(k) == {order[i] : i \in 1..k}
      quad(i, O) == ISum(LAMBDA pq : r.m[pq[1]][i] * O[pq[1]][pq[2]] * r.m[pq[2]][i], (1..n) \X (1..n))
      gap(k) == IF k = 0 \/ k = n THEN 1 ELSE r.evals[order[k + 1]] - r.evals[order[k]]
  IN  [id |-> r.id,
       e0 |-> [s \in 1..2 |-> ISum(LAMBDA i : r.evals[i], occ(r.nocc[s]))],
       trnum |-> [s \in 1..2 |-> [k \in DOMAIN r.obs |-> ISum(LAMBDA i : quad(i, r.obs[k][s]), occ(r.nocc[s]))]],
       d2 |-> r.d * r.d,
       gaps |-> [s \in 1..2 |-> gap(r.nocc[s])]]

Answer(r) == IF r.kind = "hmat" THEN HMat(r) ELSE IF r.kind = "cong" THEN Cong(r) ELSE OneBodyLimit(r)

VARIABLES idx, done
vars == <<idx, done>>
Init == idx \in DOMAIN Reqs /\ done = FALSE
Eval == /\ ~done /\ done' = TRUE /\ UNCHANGED idx
        /\ ndJsonSerialize(IOEnv.HAM_OUT \o "/" \o ToString(Reqs[idx].id) \o ".json", <<Answer(Reqs[idx])>>)
Spec == Init /\ [][Eval]_vars
=============================================================================
