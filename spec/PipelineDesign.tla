--------------------------- MODULE PipelineDesign ---------------------------
(***************************************************************************)
(* Root module of the design-level run of C16: the state machine and the   *)
(* invariants are those of Pipeline.tla; the constant-level design facts   *)
(* (no dead mutants, the scoping of the property is needed and suffices,   *)
(* the tolerance relation is a closed interval) are evaluated once, as an  *)
(* assumption.  A false assumption means the reference model or a          *)
(* predicate is wrong - never a finding about the code.                    *)
(***************************************************************************)
EXTENDS Pipeline
ASSUME DesignFactsHold == DesignFacts
=============================================================================
