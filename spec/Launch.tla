------------------------------- MODULE Launch -------------------------------
(***************************************************************************)
(* The launcher `ad_afqmc.run_afqmc.run_afqmc / run_afqmc_fp` and the      *)
(* `__main__` block of `mpi_jax.py` as a process-level protocol between a  *)
(* caller, a shell command and a child, through three files in the working *)
(* directory (options.bin, the command line, ene_err.txt).  One action per *)
(* code section, in code order:                                            *)
(*                                                                         *)
(*   WriteOptions   options (or {} for None) pickled to options.bin        *)
(*   Compose        script (default <package>/mpi_jax.py), gpu flag,       *)
(*                  launcher prefix (default "mpirun ", "" on GPU), and    *)
(*                  "-np N " appended to the prefix when nproc is given    *)
(*   Shell          `export OMP_NUM_THREADS=1; export MKL_NUM_THREADS=1;   *)
(*                  <prefix> python <script> <flag>` - the launcher word   *)
(*                  (if any) is run by the shell and runs the child        *)
(*   Child          the child reads options.bin (Setup.tla, src = "file"), *)
(*                  runs, and rank 0 writes ene_err.txt at the very end -  *)
(*                  or it dies before that (ChildOk is the environment's   *)
(*                  choice)                                                *)
(*   ReadResult     np.loadtxt("ene_err.txt"), else the message            *)
(*                  "AFQMC did not execute correctly." and (0.0, 0.0);     *)
(*                  run_afqmc_fp returns nothing                           *)
(*                                                                         *)
(* Named deviations of the code from an idealised launcher (modelled as    *)
(* they are):                                                              *)
(*   NprocWithoutLauncher  prefix "" (GPU default or passed) with nproc    *)
(*        given composes "-np N  python ..." - the shell finds no command  *)
(*        "-np", the child never runs                                      *)
(*   StaleResultReturned   ene_err.txt of an EARLIER run is not removed    *)
(*        before the launch: if the child dies (or never runs), the old    *)
(*        numbers are returned without the message                         *)
(*   FpIgnoresGpu          run_afqmc_fp always uses "mpirun " by default   *)
(*        and never passes --use_gpu                                       *)
(*                                                                         *)
(* TLC explores every call and writes one expected record per terminal     *)
(* state to LAUNCH_OUT/<id>.json; the harness replays EVERY one of them    *)
(* through the real functions with shim executables `python`, `mpirun`,    *)
(* `fakempi` on PATH that log what they were given and play the child.     *)
(***************************************************************************)
EXTENDS Naturals, Sequences, TLC, Json, IOUtils

CONSTANT Emit        \* TRUE: write the expected records (env LAUNCH_OUT)

Fns      == {"run_afqmc", "run_afqmc_fp"}
Prefixes == {"default", "fakempi", "empty"}     \* mpi_prefix = None | "fakempi " | ""

VARIABLES call,      \* [fn, given (options passed?), script ("default"|"custom"), prefix, nproc (0 = None | 2), gpu, stale]
          pc, optbin, cmd, childok, ran, seen, errfile, ret
vars == <<call, pc, optbin, cmd, childok, ran, seen, errfile, ret>>

Calls == [fn : Fns, given : BOOLEAN, script : {"default", "custom"}, prefix : Prefixes, nproc : {0, 2},
          gpu : BOOLEAN, stale : BOOLEAN]

NoCmd == [launcher |-> "none", np |-> 0, flag |-> FALSE, script |-> "default", broken |-> FALSE]
NoSeen == [optbin |-> "absent", flag |-> FALSE, script |-> "none", threads |-> FALSE, np |-> 0, launcher |-> "none"]

Init == /\ call \in Calls
        /\ pc = "write" /\ optbin = "absent" /\ cmd = NoCmd /\ childok \in BOOLEAN /\ ran = FALSE
        /\ seen = NoSeen
        /\ errfile = IF call.stale THEN "stale" ELSE "absent"
        /\ ret = "pending"

WriteOptions ==
  /\ pc = "write"
  /\ optbin' = IF call.given THEN "given" ELSE "empty"
  /\ pc' = "compose"
  /\ UNCHANGED <<call, cmd, childok, ran, seen, errfile, ret>>

\* the word the shell will execute first, after the two exports
BasePrefix == IF call.prefix = "default"
              THEN (IF call.fn = "run_afqmc" /\ call.gpu THEN "empty" ELSE "mpirun")      \* FpIgnoresGpu
              ELSE call.prefix
Compose ==
  /\ pc = "compose"
  /\ cmd' = [launcher |-> IF BasePrefix = "empty" THEN "none" ELSE BasePrefix,
             np       |-> call.nproc,
             flag     |-> call.fn = "run_afqmc" /\ call.gpu,
             script   |-> call.script,
             broken   |-> BasePrefix = "empty" /\ call.nproc # 0]                          \* NprocWithoutLauncher
  /\ pc' = "shell"
  /\ UNCHANGED <<call, optbin, childok, ran, seen, errfile, ret>>

Shell ==
  /\ pc = "shell"
  /\ IF cmd.broken THEN pc' = "read" /\ ran' = FALSE
                   ELSE pc' = "child" /\ ran' = TRUE
  /\ UNCHANGED <<call, optbin, cmd, childok, seen, errfile, ret>>

Child ==
  /\ pc = "child"
  /\ seen' = [optbin |-> optbin, flag |-> cmd.flag, script |-> cmd.script, threads |-> TRUE, np |-> cmd.np,
              launcher |-> cmd.launcher]
  /\ errfile' = IF childok THEN "fresh" ELSE errfile          \* written at the very end, by rank 0, only on success
  /\ pc' = "read"
  /\ UNCHANGED <<call, optbin, cmd, childok, ran, ret>>

ReadResult ==
  /\ pc = "read"
  /\ ret' = IF call.fn = "run_afqmc_fp" THEN "nothing"
            ELSE IF errfile = "absent" THEN "zero+message" ELSE errfile                    \* StaleResultReturned
  /\ pc' = "done"
  /\ UNCHANGED <<call, optbin, cmd, childok, ran, seen, errfile>>

B(x) == IF x THEN 1 ELSE 0
Id == 1 + B(call.fn = "run_afqmc_fp") + 2 * B(call.given) + 4 * B(call.script = "custom")
        + 8 * (CASE call.prefix = "default" -> 0 [] call.prefix = "fakempi" -> 1 [] OTHER -> 2)
        + 24 * B(call.nproc # 0) + 48 * B(call.gpu) + 96 * B(call.stale) + 192 * B(childok)

Expected == [id |-> Id, call |-> call, childok |-> childok, optbin |-> optbin, cmd |-> cmd, ran |-> ran,
             seen |-> seen, errfile |-> errfile, ret |-> ret]

Write ==
  /\ pc = "done" /\ Emit
  /\ pc' = "emitted"
  /\ ndJsonSerialize(IOEnv.LAUNCH_OUT \o "/" \o ToString(Id) \o ".json", <<Expected>>)
  /\ UNCHANGED <<call, optbin, cmd, childok, ran, seen, errfile, ret>>

Next == WriteOptions \/ Compose \/ Shell \/ Child \/ ReadResult \/ Write
Spec == Init /\ [][Next]_vars

-----------------------------------------------------------------------------
Finished == pc \in {"done", "emitted"}

TypeOK == /\ pc \in {"write", "compose", "shell", "child", "read", "done", "emitted"}
          /\ ret \in {"pending", "nothing", "zero+message", "fresh", "stale"}
          /\ errfile \in {"absent", "stale", "fresh"}

\* the child, when it runs, sees exactly the options the caller passed, single-threaded BLAS, the rank count asked for
HandOver == (Finished /\ ran) =>
               /\ seen.optbin = (IF call.given THEN "given" ELSE "empty")
               /\ seen.threads /\ seen.np = call.nproc /\ seen.script = call.script
               /\ seen.flag = (call.fn = "run_afqmc" /\ call.gpu)

\* fresh numbers are returned exactly when the child completed
FreshIffCompleted == (Finished /\ call.fn = "run_afqmc") => (ret = "fresh" <=> (ran /\ childok))

\* without an earlier result file a failed launch is reported: message and (0.0, 0.0)
FailureReported == (Finished /\ call.fn = "run_afqmc" /\ ~call.stale /\ ~(ran /\ childok)) => ret = "zero+message"

\* the child runs unless the command is broken; it is broken exactly for an empty launcher with a rank count
RunsUnlessBroken == Finished => (ran <=> ~(BasePrefix = "empty" /\ call.nproc # 0))

\* an MPI launcher is used exactly when one is configured
LauncherAsConfigured == (Finished /\ ran) =>
   seen.launcher = (CASE call.prefix = "fakempi" -> "fakempi" [] call.prefix = "empty" -> "none"
                      [] OTHER -> IF call.fn = "run_afqmc" /\ call.gpu THEN "none" ELSE "mpirun")

\* witnesses of the named deviations (each is expected to be VIOLATED: the deviation is reachable)
NeverStaleReturned == ret # "stale"
NeverBroken == ~(Finished /\ ~ran)
=============================================================================
