-------------------------------- MODULE Comb --------------------------------
(***************************************************************************)
(* C07 - stochastic reconfiguration (population control) is an unbiased,   *)
(* weight-conserving comb.                                                 *)
(*                                                                         *)
(* This module is purely definitional (no variables).  It is used by       *)
(*   CombCheck.tla  design-level exhaustive model checking of the          *)
(*                  reference comb against the property-level predicates,  *)
(*   CombTrace.tla  the judge of records taken from ad_afqmc/sr.py and     *)
(*                  propagation.py (code -> spec),                         *)
(*   CombMPI.tla    the gather / comb-on-root / scatter protocol.          *)
(*                                                                         *)
(* Vocabulary                                                              *)
(*   w     : sequence of N signed integers, the walker weights in units of *)
(*           an arbitrary positive scale (the code combs |w|; the harness  *)
(*           replays scale * w for power-of-two scales, see ScaleInvariant *)
(*           in CombCheck.tla).  W = Sum |w_i| > 0 is required: with W = 0 *)
(*           the property's N|w_i|/W is undefined, so the all-zero vector  *)
(*           is outside the quantifier.                                    *)
(*   zeta  : the comb offset, a rational k/D with 0 < k < D.  The harness  *)
(*           always uses D = 2W ("half grid units"): every breakpoint of   *)
(*           the comb is a multiple of 1/W (BreaksOnGrid), so k/(2W) with  *)
(*           k odd is the midpoint of a grid cell and never a tie.         *)
(*   sel   : selection vector, sel[j] = index (1..N) of the old walker     *)
(*           copied into slot j of the new population; 0 = "slot j is not  *)
(*           a copy of any old walker".  ARBITRARY in the predicates.      *)
(*   cells : a partition of (0,1) into open intervals (lo,hi) given in     *)
(*           units of 1/(2W), with one selection vector per cell           *)
(*           (the implementation evaluated at an offset inside the cell).  *)
(*   u, s  : fixed-point image of the new weights w': u[j] is              *)
(*           round(N * w'_j * 2^s) in the units of w (so the exact value   *)
(*           W/N maps to 2^s * W).                                         *)
(*                                                                         *)
(* PART 1: property-level predicates (say nothing about HOW sel is made).  *)
(* PART 2: the reference model RefSel = what sr.py does (cumulative sum +  *)
(*         searchsorted(side=left) at (j + zeta) W / N), and RevSel, a     *)
(*         different but equally valid comb, to show PART 1 does not pin   *)
(*         the implementation's internal choices.                          *)
(***************************************************************************)
EXTENDS Integers, Sequences, FiniteSets, SequencesExt, TLC

Abs(x) == IF x < 0 THEN -x ELSE x

RECURSIVE GCD(_, _)
GCD(a, b) == IF b = 0 THEN a ELSE GCD(b, a % b)

RECURSIVE Pow2(_)
Pow2(s) == IF s = 0 THEN 1 ELSE 2 * Pow2(s - 1)

RECURSIVE SumTo(_, _)
SumTo(w, k) == IF k = 0 THEN 0 ELSE SumTo(w, k - 1) + Abs(w[k])

RECURSIVE SumSeq(_, _)
SumSeq(q, k) == IF k = 0 THEN 0 ELSE SumSeq(q, k - 1) + q[k]

(* cumulative absolute weights, Cum(w)[0] = 0, Cum(w)[N] = W *)
Cum(w)   == TLCEval([k \in 0..Len(w) |-> SumTo(w, k)])
Total(w) == SumTo(w, Len(w))

Count(sel, i) == Cardinality({j \in DOMAIN sel : sel[j] = i})

(***************************************************************************)
(* PART 1 - property-level predicates                                      *)
(***************************************************************************)

(* "replaces the population by copies of existing walkers only" *)
CopiesOnly(w, sel) == /\ Len(sel) = Len(w)
                      /\ \A j \in DOMAIN sel : sel[j] \in 1..Len(w)

(* "selects walker i either floor or ceil of N|w_i|/W times" *)
FloorOf(w, i) == (Len(w) * Abs(w[i])) \div Total(w)
CeilOf(w, i)  == FloorOf(w, i) + (IF (Len(w) * Abs(w[i])) % Total(w) = 0 THEN 0 ELSE 1)
FloorCeil(w, sel) == \A i \in 1..Len(w) : Count(sel, i) \in {FloorOf(w, i), CeilOf(w, i)}
BadFloorCeil(w, sel) == {i \in 1..Len(w) : Count(sel, i) \notin {FloorOf(w, i), CeilOf(w, i)}}

(* "(so zero-weight walkers are never selected)" *)
NoZeroSelected(w, sel) == \A j \in DOMAIN sel : sel[j] \in 1..Len(w) => w[sel[j]] # 0

(* "the up and down blocks of a walker are always copied together" *)
SpinPaired(selUp, selDn) == selUp = selDn

(* "gives every survivor the same weight": w'_j = W/N for every j.          *)
(* Tolerance: one unit of 2^-s (s is chosen by the harness as large as the   *)
(* 32-bit integers of TLC allow, N*N*W*2^s < 2^30).                          *)
EqualWeights(w, u, s) == /\ Len(u) = Len(w)
                         /\ \A j \in DOMAIN u : Abs(u[j] - Pow2(s) * Total(w)) <= 1
                         /\ \A j, l \in DOMAIN u : u[j] = u[l]

(* "conserves the total absolute weight": Sum_j w'_j = Sum_i |w_i|;          *)
(* usum = round(N * 2^s * Sum_j w'_j), summed exactly by the harness.        *)
Conserves(w, usum, s) == Abs(usum - Len(w) * Pow2(s) * Total(w)) <= 1

(* cells: sequence of [lo, hi] in units of 1/(2W) that tile (0,1) *)
PartitionOK(w, cells) ==
  /\ Len(cells) >= 1
  /\ cells[1].lo = 0
  /\ cells[Len(cells)].hi = 2 * Total(w)
  /\ \A c \in DOMAIN cells : cells[c].lo < cells[c].hi
  /\ \A c \in 1..(Len(cells) - 1) : cells[c].hi = cells[c + 1].lo

(* "exactly N|w_i|/W times on average over the offset": the integral over   *)
(* zeta in (0,1) of count_i(zeta), evaluated as Sum_cells len * count_i,     *)
(* len = (hi - lo)/(2W); multiplied through by 2W:                           *)
(*     Sum_c (hi_c - lo_c) * count_i(sels[c])  =  2 N |w_i|                  *)
Integral(cells, sels, i) ==
  LET term == TLCEval([c \in DOMAIN cells |-> (cells[c].hi - cells[c].lo) * Count(sels[c], i)])
  IN  SumSeq(term, Len(cells))
Unbiased(w, cells, sels) ==
  \A i \in 1..Len(w) : Integral(cells, sels, i) = 2 * Len(w) * Abs(w[i])
BadUnbiased(w, cells, sels) ==
  {i \in 1..Len(w) : Integral(cells, sels, i) # 2 * Len(w) * Abs(w[i])}

(***************************************************************************)
(* The offset grids.  Breakpoints of the comb: count_i changes only where a *)
(* tooth (j + zeta) W/N crosses a cumulative weight, i.e. at                 *)
(* zeta = frac(N Cum_k / W) = ((N Cum_k) mod W) / W - always a multiple of   *)
(* 1/W, whatever the order in which the walkers are accumulated.             *)
(***************************************************************************)
Breaks(w) == LET W == Total(w) N == Len(w) c == Cum(w)
             IN  {0, 2 * W} \cup {2 * ((N * c[k]) % W) : k \in 1..N}     \* units 1/(2W)

CellsOfPoints(P) == LET s == SetToSortSeq(P, LAMBDA a, b : a < b)
                    IN  [c \in 1..(Len(s) - 1) |-> [lo |-> s[c], hi |-> s[c + 1]]]
BreakCells(w) == CellsOfPoints(Breaks(w))                    \* between consecutive breakpoints
FineCells(w)  == [c \in 1..Total(w) |-> [lo |-> 2 * (c - 1), hi |-> 2 * c]]   \* the 1/W grid
Mid(cell)     == (cell.lo + cell.hi) \div 2                  \* lo, hi are even

(***************************************************************************)
(* PART 2 - reference models                                               *)
(***************************************************************************)

(* numpy/jax searchsorted(cum[1..N], z, side="left") for z = zn/zd, 1-based: *)
(* the first index whose cumulative weight is >= z.                          *)
SearchSortedLeft(c, n, zn, zd) == 1 + Cardinality({k \in 1..n : c[k] * zd < zn})

(* What sr.py computes: tooth j (0-based) sits at z_j = W (j + zeta)/N with    *)
(* zeta = k/D, and selects searchsorted(cumsum|w|, z_j).  z_j = zn/zd with     *)
(* zn = (jD + k)(W/g), zd = N (D/g), g = gcd(W, D) (keeps TLC integers small). *)
RefSel(w, k, D) ==
  LET N == Len(w)
      W == Total(w)
      c == Cum(w)
      g == GCD(W, D)
  IN  [j \in 1..N |-> SearchSortedLeft(c, N, ((j - 1) * D + k) * (W \div g), N * (D \div g))]

(* The same comb read as "teeth falling into walker i's weight interval      *)
(* (Cum[i-1], Cum[i]]" - the form in which FloorCeil is obvious.             *)
TeethIn(w, k, D, i) ==
  LET N == Len(w) W == Total(w) c == Cum(w) g == GCD(W, D)
  IN  Cardinality({j \in 0..(N - 1) :
         /\ c[i - 1] * N * (D \div g) < (j * D + k) * (W \div g)
         /\ (j * D + k) * (W \div g) <= c[i] * N * (D \div g)})

(* A different valid comb: accumulate the walkers in reverse order, fill the  *)
(* slots in reverse order.  Satisfies every predicate of PART 1 but selects   *)
(* different walkers than RefSel in general.                                  *)
(* Reverse(q) is SequencesExt!Reverse *)
RevSel(w, k, D) ==
  LET N == Len(w)
      r == RefSel(Reverse(w), k, D)
  IN  [j \in 1..N |-> N + 1 - r[N + 1 - j]]

(* Selections that must be REJECTED by PART 1 (used to show the predicates    *)
(* have teeth): a comb that ignores the offset, and the identity.             *)
FixedOffsetSel(w) == RefSel(w, Total(w), 2 * Total(w))      \* always zeta = 1/2
IdentitySel(w)    == [j \in 1..Len(w) |-> j]

ScaleW(c, w) == [i \in 1..Len(w) |-> c * w[i]]

(***************************************************************************)
(* PART 3 - the multi-rank protocol's vocabulary (shared by CombMPI.tla,   *)
(* which model-checks it, and CombTrace.tla, which judges the collectives  *)
(* the real code issued on the harness's thread communicator).             *)
(* sr.stochastic_reconfiguration_mpi:      Gather walkers, Gather weights, *)
(*     [root combs], Scatter walkers, Scatter weights;                     *)
(* sr.stochastic_reconfiguration_mpi_uhf:  Gather up, Gather dn, Gather    *)
(*     weights, [root combs], Scatter up, Scatter dn, Scatter weights.     *)
(***************************************************************************)
CollNames(uhf) == IF uhf THEN <<"GatherUp", "GatherDn", "GatherW", "ScatterUp", "ScatterDn", "ScatterW">>
                         ELSE <<"GatherUp", "GatherW", "ScatterUp", "ScatterW">>
CollKind(name) == IF name \in {"GatherUp", "GatherDn", "GatherW"} THEN "Gather" ELSE "Scatter"
CollKinds(uhf) == [k \in DOMAIN CollNames(uhf) |-> CollKind(CollNames(uhf)[k])]

(* rank-ordered concatenation of per-rank chunks, and chunk r (0-based rank) of a global sequence *)
RECURSIVE Flat(_)
Flat(chunks) == IF Len(chunks) = 0 THEN <<>> ELSE Head(chunks) \o Flat(Tail(chunks))
Chunk(q, r, n) == [j \in 1..n |-> q[r * n + j]]
=============================================================================
