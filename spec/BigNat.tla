------------------------------- MODULE BigNat -------------------------------
(***************************************************************************)
(* Arbitrary-precision natural numbers for TLC (whose integers are 32 bit  *)
(* and whose overflow is an error).  Needed by StatsBig.tla: the exact     *)
(* squared error bar of a 10^4-sample series is a rational whose reduced   *)
(* numerator/denominator have dozens to hundreds of digits.                *)
(*                                                                         *)
(* A BigNat is a sequence of limbs in base 1000, least significant first,  *)
(* without most-significant zero limbs; zero is << >>.  All intermediate   *)
(* 32-bit quantities are bounded:                                          *)
(*   limb*limb < 10^6, a convolution column of <= 2000 products < 2*10^9;  *)
(*   BMulSmall / BDivSmall take a native k with 0 < k <= 2*10^6.           *)
(* The self-test at the bottom (ASSUME) is evaluated by every TLC run that *)
(* loads the module.                                                       *)
(***************************************************************************)
EXTENDS Integers, Sequences, FiniteSetsExt, TLC

BBase == 1000
BSmallMax == 2000000

BZero == << >>
BIsNat(a) == /\ \A i \in 1..Len(a) : a[i] \in 0..(BBase - 1)
             /\ (Len(a) > 0 => a[Len(a)] # 0)

RECURSIVE BFromInt(_)
BFromInt(n) == IF n = 0 THEN << >> ELSE <<n % BBase>> \o BFromInt(n \div BBase)

BLimb(a, i) == IF i <= Len(a) THEN a[i] ELSE 0

RECURSIVE BTrim(_)
BTrim(a) == IF a = << >> THEN a
            ELSE IF a[Len(a)] = 0 THEN BTrim(SubSeq(a, 1, Len(a) - 1)) ELSE a

\* Carry propagation over "columns" (native integers, possibly negative: \div is floor division and %
\* the non-negative remainder, so borrows propagate as carry -1).  The total must be >= 0.
RECURSIVE BCarry(_, _, _, _)
BCarry(col, i, carry, acc) ==
  IF i > Len(col)
  THEN IF carry = 0 THEN acc
       ELSE IF carry < 0 THEN Assert(FALSE, "BigNat: negative result")
       ELSE BCarry(col, i, carry \div BBase, Append(acc, carry % BBase))
  ELSE LET t == col[i] + carry IN BCarry(col, i + 1, t \div BBase, Append(acc, t % BBase))

BNorm(col) == BTrim(BCarry(col, 1, 0, << >>))

BMaxLen(a, b) == IF Len(a) >= Len(b) THEN Len(a) ELSE Len(b)

BAdd(a, b) == BNorm([i \in 1..BMaxLen(a, b) |-> BLimb(a, i) + BLimb(b, i)])
\* a - b for a >= b (asserted by BCarry)
BSub(a, b) == BNorm([i \in 1..BMaxLen(a, b) |-> BLimb(a, i) - BLimb(b, i)])

\* a * k for a native 0 <= k <= BSmallMax
BMulSmall(a, k) == IF k = 0 THEN << >> ELSE BNorm([i \in 1..Len(a) |-> a[i] * k])

\* schoolbook product by columns: col[k] = SUM_{i+j=k+1} a[i] b[j]
BMul(a, b) ==
  IF a = << >> \/ b = << >> THEN << >>
  ELSE LET la == Len(a)
           lb == Len(b)
           lo(k) == IF k + 1 - lb > 1 THEN k + 1 - lb ELSE 1
           hi(k) == IF k < la THEN k ELSE la
           col == [k \in 1..(la + lb - 1) |->
                     FoldSet(LAMBDA i, acc : acc + a[i] * b[k + 1 - i], 0, lo(k)..hi(k))]
       IN  BNorm(col)

\* <<quotient, remainder>> of a by a native 0 < k <= BSmallMax (long division, most significant limb first)
RECURSIVE BDivStep(_, _, _, _, _)
BDivStep(a, k, i, rem, acc) ==
  IF i = 0 THEN <<BTrim(acc), rem>>
  ELSE LET t == rem * BBase + a[i] IN BDivStep(a, k, i - 1, t % k, <<t \div k>> \o acc)
BDivMod(a, k) == BDivStep(a, k, Len(a), 0, << >>)
BDivSmall(a, k) == BDivMod(a, k)[1]
BModSmall(a, k) == BDivMod(a, k)[2]

\* three-way comparison: -1, 0, 1
RECURSIVE BCmpFrom(_, _, _)
BCmpFrom(a, b, i) == IF i = 0 THEN 0
                     ELSE IF a[i] < b[i] THEN -1
                     ELSE IF a[i] > b[i] THEN 1
                     ELSE BCmpFrom(a, b, i - 1)
BCmp(a, b) == IF Len(a) < Len(b) THEN -1
              ELSE IF Len(a) > Len(b) THEN 1
              ELSE BCmpFrom(a, b, Len(a))
BLess(a, b) == BCmp(a, b) = -1
BLeq(a, b)  == BCmp(a, b) <= 0
BAbsDiff(a, b) == IF BLeq(b, a) THEN BSub(a, b) ELSE BSub(b, a)

\* 10^(3k)
BPow1000(k) == [i \in 1..(k + 1) |-> IF i = k + 1 THEN 1 ELSE 0]
\* product of a set of native naturals (each <= BSmallMax)
BProdSet(S) == FoldSet(LAMBDA v, acc : BMulSmall(acc, v), <<1>>, S)

\* value of a small BigNat as a native integer (self-test only)
RECURSIVE BToInt(_)
BToInt(a) == IF a = << >> THEN 0 ELSE a[1] + BBase * BToInt(Tail(a))

-----------------------------------------------------------------------------
\* self-test against native arithmetic and against algebraic identities on numbers far beyond 32 bits
BTestSmall == {0, 1, 7, 999, 1000, 1001, 46340, 123456, 999999, 1000000}
BBigA == BMul(BFromInt(2147483647), BFromInt(2147483647))          \* (2^31-1)^2
BBigB == BProdSet(1900..1950)                                     \* ~ 170 digits

ASSUME BigNatSelfTest ==
  /\ \A x \in BTestSmall : BIsNat(BFromInt(x)) /\ BToInt(BFromInt(x)) = x
  /\ \A x \in BTestSmall, y \in BTestSmall :
       /\ (x + y < 2000000 => BAdd(BFromInt(x), BFromInt(y)) = BFromInt(x + y))
       /\ (x >= y => BSub(BFromInt(x), BFromInt(y)) = BFromInt(x - y))
       /\ (x < 46341 /\ y < 46341 => BMul(BFromInt(x), BFromInt(y)) = BFromInt(x * y))
       /\ (x <= 2000 => BMulSmall(BFromInt(y), x) = BFromInt(x * y))
       /\ (y > 0 => BDivMod(BFromInt(x), y) = <<BFromInt(x \div y), x % y>>)
       /\ BCmp(BFromInt(x), BFromInt(y)) = (IF x < y THEN -1 ELSE IF x > y THEN 1 ELSE 0)
  /\ BBigA = <<609, 420, 132, 14, 686, 611, 4>>                  \* 4611686014132420609
  /\ BIsNat(BBigB) /\ Len(BBigB) > 50
  /\ BSub(BAdd(BBigA, BBigB), BBigB) = BBigA
  /\ BMul(BBigA, BBigB) = BMul(BBigB, BBigA)
  /\ BMul(BAdd(BBigA, <<1>>), BBigB) = BAdd(BMul(BBigA, BBigB), BBigB)
  /\ BDivMod(BBigB, 1931) = <<BProdSet((1900..1950) \ {1931}), 0>>
  /\ BDivMod(BAdd(BMulSmall(BBigB, 1999), <<123>>), 1999) = <<BBigB, 123>>
  /\ BMul(BPow1000(3), BPow1000(4)) = BPow1000(7)
  /\ BLess(BBigA, BBigB) /\ ~BLess(BBigB, BBigA) /\ BCmp(BBigB, BBigB) = 0
  /\ BAbsDiff(BBigA, BBigB) = BAbsDiff(BBigB, BBigA)
=============================================================================
