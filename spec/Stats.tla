-------------------------------- MODULE Stats --------------------------------
(***************************************************************************)
(* C19 - reported means and error bars follow their statistical            *)
(* definitions.  Reference model of ad_afqmc/stat_utils.py in exact        *)
(* rational arithmetic, and the property-level predicates it is checked    *)
(* against (StatsTheorems.tla) and that the real code is judged by         *)
(* (StatsJudge.tla, through the big-number evaluation of StatsBig.tla).    *)
(*                                                                         *)
(* Data: a series is a pair of equally long sequences w (positive integer  *)
(* weights) and e (integer samples).  Rationals are gcd-reduced pairs      *)
(* <<num, den>> with den > 0 (so equality of values is equality of pairs); *)
(* error bars are carried SQUARED so that no square root is needed.        *)
(* This module uses TLC's native 32-bit integers and is therefore only     *)
(* evaluated on small series; StatsBig.tla evaluates the same quantities   *)
(* for series of up to 10^4 samples, and StatsTheorems.tla lets TLC check  *)
(* that the two agree on every small series.                               *)
(*                                                                         *)
(*   Part 1  rationals                                                     *)
(*   Part 2  reference model: blocking_analysis                            *)
(*   Part 3  reference model: reject_outliers, jackknife_ratios            *)
(*   Part 4  property-level predicates (independent formulations)          *)
(***************************************************************************)
EXTENDS Integers, Sequences, FiniteSets, FiniteSetsExt, TLC

-----------------------------------------------------------------------------
(* Part 1: rationals *)
Abs(x) == IF x < 0 THEN -x ELSE x
RECURSIVE Gcd(_, _)
Gcd(a, b) == IF b = 0 THEN a ELSE Gcd(b, a % b)

RNorm(n, d) == LET g == Gcd(Abs(n), Abs(d))
                   s == IF d < 0 THEN -1 ELSE 1
               IN  <<s * (n \div g), s * (d \div g)>>      \* d # 0
R(n)        == <<n, 1>>
\* (sums over the least common denominator and cross-reduced products keep the 32-bit intermediates small)
RAdd(a, b)  == LET g == Gcd(a[2], b[2]) IN
               RNorm(a[1] * (b[2] \div g) + b[1] * (a[2] \div g), (a[2] \div g) * b[2])
RNeg(a)     == <<-a[1], a[2]>>
RSub(a, b)  == RAdd(a, RNeg(b))
RMul(a, b)  == LET g1 == Gcd(Abs(a[1]), b[2])
                   g2 == Gcd(Abs(b[1]), a[2])
               IN  RNorm((a[1] \div g1) * (b[1] \div g2), (a[2] \div g2) * (b[2] \div g1))
RDiv(a, b)  == RMul(a, IF b[1] < 0 THEN <<-b[2], -b[1]>> ELSE <<b[2], b[1]>>)    \* b # 0
RSq(a)      == RMul(a, a)
RAbs(a)     == <<Abs(a[1]), a[2]>>
RLess(a, b) == a[1] * b[2] < b[1] * a[2]
RLeq(a, b)  == a[1] * b[2] <= b[1] * a[2]
RMax(a, b)  == IF RLess(a, b) THEN b ELSE a

ISum(F(_), S) == FoldSet(LAMBDA i, acc : acc + F(i), 0, S)
RSum(F(_), S) == FoldSet(LAMBDA i, acc : RAdd(acc, F(i)), <<0, 1>>, S)

\* "no error bar": the code returns None
None == <<0, 0>>

-----------------------------------------------------------------------------
(* Part 2: blocking_analysis(weights, energies, neql)                       *)
(*   nSamples = len - neql; the first neql samples are dropped;             *)
(*   meanEnergy = SUM w e / SUM w;                                          *)
(*   for b in the fixed ladder with b < nSamples / 2:                       *)
(*      nb = nSamples div b blocks of b consecutive samples (a tail of      *)
(*      nSamples mod b samples is ignored), block weight W_j = SUM w,       *)
(*      block energy E_j = SUM w e / W_j, V1 = SUM W_j, V2 = SUM W_j^2,     *)
(*      m = SUM W_j E_j / V1,                                               *)
(*      error(b)^2 = SUM W_j (E_j - m)^2 / (V1 - V2/V1) / (nb - 1);         *)
(*   plateau: prev = 0; the first b with error(b) < 1.05 prev gives         *)
(*      max(error(b), prev); none -> None.  On squares:                     *)
(*      error(b)^2 < 1.1025 prev^2, i.e. 400 error(b)^2 < 441 prev^2.       *)
(*      (prev = 0 at b = 1, so the first ladder entry never triggers.)      *)

Ladder == <<1, 2, 5, 10, 20, 50, 100, 200, 300, 400, 500, 1000, 10000>>
BlockSizes(n) == SelectSeq(Ladder, LAMBDA b : 2 * b < n)

Cut(s, neql) == SubSeq(s, neql + 1, Len(s))

WMean(w, e) == RNorm(ISum(LAMBDA i : w[i] * e[i], 1..Len(w)), ISum(LAMBDA i : w[i], 1..Len(w)))

NBlocks(n, b)      == n \div b
BlockIdx(b, j)     == ((j - 1) * b + 1)..(j * b)
BlockW(w, b, j)    == ISum(LAMBDA i : w[i], BlockIdx(b, j))
BlockE(w, e, b, j) == RNorm(ISum(LAMBDA i : w[i] * e[i], BlockIdx(b, j)), BlockW(w, b, j))

Err2(w, e, b) ==
  LET nb == NBlocks(Len(w), b)
      W  == TLCEval([j \in 1..nb |-> BlockW(w, b, j)])
      E  == TLCEval([j \in 1..nb |-> BlockE(w, e, b, j)])
      V1 == ISum(LAMBDA j : W[j], 1..nb)
      V2 == ISum(LAMBDA j : W[j] * W[j], 1..nb)
      m  == RDiv(RSum(LAMBDA j : RMul(R(W[j]), E[j]), 1..nb), R(V1))
      ss == RSum(LAMBDA j : RMul(R(W[j]), RSq(RSub(E[j], m))), 1..nb)
  IN  RDiv(RDiv(ss, RSub(R(V1), RNorm(V2, V1))), R(nb - 1))

\* the per-block-size squared errors along the ladder
Errs2(w, e) == LET bs == BlockSizes(Len(w)) IN [k \in 1..Len(bs) |-> Err2(w, e, bs[k])]

Triggers(errs, k) == k >= 2 /\ 400 * errs[k][1] * errs[k - 1][2] < 441 * errs[k - 1][1] * errs[k][2]
PlateauOf(errs) ==
  LET T == {k \in 1..Len(errs) : Triggers(errs, k)}
  IN  IF T = {} THEN None
      ELSE LET k == CHOOSE x \in T : \A y \in T : x <= y IN RMax(errs[k], errs[k - 1])

\* the two return values
BlockingMean(w, e, neql) == WMean(Cut(w, neql), Cut(e, neql))
BlockingErr2(w, e, neql) == PlateauOf(TLCEval(Errs2(Cut(w, neql), Cut(e, neql))))

-----------------------------------------------------------------------------
(* Part 3a: reject_outliers(data, obs, m)                                   *)
(*   d_i = |x_i - median(x)|, x the chosen column; mdev = median(d) + 1e-10;*)
(*   keeps the rows with d_i / mdev < m.  Median of an even number of       *)
(*   values = mean of the middle two.                                       *)
(* The model classifies every row exactly:                                  *)
(*   "in"   d_i < m MAD,  "out"  d_i > m MAD,  "edge"  d_i = m MAD.         *)
(* For data on the grid of integers, d_i and m MAD are multiples of         *)
(* 1/(4 q) (m = p/q), so |d_i - m MAD| >= 1/(4q) >> m 1e-10 unless the row  *)
(* is an "edge" row: the +1e-10 decides edge rows only, and those are not   *)
(* judged (this also covers MAD = 0, where rows equal to the median are     *)
(* edge rows and every other row is "out").                                 *)

\* k-th smallest (1-based, with multiplicity) of a sequence of rationals
KthR(xs, k) == CHOOSE v \in {xs[i] : i \in 1..Len(xs)} :
                  /\ Cardinality({i \in 1..Len(xs) : RLess(xs[i], v)}) < k
                  /\ k <= Cardinality({i \in 1..Len(xs) : RLeq(xs[i], v)})
MedianR(xs) == LET n == Len(xs) IN
               IF n % 2 = 1 THEN KthR(xs, (n + 1) \div 2)
               ELSE RMul(RAdd(KthR(xs, n \div 2), KthR(xs, n \div 2 + 1)), <<1, 2>>)
Devs(x) == LET xs  == [i \in 1..Len(x) |-> R(x[i])]
               med == MedianR(xs)
           IN  [i \in 1..Len(x) |-> RAbs(RSub(xs[i], med))]
MAD(x) == MedianR(TLCEval(Devs(x)))
\* x: the column (integers), m = <<p, q>>
RowClass(x, m) ==
  LET d   == TLCEval(Devs(x))
      lim == RMul(m, MedianR(d))
  IN  [i \in 1..Len(x) |-> IF RLess(d[i], lim) THEN "in" ELSE IF RLess(lim, d[i]) THEN "out" ELSE "edge"]

(* Part 3b: jackknife_ratios(num, denom)                                    *)
(*   estimate_i = mean(num without i) / mean(denom without i);              *)
(*   returns mean_i estimate_i and sigma = sqrt((n-1) var_pop(estimate)).   *)
Loo(num, den, i) == LET n == Len(num) IN
  RDiv(RNorm(ISum(LAMBDA j : num[j], 1..n) - num[i], n - 1),
       RNorm(ISum(LAMBDA j : den[j], 1..n) - den[i], n - 1))
JackMean(num, den) == LET n == Len(num) IN RDiv(RSum(LAMBDA i : Loo(num, den, i), 1..n), R(n))
JackSigma2(num, den) ==
  LET n  == Len(num)
      mu == JackMean(num, den)
  IN  RMul(R(n - 1), RDiv(RSum(LAMBDA i : RSq(RSub(Loo(num, den, i), mu)), 1..n), R(n)))

-----------------------------------------------------------------------------
(* Part 4: property-level predicates, formulated independently of Part 2/3  *)

Scale(s, c) == [i \in 1..Len(s) |-> c * s[i]]
Shift(s, c) == [i \in 1..Len(s) |-> s[i] + c]
IsConst(s)  == \A i \in 1..Len(s) : s[i] = s[1]

\* "weight-averaged mean": mu with SUM w (e - mu) = 0
IsWeightedMean(mu, w, e) == RSum(LAMBDA i : RMul(R(w[i]), RSub(R(e[i]), mu)), 1..Len(w)) = <<0, 1>>

\* "the unbiased weighted-variance formula": for independent samples with common variance s^2,
\* E[(e_i - e_j)^2 / 2] = s^2 for every pair i # j, so every weighted average of half squared pair
\* differences is unbiased; with pair weights w_i w_j this is
\*    SUM_{i<j} w_i w_j (e_i - e_j)^2 / (2 SUM_{i<j} w_i w_j)
PairVar(w, e) ==
  LET n  == Len(w)
      up == ISum(LAMBDA i : ISum(LAMBDA j : w[i] * w[j] * (e[i] - e[j]) * (e[i] - e[j]), (i + 1)..n), 1..n)
      dn == ISum(LAMBDA i : ISum(LAMBDA j : w[i] * w[j], (i + 1)..n), 1..n)
  IN  RNorm(up, 2 * dn)
\* "at block size 1 equals the unbiased weighted-variance formula over the number of blocks minus one"
B1Formula(w, e) == Err2(w, e, 1) = RDiv(PairVar(w, e), R(Len(w) - 1))

\* In the next three predicates errs stands for Errs2(w, e) (the theorem module caches it per series).
\* "invariant under a common rescaling of the weights"
ScaleInvariant(w, e, c, errs) ==
  /\ WMean(Scale(w, c), e) = WMean(w, e)
  /\ Errs2(Scale(w, c), e) = errs
\* "shift with / ignore an added constant"
ShiftCovariant(w, e, c, errs) ==
  /\ WMean(w, Shift(e, c)) = RAdd(WMean(w, e), R(c))
  /\ Errs2(w, Shift(e, c)) = errs
\* "constant data never produce a non-zero error"
ConstNoError(w, e, errs) == IsConst(e) =>
  /\ WMean(w, e) = R(e[1])
  /\ \A k \in DOMAIN errs : errs[k] = <<0, 1>>
  /\ PlateauOf(errs) \in {None, <<0, 1>>}

\* median by its textbook definition: sort, take the middle value (odd length) or the mean of the
\* middle two (even length).  SortSeq is TLC's built-in sort.
SortedMedian(xs) == LET s == SortSeq(xs, RLess)
                        n == Len(xs)
                    IN  IF n % 2 = 1 THEN s[(n + 1) \div 2]
                        ELSE RMul(RAdd(s[n \div 2], s[n \div 2 + 1]), <<1, 2>>)
\* "keeps exactly the rows within m median-absolute-deviations of the median of the chosen column"
OutlierRule(x, m) ==
  LET xs  == [i \in 1..Len(x) |-> R(x[i])]
      med == SortedMedian(xs)
      d   == [i \in 1..Len(x) |-> RAbs(RSub(xs[i], med))]
      mad == SortedMedian(d)
  IN  [i \in 1..Len(x) |-> IF RLess(d[i], RMul(m, mad)) THEN "in"
                            ELSE IF RLess(RMul(m, mad), d[i]) THEN "out" ELSE "edge"]

\* brute-force leave-one-out: physically remove sample i and take the ratio of the plain means
Without(s, i) == [j \in 1..(Len(s) - 1) |-> IF j < i THEN s[j] ELSE s[j + 1]]
PlainMean(s)  == RNorm(ISum(LAMBDA j : s[j], 1..Len(s)), Len(s))
LooBrute(num, den, i) == RDiv(PlainMean(Without(num, i)), PlainMean(Without(den, i)))
=============================================================================
