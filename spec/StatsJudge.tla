----------------------------- MODULE StatsJudge -----------------------------
(***************************************************************************)
(* C19 binding: TLC judges what the real ad_afqmc/stat_utils.py returned.  *)
(*                                                                         *)
(* The harness writes one record per instance: the integer input data and  *)
(* the observations made on the real code, with every float converted to   *)
(* the exact rational it denotes (sign, numerator, denominator as BigNat   *)
(* limb sequences).  For every record TLC evaluates the reference model    *)
(* exactly (StatsBig.tla, proved equal to the definitions of Stats.tla on  *)
(* all small series by StatsTheorems.tla) and decides, per observation and *)
(* per clause, whether the code's output satisfies the property:           *)
(*                                                                         *)
(*  blocking   mean = SUM w e / SUM w (1e-10 of max(1,|mean|));            *)
(*             returned error: None/value must be an acceptable outcome of *)
(*             the plateau rule over the exact per-block-size errors       *)
(*             (1e-10 relative on the error, ties of the 1.05 comparison   *)
(*             closer than 1e-9 leave both outcomes acceptable);           *)
(*             optionally the printed per-block-size table (b, nb, blocked *)
(*             mean, error) at print precision.  Several observations of   *)
(*             one record are the same series presented with the weights   *)
(*             rescaled by a common factor: the exact answer is the same   *)
(*             (T_Scale), so scale invariance is judged here too.          *)
(*  outliers   every row classified "in" must be kept, every row           *)
(*             classified "out" must be dropped ("edge" rows, where the    *)
(*             code's +1e-10 decides, are free); the returned rows must be *)
(*             exactly the kept rows of the input, in order.               *)
(*  jackknife  mean and sigma equal the leave-one-out values (1e-10).      *)
(*                                                                         *)
(* Records are spread over chunks (field chunk); one Judge step handles    *)
(* one chunk and writes its verdicts, so the workers run in parallel and   *)
(* every record gets a verdict (TLC never stops at a failing record).      *)
(***************************************************************************)
EXTENDS StatsBig, Json, IOUtils

Recs == ndJsonDeserialize(IOEnv.STATS_RECS)
Chunks == {Recs[i].chunk : i \in DOMAIN Recs}

BRatOf(x) == BR(x.n, x.d)

-----------------------------------------------------------------------------
JudgeBlocking(r) ==
  LET w    == Cut(r.w, r.neql)
      e    == Cut(r.e, r.neql)
      len  == Len(w)
      mu   == WMean(w, e)
      bs   == BlockSizes(len)
      K    == Len(bs)
      sts  == TLCEval([k \in 1..K |-> BlockStats(w, e, bs[k])])
      errs == TLCEval([k \in 1..K |-> BigErr2(sts[k])])
      cls  == TLCEval([k \in 1..K |-> BClass(errs, k)])
      acc  == BAccept(cls)
      flo  == BFloor2(r.sc2)
      ObsV(o) ==
        LET meanOk == o.finite /\ BCloseSigned(o.mean, BSignedOfR(mu), BTolMean)
            errOk  == /\ o.finite
                      /\ IF o.err_none THEN 0 \in acc
                         ELSE \E k \in acc \ {0} : BClose2(BRatOf(o.err), BOutcome(errs, k), BRel2, flo)
            rowOk(t, k) == /\ t.b = bs[k] /\ t.nb = sts[k].nb
                           /\ BCloseSigned(t.mean, BSignedOfR(RNorm(sts[k].S, sts[k].V1)), BTolMeanPrn)
                           /\ BClose2(BRatOf(t.err), errs[k], BRel2Prn, flo)
            tabOk  == ~o.has_table \/
                      (Len(o.table) = K /\ \A k \in 1..K : rowOk(o.table[k], k))
        IN  [tag |-> o.tag, mean_ok |-> meanOk, err_ok |-> errOk, table_ok |-> tabOk,
             ok |-> meanOk /\ errOk /\ tabOk]
  IN  [id |-> r.id, kind |-> "blocking", n |-> len, mean |-> mu, bs |-> bs,
       classes |-> cls, accept |-> [k \in 1..K |-> k \in acc], accept_none |-> 0 \in acc,
       errs2 |-> errs,
       obs |-> [i \in 1..Len(r.obs) |-> ObsV(r.obs[i])]]

-----------------------------------------------------------------------------
KeptRows(data, mask) ==
  LET idx == SelectSeq([i \in 1..Len(data) |-> i], LAMBDA i : mask[i])
  IN  [k \in 1..Len(idx) |-> data[idx[k]]]

JudgeOutliers(r) ==
  LET x   == [i \in 1..Len(r.data) |-> r.data[i][r.col]]
      cl  == TLCEval(IRowClass(x, r.m))
      ObsV(o) ==
        LET lost  == {i \in 1..Len(x) : cl[i] = "in" /\ ~o.mask[i]}      \* rows within m MADs that were dropped
            kept  == {i \in 1..Len(x) : cl[i] = "out" /\ o.mask[i]}      \* outliers that were kept
            rowsOk == o.rows_exact /\ Len(o.mask) = Len(x) /\ o.rows = KeptRows(r.data, o.mask)
        IN  [tag |-> o.tag, mask_ok |-> lost = {} /\ kept = {}, rows_ok |-> rowsOk,
             n_lost |-> Cardinality(lost), n_kept |-> Cardinality(kept),
             first_bad |-> IF lost \cup kept = {} THEN 0 ELSE CHOOSE i \in lost \cup kept : \A j \in lost \cup kept : i <= j,
             ok |-> lost = {} /\ kept = {} /\ rowsOk]
  IN  [id |-> r.id, kind |-> "outliers", n |-> Len(x),
       n_in   |-> Cardinality({i \in 1..Len(x) : cl[i] = "in"}),
       n_out  |-> Cardinality({i \in 1..Len(x) : cl[i] = "out"}),
       n_edge |-> Cardinality({i \in 1..Len(x) : cl[i] = "edge"}),
       obs |-> [i \in 1..Len(r.obs) |-> ObsV(r.obs[i])]]

-----------------------------------------------------------------------------
JudgeJackknife(r) ==
  LET jb  == JackBig(r.num, r.den)
      flo == BFloor2(r.sc2)
      ObsV(o) ==
        LET meanOk == o.finite /\ BCloseSigned(o.mean, jb.mean, BTolMean)
            sigOk  == o.finite /\ BClose2(BRatOf(o.sigma), jb.sigma2, BRel2, flo)
        IN  [tag |-> o.tag, mean_ok |-> meanOk, sigma_ok |-> sigOk, ok |-> meanOk /\ sigOk]
  IN  [id |-> r.id, kind |-> "jackknife", n |-> Len(r.num), mean |-> jb.mean, sigma2 |-> jb.sigma2,
       obs |-> [i \in 1..Len(r.obs) |-> ObsV(r.obs[i])]]

Verdict(r) == IF r.kind = "blocking" THEN JudgeBlocking(r)
              ELSE IF r.kind = "outliers" THEN JudgeOutliers(r)
              ELSE JudgeJackknife(r)

-----------------------------------------------------------------------------
VARIABLES chunk, done
vars == <<chunk, done>>
Init == chunk \in Chunks /\ done = FALSE
Judge == /\ ~done /\ done' = TRUE /\ UNCHANGED chunk
         /\ LET idx == SelectSeq([i \in 1..Len(Recs) |-> i], LAMBDA i : Recs[i].chunk = chunk)
            IN  ndJsonSerialize(IOEnv.STATS_OUT \o "/" \o ToString(chunk) \o ".json",
                                [k \in 1..Len(idx) |-> Verdict(Recs[idx[k]])])
Next == Judge
Spec == Init /\ [][Next]_vars
=============================================================================
