------------------------------- MODULE CombMPI -------------------------------
(***************************************************************************)
(* C07, multi-rank part: sr.stochastic_reconfiguration_mpi(_uhf) run on R  *)
(* ranks performs exactly the serial comb on the rank-ordered concatenated *)
(* population, for every interleaving of the ranks.                        *)
(*                                                                         *)
(* Every rank executes the same program (the collectives in the code's     *)
(* order, CollNames(Uhf) of Comb.tla, with the root-only comb between the  *)
(* last Gather and the first Scatter, and finally returns its local        *)
(* output buffers):                                                        *)
(*                                                                         *)
(*     Gather* ; Comb (root only; the others skip) ; Scatter* ; Return     *)
(*                                                                         *)
(* A collective call is two steps of the calling rank: Arrive (the rank    *)
(* enters the call; its send buffer is read at that moment) and Complete   *)
(* (the call returns; its receive buffer is written at that moment).       *)
(* Collectives are matched by per-rank call order (slot[c] belongs to the  *)
(* c-th collective of every rank).  Two completion rules, both allowed by  *)
(* the MPI standard, are modelled:                                         *)
(*   Eager = FALSE  every collective is synchronising: it completes when   *)
(*                  ALL ranks have arrived;                                *)
(*   Eager = TRUE   the weakest rule: a non-root Gather returns as soon as *)
(*                  its data is deposited, the root's Gather waits for all *)
(*                  deposits; the root's Scatter returns at once, a        *)
(*                  non-root Scatter waits only for the root.              *)
(*                                                                         *)
(* Data: walker (r, j) carries the tag r*NPer + j (its index in the        *)
(* rank-ordered concatenation; the down block carries tag + DnOffset), so  *)
(* the invariant can say WHICH walker ended up where.  The exhaustive      *)
(* treatment of weights/offsets is CombCheck.tla's job; here a few weight  *)
(* vectors (zeros, all mass on one rank, unequal) suffice.                 *)
(*                                                                         *)
(* hist records the order in which ranks ARRIVE at collectives.  With      *)
(* EmitSchedules = TRUE every terminal state writes its hist to            *)
(* IOEnv.SCHED_OUT: these are the schedules the thread communicator        *)
(* (harness/threadcomm.py) replays against the real code, so "ranks        *)
(* calling in any interleaving" is explored with TLC-generated behaviours. *)
(***************************************************************************)
EXTENDS Comb, Json, IOUtils

CONSTANTS R,              \* number of ranks
          NPer,           \* walkers per rank (equal partition)
          Uhf,            \* BOOLEAN: unrestricted walkers (up and down blocks travel separately)
          Eager,          \* BOOLEAN: completion rule, see above
          EmitSchedules   \* BOOLEAN: record and write arrival histories (FALSE for the exhaustive proof)

Root    == 0
Ranks   == 0..(R - 1)
NTot    == R * NPer
None    == <<>>                     \* "no data yet"
DnOffset == 100

Colls   == CollNames(Uhf)
NGather == Len(Colls) \div 2
Prog    == SubSeq(Colls, 1, NGather) \o <<"Comb">> \o SubSeq(Colls, NGather + 1, Len(Colls)) \o <<"Return">>
IsColl(op)  == op \notin {"Comb", "Return"}
Field(op)   == IF op \in {"GatherUp", "ScatterUp"} THEN "up" ELSE IF op \in {"GatherDn", "ScatterDn"} THEN "dn" ELSE "w"
Fields      == {Field(Colls[k]) : k \in DOMAIN Colls}

(* weight vectors of the concatenated population used for the protocol check *)
WeightChoicesAll ==
  { [i \in 1..NTot |-> i],                                   \* all different
    [i \in 1..NTot |-> IF i <= NPer THEN 0 ELSE 3],          \* rank 0 holds only dead walkers
    [i \in 1..NTot |-> IF i = NTot THEN 5 ELSE 0],           \* all mass on the last rank's last walker
    [i \in 1..NTot |-> IF i % 2 = 0 THEN -2 ELSE 1] }        \* mixed signs
WeightChoices == {v \in WeightChoicesAll : Total(v) > 0}         \* W = 0 is outside the quantifier
OneChoice == [i \in 1..NTot |-> i]

VARIABLES
  wts,      \* the concatenated input weights (constant after Init)
  zp,       \* offset zeta = zp / (2 Total(wts))
  pc,       \* pc[r]: index into Prog of rank r's next operation; Len(Prog) + 1 = returned
  arrived,  \* arrived[r]: r is inside the collective Prog[pc[r]]
  slot,     \* slot[k][r]: data deposited for rank r in the k-th operation of Prog (None = nothing)
  gb,       \* root's global receive buffers   [up, dn, w]  (zeros until gathered)
  gbn,      \* root's global "new" buffers     [up, dn, w]  (zeros until combed)
  out,      \* out[r]: rank r's local output buffers [up, dn, w] (zeros until scattered)
  filled,   \* filled[r]: fields of out[r] written by a completed Scatter
  res,      \* res[r]: what rank r returned (zeros before Return)
  hist,     \* sequence of ranks in order of arrival at collectives (only if EmitSchedules)
  emitted
vars == <<wts, zp, pc, arrived, slot, gb, gbn, out, filled, res, hist, emitted>>

Zeros(n)  == [j \in 1..n |-> 0]
ZeroBuf(n) == [up |-> Zeros(n), dn |-> Zeros(n), w |-> Zeros(n)]

(* rank r's local input: its chunk of the tagged population *)
Inp(r) == [up |-> [j \in 1..NPer |-> r * NPer + j],
           dn |-> [j \in 1..NPer |-> r * NPer + j + DnOffset],
           w  |-> Chunk(wts, r, NPer)]

Init ==
  /\ wts \in (IF EmitSchedules THEN {OneChoice} ELSE WeightChoices)
  /\ zp \in (IF EmitSchedules THEN {1} ELSE {1, Total(wts), 2 * Total(wts) - 1})
  /\ pc = [r \in Ranks |-> 1]
  /\ arrived = [r \in Ranks |-> FALSE]
  /\ slot = [k \in DOMAIN Prog |-> [r \in Ranks |-> None]]
  /\ gb = ZeroBuf(NTot) /\ gbn = ZeroBuf(NTot)
  /\ out = [r \in Ranks |-> ZeroBuf(NPer)]
  /\ filled = [r \in Ranks |-> {}]
  /\ res = [r \in Ranks |-> ZeroBuf(NPer)]
  /\ hist = <<>> /\ emitted = FALSE

Op(r) == Prog[pc[r]]
Running(r) == pc[r] <= Len(Prog)

(* has rank q arrived at (or already left) the k-th operation? *)
ArrivedAt(q, k) == pc[q] > k \/ (pc[q] = k /\ arrived[q])

(* ---- a rank enters a collective: its send buffer is read now ---- *)
Arrive(r) ==
  /\ Running(r) /\ IsColl(Op(r)) /\ ~arrived[r]
  /\ arrived' = [arrived EXCEPT ![r] = TRUE]
  /\ LET k == pc[r] f == Field(Op(r)) IN
       IF CollKind(Op(r)) = "Gather"
       THEN slot' = [slot EXCEPT ![k][r] = Inp(r)[f]]                         \* every rank sends its local block
       ELSE IF r = Root
            THEN slot' = [slot EXCEPT ![k] = [q \in Ranks |-> Chunk(gbn[f], q, NPer)]]   \* root sends chunk q to q
            ELSE UNCHANGED slot                                                \* non-root passes sendbuf = None
  /\ hist' = IF EmitSchedules THEN Append(hist, r) ELSE hist
  /\ UNCHANGED <<wts, zp, pc, gb, gbn, out, filled, res, emitted>>

CanComplete(r) ==
  LET k == pc[r] IN
  IF ~Eager THEN \A q \in Ranks : ArrivedAt(q, k)
  ELSE IF CollKind(Op(r)) = "Gather"
       THEN (r = Root => \A q \in Ranks : ArrivedAt(q, k))
       ELSE ArrivedAt(Root, k)

(* ---- the call returns: its receive buffer is written now ---- *)
Complete(r) ==
  /\ Running(r) /\ IsColl(Op(r)) /\ arrived[r] /\ CanComplete(r)
  /\ LET k == pc[r] f == Field(Op(r)) IN
       IF CollKind(Op(r)) = "Gather"
       THEN /\ gb' = IF r = Root THEN [gb EXCEPT ![f] = Flat([q \in 1..R |-> slot[k][q - 1]])] ELSE gb
            /\ UNCHANGED <<out, filled>>
       ELSE /\ out' = [out EXCEPT ![r][f] = slot[k][r]]
            /\ filled' = [filled EXCEPT ![r] = @ \cup {f}]
            /\ UNCHANGED gb
  /\ pc' = [pc EXCEPT ![r] = @ + 1]
  /\ arrived' = [arrived EXCEPT ![r] = FALSE]
  /\ UNCHANGED <<wts, zp, slot, gbn, res, hist, emitted>>

(* ---- between the Gathers and the Scatters: only the root combs, on its global buffers ---- *)
CombStep(r) ==
  /\ Running(r) /\ Op(r) = "Comb"
  /\ IF r = Root
     THEN LET sel == RefSel(gb.w, zp, 2 * Total(gb.w))
              W   == Total(gb.w)
          IN  gbn' = [up |-> [j \in 1..NTot |-> gb.up[sel[j]]],
                      dn |-> IF Uhf THEN [j \in 1..NTot |-> gb.dn[sel[j]]] ELSE gbn.dn,
                      w  |-> [j \in 1..NTot |-> W]]                  \* new weight W/N in units of 1/NTot
     ELSE UNCHANGED gbn
  /\ pc' = [pc EXCEPT ![r] = @ + 1]
  /\ UNCHANGED <<wts, zp, arrived, slot, gb, out, filled, res, hist, emitted>>

(* ---- the function returns its local output buffers ---- *)
Return(r) ==
  /\ Running(r) /\ Op(r) = "Return"
  /\ res' = [res EXCEPT ![r] = out[r]]
  /\ pc' = [pc EXCEPT ![r] = @ + 1]
  /\ UNCHANGED <<wts, zp, arrived, slot, gb, gbn, out, filled, hist, emitted>>

Returned(r) == pc[r] > Len(Prog)
AllDone == \A r \in Ranks : Returned(r)

RECURSIVE Digits(_)
Digits(h) == IF Len(h) = 0 THEN "" ELSE ToString(Head(h)) \o Digits(Tail(h))

Emit ==
  /\ EmitSchedules /\ AllDone /\ ~emitted
  /\ emitted' = TRUE
  /\ ndJsonSerialize(IOEnv.SCHED_OUT \o "/" \o Digits(hist) \o ".json",
                     <<[ranks |-> R, uhf |-> Uhf, eager |-> Eager, sched |-> hist]>>)
  /\ UNCHANGED <<wts, zp, pc, arrived, slot, gb, gbn, out, filled, res, hist>>

(* explicit termination so that TLC's deadlock check means "some rank is stuck" *)
Finished == ~EmitSchedules /\ AllDone /\ UNCHANGED vars

Next == (\E r \in Ranks : Arrive(r) \/ Complete(r) \/ CombStep(r) \/ Return(r)) \/ Emit \/ Finished
Spec == Init /\ [][Next]_vars /\ WF_vars(Next)

-----------------------------------------------------------------------------
(* the serial comb on the rank-ordered concatenation *)
SerialSel == RefSel(wts, zp, 2 * Total(wts))
SerialUp  == [j \in 1..NTot |-> SerialSel[j]]                     \* tag of walker i is i
SerialDn  == [j \in 1..NTot |-> SerialSel[j] + DnOffset]
SerialW   == [j \in 1..NTot |-> Total(wts)]                      \* units of 1/NTot

(* every rank returns its chunk of the serial result *)
MPIEqualsSerialOnConcat ==
  \A r \in Ranks : Returned(r) =>
     /\ res[r].up = Chunk(SerialUp, r, NPer)
     /\ (Uhf => res[r].dn = Chunk(SerialDn, r, NPer))
     /\ res[r].w = Chunk(SerialW, r, NPer)

(* no rank returns an output field before the matching Scatter has filled it *)
NoEarlyRead == \A r \in Ranks : Returned(r) => filled[r] = Fields

(* the root combs only complete global buffers *)
GatherCompleteBeforeComb ==
  (pc[Root] > NGather) => /\ gb.up = [j \in 1..NTot |-> j]
                           /\ (Uhf => gb.dn = [j \in 1..NTot |-> j + DnOffset])
                           /\ gb.w = wts

(* collectives are matched: nobody is ever more than the protocol allows ahead of the root *)
TypeOK == /\ \A r \in Ranks : pc[r] \in 1..(Len(Prog) + 1)
          /\ \A r \in Ranks : arrived[r] => (Running(r) /\ IsColl(Op(r)))

(* liveness: every rank returns (checked with WF on Next; deadlock freedom is TLC's own check) *)
Termination == <>AllDone
=============================================================================
