------------------------------- MODULE Weights -------------------------------
(***************************************************************************)
(* The life cycle of walker weights (C09): the per-walker update rules of  *)
(* the phaseless and constrained-path propagators written as exact case    *)
(* analysis INCLUDING the IEEE-754 behaviour of NaN and infinities (that is*)
(* exactly where such rules break), and a population-level machine         *)
(* (steps, population-control shift, reconfiguration).                     *)
(*                                                                         *)
(* A value is  [k |-> "num", n, d, u]  = (n/d) nudged by u ulps (u in      *)
(* -1..1; lets the model sit exactly on / just beside a threshold), or a   *)
(* token k in {"nan", "pinf", "ninf"}.                                     *)
(*                                                                         *)
(* Code anchors (ad_afqmc/propagation.py):                                 *)
(*   Phaseless      propagator.propagate: imp_fun_phaseless -> nan scrub,  *)
(*                  < 1e-3 -> 0, > 100 -> 0, weights *= , weights > 100->0 *)
(*   CpmcOneBody    propagate_one_body / slow propagators: weights *= Re   *)
(*                  ratio, weights < 1e-8 -> 0                             *)
(*   CpmcSite       per site: ratios < 1e-8 -> 0, weights *= (r0 + r1)/2   *)
(*   CpmcShift      weights *= exp(dt*shift), weights > 100 -> 0           *)
(*   Shift          pop_control_ene_shift = e - 0.1 log(sum w / N) / dt    *)
(*   SR             sr.stochastic_reconfiguration*: all weights = W / N    *)
(***************************************************************************)
EXTENDS Integers, Sequences, FiniteSets, FiniteSetsExt, SequencesExt, Json, IOUtils, TLC

Num(n, d)      == [k |-> "num", n |-> n, d |-> d, u |-> 0]
NumU(n, d, u)  == [k |-> "num", n |-> n, d |-> d, u |-> u]
NaN  == [k |-> "nan", n |-> 0, d |-> 1, u |-> 0]
PInf == [k |-> "pinf", n |-> 0, d |-> 1, u |-> 0]
NInf == [k |-> "ninf", n |-> 0, d |-> 1, u |-> 0]
Zero == Num(0, 1)

IsNaN(a) == a.k = "nan"
IsNum(a) == a.k = "num"
Sign(a) == CASE a.k = "pinf" -> 1 [] a.k = "ninf" -> -1 [] a.k = "nan" -> 0
             [] OTHER -> IF a.n > 0 THEN 1 ELSE IF a.n < 0 THEN -1 ELSE 0
RECURSIVE Gcd(_, _)
Gcd(a, b) == IF b = 0 THEN a ELSE Gcd(b, a % b)
Abs(x) == IF x < 0 THEN -x ELSE x
Norm(n, d, u) == IF n = 0 THEN NumU(0, 1, 0)
                 ELSE LET g == Gcd(Abs(n), d) IN NumU(n \div g, d \div g, u)

\* IEEE comparison: anything involving NaN is FALSE
Lt(a, b) ==
  IF IsNaN(a) \/ IsNaN(b) THEN FALSE
  ELSE IF a.k = "ninf" THEN b.k # "ninf"
  ELSE IF b.k = "pinf" THEN a.k # "pinf"
  ELSE IF a.k = "pinf" \/ b.k = "ninf" THEN FALSE
  ELSE LET l == a.n * b.d  r == b.n * a.d IN l < r \/ (l = r /\ a.u < b.u)
Gt(a, b) == Lt(b, a)
Eq0(a) == IsNum(a) /\ a.n = 0

\* IEEE product
Mul(a, b) ==
  IF IsNaN(a) \/ IsNaN(b) THEN NaN
  ELSE IF ~IsNum(a) \/ ~IsNum(b)
       THEN IF Eq0(a) \/ Eq0(b) THEN NaN                       \* 0 * inf
            ELSE IF Sign(a) * Sign(b) > 0 THEN PInf ELSE NInf
  ELSE Norm(a.n * b.n, a.d * b.d,
            IF a.u # 0 /\ b.u = 0 THEN a.u * Sign(b) ELSE IF b.u # 0 /\ a.u = 0 THEN b.u * Sign(a) ELSE 0)
Add(a, b) ==
  IF IsNaN(a) \/ IsNaN(b) THEN NaN
  ELSE IF ~IsNum(a) THEN (IF ~IsNum(b) /\ a.k # b.k THEN NaN ELSE a)
  ELSE IF ~IsNum(b) THEN b
  ELSE Norm(a.n * b.d + b.n * a.d, a.d * b.d, 0)

Where(c, x, y) == IF c THEN x ELSE y       \* jnp.where

\* The code's thresholds 1e-8 < 1e-3 < 100.  TLC integers are 32-bit, so the model uses the dyadic
\* stand-ins 1/64 < 1/8 < 8: only their order and the behaviour AT them matter for the rules.
T1e8 == Num(1, 64)
T1e3 == Num(1, 8)
T100 == Num(8, 1)

(***************************************************************************)
(* Per-walker rules.  f = |I| cos(theta) of the step (any value or token). *)
(***************************************************************************)
PhaselessFactor(f) ==
  LET f1 == Where(IsNaN(f), Zero, f)
      f2 == Where(Lt(f1, T1e3), Zero, f1)
  IN  Where(Gt(f2, T100), Zero, f2)
Phaseless(f, w) ==
  LET w1 == Mul(PhaselessFactor(f), w) IN Where(Gt(w1, T100), Zero, w1)

\* constrained path: one-body ratio r1, per-site half-ratios (r0, r1) already divided by 2, shift factor s
CpmcOneBody(r, w) == LET w1 == Mul(r, w) IN Where(Lt(w1, T1e8), Zero, w1)
CpmcSite(r0, r1, w) ==
  LET a == Where(Lt(r0, T1e8), Zero, r0)
      b == Where(Lt(r1, T1e8), Zero, r1)
  IN  Mul(Add(a, b), w)
CpmcShift(s, w) == LET w1 == Mul(s, w) IN Where(Gt(w1, T100), Zero, w1)
\* the same rule with the NaN scrub the phaseless rule has (what a repaired propagator does)
CpmcShiftScrub(s, w) == LET w1 == Mul(s, w)  w2 == Where(IsNaN(w1), Zero, w1) IN Where(Gt(w2, T100), Zero, w2)

(***************************************************************************)
(* Population machine.                                                     *)
(***************************************************************************)
CONSTANTS Walkers, Rule, MaxSteps      \* Rule in {"phaseless", "cpmc_fast", "cpmc_slow", "cpmc_fast_scrub", "cpmc_slow_scrub"}

VARIABLES w, shift, nsteps, lastWasSR
vars == <<w, shift, nsteps, lastWasSR>>

\* input classes for the overlap-ratio part of a step
\* (Num(1, 10) and Num(4, 1) stand for values just inside / outside the window, 7e-4 and 60: realised with a complex
\* importance function of sizeable phase they separate |I| cos(theta) from |I|, which lies on the other side of the edge)
FInputs == {NaN, PInf, NInf, Num(-1, 1), Zero, NumU(1, 8, -1), T1e3, Num(1, 2), Num(1, 1), Num(2, 1),
            T100, NumU(8, 1, 1), Num(1, 10), Num(4, 1)}
RInputs == {NaN, PInf, Num(-1, 2), Zero, NumU(1, 64, -1), T1e8, Num(1, 2), Num(1, 1), Num(2, 1)}
W0      == {Num(1, 1), Num(1, 4), Num(8, 1)}
\* population-level abstraction: after a step an in-window positive weight is represented by 1
\* (the step itself is evaluated exactly on W0 x inputs; the machine is about the shift feedback)
Canon(a) == IF IsNum(a) /\ a.n > 0 /\ a \notin W0 THEN Num(1, 1) ELSE a

Total(ww) == FoldSet(LAMBDA x, acc : Add(ww[x], acc), Zero, Walkers)
\* exp(dt * shift) for shift = e - 0.1 log(W/N)/dt
ShiftOf(tot) == IF IsNaN(tot) THEN "nan" ELSE IF tot.k = "pinf" THEN "ninf"
                ELSE IF Eq0(tot) THEN "pinf" ELSE IF Lt(tot, Zero) THEN "nan" ELSE "fin"
ShiftFactors(s) == CASE s = "fin" -> {Num(1, 2), Num(1, 1), Num(2, 1)}
                     [] s = "pinf" -> {PInf} [] s = "ninf" -> {Zero} [] s = "nan" -> {NaN}

Init == /\ w \in [Walkers -> W0] /\ shift = "fin" /\ nsteps = 0 /\ lastWasSR = FALSE

\* Ratios are o'/o with o the stored overlap: finite unless the stored overlap is 0.  The FAST
\* constrained-path propagators store overlap := ratio * overlap at every site, so a site at which both
\* field values are rejected (both half-ratios below the threshold) stores an overlap of exactly 0, and
\* the one-body half step that follows divides by it (ratio = +-inf or NaN).  The slow propagators store
\* the recomputed overlap of the selected field instead.
FiniteR == {r \in RInputs : IsNum(r)}
R1Inputs   == {Num(-1, 2), NumU(1, 64, -1), Num(1, 1)}          \* first one-body ratio
SiteInputs == {Zero, NumU(1, 64, -1), T1e8, Num(1, 1)}           \* per-site half ratios
BadR    == {NaN, PInf, NInf}
Fast    == Rule \in {"cpmc_fast", "cpmc_fast_scrub"}
Scrub   == Rule \in {"cpmc_fast_scrub", "cpmc_slow_scrub"}

CpmcStep(w0, s, r1, ra, rb, r2, rbad) ==
  LET w1  == CpmcOneBody(r1, w0)
      w2  == CpmcSite(ra, rb, w1)
      ovz == Fast /\ Lt(ra, T1e8) /\ Lt(rb, T1e8)
      w3  == CpmcOneBody(IF ovz THEN rbad ELSE r2, w2)
  IN  IF Scrub THEN CpmcShiftScrub(s, w3) ELSE CpmcShift(s, w3)

Step ==
  /\ nsteps < MaxSteps
  /\ \E s \in ShiftFactors(shift) :
       IF Rule = "phaseless"
       THEN \E f \in [Walkers -> FInputs] :
               w' = [x \in Walkers |-> Canon(Phaseless(Mul(s, f[x]), w[x]))]
       ELSE \E r1 \in [Walkers -> R1Inputs], ra \in [Walkers -> SiteInputs], rb \in [Walkers -> SiteInputs],
               r2 \in [Walkers -> {Num(1, 2), Num(2, 1)}], rbad \in BadR :
               w' = [x \in Walkers |-> Canon(CpmcStep(w[x], s, r1[x], ra[x], rb[x], r2[x], rbad))]
  /\ shift' = ShiftOf(Total(w'))
  /\ nsteps' = nsteps + 1 /\ lastWasSR' = FALSE

SR ==
  /\ ~lastWasSR
  /\ LET tot == Total(w) IN
     /\ IsNum(tot) /\ tot.n > 0
     /\ w' = [x \in Walkers |-> Canon(Norm(tot.n, tot.d * Cardinality(Walkers), 0))]
  /\ lastWasSR' = TRUE /\ UNCHANGED <<shift, nsteps>>

Next == Step \/ SR
Spec == Init /\ [][Next]_vars

\* ---------------------------------------------------------------- spec -> code: the one-step table
\* Every (f, w0) of the phaseless rule with its exact result; the harness realises each row in the real
\* propagator.propagate through a trial proxy with prescribed overlaps (one TLC row = one implementation test).
TableRows == SetToSeq({<<f, w0>> : f \in FInputs, w0 \in W0 \cup {Zero}})
WriteTable ==
  ndJsonSerialize(IOEnv.WEIGHT_TABLE,
     [i \in DOMAIN TableRows |-> [f |-> TableRows[i][1], w0 |-> TableRows[i][2],
                                  fac |-> PhaselessFactor(TableRows[i][1]),
                                  r |-> Phaseless(TableRows[i][1], TableRows[i][2])]])
TableInit == /\ w = [x \in Walkers |-> Zero] /\ shift = "fin" /\ nsteps = 0 /\ lastWasSR = FALSE
             /\ WriteTable
TableSpec == TableInit /\ [][FALSE]_vars

\* ---------------------------------------------------------------- properties
WeightDomain == \A x \in Walkers : IsNum(w[x]) /\ w[x].n >= 0
DeadStaysDead == [][\A x \in Walkers : (Eq0(w[x]) /\ ~lastWasSR') => Eq0(w'[x])]_vars
ShiftFiniteWhileAlive == (\E x \in Walkers : IsNum(w[x]) /\ w[x].n > 0) => shift = "fin"
WeightWindow == \A x \in Walkers : IsNum(w[x]) => ~Gt(w[x], T100)
\* exact one-step checks over W0 x inputs (constant level)
PhaselessOneStep ==
  \A f \in FInputs, s \in {Num(1, 2), Num(1, 1), Num(2, 1), PInf, Zero}, w0 \in W0 \cup {Zero} :
     LET r == Phaseless(Mul(s, f), w0) IN
     /\ IsNum(r) /\ r.n >= 0 /\ ~Gt(r, T100)
     /\ (Eq0(w0) => Eq0(r))
\* a single phaseless step multiplies a weight by 0 or by a factor inside [1e-3, 100]
FactorWindow ==
  \A f \in FInputs : LET g == PhaselessFactor(f) IN Eq0(g) \/ (IsNum(g) /\ ~Lt(g, T1e3) /\ ~Gt(g, T100))
=============================================================================
