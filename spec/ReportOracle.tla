---------------------------- MODULE ReportOracle ----------------------------
(***************************************************************************)
(* Spec -> code direction for Report.tla.  The harness fixes what every    *)
(* rank's sampler call returns in every block (small integers, non-finite  *)
(* observables / density-matrix norms included) - env REPORT_REQ - and     *)
(* TLC runs Report.tla on exactly that input: every terminal state (there  *)
(* are several only if a row lies exactly on the 10 MAD edge) is written   *)
(* to REPORT_OUT/<k>.json.  The harness then runs the REAL driver.afqmc    *)
(* with a scripted sampler that returns the same values and compares what  *)
(* the driver wrote and returned with one of the terminal states: the      *)
(* table (samples_raw.dat, every dump), the kept rows (samples.dat), the   *)
(* returned energy and error bar, the large-deviation count, the kept      *)
(* density-matrix samples.  All design invariants are checked on the way.  *)
(***************************************************************************)
EXTENDS Report, StatsBig, Json, IOUtils, TLCExt

Req == ndJsonDeserialize(IOEnv.REPORT_REQ)[1]
RawOf(x) == [w |-> x[1], e |-> x[2], o |-> x[3], nrm |-> x[4]]

VARIABLE emitted
ovars == <<vars, emitted>>

OInit == Init /\ emitted = FALSE
OSample == SampleWith([r \in Ranks |-> RawOf(Req.raw[n + 1][r])]) /\ UNCHANGED emitted
\* the error bar is evaluated with StatsBig.tla (big rationals, any table size): all squared per-block-size errors
\* and the set of outcomes the plateau rule admits (0 = "None", reported as 0.0; k = max(err_k, err_k-1))
OEnergy == EnergyWith([e |-> BlockingMean(Col(cleanRows, "w"), Col(cleanRows, "e"), 0), err2 |-> <<0, 1>>]) /\ UNCHANGED emitted
ErrsOf(rows) == LET st == BStats(Col(rows, "w"), Col(rows, "e")) IN [k \in 1..Len(st) |-> BigErr2(st[k])]
OEmit ==
  /\ pc = "done" /\ ~emitted /\ emitted' = TRUE /\ UNCHANGED vars
  /\ TLCSet(7, TLCGet(7) + 1)
  /\ ndJsonSerialize(IOEnv.REPORT_OUT \o "/" \o ToString(TLCGet(7)) \o ".json",
       << [table |-> [i \in 1..Len(rawFile) |-> <<rawFile[i].w, rawFile[i].e, rawFile[i].o, rawFile[i].nrm>>],
           mask |-> cleanMask,
           clean |-> [i \in 1..Len(cleanRows) |-> <<cleanRows[i].w, cleanRows[i].e, cleanRows[i].o>>],
           e |-> result.e,
           errs |-> LET er == ErrsOf(cleanRows) IN [k \in 1..Len(er) |-> [n |-> er[k].n, d |-> er[k].d]],
           accept |-> LET er == ErrsOf(cleanRows) IN SetToSortSeq(BAccept([k \in 1..Len(er) |-> BClass(er, k)]), <),
           obs |-> IF HasObs THEN result.obs ELSE <<0, 0>>,
           large |-> largeTotal, dumps |-> SetToSortSeq(dumps, <),
           be |-> beHist, est |-> eEst,
           rdm_kept |-> SetToSortSeq(rdmKept, LAMBDA a, b : a[1] < b[1] \/ (a[1] = b[1] /\ a[2] < b[2]))] >>)
ONext == OSample \/ OEnergy \/ ((Gather \/ Update \/ Dump \/ Reduce \/ PostRaw \/ Clean \/ Obs \/ Rdm) /\ UNCHANGED emitted) \/ OEmit
OSpec == OInit /\ [][ONext]_ovars
ASSUME TLCSet(7, 0)
=============================================================================
