------------------------------- MODULE CombGrid -------------------------------
(***************************************************************************)
(* spec -> code for C07: TLC enumerates the states (w, offset cell) that   *)
(* the harness replays into the real library.                              *)
(*                                                                         *)
(*  InitEnum  every signed weight vector with N in 1..NMax, |w_i| <= WMax, *)
(*            W > 0 (the same state space CombCheck.tla proves the         *)
(*            reference model on); cells = the 1/W grid (FineCells) -      *)
(*            a refinement of every comb's breakpoint partition, so an     *)
(*            implementation with a different but valid accumulation order *)
(*            is integrated exactly as well.                               *)
(*  InitFile  weight vectors proposed by the harness (IOEnv.GRID_IN, one   *)
(*            [id, w] per line) whose W is too large for the 1/W grid      *)
(*            (weights of very different magnitude): cells = BreakCells,   *)
(*            the intervals between consecutive breakpoints                *)
(*            frac(N Cum_k / W) of the cumulative-sum comb.                *)
(*                                                                         *)
(* One state per weight vector; Emit writes [w, cells] to IOEnv.GRID_OUT.  *)
(* The offset replayed for a cell is its midpoint Mid(cell)/(2W).          *)
(***************************************************************************)
EXTENDS Comb, Json, IOUtils

CONSTANTS NMax, WMax

VARIABLES w, src, done
vars == <<w, src, done>>

Vectors == ndJsonDeserialize(IOEnv.GRID_IN)

InitEnum == /\ w \in {v \in UNION {[1..n -> (-WMax)..WMax] : n \in 1..NMax} : Total(v) > 0}
            /\ src = 0 /\ done = FALSE
InitFile == /\ src \in DOMAIN Vectors
            /\ w = Vectors[src].w
            /\ done = FALSE

RECURSIVE Name(_)
Name(v) == IF Len(v) = 0 THEN "" ELSE ToString(Head(v) + WMax) \o "_" \o Name(Tail(v))

Emit == /\ ~done /\ done' = TRUE /\ UNCHANGED <<w, src>>
        /\ IF src = 0
           THEN ndJsonSerialize(IOEnv.GRID_OUT \o "/" \o Name(w) \o ".json",
                                <<[id |-> 0, w |-> w, kind |-> "fine", cells |-> FineCells(w)]>>)
           ELSE ndJsonSerialize(IOEnv.GRID_OUT \o "/f" \o ToString(Vectors[src].id) \o ".json",
                                <<[id |-> Vectors[src].id, w |-> w, kind |-> "break", cells |-> BreakCells(w)]>>)
Next == Emit
SpecEnum == InitEnum /\ [][Next]_vars
SpecFile == InitFile /\ [][Next]_vars
=============================================================================
