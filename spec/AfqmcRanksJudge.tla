-------------------------- MODULE AfqmcRanksJudge --------------------------
(***************************************************************************)
(* Judge for multi-rank driver runs recorded through the scheduler-        *)
(* controlled thread communicator (harness/threadcomm.py).  A record is    *)
(*   [id, neql, nblocks, uhf, rdm, seqs, completed, eest_agree, sr_ok,     *)
(*    result_agree]                                                        *)
(*   seqs[r]      the collectives rank r ARRIVED at, in its own order      *)
(*   completed    every collective that was started completed for all      *)
(*   eest_agree, sr_ok, result_agree : booleans measured on the run        *)
(*     (all ranks hold the same e_estimate at every sampler entry; global  *)
(*     reconfiguration = equal weights on all ranks, total conserved,      *)
(*     copies only; every rank returns the same (energy, error))           *)
(* Verdict: each rank's sequence must be exactly ProgramOf(run parameters).*)
(***************************************************************************)
EXTENDS AfqmcRanksDefs, Json, IOUtils

Recs == ndJsonDeserialize(IOEnv.RANKS_RECS)

FirstDiff(a, b) ==
  LET n == IF Len(a) < Len(b) THEN Len(a) ELSE Len(b)
      d == {i \in 1..n : a[i] # b[i]}
  IN  IF d # {} THEN CHOOSE i \in d : \A j \in d : i <= j
      ELSE IF Len(a) # Len(b) THEN n + 1 ELSE 0

Verdict(r) ==
  LET prog == ProgramOf(r.neql, r.nblocks, r.uhf, r.rdm)
      diffs == [k \in DOMAIN r.seqs |-> FirstDiff(r.seqs[k], prog)]
      badr == {k \in DOMAIN r.seqs : diffs[k] # 0}
  IN  [id |-> r.id, program_len |-> Len(prog),
       ok |-> badr = {} /\ r.completed /\ r.eest_agree /\ r.sr_ok /\ r.result_agree,
       clause |-> IF badr # {} THEN "CollectiveProgram" ELSE IF ~r.completed THEN "Completion"
                  ELSE IF ~r.eest_agree THEN "EstimateAgrees" ELSE IF ~r.sr_ok THEN "GlobalReconfiguration"
                  ELSE IF ~r.result_agree THEN "ResultAgrees" ELSE "",
       bad_rank |-> IF badr = {} THEN 0 ELSE CHOOSE k \in badr : TRUE,
       at |-> IF badr = {} THEN 0 ELSE diffs[CHOOSE k \in badr : TRUE],
       expected |-> IF badr = {} THEN "" ELSE
                      (LET k == CHOOSE q \in badr : TRUE IN IF diffs[k] <= Len(prog) THEN prog[diffs[k]] ELSE "<end>")]

VARIABLES idx, done
vars == <<idx, done>>
Init == idx \in DOMAIN Recs /\ done = FALSE
Judge == /\ ~done /\ done' = TRUE /\ UNCHANGED idx
         /\ ndJsonSerialize(IOEnv.RANKS_OUT \o "/" \o ToString(Recs[idx].id) \o ".json", <<Verdict(Recs[idx])>>)
Spec == Init /\ [][Judge]_vars
=============================================================================
