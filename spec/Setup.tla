------------------------------- MODULE Setup -------------------------------
(***************************************************************************)
(* The set-up routine `ad_afqmc.mpi_jax._prep_afqmc(options)` as a state   *)
(* machine: what it reads from the working directory, how the option       *)
(* dictionary is completed, which trial / propagator / sampler objects it  *)
(* builds and HOW IT FAILS, one action per section of the code, in code    *)
(* order (the order decides which failure wins):                           *)
(*                                                                         *)
(*   LoadOptions   options argument, else options.bin, else {} (a bare     *)
(*                 `except:` swallows a missing AND a corrupt file)        *)
(*   Defaults      options[k] = options.get(k, default) for 21 keys;       *)
(*                 `assert ad_mode in [None, forward, reverse, 2rdm]`      *)
(*   Observable    observable.h5 -> [op, constant], op stacked twice iff   *)
(*                 walker_type == "uhf"; missing/corrupt -> None           *)
(*   BuildTrial    rhf | uhf | noci | cisd | ucisd | anything else ->      *)
(*                 trial.pkl (missing/corrupt -> trial None, NOT an error) *)
(*   BuildProp     walker_type rhf -> propagator_restricted,               *)
(*                 uhf -> propagator_unrestricted (10 Taylor terms iff     *)
(*                 free_projection), anything else -> no propagator at all *)
(*   Return        UnboundLocalError if no propagator was built            *)
(*                                                                         *)
(* Deliberate deviations of the code from an idealised set-up are modelled *)
(* as they are, and named: SwallowedCorruptOptions, NociWithoutDets        *)
(* (uncaught FileNotFoundError), UnknownWalkerType (UnboundLocalError at   *)
(* the return statement, i.e. AFTER every trial failure), PickledTrial-    *)
(* IgnoresBatch (n_batch of a trial read from trial.pkl is whatever was    *)
(* pickled), SeedDrawn (an absent seed is drawn from 1..10^6-1).           *)
(*                                                                         *)
(* An instance `inst` describes the working directory and the call:        *)
(*   src   "arg" | "file" | "corrupt" | "nofile"   where options come from *)
(*   g     the GIVEN options (only read when src is arg or file):          *)
(*         trial  "absent"|"none"|"rhf"|"uhf"|"noci"|"cisd"|"ucisd"|"other"*)
(*         wt     "absent"|"rhf"|"uhf"|"ghf"                               *)
(*         fp,sym "absent"|"true"|"false"                                  *)
(*         nb     0 (absent) | 1 | 2 ...                                   *)
(*         adm    "absent"|"none"|"forward"|"reverse"|"2rdm"|"bogus"       *)
(*         nums   TRUE iff the numeric keys (dt, n_walkers, sampler        *)
(*                counts, n_eql, seed, ene0 ...) are given (GivenNums)     *)
(*   amp   "none"|"r"|"u"|"junk"   amplitudes.npz                          *)
(*   tpkl  "none"|"valid"|"corrupt"  trial.pkl (a pickled uhf trial,       *)
(*                                   n_batch 1, keys {mo_coeff})           *)
(*   obsf  "none"|"valid"|"corrupt"  observable.h5                         *)
(*   dets  "none"|"valid"            dets.pkl (two determinants)           *)
(*   shell "closed"|"open"           header (nelec, ms)                    *)
(* The module is used twice: exhaustively over DesignDomain (theorems      *)
(* below), and as the oracle for instances chosen by the harness, whose    *)
(* expected final record is written to SETUP_OUT/<id>.json and compared    *)
(* with what the real routine returned / raised in a real directory.       *)
(***************************************************************************)
EXTENDS Naturals, Sequences, FiniteSets, TLC, Json, IOUtils, SequencesExt

CONSTANT Design      \* TRUE: explore DesignDomain; FALSE: instances from the file named by env SETUP_INSTS

TrialOpts == {"absent", "none", "rhf", "uhf", "noci", "cisd", "ucisd", "other"}
WtOpts    == {"absent", "rhf", "uhf", "ghf"}
Tri       == {"absent", "true", "false"}
AdmOpts   == {"absent", "none", "forward", "reverse", "2rdm", "bogus"}
SymOpts   == Tri
ObsOpts   == {"none", "valid", "corrupt"}
\* smaller value sets for the quick exhaustive run (cfg: AdmOpts <- QuickAdm, ...); every failure class stays reachable
QuickAdm  == {"absent", "forward", "bogus"}
QuickSym  == {"absent", "true"}
QuickNb   == {0, 2}
QuickObs  == {"none", "valid"}

NbOpts    == {0, 1, 2}
Given == [trial : TrialOpts, wt : WtOpts, fp : Tri, sym : SymOpts, nb : NbOpts,
          adm : AdmOpts, nums : BOOLEAN]
NoGiven == [trial |-> "absent", wt |-> "absent", fp |-> "absent", sym |-> "absent", nb |-> 0,
            adm |-> "absent", nums |-> FALSE]
Dirs == [amp : {"none", "r", "u", "junk"}, tpkl : {"none", "valid", "corrupt"},
         obsf : ObsOpts, dets : {"none", "valid"}, shell : {"closed", "open"}]

\* Design mode: the directory and the source are chosen initially, the given options when they are read
\* (LoadOptions); they are only read through src = arg / file (NoGiven is the canonical value otherwise)
Srcs == {"arg", "file", "corrupt", "nofile"}

FileInsts == IF Design THEN <<>> ELSE ndJsonDeserialize(IOEnv.SETUP_INSTS)
InstOf(r) == [src |-> r.src, g |-> r.g, d |-> r.d]

\* numeric keys: value in units chosen by the harness (dt in 1e-3, ene0 in 1e-1, the rest integers)
NumKeys == <<"dt", "n_walkers", "n_prop_steps", "n_ene_blocks", "n_sr_blocks", "n_blocks",
             "n_ene_blocks_eql", "n_sr_blocks_eql", "n_eql", "ene0x10", "seed">>
DefaultNums == [dt |-> 10, n_walkers |-> 50, n_prop_steps |-> 50, n_ene_blocks |-> 50, n_sr_blocks |-> 1,
                n_blocks |-> 50, n_ene_blocks_eql |-> 5, n_sr_blocks_eql |-> 10, n_eql |-> 1, ene0x10 |-> 0,
                seed |-> 0]      \* seed 0 = "drawn" (SeedDrawn): the harness checks the range 1..10^6-1
GivenNums   == [dt |-> 20, n_walkers |-> 7, n_prop_steps |-> 3, n_ene_blocks |-> 4, n_sr_blocks |-> 2,
                n_blocks |-> 6, n_ene_blocks_eql |-> 8, n_sr_blocks_eql |-> 9, n_eql |-> 11, ene0x10 |-> 15,
                seed |-> 17]

VARIABLES inst, id, pc, base, opts, obs, trial, prop, outcome
vars == <<inst, id, pc, base, opts, obs, trial, prop, outcome>>

NoTrial == [class |-> "None", nb |-> 0, keys |-> <<>>]
NoProp  == [class |-> "None", nb |-> 0, terms |-> 0, mask |-> "none"]
NoOpts  == [trial |-> "none", wt |-> "rhf", fp |-> FALSE, sym |-> FALSE, nb |-> 0, adm |-> "none",
            osr |-> TRUE, orot |-> TRUE, save |-> FALSE, nums |-> DefaultNums]

Init == /\ IF Design THEN \E s \in Srcs, d \in Dirs : inst = [src |-> s, g |-> NoGiven, d |-> d] /\ id = 0
                     ELSE \E i \in DOMAIN FileInsts : inst = InstOf(FileInsts[i]) /\ id = FileInsts[i].id
        /\ pc = "load" /\ base = NoGiven /\ opts = NoOpts /\ obs = "none"
        /\ trial = NoTrial /\ prop = NoProp /\ outcome = "running"

Fail(what) == /\ outcome' = what /\ pc' = "done"

\* ---- options = argument, else pickle.load(options.bin), else {} --------------------------------
LoadOptions ==
  /\ pc = "load"
  /\ IF Design /\ inst.src \in {"arg", "file"}
     THEN \E g \in Given : inst' = [inst EXCEPT !.g = g] /\ base' = g
     ELSE /\ inst' = inst
          /\ base' = IF inst.src \in {"arg", "file"} THEN inst.g ELSE NoGiven     \* SwallowedCorruptOptions
  /\ pc' = "defaults"
  /\ UNCHANGED <<id, opts, obs, trial, prop, outcome>>

TriDefault(v, dflt) == IF v = "absent" THEN dflt ELSE v = "true"

\* ---- options[k] = options.get(k, default); assert on ad_mode ------------------------------------
Defaults ==
  /\ pc = "defaults"
  /\ opts' = [trial |-> IF base.trial = "absent" THEN "none" ELSE base.trial,
              wt    |-> IF base.wt = "absent" THEN "rhf" ELSE base.wt,
              fp    |-> TriDefault(base.fp, FALSE),
              sym   |-> TriDefault(base.sym, FALSE),
              nb    |-> IF base.nb = 0 THEN 1 ELSE base.nb,
              adm   |-> IF base.adm = "absent" THEN "none" ELSE base.adm,
              osr   |-> TRUE, orot |-> TRUE, save |-> FALSE,
              nums  |-> IF base.nums THEN GivenNums ELSE DefaultNums]
  /\ IF base.adm = "bogus" THEN Fail("AssertionError") ELSE pc' = "observable" /\ outcome' = outcome
  /\ UNCHANGED <<inst, id, base, obs, trial, prop>>

\* ---- observable.h5 ------------------------------------------------------------------------------
Observable ==
  /\ pc = "observable"
  /\ obs' = IF inst.d.obsf = "valid" THEN (IF opts.wt = "uhf" THEN "stacked" ELSE "single") ELSE "none"
  /\ pc' = "trial"
  /\ UNCHANGED <<inst, id, base, opts, trial, prop, outcome>>

Closed == inst.d.shell = "closed"

\* ---- the trial branch ---------------------------------------------------------------------------
BuildTrial ==
  /\ pc = "trial"
  /\ CASE opts.trial = "rhf" ->
            IF Closed
            THEN trial' = [class |-> "rhf", nb |-> opts.nb, keys |-> <<"mo_coeff", "rdm1">>]
                 /\ pc' = "prop" /\ outcome' = outcome
            ELSE trial' = trial /\ Fail("AssertionError")           \* wavefunctions.rhf.__post_init__
       [] opts.trial = "uhf" ->
            trial' = [class |-> "uhf", nb |-> opts.nb, keys |-> <<"mo_coeff", "rdm1">>]
            /\ pc' = "prop" /\ outcome' = outcome
       [] opts.trial = "noci" ->
            IF inst.d.dets = "valid"
            THEN trial' = [class |-> "noci", nb |-> opts.nb, keys |-> <<"ci_coeffs_dets", "rdm1">>]
                 /\ pc' = "prop" /\ outcome' = outcome
            ELSE trial' = trial /\ Fail("crashed:FileNotFoundError")  \* NociWithoutDets
       [] opts.trial = "cisd" ->
            IF inst.d.amp = "r"
            THEN trial' = [class |-> "cisd", nb |-> opts.nb, keys |-> <<"ci1", "ci2", "rdm1">>]
                 /\ pc' = "prop" /\ outcome' = outcome
            ELSE trial' = trial /\ Fail("ValueError")
       [] opts.trial = "ucisd" ->
            IF inst.d.amp = "u"
            THEN trial' = [class |-> "ucisd", nb |-> opts.nb,
                           keys |-> <<"ci1A", "ci1B", "ci2AA", "ci2AB", "ci2BB", "mo_coeff", "rdm1">>]
                 /\ pc' = "prop" /\ outcome' = outcome
            ELSE trial' = trial /\ Fail("ValueError")
       [] OTHER ->                                                  \* "none" and unknown names: trial.pkl
            /\ trial' = IF inst.d.tpkl = "valid"
                        THEN [class |-> "uhf", nb |-> 1, keys |-> <<"mo_coeff", "rdm1">>]  \* PickledTrialIgnoresBatch
                        ELSE [class |-> "None", nb |-> 0, keys |-> <<"rdm1">>]
            /\ pc' = "prop" /\ outcome' = outcome
  /\ UNCHANGED <<inst, id, base, opts, obs, prop>>

\* ---- the propagator branch ----------------------------------------------------------------------
BuildProp ==
  /\ pc = "prop"
  /\ prop' = CASE opts.wt = "rhf" -> [class |-> "propagator_restricted", nb |-> opts.nb, terms |-> 6,
                                       mask |-> IF opts.sym THEN "pattern" ELSE "ones"]
               [] opts.wt = "uhf" -> [class |-> "propagator_unrestricted", nb |-> opts.nb,
                                       terms |-> IF opts.fp THEN 10 ELSE 6,
                                       mask |-> IF opts.sym THEN "pattern" ELSE "ones"]
               [] OTHER -> NoProp                                    \* UnknownWalkerType
  /\ pc' = "return"
  /\ UNCHANGED <<inst, id, base, opts, obs, trial, outcome>>

Return ==
  /\ pc = "return"
  /\ IF prop.class = "None" THEN Fail("crashed:UnboundLocalError")
     ELSE /\ pc' = "done"
          /\ outcome' = IF trial.class = "None" THEN "no_trial" ELSE "ok"
  /\ UNCHANGED <<inst, id, base, opts, obs, trial, prop>>

\* what the harness compares with the real call (the objects only when something was returned)
Expected ==
  [id |-> id, outcome |-> outcome,
   opts |-> IF outcome \in {"ok", "no_trial"} THEN opts ELSE NoOpts,
   obs |-> IF outcome \in {"ok", "no_trial"} THEN obs ELSE "none",
   trial |-> IF outcome \in {"ok", "no_trial"} THEN trial ELSE NoTrial,
   prop |-> IF outcome \in {"ok", "no_trial"} THEN prop ELSE NoProp]

Emit ==
  /\ pc = "done" /\ ~Design
  /\ pc' = "emitted"
  /\ ndJsonSerialize(IOEnv.SETUP_OUT \o "/" \o ToString(id) \o ".json", <<Expected>>)
  /\ UNCHANGED <<inst, id, base, opts, obs, trial, prop, outcome>>

Next == LoadOptions \/ Defaults \/ Observable \/ BuildTrial \/ BuildProp \/ Return \/ Emit
Spec == Init /\ [][Next]_vars

-----------------------------------------------------------------------------
(* Theorems about the set-up, model-checked over every source, directory and given-option combination *)

Outcomes == {"ok", "no_trial", "ValueError", "AssertionError", "crashed:FileNotFoundError",
             "crashed:UnboundLocalError"}
Finished == pc \in {"done", "emitted"}

TypeOK == /\ pc \in {"load", "defaults", "observable", "trial", "prop", "return", "done", "emitted"}
          /\ outcome \in Outcomes \cup {"running"}
          /\ Finished <=> outcome # "running"

\* every call terminates in one of six ways
Total == Finished => outcome \in Outcomes

\* a returned trial is the one that was asked for, batched as asked - except PickledTrialIgnoresBatch
TrialAsAsked ==
  (Finished /\ outcome = "ok") =>
     /\ opts.trial \in {"rhf", "uhf", "noci", "cisd", "ucisd"} => trial.class = opts.trial /\ trial.nb = opts.nb
     /\ opts.trial \in {"none", "other"} => inst.d.tpkl = "valid" /\ trial.nb = 1
     /\ trial.class = "rhf" => Closed
     /\ trial.class = "cisd" => inst.d.amp = "r"
     /\ trial.class = "ucisd" => inst.d.amp = "u"

\* the propagator follows walker_type; ten Taylor terms exactly for free projection with unrestricted walkers
PropAsAsked ==
  (Finished /\ outcome \in {"ok", "no_trial"}) =>
     /\ prop.class = (IF opts.wt = "rhf" THEN "propagator_restricted" ELSE "propagator_unrestricted")
     /\ opts.wt \in {"rhf", "uhf"}
     /\ prop.nb = opts.nb
     /\ prop.terms = 10 <=> (opts.wt = "uhf" /\ opts.fp)
     /\ prop.mask = "pattern" <=> opts.sym
     /\ obs = "stacked" => opts.wt = "uhf"

\* without usable options everything is the default, whatever the directory holds
DefaultsWithoutOptions ==
  (Finished /\ inst.src \in {"corrupt", "nofile"} /\ outcome \in {"ok", "no_trial"}) =>
     /\ opts.nums = DefaultNums /\ opts.wt = "rhf" /\ opts.trial = "none" /\ ~opts.fp /\ opts.nb = 1
     /\ prop.class = "propagator_restricted" /\ prop.terms = 6 /\ prop.mask = "ones"
     /\ outcome = "ok" <=> inst.d.tpkl = "valid"

\* failure precedence: a bogus ad_mode wins over everything, a trial failure wins over an unknown walker type
Precedence ==
  Finished =>
     /\ base.adm = "bogus" => outcome = "AssertionError" /\ trial = NoTrial /\ prop = NoProp /\ obs = "none"
     /\ outcome = "AssertionError" => base.adm = "bogus" \/ (opts.trial = "rhf" /\ ~Closed)
     /\ outcome = "crashed:UnboundLocalError" => opts.wt = "ghf" /\ base.adm # "bogus"
     /\ outcome = "ValueError" => opts.trial \in {"cisd", "ucisd"}
     /\ outcome = "crashed:FileNotFoundError" => opts.trial = "noci" /\ inst.d.dets = "none"

\* the completed dictionary is a fixed point: feeding the returned options back as the argument in the same
\* directory gives the same result (the harness replays exactly this)
Regiven(o) == [trial |-> o.trial, wt |-> o.wt, fp |-> IF o.fp THEN "true" ELSE "false",
               sym |-> IF o.sym THEN "true" ELSE "false", nb |-> o.nb, adm |-> o.adm, nums |-> o.nums = GivenNums]
FixedPointWitness ==        \* evaluated as a state predicate: Defaults applied to Regiven(opts) returns opts
  (Finished /\ outcome \in {"ok", "no_trial"}) =>
     LET b == Regiven(opts) IN
       /\ b.trial = opts.trial /\ b.wt = opts.wt /\ TriDefault(b.fp, FALSE) = opts.fp
       /\ TriDefault(b.sym, FALSE) = opts.sym /\ (IF b.nb = 0 THEN 1 ELSE b.nb) = opts.nb
       /\ (IF b.nums THEN GivenNums ELSE DefaultNums) = opts.nums

\* witnesses (expected to be VIOLATED): every outcome is reachable
NeverOk == outcome # "ok"
NeverNoTrial == outcome # "no_trial"
NeverValueError == outcome # "ValueError"
NeverUnbound == outcome # "crashed:UnboundLocalError"
NeverFileNotFound == outcome # "crashed:FileNotFoundError"
=============================================================================
