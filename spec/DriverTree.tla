----------------------------- MODULE DriverTree -----------------------------
(***************************************************************************)
(* The SHAPE of prop_data (its set of dictionary keys = its pytree         *)
(* structure) along a run of driver.afqmc - specification beyond the       *)
(* listed properties, written after a seeded-change agent noticed that the *)
(* driver fails for n_eql = 0 in forward mode.                             *)
(*                                                                         *)
(*   init_prop_data        creates  weights, walkers, e_estimate,          *)
(*                                  pop_control_ene_shift, overlaps (+key) *)
(*   every sampler entry   stores   n_killed_walkers (a NEW key the first  *)
(*                                  time any entry point runs)             *)
(*   before the sampling loop the driver builds prop_data_tangent once,    *)
(*                         with the keys prop_data has AT THAT MOMENT      *)
(*   forward mode          jax.jvp(f, (.., prop_data), (.., tangent))      *)
(*                         needs identical tree structures, else TypeError *)
(*   reverse / 2rdm mode   jax.vjp takes no tangent: no such requirement   *)
(*                                                                         *)
(* TLC: StructuresAgree holds iff NEql > 0 or the mode is not forward; for *)
(* NEql = 0 and forward mode the SECOND sampling block raises.  The        *)
(* harness runs the real driver for the same (NEql, mode) grid and the     *)
(* outcome (completes / raises in block k) must be the specification's.    *)
(***************************************************************************)
EXTENDS Integers, FiniteSets

CONSTANTS NEql, NBlocks, AdMode     \* AdMode \in {"none", "forward", "reverse", "2rdm"}

BaseKeys == {"weights", "walkers", "e_estimate", "pop_control_ene_shift", "overlaps", "key"}
EntryKeys == {"n_killed_walkers"}

VARIABLES pc, keys, tangent, block, raisedAt
vars == <<pc, keys, tangent, block, raisedAt>>

Init == pc = "eql" /\ keys = BaseKeys /\ tangent = {} /\ block = 0 /\ raisedAt = 0

Eql ==          \* the equilibration blocks: plain entry point, no differentiation
  /\ pc = "eql"
  /\ IF block < NEql THEN keys' = keys \cup EntryKeys /\ block' = block + 1 /\ pc' = "eql"
                      ELSE keys' = keys /\ block' = 0 /\ pc' = "tangent"
  /\ UNCHANGED <<tangent, raisedAt>>
BuildTangent == /\ pc = "tangent" /\ tangent' = keys /\ pc' = "sample" /\ UNCHANGED <<keys, block, raisedAt>>
Sample ==
  /\ pc = "sample" /\ block < NBlocks
  /\ IF AdMode = "forward" /\ tangent # keys
     THEN /\ pc' = "raised" /\ raisedAt' = block + 1 /\ UNCHANGED <<keys, block>>
     ELSE /\ keys' = keys \cup EntryKeys /\ block' = block + 1 /\ UNCHANGED <<pc, raisedAt>>
  /\ UNCHANGED tangent
Finish == /\ pc = "sample" /\ block = NBlocks /\ pc' = "done" /\ UNCHANGED <<keys, tangent, block, raisedAt>>
Stop == pc \in {"done", "raised"} /\ UNCHANGED vars
Next == Eql \/ BuildTangent \/ Sample \/ Finish \/ Stop
Spec == Init /\ [][Next]_vars /\ WF_vars(Next)

StructuresAgree == pc # "raised"
\* what the specification predicts for this configuration (deterministic): 0 = completes, k = raises in sampling block k
Terminates == <>(pc \in {"done", "raised"})
PredictedRaise == IF AdMode = "forward" /\ NEql = 0 /\ NBlocks >= 2 THEN 2 ELSE 0
PredictionRight == (pc = "done" => PredictedRaise = 0) /\ (pc = "raised" => raisedAt = PredictedRaise)
=============================================================================
