---------------------------- MODULE LatticeJudge ----------------------------
(***************************************************************************)
(* C20 - judge for observations of REAL lattices (ad_afqmc/lattices.py).   *)
(*                                                                         *)
(* harness/props/c20.py constructs each lattice of the library, looks at   *)
(* it (sites, get_site_num of every site, get_nearest_neighbors of every   *)
(* site, create_adjacency_matrix, dataclass fields, hash/eq; the same      *)
(* after an explicit tree_flatten / tree_unflatten and after a jitted      *)
(* identity function) and writes one JSON record per lattice in the        *)
(* observation format documented in Lattice.tla.  This module evaluates    *)
(* the property-level predicates of Lattice.tla on every record and writes *)
(* a TOTAL verdict per record (never stops at the first failing record):   *)
(*   [id, ok, failed = names of the failing predicates, checked = names of *)
(*    the predicates in scope, witness = first offending site per clause,  *)
(*    rt = per round trip: differing fields, adjacency equal?, eq, hash].  *)
(* Only the predicates are judged; the reference model of Lattice.tla      *)
(* (coordinate order, numbering, which diagonal) is never compared with    *)
(* the recorded data.                                                      *)
(***************************************************************************)
EXTENDS Integers, Sequences, Json, IOUtils, TLC

\* the state machine and size constants of Lattice.tla are not used here
L == INSTANCE Lattice WITH MaxChain <- 2, MaxRect <- 2, MaxTri <- 2, MaxCube <- 2,
                           pi <- 0, lat <- 0, rtl <- 0, obs <- 0, phase <- "judge"

Records == ndJsonDeserialize(IOEnv.C20_RECORDS)

VARIABLES idx, done
vars == <<idx, done>>

Init  == idx \in DOMAIN Records /\ done = FALSE
Judge == /\ ~done /\ done' = TRUE /\ UNCHANGED idx
         /\ ndJsonSerialize(IOEnv.C20_OUT \o "/" \o ToString(Records[idx].id) \o ".json",
                            <<L!Verdict(Records[idx])>>)
Next == Judge
Spec == Init /\ [][Next]_vars
=============================================================================
