------------------------------ MODULE Cholesky ------------------------------
(***************************************************************************)
(* C17 - Cholesky factorisations reproduce their input.                    *)
(*                                                                         *)
(* Pivoted ("modified") Cholesky in LDL form on exact rationals.  The code *)
(* stores the k-th vector as L_k = v_k / sqrt(d_k) where v_k is the column *)
(* of the current residual at the pivot and d_k the residual's pivot       *)
(* diagonal.  L_k is irrational, but L_k L_k^T = v_k v_k^T / d_k is not,   *)
(* so the residual                                                         *)
(*        R_m = M - sum_{k<m} v_k v_k^T / d_k      (= M - Gram of m vectors)*)
(* is an exact rational matrix and is the whole state of the algorithm.    *)
(*                                                                         *)
(* The three routines of the library differ only in the loop around one    *)
(* and the same step (pick p = argmax |diag R|, remove v v^T/d):           *)
(*   "scan"   linalg_utils.modified_cholesky(mat, norb, cnt): lax.scan,    *)
(*            exactly cnt vectors, every one divides by its pivot value    *)
(*   "numpy"  pyscf_interface.modified_cholesky(mat, thr):                 *)
(*            while delta > thr and nchol + 1 < nmax; returns cv[:nchol]   *)
(*   "chunk"  pyscf_interface.chunked_cholesky(mol, thr):                  *)
(*            while delta > thr; returns cv[:nchol]                        *)
(*   "numpyfix" the numpy loop with the guard nchol < nmax (proposed fix)  *)
(* (Not modelled: floating point, the +1e-10 the numpy routine adds to its *)
(* pivot before the square root, the shell-wise integral evaluation and    *)
(* the finite vector buffer cmax*nao of the chunked routine.)              *)
(* They are modelled as Next relations (NextScan, NextNumpy, NextChunk,    *)
(* NextNumpyFix) over the common Continue/Advance operators.  Ties in the  *)
(* argmax are resolved non-deterministically in the Next relations (round- *)
(* off may break a tie either way in the code), and towards the lowest     *)
(* index (numpy argmax) in the deterministic oracle.                       *)
(*                                                                         *)
(* Three entry points (cfg SPECIFICATION):                                 *)
(*   SpecModel  - model checking of the loop shapes against the property-  *)
(*                level predicates (Inv*, PropNonIncreasing) on every      *)
(*                instance of the file CHOL_INSTS                          *)
(*   SpecOracle - per instance: exact M, rank, tie/smoothness flags, exact *)
(*                tangent of M |-> Gram(cnt = rank vectors), admissible    *)
(*                finite-difference step, and what each loop shape returns *)
(*   SpecJudge  - judges the property predicate on numbers recorded from   *)
(*                the real code (decimal floating point data)              *)
(***************************************************************************)
EXTENDS Integers, Sequences, FiniteSets, FiniteSetsExt, Json, IOUtils, TLC

(***************************************************************************)
(* Exact rationals <<num, den>>, den > 0, gcd-reduced (so equality of      *)
(* rationals is equality of tuples).  Every operation cancels common       *)
(* factors BEFORE multiplying: TLC integers are 32 bit and overflow is an  *)
(* error (the harness guards instance sizes and treats it as a machinery   *)
(* failure, never as a verdict).                                           *)
(***************************************************************************)
Abs(x) == IF x < 0 THEN -x ELSE x
RECURSIVE GCD(_, _)
GCD(a, b) == IF b = 0 THEN a ELSE GCD(b, a % b)

QZero == <<0, 1>>
QOne  == <<1, 1>>
QInt(k) == <<k, 1>>
QNorm(a, b) ==                      \* a/b with b # 0
  IF a = 0 THEN QZero
  ELSE LET g == GCD(Abs(a), Abs(b))
       IN  IF b < 0 THEN <<(-a) \div g, (-b) \div g>> ELSE <<a \div g, b \div g>>
QNeg(p) == <<-p[1], p[2]>>
QAbs(p) == <<Abs(p[1]), p[2]>>
QAdd(p, q) ==
  LET g  == GCD(p[2], q[2])
      qd == q[2] \div g
      pd == p[2] \div g
  IN  QNorm(p[1] * qd + q[1] * pd, pd * q[2])
QSub(p, q) == QAdd(p, QNeg(q))
QMul(p, q) ==
  IF p[1] = 0 \/ q[1] = 0 THEN QZero
  ELSE LET g1 == GCD(Abs(p[1]), q[2])
           g2 == GCD(Abs(q[1]), p[2])
       IN  <<(p[1] \div g1) * (q[1] \div g2), (p[2] \div g2) * (q[2] \div g1)>>
QInv(p) == IF p[1] > 0 THEN <<p[2], p[1]>> ELSE <<-p[2], -p[1]>>      \* p # 0
QDiv(p, q) == QMul(p, QInv(q))
QLeq(p, q) == LET g == GCD(p[2], q[2]) IN p[1] * (q[2] \div g) <= q[1] * (p[2] \div g)
QLt(p, q)  == ~QLeq(q, p)
QMax(p, q) == IF QLeq(p, q) THEN q ELSE p
QMin(p, q) == IF QLeq(p, q) THEN p ELSE q
QOfJson(x) == QNorm(x[1], x[2])
QSumSet(f(_), S) == FoldSet(LAMBDA x, acc : QAdd(f(x), acc), QZero, S)
QMaxSet(f(_), S) == FoldSet(LAMBDA x, acc : QMax(f(x), acc), QZero, S)   \* max(0, max f)

(***************************************************************************)
(* Matrices: sequences of rows of rationals.                               *)
(***************************************************************************)
ZeroMat(n) == [i \in 1..n |-> [j \in 1..n |-> QZero]]
MaxAbs(R, n)  == QMaxSet(LAMBDA ij : QAbs(R[ij[1]][ij[2]]), (1..n) \X (1..n))
DiagMax(R, n) == QMaxSet(LAMBDA i : QAbs(R[i][i]), 1..n)
\* argmax |diag R|: all maximisers, and numpy's choice (the first one)
MaxSet(R, n)   == LET dm == DiagMax(R, n) IN {i \in 1..n : QAbs(R[i][i]) = dm}
FirstMax(R, n) == Min(MaxSet(R, n))
SeqRange(s) == {s[i] : i \in DOMAIN s}

\* the instance matrix  M = D (A A^T) D,  A integer n x r,  D diagonal rational
MatOf(I) ==
  LET n == I.n
      r == Len(I.A[1])
      d == [i \in 1..n |-> QOfJson(I.D[i])]
  IN  TLCEval([i \in 1..n |-> [j \in 1..n |->
         QMul(QMul(d[i], d[j]),
              QInt(FoldSet(LAMBDA k, acc : I.A[i][k] * I.A[j][k] + acc, 0, 1..r)))]])

(***************************************************************************)
(* One step of the algorithm (all three routines): with p the pivot and    *)
(* d = R[p][p] # 0, v = R[.][p]:   R' = R - v v^T / d.                     *)
(* The code computes the same thing as mat[nu] - chol[:, nu] . chol.       *)
(***************************************************************************)
StepR(R, p, n) ==
  LET d == R[p][p]
      l == TLCEval([j \in 1..n |-> QDiv(R[j][p], d)])
  IN  TLCEval([i \in 1..n |-> [j \in 1..n |-> QSub(R[i][j], QMul(R[i][p], l[j]))]])

\* forward-mode derivative of the step: R -> R + t dR at fixed pivot p
StepDR(R, dR, p, n) ==
  LET d  == R[p][p]
      l  == TLCEval([j \in 1..n |-> QDiv(R[j][p], d)])
      dd == dR[p][p]
  IN  TLCEval([i \in 1..n |-> [j \in 1..n |->
        QAdd(QSub(QSub(dR[i][j], QMul(dR[i][p], l[j])), QMul(l[i], dR[j][p])),
             QMul(QMul(l[i], l[j]), dd))]])

(***************************************************************************)
(* The loops.  st = [nv, res, piv]: nv vectors are complete (and would be  *)
(* returned), res = R_nv, piv the pivot chosen for the pending vector.      *)
(***************************************************************************)
PivVal(st) == QAbs(st.res[st.piv][st.piv])            \* delta_max in the code
Continue(lp, thr, cnt, n, st) ==
  CASE lp = "scan"     -> st.nv < cnt
    [] lp = "numpy"    -> QLt(thr, PivVal(st)) /\ st.nv + 1 < n
    [] lp = "chunk"    -> QLt(thr, PivVal(st))
    [] lp = "numpyfix" -> QLt(thr, PivVal(st)) /\ st.nv < n

Start(M, n) == [nv |-> 0, res |-> M, piv |-> FirstMax(M, n), divzero |-> FALSE]
RECURSIVE RunDet(_, _, _, _, _)
RunDet(lp, thr, cnt, n, st) ==
  IF ~Continue(lp, thr, cnt, n, st) THEN st
  ELSE IF PivVal(st) = QZero THEN [st EXCEPT !.divzero = TRUE]
  ELSE LET R2 == StepR(st.res, st.piv, n)
       IN  RunDet(lp, thr, cnt, n, [nv |-> st.nv + 1, res |-> R2, piv |-> FirstMax(R2, n), divzero |-> FALSE])

RankOf(M, n) == RunDet("chunk", QZero, 0, n, Start(M, n)).nv

(***************************************************************************)
(* Property-level predicate (the statement of C17 on exact data).          *)
(***************************************************************************)
Reproduces(R, n, thr) == QLeq(MaxAbs(R, n), thr)        \* R = M - Gram

(***************************************************************************)
(*                       SpecModel: model checking                         *)
(***************************************************************************)
CONSTANT LOOPS                       \* subset of {"scan","numpy","chunk","numpyfix"}
Insts == ndJsonDeserialize(IOEnv.CHOL_INSTS)

VARIABLES idx, phase, loop, thr, cnt, rk, m, R, p, pivs
vars == <<idx, phase, loop, thr, cnt, rk, m, R, p, pivs>>
N == Insts[idx].n
St == [nv |-> m, res |-> R, piv |-> p]

InitModel == /\ idx \in DOMAIN Insts
             /\ phase = "load" /\ loop = "" /\ thr = QZero /\ cnt = 0 /\ rk = 0
             /\ m = 0 /\ R = <<>> /\ p = 0 /\ pivs = <<>>

\* the heavy part (building M, its rank) sits in an action so that TLC's workers share it
Load == /\ phase = "load"
        /\ LET I == Insts[idx]
               M == MatOf(I)
           IN  /\ R' = M
               /\ rk' = RankOf(M, I.n)
               /\ p' \in MaxSet(M, I.n)
               /\ \E lp \in LOOPS :
                    /\ loop' = lp
                    /\ IF lp = "scan"
                       THEN thr' = QZero /\ cnt' \in 1..I.n
                       ELSE cnt' = 0 /\ thr' \in {QOfJson(I.thrs[k]) : k \in DOMAIN I.thrs}
        /\ m' = 0 /\ pivs' = <<>> /\ phase' = "run" /\ UNCHANGED idx

Advance == /\ R' = StepR(R, p, N)
           /\ m' = m + 1
           /\ pivs' = Append(pivs, p)
           /\ p' \in MaxSet(R', N)
           /\ UNCHANGED <<idx, phase, loop, thr, cnt, rk>>

Step(lp) == /\ phase = "run" /\ loop = lp
            /\ Continue(lp, thr, cnt, N, St)
            /\ IF PivVal(St) = QZero            \* only reachable in the scan loop
               THEN phase' = "divzero" /\ UNCHANGED <<idx, loop, thr, cnt, rk, m, R, p, pivs>>
               ELSE Advance
Done(lp) == /\ phase = "run" /\ loop = lp
            /\ ~Continue(lp, thr, cnt, N, St)
            /\ phase' = "done" /\ UNCHANGED <<idx, loop, thr, cnt, rk, m, R, p, pivs>>

NextScan     == Step("scan") \/ Done("scan")
NextNumpy    == Step("numpy") \/ Done("numpy")
NextChunk    == Step("chunk") \/ Done("chunk")
NextNumpyFix == Step("numpyfix") \/ Done("numpyfix")
NextModel == Load \/ NextScan \/ NextNumpy \/ NextChunk \/ NextNumpyFix
SpecModel == InitModel /\ [][NextModel]_vars

Loaded == phase \in {"run", "done", "divzero"}
ThrLoops == {"numpy", "chunk", "numpyfix"}

\* residual diagonal non-negative; off-diagonals bounded by the largest diagonal (why the
\* element-wise error is controlled by delta_max); symmetric
InvResidual == Loaded =>
  /\ \A i \in 1..N : QLeq(QZero, R[i][i])
  /\ \A i, j \in 1..N : R[i][j] = R[j][i]
  /\ MaxAbs(R, N) = DiagMax(R, N)
\* pivots distinct; the rows of used pivots are reproduced exactly
InvPivots == Loaded =>
  /\ \A a, b \in DOMAIN pivs : a # b => pivs[a] # pivs[b]
  /\ (DiagMax(R, N) # QZero => p \notin SeqRange(pivs))
  /\ \A a \in DOMAIN pivs : \A j \in 1..N : R[pivs[a]][j] = QZero
\* termination within n steps (also for the unbounded "chunk" loop), never more vectors than the rank
InvTermination == Loaded =>
  /\ m <= N /\ m <= rk /\ rk <= N /\ Len(pivs) = m
  /\ (m = rk <=> R = ZeroMat(N))
\* THE property: at termination of a threshold loop the Gram matrix reproduces M within thr
InvReproduces == (phase = "done" /\ loop \in ThrLoops) => Reproduces(R, N, thr)
\* the scan routine: exact when asked for exactly rank vectors; it divides by zero iff asked for more
InvScan == loop = "scan" =>
  /\ (phase = "done" /\ cnt = rk => R = ZeroMat(N))
  /\ (phase = "divzero" => cnt > rk /\ m = rk)
  /\ (phase = "done" => cnt <= rk /\ m = cnt)
\* residual diagonal never increases
PropNonIncreasing ==
  [][(phase = "run" /\ phase' = "run") => \A i \in 1..N : QLeq(R'[i][i], R[i][i])]_vars

(***************************************************************************)
(*                       SpecOracle: exact reference data                  *)
(***************************************************************************)
\* along numpy's pivot path for cnt steps: exact tangent of Gram = M - R_cnt in direction S,
\* whether every pivot choice is unique or a harmless tie (tied rows identical in R and dR, so
\* every tie-break gives the same function), and the largest perturbation step that provably
\* keeps the pivot order: min_k gap_k / (2 max_i |dR_k[i][i]|)
Harmless(Rk, dRk, n) ==
  \A i, j \in MaxSet(Rk, n) : Rk[i] = Rk[j] /\ dRk[i] = dRk[j]
Gap(Rk, n) ==
  LET dm == DiagMax(Rk, n)
  IN  QSub(dm, QMaxSet(LAMBDA i : IF QAbs(Rk[i][i]) = dm THEN QZero ELSE QAbs(Rk[i][i]), 1..n))
HStep(Rk, dRk, n) ==
  LET s == QMaxSet(LAMBDA i : QAbs(dRk[i][i]), 1..n)
  IN  IF s = QZero THEN QOne ELSE QMin(QOne, QDiv(Gap(Rk, n), QMul(QInt(2), s)))

RECURSIVE Path(_, _, _, _, _, _)
Path(Rk, dRk, k, c, n, acc) ==
  IF k = c THEN [acc EXCEPT !.dres = dRk, !.res = Rk]
  ELSE LET q == FirstMax(Rk, n)
       IN  Path(StepR(Rk, q, n), StepDR(Rk, dRk, q, n), k + 1, c, n,
                [acc EXCEPT !.tied   = acc.tied \/ Cardinality(MaxSet(Rk, n)) > 1,
                            !.smooth = acc.smooth /\ Harmless(Rk, dRk, n),
                            !.hmax   = QMin(acc.hmax, HStep(Rk, dRk, n))])

LoopResult(lp, M, n, t) ==
  LET st == RunDet(lp, t, 0, n, Start(M, n))
  IN  [nvec |-> st.nv, err |-> MaxAbs(st.res, n), ok |-> Reproduces(st.res, n, t)]

OracleOf(I) ==
  LET n   == I.n
      M   == MatOf(I)
      rnk == RankOf(M, n)
      hasS == Len(I.S) > 0
      S   == IF hasS THEN TLCEval([i \in 1..n |-> [j \in 1..n |-> QInt(I.S[i][j])]]) ELSE ZeroMat(n)
      pa  == Path(M, S, 0, rnk, n, [tied |-> FALSE, smooth |-> TRUE, hmax |-> QOne, dres |-> <<>>, res |-> <<>>])
      T   == TLCEval([i \in 1..n |-> [j \in 1..n |-> QSub(S[i][j], pa.dres[i][j])]])
      ths == [k \in DOMAIN I.thrs |-> QOfJson(I.thrs[k])]
  IN  [id |-> I.id, n |-> n, M |-> M, rank |-> rnk,
       exact_at_rank |-> pa.res = ZeroMat(n),
       tied |-> pa.tied, smooth |-> pa.smooth, hmax |-> pa.hmax,
       has_dir |-> hasS, T |-> IF hasS THEN T ELSE <<>>,
       full_tangent_is_dir |-> (rnk = n /\ hasS) => T = S,
       numpy    |-> [k \in DOMAIN ths |-> LoopResult("numpy", M, n, ths[k])],
       chunk    |-> [k \in DOMAIN ths |-> LoopResult("chunk", M, n, ths[k])],
       numpyfix |-> [k \in DOMAIN ths |-> LoopResult("numpyfix", M, n, ths[k])]]

\* instances are processed in batches of OBatch (one output file per batch); the oracle and the
\* judge reuse the variables idx (batch number) and phase, all other variables stay idle
OBatch == 50
NOB == (Len(Insts) + OBatch - 1) \div OBatch
Idle == loop = "" /\ thr = QZero /\ cnt = 0 /\ rk = 0 /\ m = 0 /\ R = <<>> /\ p = 0 /\ pivs = <<>>
IdleNext == UNCHANGED <<idx, loop, thr, cnt, rk, m, R, p, pivs>>
InitOracle == idx \in 1..NOB /\ phase = "oracle" /\ Idle
EvalOracle ==
  /\ phase = "oracle" /\ phase' = "written" /\ IdleNext
  /\ LET lo == (idx - 1) * OBatch + 1
         hi == IF idx * OBatch < Len(Insts) THEN idx * OBatch ELSE Len(Insts)
     IN  ndJsonSerialize(IOEnv.CHOL_OUT \o "/" \o ToString(idx) \o ".json",
                         [k \in 1..(hi - lo + 1) |-> OracleOf(Insts[lo + k - 1])])
SpecOracle == InitOracle /\ [][EvalOracle]_vars

(***************************************************************************)
(*            SpecJudge: the property predicate on the code's output       *)
(*                                                                         *)
(* Numbers recorded from the real code arrive as decimal floats <<m, e>>   *)
(* (value m * 10^e, 10^7 <= m < 10^8 or m = 0; magnitudes, 8 digits).  A   *)
(* record [id, errs, thr, scale, tolexp, finite, nvec, nmax] asks:         *)
(*    finite  /\  nvec <= nmax  /\  max errs <= thr + 10^tolexp * scale    *)
(* errs = |M - L^T L| element-wise (or |tangent - exact tangent|).         *)
(* The bound is rounded up in the last (8th) digit.                        *)
(***************************************************************************)
DZero == <<0, 0>>
DLeq(a, b) == \/ a[1] = 0
              \/ /\ b[1] # 0
                 /\ (a[2] < b[2] \/ (a[2] = b[2] /\ a[1] <= b[1]))
Pow10(k) == FoldSet(LAMBDA i, acc : 10 * acc, 1, 1..k)
CeilDiv(a, b) == (a + b - 1) \div b
DNormUp(mm, e) == IF mm >= 100000000 THEN <<CeilDiv(mm, 10), e + 1>> ELSE <<mm, e>>
DAddUp(a, b) ==                       \* upper bound of a + b
  IF a[1] = 0 THEN b ELSE IF b[1] = 0 THEN a
  ELSE LET hi == IF a[2] >= b[2] THEN a ELSE b
           lo == IF a[2] >= b[2] THEN b ELSE a
           k  == hi[2] - lo[2]
       IN  IF k >= 9 THEN DNormUp(hi[1] + 1, hi[2])
           ELSE DNormUp(hi[1] + CeilDiv(lo[1], Pow10(k)), hi[2])
DShift(a, k) == IF a[1] = 0 THEN a ELSE <<a[1], a[2] + k>>
DMaxSeq(s) == FoldSet(LAMBDA i, acc : IF DLeq(s[i], acc) THEN acc ELSE s[i], DZero, DOMAIN s)

JudgeOne(r) ==
  LET bound == DAddUp(r.thr, DShift(r.scale, r.tolexp))
      worst == DMaxSeq(r.errs)
      within == DLeq(worst, bound)
      count_ok == r.nvec <= r.nmax
  IN  [id |-> r.id, ok |-> r.finite /\ within /\ count_ok,
       finite_ok |-> r.finite, within |-> within, count_ok |-> count_ok,
       worst |-> worst, bound |-> bound,
       informative |-> r.scale[1] # 0]

JBatches == ndJsonDeserialize(IOEnv.CHOL_JUDGE)
InitJudge == idx \in DOMAIN JBatches /\ phase = "judge" /\ Idle
EvalJudge ==
  /\ phase = "judge" /\ phase' = "written" /\ IdleNext
  /\ ndJsonSerialize(IOEnv.CHOL_VERDICTS \o "/" \o ToString(JBatches[idx].id) \o ".json",
                     [k \in DOMAIN JBatches[idx].recs |-> JudgeOne(JBatches[idx].recs[k])])
SpecJudge == InitJudge /\ [][EvalJudge]_vars
=============================================================================
