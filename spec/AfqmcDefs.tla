----------------------------- MODULE AfqmcDefs -----------------------------
(***************************************************************************)
(* Constant-level definitions shared by the run-level modules: the option  *)
(* ladder of driver.afqmc, the attributes of each sampler entry point and  *)
(* the canonical estimator schedule of a block structure.                  *)
(***************************************************************************)
EXTENDS Integers, Sequences, FiniteSets, TLC

(***************************************************************************)
(* The option ladder of driver.afqmc, verbatim.                            *)
(***************************************************************************)
Select(o) ==
  IF o.ad_mode = "none" THEN "plain"
  ELSE IF o.ad_mode = "2rdm" THEN "ad_2rdm"
  ELSE IF ~o.orbital_rotation /\ ~o.do_sr THEN "ad_nosr_norot"
  ELSE IF ~o.orbital_rotation THEN "ad_norot"
  ELSE IF ~o.do_sr THEN "ad_nosr"
  ELSE "ad"

Entries == {"plain", "ad", "ad_norot", "ad_nosr", "ad_nosr_norot", "ad_2rdm"}
HasOptimize(e) == e \in {"ad", "ad_nosr", "ad_2rdm"}
HasBuild(e)    == e # "plain"
HasSR(e)       == e \in {"plain", "ad", "ad_norot", "ad_2rdm"}

(***************************************************************************)
(* The canonical estimator schedule for a block structure: what every      *)
(* entry point must do between its entry refresh and its return.           *)
(***************************************************************************)
RECURSIVE Rep(_, _)
Rep(s, k) == IF k = 0 THEN <<>> ELSE s \o Rep(s, k - 1)
BlockSched(b)   == <<"key">> \o Rep(<<"step">>, b.steps) \o <<"kill", "qr", "refresh", "measure", "shift">>
Expected(b, withSR) ==
  IF withSR THEN Rep(Rep(BlockSched(b), b.ene) \o <<"sr", "sr_refresh">>, b.sr)
  ELSE Rep(BlockSched(b), b.ene)

=============================================================================
