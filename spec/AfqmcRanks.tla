----------------------------- MODULE AfqmcRanks -----------------------------
(***************************************************************************)
(* The multi-rank layer of driver.afqmc: R ranks run the same driver; what *)
(* couples them are the collectives.  Every rank executes Program, the     *)
(* sequence of collectives that driver.py issues (read off the code, in    *)
(* order):                                                                 *)
(*   start      Barrier, Barrier                                           *)
(*   per equilibration iteration                                           *)
(*              Reduce (weighted energy), Reduce (weight), Bcast, Bcast,   *)
(*              <global reconfiguration>, Barrier, Barrier                 *)
(*   between    Barrier, Barrier                                           *)
(*   per sampling iteration n                                              *)
(*              Gather (weight), Gather (energy), Gather (observable),     *)
(*              [Gather (rdm) for reverse / 2rdm], bcast (block energy),   *)
(*              <global reconfiguration>,                                  *)
(*              [Barrier, Barrier  when n % max(n_blocks div 10, 1) = 0]   *)
(*   end        Reduce (large deviations), Barrier, Barrier, Barrier,      *)
(*              bcast, bcast, Barrier                                      *)
(*   <global reconfiguration> = Gather x (2 | 3), Scatter x (2 | 3)        *)
(*              (walkers [up, down], weights) - sr.py *_mpi(_uhf)          *)
(* Between collectives a rank does local work (sampler call, QR, estimate).*)
(* A collective completes when every rank has arrived (synchronising       *)
(* model; the eager MPI rule is explored in CombMPI.tla).                  *)
(*                                                                         *)
(* State per rank: position in Program, the version of e_estimate it holds *)
(* (all ranks must hold the same after every broadcast), whether any of    *)
(* its walkers is alive.  InitFail models the one rank-dependent exit of   *)
(* the driver (the "Initial overlaps are zero" ValueError raised before    *)
(* the first collective by that rank only): with AllowInitFail the other   *)
(* ranks block for ever - a documented hazard, checked as a negative       *)
(* config.                                                                 *)
(***************************************************************************)
EXTENDS AfqmcRanksDefs

CONSTANTS Ranks, NEql, NBlocks, UHF, RdmGather, AllowInitFail

Program == ProgramOf(NEql, NBlocks, UHF, RdmGather)

VARIABLES pos, waiting, failed, eest, round
vars == <<pos, waiting, failed, eest, round>>

Init == /\ pos = [r \in Ranks |-> 1] /\ waiting = [r \in Ranks |-> FALSE] /\ failed = [r \in Ranks |-> FALSE]
        /\ eest = [r \in Ranks |-> 0] /\ round = 0

InitFail(r) == /\ AllowInitFail /\ pos[r] = 1 /\ ~waiting[r] /\ ~failed[r]
               /\ failed' = [failed EXCEPT ![r] = TRUE] /\ UNCHANGED <<pos, waiting, eest, round>>

\* rank r arrives at its next collective (after whatever local work precedes it)
Arrive(r) == /\ ~failed[r] /\ ~waiting[r] /\ pos[r] <= Len(Program)
             /\ waiting' = [waiting EXCEPT ![r] = TRUE] /\ UNCHANGED <<pos, failed, eest, round>>

\* the collective at position p completes for everybody once all ranks wait at p
Complete == /\ \A r \in Ranks : waiting[r]
            /\ \A r, q \in Ranks : pos[r] = pos[q]
            /\ LET p == pos[CHOOSE r \in Ranks : TRUE] IN
               /\ pos' = [r \in Ranks |-> p + 1]
               /\ waiting' = [r \in Ranks |-> FALSE]
               \* a broadcast hands every rank the root's value: the estimate versions are re-synchronised
               /\ IF Program[p] \in {"Bcast", "bcast"} THEN round' = round + 1 /\ eest' = [r \in Ranks |-> round + 1]
                                                      ELSE UNCHANGED <<round, eest>>
            /\ UNCHANGED failed

Done == (\A r \in Ranks : pos[r] = Len(Program) + 1) /\ UNCHANGED vars
Next == (\E r \in Ranks : InitFail(r) \/ Arrive(r)) \/ Complete \/ Done
Spec == Init /\ [][Next]_vars /\ WF_vars(Next)

SameCollective == \A r, q \in Ranks : (waiting[r] /\ waiting[q] /\ pos[r] = pos[q]) => Program[pos[r]] = Program[pos[q]]
InStep == \A r, q \in Ranks : pos[r] - pos[q] \in {-1, 0, 1}
EstimateAgrees == (\A r \in Ranks : ~waiting[r] /\ pos[r] = pos[CHOOSE q \in Ranks : TRUE]) => \A r, q \in Ranks : eest[r] = eest[q]
Terminates == <>(\A r \in Ranks : pos[r] = Len(Program) + 1)
NoStuckRank == []((\E r \in Ranks : waiting[r]) => <>(\A r \in Ranks : ~waiting[r]))
=============================================================================
