-------------------------------- MODULE Cplx --------------------------------
(***************************************************************************)
(* Exact Gaussian-integer arithmetic and small dense linear algebra.       *)
(* A complex number is the pair <<re, im>> of TLC integers.  TLC raises an *)
(* error on 32-bit overflow, so every value produced here is exact or the  *)
(* run aborts (the harness turns that into a machinery failure).           *)
(***************************************************************************)
EXTENDS Integers, Sequences, FiniteSets, FiniteSetsExt, SequencesExt, TLC

CZ   == <<0, 0>>
CONE == <<1, 0>>
CI   == <<0, 1>>
CRe(k) == <<k, 0>>
CAdd(a, b)   == <<a[1] + b[1], a[2] + b[2]>>
CSub(a, b)   == <<a[1] - b[1], a[2] - b[2]>>
CMul(a, b)   == <<a[1] * b[1] - a[2] * b[2], a[1] * b[2] + a[2] * b[1]>>
CConj(a)     == <<a[1], -a[2]>>
CScale(k, a) == <<k * a[1], k * a[2]>>
CNeg(a)      == <<-a[1], -a[2]>>
CIsZero(a)   == a[1] = 0 /\ a[2] = 0
Par(k)       == IF k % 2 = 0 THEN 1 ELSE -1

\* sum of f(x) over a finite set
CSum(f(_), S) == FoldSet(LAMBDA x, acc : CAdd(f(x), acc), CZ, S)
ISum(f(_), S) == FoldSet(LAMBDA x, acc : f(x) + acc, 0, S)

(***************************************************************************)
(* Determinant (Laplace expansion along the last column) of the k x k      *)
(* matrix with rows rows[1..k] and columns 1..k of M, M[r][c] complex.     *)
(***************************************************************************)
RECURSIVE CDet(_, _, _)
CDet(M, rows, k) ==
  IF k = 0 THEN CONE
  ELSE CSum(LAMBDA i : CScale(Par(i + k),
                              CMul(M[rows[i]][k], CDet(M, RemoveAt(rows, i), k - 1))),
            1..k)

\* same for integer matrices
RECURSIVE IDet(_, _, _)
IDet(M, rows, k) ==
  IF k = 0 THEN 1
  ELSE ISum(LAMBDA i : Par(i + k) * M[rows[i]][k] * IDet(M, RemoveAt(rows, i), k - 1), 1..k)

\* determinant with an explicit column list (minors)
RECURSIVE IDetRC(_, _, _, _)
IDetRC(M, rows, cols, k) ==
  IF k = 0 THEN 1
  ELSE ISum(LAMBDA i : Par(i + k) * M[rows[i]][cols[k]]
                        * IDetRC(M, RemoveAt(rows, i), cols, k - 1), 1..k)

Sorted(S) == SetToSortSeq(S, <)
Range1(s) == {s[i] : i \in DOMAIN s}

\* integer matrices as sequences of rows
MatMul(A, B) == [i \in DOMAIN A |-> [j \in DOMAIN B[1] |->
                   ISum(LAMBDA k : A[i][k] * B[k][j], DOMAIN B)]]
Transpose(A) == [j \in DOMAIN A[1] |-> [i \in DOMAIN A |-> A[i][j]]]
Congruence(C, X) == MatMul(Transpose(C), MatMul(X, C))      \* C^T X C
=============================================================================
