------------------------------- MODULE Lattice -------------------------------
(***************************************************************************)
(* C20 - lattices are consistent graphs that survive construction and      *)
(* pytree round trips  (code under test: ad_afqmc/lattices.py).            *)
(*                                                                         *)
(* The module has three layers, kept apart on purpose:                     *)
(*                                                                         *)
(*  1. OBSERVATION FORMAT.  Everything that is judged is a record G, "what *)
(*     one sees when one builds a lattice and looks at it": the site list, *)
(*     the site number of every listed site, the raw neighbour list of     *)
(*     every site, the adjacency matrix, the dataclass fields before and   *)
(*     after each flatten/unflatten round trip, and hash/eq outcomes.      *)
(*     harness/props/c20.py dumps exactly this record for every REAL       *)
(*     lattice (LatticeJudge.tla reads it); Observe() below produces the   *)
(*     same record from the reference model.                               *)
(*                                                                         *)
(*  2. PROPERTY-LEVEL PREDICATES over an arbitrary G (SitesBijective,      *)
(*     NbrClosed, NbrSymmetric, NbrIrreflexive, AdjSymmetricZeroDiag,      *)
(*     AdjIsNbrGraph, Regular, MaxDegree, RoundTripEqual, HashEqConsistent,*)
(*     EqDiscriminates), their scoping (Applies) and the total Verdict.    *)
(*     They know nothing about the reference model: no coordinate order,   *)
(*     no choice of diagonal, no numbering convention is compared.         *)
(*                                                                         *)
(*  3. REFERENCE MODEL (definitional) of the four lattice families and of  *)
(*     a pytree round trip that flattens every init field and unflattens   *)
(*     by keyword, plus a small state machine  New -> Built -> RoundTripped*)
(*     -> Dumped.  TLC checks exhaustively (all sizes up to the Max*       *)
(*     constants) that the model satisfies every predicate of layer 2      *)
(*     (satisfiable, non-vacuous), that fifteen single-fault mutants of the*)
(*     observation are each rejected by the predicate they target (the     *)
(*     predicates discriminate), and that the property's own scoping is    *)
(*     forced by geometry (ScopeIsGeometric).  Every enumerated parameter  *)
(*     record is written out; the harness builds the REAL lattices from    *)
(*     that enumeration.                                                   *)
(***************************************************************************)
EXTENDS Integers, Sequences, FiniteSets, SequencesExt, Json, IOUtils, TLC

CONSTANTS MaxChain, MaxRect, MaxTri, MaxCube     \* largest side per family (sides start at 2)

(***************************************************************************)
(* 0. helpers                                                              *)
(***************************************************************************)
RECURSIVE Prod(_)
Prod(s) == IF Len(s) = 0 THEN 1 ELSE Head(s) * Prod(Tail(s))
RECURSIVE Sum(_)
Sum(s) == IF Len(s) = 0 THEN 0 ELSE Head(s) + Sum(Tail(s))
MinSet(S) == CHOOSE x \in S : \A y \in S : x <= y

(***************************************************************************)
(* 1/2. PROPERTY-LEVEL PREDICATES over an observation record G             *)
(*                                                                         *)
(*   G.kind    class name            G.dims  constructor side lengths      *)
(*   G.open    open boundary?        G.stage "ok" | "construct" | "observe"*)
(*   G.n       stated number of sites G.coord stated coordination number   *)
(*   G.sites   sequence of positions (tuples of integers)                  *)
(*   G.snum    G.snum[i] = get_site_num(G.sites[i])  (0-based numbers)     *)
(*   G.nbrs    G.nbrs[i] = raw get_nearest_neighbors(G.sites[i]); with an  *)
(*             open boundary this list may name positions outside the      *)
(*             lattice, which are not sites and hence not neighbours       *)
(*   G.adj     adjacency matrix, sequence of rows of 0/1                   *)
(*   G.fields  <<[name, val]>> every dataclass field, val = canonical,     *)
(*             type-tagged string of the value                             *)
(*   G.rt      one record per round trip: [via, ran, same_type, fields,    *)
(*             adj, eq, hash_eq]  (eq/hash_eq: round-tripped vs original)  *)
(*   G.hashable, G.self_eq, G.copy_eq, G.copy_hash_eq  (copy = a second,   *)
(*             identically constructed lattice)                            *)
(*   G.others  <<[what, eq, hash_eq]>> original vs DIFFERENT lattices      *)
(***************************************************************************)
N(G) == Len(G.sites)
Idx(G) == 1..N(G)

\* neighbour relation on site indices: j is a neighbour of i iff the position of j is listed for i
NbrIdx(G) == TLCEval([i \in Idx(G) |-> {j \in Idx(G) : \E k \in DOMAIN G.nbrs[i] : G.nbrs[i][k] = G.sites[j]}])

WellShaped(G) ==      \* what the recorder guarantees; everything else is judged
  /\ Len(G.snum) = N(G) /\ Len(G.nbrs) = N(G) /\ N(G) >= 1

\* site list and site numbering are inverse bijections between 0..n-1 and n distinct positions
SitesBijective(G) ==
  /\ G.n = Prod(G.dims)
  /\ N(G) = G.n
  /\ \A i \in Idx(G) : G.snum[i] = i - 1                              \* site_num o sites = id
  /\ \A i, j \in Idx(G) : i # j => G.sites[i] # G.sites[j]            \* hence sites o site_num = id on the sites

\* periodic lattice: every listed neighbour is a site
NbrClosed(G) == \A i \in Idx(G) : \A k \in DOMAIN G.nbrs[i] : \E j \in Idx(G) : G.sites[j] = G.nbrs[i][k]

NbrSymmetric(G)   == LET ni == NbrIdx(G) IN \A i \in Idx(G) : \A j \in ni[i] : i \in ni[j]
NbrIrreflexive(G) == LET ni == NbrIdx(G) IN \A i \in Idx(G) : i \notin ni[i]

AdjWellFormed(G) ==
  /\ Len(G.adj) = N(G)
  /\ \A i \in Idx(G) : Len(G.adj[i]) = N(G) /\ \A j \in Idx(G) : G.adj[i][j] \in {0, 1}

AdjSymmetricZeroDiag(G) ==
  /\ AdjWellFormed(G)
  /\ \A i, j \in Idx(G) : G.adj[i][j] = G.adj[j][i]
  /\ \A i \in Idx(G) : G.adj[i][i] = 0

\* the matrix is the graph of the (symmetrised) neighbour relation under the site numbering
AdjIsNbrGraph(G) ==
  /\ AdjWellFormed(G)
  /\ LET ni == NbrIdx(G) IN
       \A i, j \in Idx(G) : (G.adj[i][j] = 1) <=> (j \in ni[i] \/ i \in ni[j])

Deg(G, i)    == Sum(G.adj[i])
Regular(G)   == AdjWellFormed(G) /\ \A i \in Idx(G) : Deg(G, i) = G.coord
MaxDegree(G) == AdjWellFormed(G) /\ \A i \in Idx(G) : Deg(G, i) <= G.coord

\* fields ---------------------------------------------------------------
FieldNames(fs) == {fs[k].name : k \in DOMAIN fs}
FieldVal(fs, nm) == IF nm \in FieldNames(fs) THEN fs[CHOOSE k \in DOMAIN fs : fs[k].name = nm].val ELSE "<absent>"
\* names of the fields (of either side) whose value differs, in the order of the original's fields
DiffFields(G, k) ==
  SelectSeq([q \in DOMAIN G.fields |-> G.fields[q].name], LAMBDA nm : FieldVal(G.rt[k].fields, nm) # FieldVal(G.fields, nm))
  \o SelectSeq([q \in DOMAIN G.rt[k].fields |-> G.rt[k].fields[q].name], LAMBDA nm : nm \notin FieldNames(G.fields))

RoundTripOK(G, k) ==
  /\ G.rt[k].ran
  /\ G.rt[k].same_type
  /\ DiffFields(G, k) = <<>>           \* every attribute preserved
  /\ G.rt[k].adj = G.adj               \* "so the round-tripped lattice has the same adjacency matrix"
  /\ G.rt[k].eq /\ G.rt[k].hash_eq
RoundTripEqual(G) == \A k \in DOMAIN G.rt : RoundTripOK(G, k)

HashEqConsistent(G) ==
  /\ G.hashable /\ G.self_eq
  /\ G.copy_eq /\ G.copy_hash_eq                                      \* same construction: equal, same hash
  /\ \A k \in DOMAIN G.rt : (G.rt[k].ran /\ G.rt[k].eq) => G.rt[k].hash_eq
  /\ \A k \in DOMAIN G.others : G.others[k].eq => G.others[k].hash_eq \* a == b  =>  hash(a) = hash(b)
\* equality sees every attribute: a lattice differing in an attribute is a different lattice
EqDiscriminates(G) == \A k \in DOMAIN G.others : ~G.others[k].eq

\* scoping, exactly as in the property text -------------------------------
Periodic(G) == ~G.open
BigSides(G) == \A d \in DOMAIN G.dims : G.dims[d] >= 3
\* rows of a triangular lattice = distinct values of the first coordinate (read off the recorded sites)
Rows(G)     == Cardinality({G.sites[i][1] : i \in Idx(G)})
EvenRows(G) == Rows(G) % 2 = 0
\* an open-boundary zig-zag lattice that is periodic across an ODD number of rows has no consistent
\* neighbour relation at the seam (ScopeIsGeometric below): the property restricts itself to even rows
SoundGeometry(G) == Periodic(G) \/ EvenRows(G)

PredNames == <<"SitesBijective", "NbrClosed", "NbrSymmetric", "NbrIrreflexive", "AdjSymmetricZeroDiag",
               "AdjIsNbrGraph", "Regular", "MaxDegree", "RoundTripEqual", "HashEqConsistent", "EqDiscriminates">>

Applies(nm, G) ==
  CASE nm = "NbrClosed"      -> Periodic(G)
    [] nm = "NbrSymmetric"   -> SoundGeometry(G)
    [] nm = "NbrIrreflexive" -> BigSides(G) /\ SoundGeometry(G)
    [] nm = "Regular"        -> Periodic(G) /\ BigSides(G)
    [] nm = "MaxDegree"      -> G.open /\ EvenRows(G)
    [] OTHER                 -> TRUE

Holds(nm, G) ==
  CASE nm = "SitesBijective"       -> SitesBijective(G)
    [] nm = "NbrClosed"            -> NbrClosed(G)
    [] nm = "NbrSymmetric"         -> NbrSymmetric(G)
    [] nm = "NbrIrreflexive"       -> NbrIrreflexive(G)
    [] nm = "AdjSymmetricZeroDiag" -> AdjSymmetricZeroDiag(G)
    [] nm = "AdjIsNbrGraph"        -> AdjIsNbrGraph(G)
    [] nm = "Regular"              -> Regular(G)
    [] nm = "MaxDegree"            -> MaxDegree(G)
    [] nm = "RoundTripEqual"       -> RoundTripEqual(G)
    [] nm = "HashEqConsistent"     -> HashEqConsistent(G)
    [] nm = "EqDiscriminates"      -> EqDiscriminates(G)

Checked(G) == IF G.stage = "ok" /\ WellShaped(G) THEN SelectSeq(PredNames, LAMBDA nm : Applies(nm, G)) ELSE <<>>
Failed(G)  == IF G.stage = "construct" THEN <<"Constructible">>      \* "every lattice with sides >= 2 can be constructed"
              ELSE IF G.stage # "ok" THEN <<"Observable">>           \* sites/numbers/neighbours/adjacency could not be read
              ELSE IF ~WellShaped(G) THEN <<"WellShaped">>
              ELSE SelectSeq(Checked(G), LAMBDA nm : ~Holds(nm, G))

\* witnesses: smallest offending site index per failing graph predicate (0 = none / not applicable)
FirstBad(G, P(_)) == LET B == {i \in Idx(G) : ~P(i)} IN IF B = {} THEN 0 ELSE MinSet(B)
Witness(G) ==
  IF G.stage # "ok" \/ ~WellShaped(G) THEN [none |-> 0] ELSE
  LET ni == NbrIdx(G)
      awf == AdjWellFormed(G) IN
  [site_num    |-> FirstBad(G, LAMBDA i : G.snum[i] = i - 1),
   dup_site    |-> FirstBad(G, LAMBDA i : \A j \in Idx(G) : i # j => G.sites[i] # G.sites[j]),
   nbr_escape  |-> IF Periodic(G) THEN FirstBad(G, LAMBDA i : \A k \in DOMAIN G.nbrs[i] : \E j \in Idx(G) : G.sites[j] = G.nbrs[i][k]) ELSE 0,
   nbr_asym    |-> FirstBad(G, LAMBDA i : \A j \in ni[i] : i \in ni[j]),
   nbr_self    |-> FirstBad(G, LAMBDA i : i \notin ni[i]),
   adj_asym    |-> IF awf THEN FirstBad(G, LAMBDA i : \A j \in Idx(G) : G.adj[i][j] = G.adj[j][i]) ELSE 0,
   adj_diag    |-> IF awf THEN FirstBad(G, LAMBDA i : G.adj[i][i] = 0) ELSE 0,
   adj_vs_nbr  |-> IF awf THEN FirstBad(G, LAMBDA i : \A j \in Idx(G) : (G.adj[i][j] = 1) <=> (j \in ni[i] \/ i \in ni[j])) ELSE 0,
   deg_not_coord |-> IF awf THEN FirstBad(G, LAMBDA i : Deg(G, i) = G.coord) ELSE 0,
   deg_over    |-> IF awf THEN FirstBad(G, LAMBDA i : Deg(G, i) <= G.coord) ELSE 0,
   degrees     |-> IF awf THEN [i \in Idx(G) |-> Deg(G, i)] ELSE <<>>]

RtReport(G) ==
  IF G.stage # "ok" THEN <<>> ELSE
  [k \in DOMAIN G.rt |->
     [via |-> G.rt[k].via, ran |-> G.rt[k].ran, same_type |-> G.rt[k].same_type,
      diff_fields |-> IF G.rt[k].ran THEN DiffFields(G, k) ELSE <<>>,
      adj_equal |-> G.rt[k].ran /\ G.rt[k].adj = G.adj,
      eq |-> G.rt[k].eq, hash_eq |-> G.rt[k].hash_eq]]

\* the total verdict written for every record
Verdict(G) ==
  [id |-> G.id, ok |-> Failed(G) = <<>>, failed |-> Failed(G), checked |-> Checked(G),
   witness |-> Witness(G), rt |-> RtReport(G)]

(***************************************************************************)
(* 3. REFERENCE MODEL                                                      *)
(* A lattice object is the record of its init fields                       *)
(*   [kind, dims, open, hop, coord];                                       *)
(* shape, sites, bonds ... are functions of these (derived in              *)
(* __post_init__ in the code).  Coordinates: the slowest index first.      *)
(***************************************************************************)
KChain == "one_dimensional_chain"
KRect  == "two_dimensional_grid"
KTri   == "triangular_grid"
KCube  == "three_dimensional_grid"

CoordOf(kind) == CASE kind = KChain -> 2 [] kind = KRect -> 4 [] kind = KTri -> 6 [] kind = KCube -> 6

Params ==
       {[kind |-> KChain, dims |-> <<n>>, open |-> FALSE, hop |-> h] : n \in 2..MaxChain, h \in {"default", "custom"}}
  \cup {[kind |-> KRect, dims |-> <<a, b>>, open |-> FALSE, hop |-> h] : a \in 2..MaxRect, b \in 2..MaxRect, h \in {"default", "custom"}}
  \cup {[kind |-> KTri, dims |-> <<a, b>>, open |-> o, hop |-> "default"] : a \in 2..MaxTri, b \in 2..MaxTri, o \in BOOLEAN}
  \cup {[kind |-> KCube, dims |-> <<a, b, c>>, open |-> FALSE, hop |-> "default"] : a \in 2..MaxCube, b \in 2..MaxCube, c \in 2..MaxCube}
ParamSeq == SetToSeq(Params)

Construct(p) == [kind |-> p.kind, dims |-> p.dims, open |-> p.open, hop |-> p.hop, coord |-> CoordOf(p.kind)]

\* pytree protocol: every init field goes into the aux data, unflatten rebuilds by keyword
Flatten(l)   == [children |-> <<>>, aux |-> [kind |-> l.kind, dims |-> l.dims, open |-> l.open, hop |-> l.hop, coord |-> l.coord]]
Unflatten(f) == [kind |-> f.aux.kind, dims |-> f.aux.dims, open |-> f.aux.open, hop |-> f.aux.hop, coord |-> f.aux.coord]
HashOf(l)    == <<l.kind, l.dims, l.coord>>          \* a hash may ignore attributes; equality may not

NSites(l) == Prod(l.dims)
\* rect: dims = <<lx, ly>>, pos = <<y, x>>; tri: dims = <<rows, cols>>, pos = <<r, c>>; cube: dims = <<lx, ly, lz>>, pos = <<z, y, x>>
SiteAt(l, k) ==
  CASE l.kind = KChain -> <<k>>
    [] l.kind = KRect  -> <<k \div l.dims[1], k % l.dims[1]>>
    [] l.kind = KTri   -> <<k \div l.dims[2], k % l.dims[2]>>
    [] l.kind = KCube  -> <<k \div (l.dims[1] * l.dims[2]), (k % (l.dims[1] * l.dims[2])) \div l.dims[1], k % l.dims[1]>>
SiteNum(l, pos) ==
  CASE l.kind = KChain -> pos[1]
    [] l.kind = KRect  -> pos[1] * l.dims[1] + pos[2]
    [] l.kind = KTri   -> pos[1] * l.dims[2] + pos[2]
    [] l.kind = KCube  -> pos[1] * l.dims[1] * l.dims[2] + pos[2] * l.dims[1] + pos[3]
\* raw neighbour list; the open triangular lattice is periodic across rows, open along a row, with
\* zig-zag rows (odd rows lean right, even rows lean left) and may name positions outside the lattice
RawNbrs(l, pos) ==
  CASE l.kind = KChain -> LET n == l.dims[1] IN << <<(pos[1] - 1) % n>>, <<(pos[1] + 1) % n>> >>
    [] l.kind = KRect  -> LET lx == l.dims[1] ly == l.dims[2] IN
         << <<pos[1], (pos[2] + 1) % lx>>, <<(pos[1] + 1) % ly, pos[2]>>,
            <<pos[1], (pos[2] - 1) % lx>>, <<(pos[1] - 1) % ly, pos[2]>> >>
    [] l.kind = KTri /\ ~l.open -> LET R == l.dims[1] C == l.dims[2] IN
         << <<pos[1], (pos[2] + 1) % C>>, <<(pos[1] + 1) % R, pos[2]>>, <<pos[1], (pos[2] - 1) % C>>,
            <<(pos[1] - 1) % R, pos[2]>>, <<(pos[1] + 1) % R, (pos[2] + 1) % C>>, <<(pos[1] - 1) % R, (pos[2] - 1) % C>> >>
    [] l.kind = KTri /\ l.open -> LET R == l.dims[1] s == IF pos[1] % 2 = 1 THEN 1 ELSE -1 IN
         << <<pos[1], pos[2] + 1>>, <<(pos[1] + 1) % R, pos[2]>>, <<pos[1], pos[2] - 1>>,
            <<(pos[1] - 1) % R, pos[2]>>, <<(pos[1] + 1) % R, pos[2] + s>>, <<(pos[1] - 1) % R, pos[2] + s>> >>
    [] l.kind = KCube  -> LET lx == l.dims[1] ly == l.dims[2] lz == l.dims[3] IN
         << <<pos[1], (pos[2] + 1) % ly, pos[3]>>, <<(pos[1] + 1) % lz, pos[2], pos[3]>>,
            <<pos[1], (pos[2] - 1) % ly, pos[3]>>, <<(pos[1] - 1) % lz, pos[2], pos[3]>>,
            <<pos[1], pos[2], (pos[3] + 1) % lx>>, <<pos[1], pos[2], (pos[3] - 1) % lx>> >>

\* extent of each coordinate, in the order of the position tuple
Extent(l) ==
  CASE l.kind = KChain -> l.dims
    [] l.kind = KRect  -> <<l.dims[2], l.dims[1]>>
    [] l.kind = KTri   -> l.dims
    [] l.kind = KCube  -> <<l.dims[3], l.dims[2], l.dims[1]>>
InLattice(l, pos) == \A d \in DOMAIN pos : pos[d] >= 0 /\ pos[d] < Extent(l)[d]
SitesOf(l) == TLCEval([k \in 1..NSites(l) |-> SiteAt(l, k - 1)])
\* adjacency matrix: an edge wherever one site lists the other (inside the lattice)
AdjOf(l) ==
  LET n == NSites(l)
      nb == TLCEval([k \in 1..n |-> {SiteNum(l, q) + 1 : q \in {q \in ToSet(RawNbrs(l, SiteAt(l, k - 1))) : InLattice(l, q)}}])
  IN TLCEval([i \in 1..n |-> [j \in 1..n |-> IF j \in nb[i] \/ i \in nb[j] THEN 1 ELSE 0]])

FieldsOf(l) == << [name |-> "kind", val |-> l.kind], [name |-> "dims", val |-> ToString(l.dims)],
                  [name |-> "open", val |-> ToString(l.open)], [name |-> "hop", val |-> l.hop],
                  [name |-> "coord", val |-> ToString(l.coord)] >>

\* lattices that differ from l in one attribute
Others(l) ==
  << [what |-> "longer side", l |-> [l EXCEPT !.dims[1] = @ + 1]] >>
  \o (IF l.kind = KTri THEN << [what |-> "other boundary", l |-> [l EXCEPT !.open = ~@]] >> ELSE <<>>)
  \o (IF l.kind \in {KChain, KRect} THEN << [what |-> "other hop signs", l |-> [l EXCEPT !.hop = IF @ = "default" THEN "custom" ELSE "default"]] >> ELSE <<>>)

\* what the recorder would dump for lattice l, a second construction c, and the round-tripped rl
Observe(id, l, c, rl) ==
  LET n == NSites(l) sites == SitesOf(l) oth == Others(l) IN
  [id |-> id, kind |-> l.kind, dims |-> l.dims, open |-> l.open, stage |-> "ok", n |-> n, coord |-> l.coord,
   sites |-> sites,
   snum  |-> [k \in 1..n |-> SiteNum(l, sites[k])],
   nbrs  |-> [k \in 1..n |-> RawNbrs(l, sites[k])],
   adj   |-> AdjOf(l),
   fields |-> FieldsOf(l),
   rt |-> << [via |-> "unflatten", ran |-> TRUE, same_type |-> rl.kind = l.kind, fields |-> FieldsOf(rl),
              adj |-> AdjOf(rl), eq |-> rl = l, hash_eq |-> HashOf(rl) = HashOf(l)] >>,
   hashable |-> TRUE, self_eq |-> l = l, copy_eq |-> c = l, copy_hash_eq |-> HashOf(c) = HashOf(l),
   others |-> [k \in DOMAIN oth |-> [what |-> oth[k].what, eq |-> oth[k].l = l, hash_eq |-> HashOf(oth[k].l) = HashOf(l)]]]

(***************************************************************************)
(* state machine: pick parameters, construct, round-trip, dump             *)
(***************************************************************************)
VARIABLES pi, lat, rtl, obs, phase
vars == <<pi, lat, rtl, obs, phase>>
None == [kind |-> "none"]

Init == pi \in DOMAIN ParamSeq /\ lat = None /\ rtl = None /\ obs = None /\ phase = "new"

ConstructA == /\ phase = "new"
              /\ lat' = Construct(ParamSeq[pi])
              /\ phase' = "built" /\ UNCHANGED <<pi, rtl, obs>>
RoundTripA == /\ phase = "built"
              /\ rtl' = Unflatten(Flatten(lat))
              /\ phase' = "roundtripped" /\ UNCHANGED <<pi, lat, obs>>
\* the enumerated parameter record is published: the harness builds the REAL lattice from it
DumpA      == /\ phase = "roundtripped"
              /\ obs' = Observe(pi, lat, Construct(ParamSeq[pi]), rtl)
              /\ ndJsonSerialize(IOEnv.C20_PARAMS_OUT \o "/" \o ToString(pi) \o ".json",
                                 <<[id |-> pi, kind |-> lat.kind, dims |-> lat.dims, open |-> lat.open, hop |-> lat.hop]>>)
              /\ phase' = "dumped" /\ UNCHANGED <<pi, lat, rtl>>
Next == ConstructA \/ RoundTripA \/ DumpA
Spec == Init /\ [][Next]_vars

Dumped == phase = "dumped"

\* --- the model satisfies every property-level predicate in its scope (one invariant per predicate) ---
ModelSitesBijective       == Dumped => SitesBijective(obs)
ModelNbrClosed            == Dumped /\ Applies("NbrClosed", obs) => NbrClosed(obs)
ModelNbrSymmetric         == Dumped /\ Applies("NbrSymmetric", obs) => NbrSymmetric(obs)
ModelNbrIrreflexive       == Dumped /\ Applies("NbrIrreflexive", obs) => NbrIrreflexive(obs)
ModelAdjSymmetricZeroDiag == Dumped => AdjSymmetricZeroDiag(obs)
ModelAdjIsNbrGraph        == Dumped => AdjIsNbrGraph(obs)
ModelRegular              == Dumped /\ Applies("Regular", obs) => Regular(obs)
ModelMaxDegree            == Dumped /\ Applies("MaxDegree", obs) => MaxDegree(obs)
ModelRoundTripEqual       == Dumped => RoundTripEqual(obs) /\ rtl = lat
ModelHashEqConsistent     == Dumped => HashEqConsistent(obs)
ModelEqDiscriminates      == Dumped => EqDiscriminates(obs)
ModelVerdictClean         == Dumped => Verdict(obs).ok /\ WellShaped(obs)

\* --- the scoping in the property text is forced by geometry, not a courtesy to the code: with an open
\* boundary and an odd number (>= 3) of zig-zag rows the seam between the last and the first row is
\* inconsistent (the relation cannot be symmetric), and with a side of length 2 a periodic lattice has
\* coinciding neighbours (degree below the coordination number) ---
ScopeIsGeometric ==
  Dumped =>
    /\ (obs.open /\ ~EvenRows(obs) /\ Rows(obs) >= 3) => ~NbrSymmetric(obs)
    /\ (Periodic(obs) /\ ~BigSides(obs)) => ~Regular(obs) /\ MaxDegree(obs)

(***************************************************************************)
(* single-fault mutants of an observation: each must be rejected by the    *)
(* predicate it targets (whenever that predicate is in scope)              *)
(***************************************************************************)
FirstNbr(G) == MinSet(NbrIdx(G)[1] \ {1})        \* a neighbour of site 1 (exists: all sides >= 2)
Strip(seq, x) == SelectSeq(seq, LAMBDA y : y # x)

Mutants == <<"asym", "selfloop", "dupsite", "wrongnum", "escape", "adjdiag", "adjasym", "adjmissing", "lowcoord",
             "rtfield", "rtdropfield", "rtadj", "rtraises", "hashbreak", "eqblind">>

Mutate(m, G) ==
  LET j == FirstNbr(G) IN
  CASE m = "asym"       -> [G EXCEPT !.nbrs[j] = Strip(@, G.sites[1])]          \* j no longer lists site 1
    [] m = "selfloop"   -> [G EXCEPT !.nbrs[1] = Append(@, G.sites[1])]
    [] m = "dupsite"    -> [G EXCEPT !.sites[2] = G.sites[1]]
    [] m = "wrongnum"   -> [G EXCEPT !.snum[1] = 1]
    [] m = "escape"     -> [G EXCEPT !.nbrs[1] = Append(@, [d \in DOMAIN G.sites[1] |-> -1])]
    [] m = "adjdiag"    -> [G EXCEPT !.adj[1][1] = 1]
    [] m = "adjasym"    -> [G EXCEPT !.adj[1][j] = 0]
    [] m = "adjmissing" -> [G EXCEPT !.adj[1][j] = 0, !.adj[j][1] = 0]
    [] m = "lowcoord"   -> [G EXCEPT !.coord = 1]
    [] m = "rtfield"    -> [G EXCEPT !.rt[1].fields[3].val = "mutated"]
    [] m = "rtdropfield" -> [G EXCEPT !.rt[1].fields = Tail(@)]
    [] m = "rtadj"      -> [G EXCEPT !.rt[1].adj[1][j] = 0, !.rt[1].adj[j][1] = 0]
    [] m = "rtraises"   -> [G EXCEPT !.rt[1].ran = FALSE]
    [] m = "hashbreak"  -> [G EXCEPT !.copy_hash_eq = FALSE]
    [] m = "eqblind"    -> [G EXCEPT !.others[1].eq = TRUE]

\* predicates that must reject the mutant (each whenever it is in scope for the lattice)
Targets(m) ==
  CASE m = "asym" -> {"NbrSymmetric"}
    [] m = "selfloop" -> {"NbrIrreflexive", "AdjIsNbrGraph"}
    [] m \in {"dupsite", "wrongnum"} -> {"SitesBijective"}
    [] m = "escape" -> {"NbrClosed"}
    [] m \in {"adjdiag", "adjasym"} -> {"AdjSymmetricZeroDiag"}
    [] m = "adjmissing" -> {"AdjIsNbrGraph", "Regular"}
    [] m = "lowcoord" -> {"Regular", "MaxDegree"}
    [] m \in {"rtfield", "rtdropfield", "rtadj", "rtraises"} -> {"RoundTripEqual"}
    [] m = "hashbreak" -> {"HashEqConsistent"}
    [] m = "eqblind" -> {"EqDiscriminates"}

MutantsRejected ==
  Dumped => \A k \in DOMAIN Mutants :
              LET F == ToSet(Failed(Mutate(Mutants[k], obs))) IN
              \A t \in Targets(Mutants[k]) : Applies(t, obs) => t \in F
\* a lattice that cannot be constructed / observed is rejected whatever else the record says
StagesRejected ==
  Dumped => /\ Failed([obs EXCEPT !.stage = "construct"]) = <<"Constructible">>
            /\ Failed([obs EXCEPT !.stage = "observe"]) = <<"Observable">>

=============================================================================
