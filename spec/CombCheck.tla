------------------------------ MODULE CombCheck ------------------------------
(***************************************************************************)
(* Design-level model checking for C07: the reference comb of Comb.tla     *)
(* (what sr.py does) satisfies every property-level predicate,             *)
(* exhaustively for                                                        *)
(*   N in 1..NMax walkers, signed integer weights in -WMax..WMax, W > 0,   *)
(*   every offset zeta = p/(2W), 0 < p < 2W  (odd p: cell midpoints of the *)
(*   1/W grid; even p: the grid points themselves, which include every     *)
(*   tie zeta = breakpoint).                                               *)
(*                                                                         *)
(* One initial state per weight vector (cheap), the heavy evaluation is in *)
(* the successor states (parallel in TLC).  The successor actions are      *)
(* split by input class so that `-coverage 1` shows that zero weights,     *)
(* ties, all-mass-on-one-walker and mixed signs were exercised.            *)
(*                                                                         *)
(* A failure of any invariant here means the MODEL is wrong (machinery     *)
(* failure of the check), never a violation by the code.                   *)
(***************************************************************************)
EXTENDS Comb

CONSTANTS NMax, WMax

VARIABLES w, p, ph
vars == <<w, p, ph>>

WeightVectors == UNION {[1..n -> (-WMax)..WMax] : n \in 1..NMax}

Init == /\ w \in {v \in WeightVectors : Total(v) > 0}
        /\ p = 0
        /\ ph = "w"

D(v) == 2 * Total(v)
InteriorBreaks(v) == Breaks(v) \ {0, D(v)}

HasZero(v)   == \E i \in 1..Len(v) : v[i] = 0
OneHot(v)    == Cardinality({i \in 1..Len(v) : v[i] # 0}) = 1
HasNeg(v)    == \E i \in 1..Len(v) : v[i] < 0
LeadZero(v)  == v[1] = 0                       \* cum[1] = 0: searchsorted must skip index 1

Pick(q) == /\ ph = "w" /\ ph' = "zeta" /\ p' = q /\ UNCHANGED w

(* every offset; the class actions below regenerate one successor per weight vector of the class *)
(* (their only purpose is to appear with a non-zero count in the coverage: the second number of  *)
(* `<Action ...>: distinct:generated` is the number of weight vectors of that class)             *)
ZetaInterior   == \E q \in 1..(D(w) - 1) : q \notin Breaks(w) /\ Pick(q)
ZetaTie        == \E q \in InteriorBreaks(w) : Pick(q)
ZetaZeroWeight == HasZero(w)  /\ Pick(1)
ZetaLeadZero   == LeadZero(w) /\ Pick(1)
ZetaOneHot     == OneHot(w)   /\ Pick(1)
ZetaNegative   == HasNeg(w)   /\ Pick(1)
Integrate      == /\ ph = "w" /\ ph' = "unb" /\ p' = 0 /\ UNCHANGED w

Next == ZetaInterior \/ ZetaTie \/ ZetaZeroWeight \/ ZetaLeadZero \/ ZetaOneHot \/ ZetaNegative \/ Integrate
Spec == Init /\ [][Next]_vars

-----------------------------------------------------------------------------
(* Invariants on "zeta" states *)

PointPreds(v, sel) == CopiesOnly(v, sel) /\ FloorCeil(v, sel) /\ NoZeroSelected(v, sel)

(* The predicates and the reference comb see the weights only through |w_i| (SignSymmetric, checked  *)
(* for every sign pattern).  RefSatisfies and RefUnbiased - the property itself - are checked for   *)
(* every sign pattern; the auxiliary theorems only on the non-negative representative.             *)
AbsVec(v)  == [i \in 1..Len(v) |-> Abs(v[i])]
Deep       == ph = "zeta" /\ ~HasNeg(w)
DeepUnb    == ph = "unb" /\ ~HasNeg(w)
SignSymmetric == ph = "zeta" =>
  /\ RefSel(w, p, D(w)) = RefSel(AbsVec(w), p, D(w))
  /\ Breaks(w) = Breaks(AbsVec(w))
  /\ \A sel \in {RefSel(w, p, D(w)), IdentitySel(w)} :
        /\ FloorCeil(w, sel) <=> FloorCeil(AbsVec(w), sel)
        /\ NoZeroSelected(w, sel) <=> NoZeroSelected(AbsVec(w), sel)

(* the reference comb satisfies the pointwise predicates at EVERY offset in (0,1), ties included *)
RefSatisfies == ph = "zeta" => PointPreds(w, RefSel(w, p, D(w)))

(* so does a different comb: the predicates do not encode RefSel's internal choices *)
RevSatisfies == Deep => PointPreds(w, RevSel(w, p, D(w)))

(* searchsorted form = teeth-in-interval form *)
RefIsTeeth == Deep =>
  LET sel == RefSel(w, p, D(w))
  IN  \A i \in 1..Len(w) : Count(sel, i) = TeethIn(w, p, D(w), i)

(* the selection is non-decreasing (a comb never reorders) *)
RefMonotone == Deep =>
  LET sel == RefSel(w, p, D(w)) IN \A j \in 1..(Len(w) - 1) : sel[j] <= sel[j + 1]

(* count_i(zeta) is constant between consecutive breakpoints, and every breakpoint is on the 1/W  *)
(* grid: any offset inside a cell is represented by the cell's midpoint                          *)
CellOf(v, q) == CHOOSE c \in DOMAIN BreakCells(v) : BreakCells(v)[c].lo < q /\ q < BreakCells(v)[c].hi
ConstOnCells == (Deep /\ p \notin Breaks(w)) =>
  RefSel(w, p, D(w)) = RefSel(w, Mid(BreakCells(w)[CellOf(w, p)]), D(w))
BreaksOnGrid == Deep => \A b \in Breaks(w) \cup Breaks(Reverse(w)) : b % 2 = 0 /\ b \in 0..D(w)

(* scale invariance: c*w with the same offset zeta = cp/(2cW) gives the same selection and the   *)
(* same truth value of every predicate, for accepted and for rejected selections; also the       *)
(* representation of zeta as an unreduced fraction does not matter                               *)
TestSels(v, q) == {RefSel(v, q, D(v)), RevSel(v, q, D(v)), FixedOffsetSel(v), IdentitySel(v)}
ScaleInvariant == Deep =>
  \A c \in {2, 3} :
     LET cw == ScaleW(c, w)
     IN  /\ RefSel(cw, c * p, D(cw)) = RefSel(w, p, D(w))
         /\ RefSel(w, c * p, c * D(w)) = RefSel(w, p, D(w))
         /\ \A sel \in TestSels(w, p) :
              /\ FloorCeil(cw, sel) <=> FloorCeil(w, sel)
              /\ NoZeroSelected(cw, sel) <=> NoZeroSelected(w, sel)
              /\ CopiesOnly(cw, sel) <=> CopiesOnly(w, sel)

(* the code's new weights W/N: exact image 2^s W passes, conservation N * (W/N) = W *)
RefWeights == Deep =>
  LET u == [j \in 1..Len(w) |-> Pow2(3) * Total(w)]
  IN  EqualWeights(w, u, 3) /\ Conserves(w, Len(w) * Pow2(3) * Total(w), 3)
      /\ ~EqualWeights(w, [u EXCEPT ![1] = @ + 2], 3)
      /\ ~Conserves(w, Len(w) * Pow2(3) * Total(w) - 2, 3)

-----------------------------------------------------------------------------
(* Invariants on "unb" states: the exact integral over the offset *)

RefOn(v, cells) == [c \in DOMAIN cells |-> RefSel(v, Mid(cells[c]), D(v))]
RevOn(v, cells) == [c \in DOMAIN cells |-> RevSel(v, Mid(cells[c]), D(v))]

RefUnbiased == ph = "unb" =>
  /\ PartitionOK(w, BreakCells(w)) /\ PartitionOK(w, FineCells(w))
  /\ Unbiased(w, BreakCells(w), RefOn(w, BreakCells(w)))
  /\ Unbiased(w, FineCells(w), RefOn(w, FineCells(w)))
RevUnbiased == DeepUnb =>
  Unbiased(w, FineCells(w), RevOn(w, FineCells(w)))

(* teeth: a comb that ignores its offset is biased unless every N|w_i|/W is an integer,         *)
(* and the identity "selection" is unbiased only for equal weights                               *)
IntegerExpectations(v) == \A i \in 1..Len(v) : (Len(v) * Abs(v[i])) % Total(v) = 0
FixedOffsetRejected == DeepUnb =>
  (Unbiased(w, FineCells(w), [c \in DOMAIN FineCells(w) |-> FixedOffsetSel(w)]) <=> IntegerExpectations(w))
IdentityRejected == DeepUnb =>
  LET ok == FloorCeil(w, IdentitySel(w)) /\ NoZeroSelected(w, IdentitySel(w))
            /\ Unbiased(w, FineCells(w), [c \in DOMAIN FineCells(w) |-> IdentitySel(w)])
  IN  ok <=> (\A i, j \in 1..Len(w) : Abs(w[i]) = Abs(w[j]))

-----------------------------------------------------------------------------
(* concrete rejected instances, checked when the module is loaded *)
ASSUME ~FloorCeil(<<1, 1, 4>>, <<1, 2, 3>>)
ASSUME ~NoZeroSelected(<<0, 1>>, <<1, 2>>)
ASSUME ~CopiesOnly(<<1, 1>>, <<1, 0>>)
ASSUME ~Unbiased(<<1, 2>>, FineCells(<<1, 2>>), <<<<2, 2>>, <<2, 2>>, <<2, 2>>>>)
ASSUME RefSel(<<1, -2, 0, 1>>, 1, 8) = <<1, 2, 2, 4>>       \* zeta = 1/8: teeth at 1/8, 9/8, 17/8, 25/8
ASSUME RefSel(<<0, 2, 2>>, 4, 8) = <<2, 2, 3>>              \* zeta = 1/2, tie at tooth 4/3*(1+1/2) = 2 -> left
=============================================================================
