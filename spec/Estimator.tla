------------------------------ MODULE Estimator ------------------------------
(***************************************************************************)
(* The single-block mixed estimator (C12) as a definition on exact data,   *)
(* and a judge for estimator records produced by the real sampler.         *)
(*                                                                         *)
(* Inputs are exact: energies e_i, running estimate est, bound^2 = 2/dt    *)
(* and weights w_i are rationals with a COMMON denominator given once, so  *)
(* everything is integer arithmetic:                                       *)
(*    e_i = en[i] / eden,  est = estn / eden,  cap^2 = 2/dt = cap2n/cap2d  *)
(*    w_i = wn[i] / wden                                                   *)
(* Rule (sampling.py _block_scan): a sample further than sqrt(2/dt) from   *)
(* the running estimate (strictly) is replaced by the estimate; the block  *)
(* energy is the weight average of the (capped) samples.                   *)
(*    E = sum_i w_i cap(e_i) / sum_i w_i                                   *)
(* The judge receives the library's float result as a fixed-point integer  *)
(* (resolution 1/res) and accepts |E_lib - E| <= tol/res.                   *)
(***************************************************************************)
EXTENDS Integers, Sequences, FiniteSets, FiniteSetsExt, Json, IOUtils, TLC

Recs == ndJsonDeserialize(IOEnv.EST_RECS)

ISum(f(_), S) == FoldSet(LAMBDA x, acc : f(x) + acc, 0, S)
Abs(x) == IF x < 0 THEN -x ELSE x

\* |e - est| > sqrt(cap2n/cap2d)  <=>  (en - estn)^2 * cap2d > cap2n * eden^2
Capped(r, i) == (r.en[i] - r.estn) * (r.en[i] - r.estn) * r.cap2d > r.cap2n * r.eden * r.eden
CapE(r, i)   == IF Capped(r, i) THEN r.estn ELSE r.en[i]
NumE(r)      == ISum(LAMBDA i : r.wn[i] * CapE(r, i), DOMAIN r.en)      \* E = NumE / (eden * SumW)
SumW(r)      == ISum(LAMBDA i : r.wn[i], DOMAIN r.wn)

\* |lib/res - NumE/(eden*SumW)| <= tol/res   <=>   |lib*eden*SumW - NumE*res| <= tol*eden*SumW
Agrees(r) == Abs(r.lib * r.eden * SumW(r) - NumE(r) * r.res) <= r.tol * r.eden * SumW(r)

Verdict(r) == [id |-> r.id, ok |-> SumW(r) > 0 /\ Agrees(r),
               ncapped |-> Cardinality({i \in DOMAIN r.en : Capped(r, i)}),
               num |-> NumE(r), den |-> r.eden * SumW(r)]

VARIABLES idx, done
vars == <<idx, done>>
Init == idx \in DOMAIN Recs /\ done = FALSE
Judge == /\ ~done /\ done' = TRUE /\ UNCHANGED idx
         /\ ndJsonSerialize(IOEnv.EST_OUT \o "/" \o ToString(Recs[idx].id) \o ".json", <<Verdict(Recs[idx])>>)
Spec == Init /\ [][Judge]_vars

(***************************************************************************)
(* Theorems about the definition (checked by TLC over a small exhaustive   *)
(* space with the EstTheorems config): capping is idempotent, the block    *)
(* energy lies between min and max of the capped samples, a sample exactly *)
(* at the bound is kept.                                                   *)
(***************************************************************************)
=============================================================================
