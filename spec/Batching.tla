------------------------------ MODULE Batching ------------------------------
(***************************************************************************)
(* C14, design level: the batching index algebra of BatchingDefs.tla is    *)
(* the identity and permutation equivariant, for all N <= MaxN, all        *)
(* divisors and all permutations (TLC exhaustive).                         *)
(***************************************************************************)
EXTENDS BatchingDefs

CONSTANTS MaxN

VARIABLES n, nb, pi, phase
vars == <<n, nb, pi, phase>>

Init == n \in 1..MaxN /\ nb = 1 /\ pi = Id(n) /\ phase = 0
Pick == /\ phase = 0 /\ phase' = 1 /\ UNCHANGED n
        /\ nb' \in Divisors(n) /\ pi' \in Perms(n)
Next == Pick
Spec == Init /\ [][Next]_vars

X == Id(n)
BatchingIsIdentity == phase = 1 => Batched(F, X, nb) = Map(F, X)
Equivariant == phase = 1 => Batched(F, Compose(X, pi), nb) = Compose(Batched(F, X, nb), pi)
SplitJoin == phase = 1 => Join(Split(Compose(X, pi), nb)) = Compose(X, pi)
=============================================================================
